#!/usr/bin/env python3
"""Two-way self test of the table rules (rules_tables.go, tables_*.go).

usage: tools/tables_selftest.py [-j N] [name-substring ...]

For every snippet in selftest/tables/mutants (first line "# expect: RULE[, RULE...]") and
selftest/tables/benign ("# expect: none"): copy the repository (REPO_SRC, default /repo) to a
scratch directory under /tmp, apply the edit (python, `sub(path, old, new, count=1)`), check that it
still builds, run every table rule on the copy with the raftlint binary (RAFTLINT, default
bin/raftlint next to this script) and compare with the unedited tree:

  mutant : every expected rule must report a VIOLATION the unedited tree does not have;
  benign : no rule may report a violation, an undecided obligation or a lost anchor that the
           unedited tree does not have.

Scratch copies are removed. Exit 0 iff everything is as expected. Results go to stdout and,
with -log FILE, to a log file.
"""
import concurrent.futures as cf
import os
import re
import shutil
import subprocess
import sys
import tempfile

RULES = ["CONV-FIELDS", "CONV-GLUE", "CODEC-PAIR", "JSON-TAGS", "ENUM-CAST", "ENUM-SWITCH",
         "WG-PARITY", "COND-PARITY", "FUT-NONBLOCK", "PANIC-SITES", "FATAL-IO"]

HERE = os.path.dirname(os.path.abspath(__file__))
ROOT = os.path.dirname(HERE)
RAFTLINT = os.environ.get("RAFTLINT", os.path.join(ROOT, "bin", "raftlint"))
REPO = os.environ.get("REPO_SRC", "/repo")
ENV = dict(os.environ, GOFLAGS="-mod=mod", GOPROXY="off", GOSUMDB="off", GOTOOLCHAIN="local")
ENV.pop("GOWORK", None)

PRELUDE = '''
def sub(path, old, new, count=1):
    s = open(path).read()
    assert s.count(old) >= 1, ("pattern not found", path, old[:60])
    s = s.replace(old, new, count)
    open(path, "w").write(s)
'''

LINE = re.compile(r'rule=(\S+) construct="([^"]*)"')


def run_rule(repo, rule):
    p = subprocess.run([RAFTLINT, "-repo", repo, "-no-evidence", "-rule", rule], env=ENV,
                       stdout=subprocess.PIPE, stderr=subprocess.STDOUT, text=True)
    bad = set()
    lines = p.stdout.splitlines()
    for i, line in enumerate(lines):
        kind = None
        if line.startswith("VIOLATION"):
            kind = "violated"
            line = lines[i + 1] if i + 1 < len(lines) else ""
        elif line.startswith("UNDECIDED"):
            kind = "undecided"
        elif line.startswith("ANCHOR-LOST"):
            kind = "anchor-lost"
        if kind:
            m = LINE.search(line)
            bad.add((kind, rule, m.group(2) if m else line.strip()))
    if p.returncode not in (0, 1, 2) or (p.returncode != 0 and not bad):
        bad.add(("undecided", rule, "raftlint exit %d: %s" % (p.returncode, p.stdout.strip()[-300:])))
    return bad


def run_all(repo, pool):
    out = set()
    for bad in pool.map(lambda r: run_rule(repo, r), RULES):
        out |= bad
    return out


def one(path, baseline, pool):
    first = open(path).readline()
    m = re.match(r"#\s*expect:\s*(.*)", first)
    if not m:
        return False, "no '# expect:' line"
    expect = [x.strip() for x in m.group(1).split(",") if x.strip()]
    d = tempfile.mkdtemp(prefix="tables-selftest.", dir="/tmp")
    try:
        subprocess.run(["rsync", "-a", "--exclude", ".git", REPO + "/", d + "/"], check=True)
        with open(os.path.join(d, ".edit.py"), "w") as f:
            f.write(PRELUDE + open(path).read())
        p = subprocess.run([sys.executable, ".edit.py"], cwd=d, stdout=subprocess.PIPE, stderr=subprocess.STDOUT, text=True)
        if p.returncode != 0:
            return False, "EDIT FAILED: " + p.stdout.strip().splitlines()[-1]
        os.remove(os.path.join(d, ".edit.py"))
        p = subprocess.run(["go", "build", "./..."], cwd=d, env=ENV, stdout=subprocess.PIPE, stderr=subprocess.STDOUT, text=True)
        if p.returncode != 0:
            return False, "BUILD FAILED: " + p.stdout.strip()[:300]
        new = run_all(d, pool) - baseline
    finally:
        shutil.rmtree(d, ignore_errors=True)
    fired = sorted({r for k, r, _ in new if k == "violated"})
    unsure = sorted({r for k, r, _ in new if k != "violated"})
    detail = "; ".join("%s %s [%s]" % (k, r, c) for k, r, c in sorted(new))
    if expect == ["none"]:
        ok = not new
        return ok, ("silent" if ok else "UNEXPECTED: " + detail)
    missing = [r for r in expect if r not in fired]
    ok = not missing
    extra = [r for r in fired if r not in expect]
    msg = "fired " + ", ".join(fired) if fired else "nothing fired"
    if extra:
        msg += " (beyond the expectation: " + ", ".join(extra) + ")"
    if unsure:
        msg += " (undecided in: " + ", ".join(unsure) + ")"
    if missing:
        msg = "MISSED " + ", ".join(missing) + " -- " + msg
    return ok, msg + " :: " + detail


def main():
    args = sys.argv[1:]
    jobs, log = 4, None
    while args and args[0] in ("-j", "-log"):
        if args[0] == "-j":
            jobs = int(args[1])
        else:
            log = args[1]
        args = args[2:]
    files = []
    for sub in ("mutants", "benign"):
        dd = os.path.join(ROOT, "selftest", "tables", sub)
        for n in sorted(os.listdir(dd)):
            if n.endswith(".py") and (not args or any(a in n for a in args)):
                files.append(os.path.join(dd, n))
    out = []
    with cf.ThreadPoolExecutor(max_workers=len(RULES) * jobs) as pool:
        baseline = run_all(REPO, pool)
        out.append("baseline (unedited %s): %d non-discharged obligation(s)" % (REPO, len(baseline)))
        for k, r, c in sorted(baseline):
            out.append("    %s %s [%s]" % (k, r, c))
        print("\n".join(out), flush=True)
        failures = 0
        with cf.ThreadPoolExecutor(max_workers=jobs) as outer:
            futs = [(f, outer.submit(one, f, baseline, pool)) for f in files]
            for f, fu in futs:
                ok, msg = fu.result()
                failures += 0 if ok else 1
                line = "%-4s %-8s %-36s %s" % ("ok" if ok else "FAIL", os.path.basename(os.path.dirname(f)), os.path.basename(f)[:-3], msg)
                out.append(line)
                print(line, flush=True)
    tail = "%d snippet(s), %d failure(s)" % (len(files), failures)
    out.append(tail)
    print(tail)
    if log:
        with open(log, "w") as f:
            f.write("\n".join(out) + "\n")
    sys.exit(1 if failures else 0)


if __name__ == "__main__":
    main()
