#!/bin/bash
# usage: tools/selftest_locks.sh [name-filter]
# Runs the lock rules (LOCKSET WINDOW-CLEAN FSM-EXCL APPLY-RECHECK LOCK-PAIR) on the unmodified tree (baseline) and on
# every edit under selftest/locks/{mutants,benign}. An edit's first line is "# expect: RULE-ID[,RULE-ID...]" or
# "# expect: none". A mutant passes if each expected rule reports a non-discharged obligation that the baseline does not
# have; a benign edit passes if no rule reports anything beyond the baseline. Scratch copies live under /tmp and are removed.
set -u
export GOFLAGS=-mod=mod GOPROXY=off GOSUMDB=off GOTOOLCHAIN=local; unset GOWORK
here=$(cd "$(dirname "$0")/.." && pwd)
bin="${RAFTLINT:-$here/bin/raftlint}"
src="${REPO_SRC:-/repo}"
rules="LOCKSET WINDOW-CLEAN FSM-EXCL APPLY-RECHECK LOCK-PAIR"
filter="${1:-}"
work=$(mktemp -d /tmp/locksel.XXXXXX)
trap 'rm -rf "$work"' EXIT

findings() { # dir -> sorted "rule=.. construct=.." lines of everything not discharged
  local d="$1" out="$2"
  for r in $rules; do
    "$bin" -repo "$d" -no-evidence -rule "$r" > "$out.$r" 2>&1 &
  done
  wait
  cat "$out".* | grep -E '^(  rule=|UNDECIDED|ANCHOR-LOST)' | grep -o 'rule=[A-Z-]* construct="[^"]*"' | sort -u > "$out"
  cat "$out".* | grep -E '^UNDECIDED load failure' >> "$out"
}

rsync -a --exclude .git "$src/" "$work/base/"
findings "$work/base" "$work/base.out"
echo "baseline: $(wc -l < "$work/base.out") non-discharged obligation(s)"
fail=0
for f in "$here"/selftest/locks/mutants/*.py "$here"/selftest/locks/benign/*.py; do
  name=$(basename "$(dirname "$f")")/$(basename "$f" .py)
  case "$name" in *"$filter"*) ;; *) continue;; esac
  expect=$(head -1 "$f" | sed -n 's/^# expect: *//p')
  d="$work/m"; rm -rf "$d"; rsync -a "$work/base/" "$d/"
  cat > "$d/.edit.py" <<'PY'
import re
def sub(path, old, new, count=1):
    s=open(path).read()
    assert s.count(old)>=1, ("pattern not found", path, old[:60])
    s=s.replace(old,new,count)
    open(path,'w').write(s)
PY
  cat "$f" >> "$d/.edit.py"
  if ! (cd "$d" && python3 .edit.py) > "$work/edit.log" 2>&1; then echo "FAIL $name: edit failed: $(tail -1 "$work/edit.log")"; fail=1; continue; fi
  if ! (cd "$d" && go build ./... ) > "$work/build.log" 2>&1; then echo "FAIL $name: does not compile: $(head -3 "$work/build.log" | tr '\n' ' ')"; fail=1; continue; fi
  rm -f "$work"/m.out*
  findings "$d" "$work/m.out"
  new=$(comm -13 "$work/base.out" "$work/m.out")
  newrules=$(echo "$new" | grep -o 'rule=[A-Z-]*' | sort -u | sed 's/rule=//' | tr '\n' ' ')
  if [ "$expect" = "none" ]; then
    if [ -n "$new" ]; then echo "FAIL $name: expected silence, got:"; echo "$new" | sed 's/^/      /'; fail=1
    else echo "ok   $name (silent)"; fi
  else
    ok=1
    for r in $(echo "$expect" | tr ',' ' '); do
      case " $newrules " in *" $r "*) ;; *) ok=0;; esac
    done
    if [ $ok = 1 ]; then echo "ok   $name fires: $newrules"; else echo "FAIL $name: expected $expect, new findings from: [$newrules]"; echo "$new" | sed 's/^/      /'; fail=1; fi
  fi
done
exit $fail
