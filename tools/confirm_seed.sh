#!/bin/bash
# usage: tools/confirm_seed.sh <PROPERTY-ID> [worktree] [name under seeded/]   (default worktree /tmp/seed-<ID>)
# Confirms a seeded change delivered by a context-free sub-agent: builds, demo FAILS with the change and
# PASSES without it, the existing suite passes with the change; then stores it under seeded/<ID>/ and
# records which checks notice it (run with -repo on the worktree; the demo *_test.go is not loaded).
set -u
export GOFLAGS=-mod=mod GOPROXY=off GOSUMDB=off GOTOOLCHAIN=local; unset GOWORK
id="$1"; wt="${2:-/tmp/seed-$1}"; out="/verif/seeded/${3:-$id}"
mkdir -p "$out"
cd "$wt" || exit 1
[ -f seed/patch.diff ] || { echo "no seed/patch.diff"; exit 1; }
demo=$(ls zz_seed*_test.go 2>/dev/null | head -1)
[ -n "$demo" ] || { echo "no demo test"; exit 1; }
tests=$(grep -o '^func Test[A-Za-z0-9_]*' "$demo" | sed 's/func //' | paste -sd'|')
log="$out/confirm.log"; : > "$log"
say(){ echo "$@" | tee -a "$log"; }
# state: change applied?
if git apply --check -R seed/patch.diff 2>/dev/null; then applied=1; else applied=0; git apply seed/patch.diff || { say "patch does not apply"; exit 1; }; fi
say "== build with change"; go build ./... 2>&1 | tee -a "$log"; go vet . >/dev/null 2>>"$log" || say "(vet complains)"
say "== demo WITH change (expect FAIL): $tests ${DEMO_FLAGS:-}"
flock /tmp/raft-test.lock go test ${DEMO_FLAGS:-} -vet=off -count=1 -timeout 10m -run "^($tests)\$" . > "$out/demo_with.log" 2>&1; w=$?
say "exit=$w"
git apply -R seed/patch.diff
say "== demo WITHOUT change (expect PASS)"
flock /tmp/raft-test.lock go test ${DEMO_FLAGS:-} -vet=off -count=1 -timeout 10m -run "^($tests)\$" . > "$out/demo_without.log" 2>&1; wo=$?
say "exit=$wo"
git apply seed/patch.diff
say "== existing suite WITH change, demo moved aside (expect PASS)"
if [ -n "${SKIP_SUITE:-}" ] && grep -q '^ok  	github.com/jmsadair/raft	' "$out/suite_with.log" 2>/dev/null && ! grep -q '^FAIL' "$out/suite_with.log"; then
  s=0; say "(suite result of the previous confirmation run reused)"
else
mv "$demo" "/tmp/$demo.aside"
flock /tmp/raft-test.lock go test -vet=off -count=1 -timeout 25m ./... > "$out/suite_with.log" 2>&1; s=$?
mv "/tmp/$demo.aside" "$demo"
fi
say "exit=$s $(grep -E '^(ok|FAIL|---)' "$out/suite_with.log" | tr '\n' ' ')"
cp seed/patch.diff "$out/patch.diff"; cp "$demo" "$out/demo_test.go.txt"; cp seed/README.md "$out/agent_README.md" 2>/dev/null
say "== checks on the changed tree"
: > "$out/checks.txt"
for p in $(/verif/bin/raftlint -list | cut -d: -f1); do
  o=$(/verif/bin/raftlint -repo "$wt" -no-evidence -property $p -tier quick 2>&1); c=$?
  if [ $c -ne 0 ]; then echo "$p exit=$c" >> "$out/checks.txt"; echo "$o" | grep -E "^  rule=" | cut -c1-400 | sed "s/^/   /" >> "$out/checks.txt"; fi
done
cat "$out/checks.txt" | tee -a "$log" | cut -c1-220
confirmed=false; [ $w -ne 0 ] && [ $wo -eq 0 ] && [ $s -eq 0 ] && confirmed=true
say "CONFIRMED=$confirmed"
