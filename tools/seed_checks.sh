#!/bin/bash
# usage: tools/seed_checks.sh <ID>  — every property's quick check on (newest /repo commit the patch applies to) +
# seeded/<ID>/patch.diff, minus what the checks say on that commit alone; writes seeded/<ID>/checks.txt.
# See tools/seed_eval.py.
exec python3 /verif/tools/seed_eval.py "$1" all
