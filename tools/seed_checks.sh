#!/bin/bash
# usage: tools/seed_checks.sh <ID>  — applies seeded/<ID>/patch.diff to a scratch copy of /repo HEAD (outside /repo and
# /verif), runs every property's quick check on it with -repo, writes seeded/<ID>/checks.txt, removes the copy.
set -u
export GOFLAGS=-mod=mod GOPROXY=off GOSUMDB=off GOTOOLCHAIN=local; unset GOWORK
id="$1"; out="/verif/seeded/$id"
d=$(mktemp -d /tmp/seedchk.XXXXXX); trap 'rm -rf "$d"' EXIT
git -C /repo archive HEAD | tar -x -C "$d"
if ! (cd "$d" && patch -p1 -s --no-backup-if-mismatch < "$out/patch.diff"); then echo "PATCH DOES NOT APPLY to /repo HEAD" | tee "$out/checks.txt"; exit 1; fi
(cd "$d" && go build ./...) || { echo "does not build" | tee "$out/checks.txt"; exit 1; }
echo "# quick checks on /repo HEAD $(git -C /repo log --format=%h -1) + seeded/$id/patch.diff (exit 1 = VIOLATION reported)" > "$out/checks.txt"
for p in $(/verif/bin/raftlint -list | cut -d: -f1); do
  o=$(/verif/bin/raftlint -repo "$d" -no-evidence -property $p -tier quick 2>&1); c=$?
  if [ $c -ne 0 ]; then echo "$p exit=$c" >> "$out/checks.txt"; echo "$o" | grep -E "^  rule=" | cut -c1-420 | sed "s/^/   /" >> "$out/checks.txt"; fi
done
cat "$out/checks.txt" | cut -c1-200
