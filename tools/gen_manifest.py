#!/usr/bin/env python3
"""Regenerates /verif/MANIFEST.json from `bin/raftlint -specs` (claimed properties and their rules)
and /verif/properties.jsonl (ids). Properties without rules go to not_applicable with the reason
given in NOT_APPLICABLE below."""
import json, subprocess, os
root = os.path.dirname(os.path.dirname(os.path.abspath(__file__)))
specs = json.loads(subprocess.check_output([os.path.join(root, "bin/raftlint"), "-specs"]))
props = [json.loads(l) for l in open(os.path.join(root, "properties.jsonl"))]
NOT_APPLICABLE = {}
na_file = os.path.join(root, "tools/not_applicable.json")
if os.path.exists(na_file):
    NOT_APPLICABLE = json.load(open(na_file))
claimed = {s["ID"]: s for s in specs}
checks = []
for p in props:
    s = claimed.get(p["id"])
    if not s:
        continue
    rules = ", ".join(s["Rules"])
    checks.append({
        "property_id": p["id"],
        "quick_cmd": f"bin/raftlint -property {p['id']} -tier quick",
        "thorough_cmd": f"bin/raftlint -property {p['id']} -tier thorough",
        "evidence_file": f"/verif/evidence/{p['id']}.json",
        "replay_cmd_template": "cat {path}",
        "engine": "raftlint",
        "level_claimed": {
            "category": "other",
            "text": ("Sound-for-what-it-states static analysis of structural necessary conditions, not a proof of the behavioural property. "
                     "Decided on every path and calling context of the current source: " + s["Decided"] + ". "
                     "NOT decided: " + s["NotDecided"] + ". "
                     "This is the right level because the property quantifies over schedules/crash points/histories that no static argument in reach bounds; "
                     "what a static rule can do, and a test cannot, is cover ALL paths of the code for the guards, orderings, ownership and table agreements the property rests on."),
            "design_ref": "DESIGN.md section 4 (" + p["id"] + "), section 9 (as built)",
        },
        "level_note": ("Trusted base: go/types + go/ssa (x/tools v0.29.0); the frozen rule tables in internal/lint; Raft's published safety argument for the step from local rules to the global property; "
                       "logger.Fatal* do not return; bundled storage/transport implementations only (user-supplied ones are outside). Rules: " + rules + "."),
        "technique": "static analysis: guard-fact abstract interpretation over SSA with context-sensitive inlining, typestate/ordering and lock-state dataflow, provenance and table-agreement checks (rules: " + rules + ")",
    })
na = []
for p in props:
    if p["id"] not in claimed:
        na.append({"property_id": p["id"], "reason": NOT_APPLICABLE.get(p["id"], "rules for this property are not built yet (checker under construction, see DESIGN.md section 8)")})
m = {
    "version": 1,
    "setup_cmd": "cd /verif && env -u GOWORK GOFLAGS=-mod=mod GOPROXY=off GOSUMDB=off GOTOOLCHAIN=local go build -o bin/raftlint ./cmd/raftlint",
    "hooks": {"guard": "verif", "enable": "none needed: the checker analyses /repo's source as built by the default build (no build tags, no instrumentation, no hook commits)",
              "baseline_off_cmd": "cd /repo && go test -vet=off -count=1 -timeout 25m ./...", "source_commits": [], "add_only": True},
    "engines": [{"name": "raftlint", "path": "/verif/cmd/raftlint", "serves_properties": sorted(claimed),
                 "kind_free_text": "repository-specific static analyser over go/types + go/ssa (x/tools v0.29.0): guard-fact abstract interpretation, lock-state dataflow, typestate/ordering, provenance, table agreement; never executes the library"}],
    "checks": checks,
    "notes": "Static analysis only; see DESIGN.md. Exit 0 = every obligation discharged (KNOWN-FINDING lines for findings listed in KNOWN_FINDINGS.txt), 1 = VIOLATION, 2 = could not decide (never on the pinned tree). Repairs of genuine defects are 'fix:' commits in /repo, recorded as 'fixed:' lines in KNOWN_FINDINGS.txt.",
    "not_applicable": na,
}
json.dump(m, open(os.path.join(root, "MANIFEST.json"), "w"), indent=1)
print("claimed:", sorted(claimed), "not applicable:", [x["property_id"] for x in na])
