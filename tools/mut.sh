#!/bin/bash
# usage: mut.sh <python-edit-snippet-file|-> -- raftlint args...
# Copies /repo (without .git) to a scratch dir outside /repo and /verif, applies the python edit
# (stdin or file; has `sub(path, old, new)`), type-checks, runs raftlint -repo on it, removes the copy.
set -u
export GOFLAGS=-mod=mod GOPROXY=off GOSUMDB=off GOTOOLCHAIN=local; unset GOWORK
edit="$1"; shift; shift
d=$(mktemp -d /tmp/mut.XXXXXX)
trap 'rm -rf "$d"' EXIT
rsync -a --exclude .git "${REPO_SRC:-/repo}/" "$d/"
cat > "$d/.edit.py" <<'PY'
import sys
def sub(path, old, new, count=1):
    s=open(path).read()
    assert s.count(old)>=1, ("pattern not found", path, old[:60])
    s=s.replace(old,new,count)
    open(path,'w').write(s)
PY
if [ "$edit" = "-" ]; then cat >> "$d/.edit.py"; else cat "$edit" >> "$d/.edit.py"; fi
(cd "$d" && python3 .edit.py) || { echo "EDIT FAILED"; exit 3; }
(cd "$d" && go build ./... ) || { echo "BUILD FAILED"; exit 3; }
"${RAFTLINT:-/verif/bin/raftlint}" -repo "$d" -no-evidence "$@"
echo "exit=$?"
