#!/usr/bin/env python3
"""Prints the markdown table of DESIGN.md 9.7 from seeded/*/meta.json (written by tools/seed_meta.py)."""
import json, glob, os, re
ROOT = os.path.dirname(os.path.dirname(os.path.abspath(__file__)))
rows = []
for f in sorted(glob.glob(os.path.join(ROOT, "seeded", "C*", "meta.json"))):
    sid = os.path.basename(os.path.dirname(f))
    m = json.load(open(f))
    prop = m["property_broken"]
    now = m["checks_that_report_it_now"].get(prop, {})
    rules = sorted({r.split(":")[0] for r in now.get("rules", [])})
    own = ("`-property %s`: " % prop) + (", ".join(rules) if now.get("exit") == 1 else "**not reported**")
    others = sorted(k for k, v in m["checks_that_report_it_now"].items() if k != prop and v.get("exit") == 1)
    ad = m["checks_as_delivered"]
    status = "missed" if ad.upper().startswith("MISSED") else ("caught, wrong property" if "stayed silent" in ad else ("caught, wrong reason" if "accident" in ad or "wrong reason" in ad else "caught"))
    rows.append((sid, m["change"], status, own + ("; also " + ", ".join(others) if others else ""), "yes" if m["confirmed_by_me"] else "NO"))
print("| seed | change (short) | as delivered | reported now by | confirmed |")
print("|------|----------------|--------------|-----------------|-----------|")
for r in rows:
    ch = r[1] if len(r[1]) < 150 else r[1][:147] + "…"
    print("| %s | %s | %s | %s | %s |" % (r[0], ch.replace("|", "/"), r[2], r[3], r[4]))
