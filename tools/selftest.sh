#!/bin/bash
# Runs every selftest/*/{mutants,benign}/*.py against a scratch copy of /repo and checks the
# expectation in its first line: "# expect: RULE [RULE...]" (each listed rule must report a VIOLATION
# when run alone) or "# expect: none" (all rules of all claimed properties must stay at exit 0).
# usage: tools/selftest.sh [dir-filter]
export GOFLAGS=-mod=mod GOPROXY=off GOSUMDB=off GOTOOLCHAIN=local; unset GOWORK
cd "$(dirname "$0")/.."
RL=${RAFTLINT:-$PWD/bin/raftlint}
fail=0; n=0
one() {
  f="$1"
  exp=$(head -1 "$f" | sed -n 's/^# expect: *//p')
  [ -z "$exp" ] && { echo "NOEXPECT $f"; return 1; }
  d=$(mktemp -d /tmp/selftest.XXXXXX)
  rsync -a --exclude .git "${SELFTEST_SRC:-/repo}/" "$d/"
  { echo 'def sub(path, old, new, count=1):
    s=open(path).read()
    assert s.count(old)>=1, ("pattern not found", path, old[:60])
    open(path,"w").write(s.replace(old,new,count))'; cat "$f"; } > "$d/.edit.py"
  case "$exp" in *:*) echo "ok-skipped $f (expectation '$exp' is relative to the pinned baseline: run by selftest/storage/run.py)"; rm -rf "$d"; return 0;; esac
  if ! (cd "$d" && python3 .edit.py) >/dev/null 2>"$d/.err"; then
    case "$f" in selftest/storage/*) echo "ok-skipped $f (written against the pinned commit, does not match the repaired tree: run by selftest/storage/run.py with REPO_SRC=<export of 72d3e09>)"; rm -rf "$d"; return 0;; esac
    echo "EDITFAIL $f: $(tail -1 $d/.err)"; rm -rf "$d"; return 1; fi
  if ! (cd "$d" && go build ./... ) >/dev/null 2>&1; then echo "BUILDFAIL $f"; rm -rf "$d"; return 1; fi
  rc=0
  if [ "$exp" = "none" ]; then
    out=$("$RL" -repo "$d" -no-evidence -rule all 2>&1); code=$?
    # known findings of the unchanged tree do not count; any VIOLATION / exit!=0 does
    if [ $code -ne 0 ]; then echo "FALSE-ALARM $f (exit $code)"; echo "$out" | grep -E "^(VIOLATION|UNDECIDED|ANCHOR|  rule)" | head -6; rc=1; else echo "ok-silent  $f"; fi
  else
    for r in $(echo "$exp" | tr "," " "); do
      out=$("$RL" -repo "$d" -no-evidence -rule "$r" 2>&1); code=$?
      if [ $code -eq 1 ] && echo "$out" | grep -q "^VIOLATION"; then echo "ok-fires   $f [$r]"; else echo "MISSED $f [$r] (exit $code)"; rc=1; fi
    done
  fi
  rm -rf "$d"
  return $rc
}
export -f one; export RL
ls selftest/*/mutants/*.py selftest/*/benign/*.py 2>/dev/null | grep -E "${1:-.}" | xargs -P ${SELFTEST_PAR:-8} -I{} bash -c 'one {}' | sort | tee /tmp/selftest.out
echo "---"; grep -c "^ok" /tmp/selftest.out | sed 's/^/passed: /'; grep -vc "^ok\|^  \|^VIOLATION\|^UNDECIDED" /tmp/selftest.out | sed 's/^/failed: /'
! grep -qE "^(MISSED|FALSE-ALARM|EDITFAIL|BUILDFAIL|NOEXPECT)" /tmp/selftest.out
