#!/usr/bin/env python3
"""usage: tools/seed_eval.py <seed-name> [all|own]

Applies seeded/<name>/patch.diff to a scratch copy (outside /repo and /verif) of the NEWEST commit of /repo on which it
applies and builds (the seeds were written against the HEAD of their day; later `fix:` commits move the code), runs the
quick checks with -repo on the copy, and reports what the patch ADDS to what the same checks say on that commit
without the patch (on an old commit the checks also report the defects that were repaired later: those are not the
seed's). mode all: every property -> writes seeded/<name>/checks.txt.  mode own: only the property the seed was
written against -> prints CAUGHT/MISSED, exit 1 if missed.
"""
import os, re, shutil, subprocess, sys, tempfile

ENV = dict(os.environ, GOFLAGS="-mod=mod", GOPROXY="off", GOSUMDB="off", GOTOOLCHAIN="local")
ENV.pop("GOWORK", None)
LINT = "/verif/bin/raftlint"
CACHE = "/tmp/seedbase-cache2"


def sh(cmd, cwd=None):
    return subprocess.run(cmd, shell=True, cwd=cwd, env=ENV, stdout=subprocess.PIPE, stderr=subprocess.STDOUT, text=True)


def reports(repo, prop):
    r = sh(f"{LINT} -repo {repo} -no-evidence -property {prop} -tier quick")
    keys = {}
    for line in r.stdout.splitlines():
        m = re.match(r'^\s+rule=(\S+) construct="([^"]*)"', line)
        if m:
            keys[(m.group(1), m.group(2))] = line.strip()
    for line in r.stdout.splitlines():
        m = re.match(r'^(UNDECIDED|ANCHOR-LOST) property=\S+ rule=(\S+) construct="([^"]*)"', line)
        if m:
            keys[(m.group(2), m.group(3))] = line.strip()
    return r.returncode, keys


def main():
    name = sys.argv[1]
    mode = sys.argv[2] if len(sys.argv) > 2 else "all"
    out = f"/verif/seeded/{name}"
    patch = f"{out}/patch.diff"
    own = name.split("-")[0]
    commits = sh("git -C /repo rev-list -n 80 HEAD").stdout.split()
    # A seed whose edit later became (part of) a repair is evaluated on the tree of its day: C14-7 takes the snapshot
    # directory's name at Close(), which broke C14 while takeSnapshot published with the node mutex released, and which
    # IS the repair of D23 (84c6dad) since D52 (1675477) moved the publication under the mutex.
    NOT_AFTER = {"C14-7": "b698102"}
    if name in NOT_AFTER:
        full = sh("git -C /repo rev-parse " + NOT_AFTER[name]).stdout.strip()
        if full in commits:
            commits = commits[commits.index(full):]
    base = None
    d = tempfile.mkdtemp(prefix="seedeval.", dir="/tmp")
    try:
        for c in commits:
            shutil.rmtree(d)
            os.mkdir(d)
            sh(f"git -C /repo archive {c} | tar -x -C {d}")
            if sh(f"patch -p1 -s -f --dry-run < {patch}", cwd=d).returncode != 0:
                continue
            sh(f"patch -p1 -s -f --no-backup-if-mismatch < {patch}", cwd=d)
            if sh("go build ./...", cwd=d).returncode != 0:
                continue
            base = c
            break
        if base is None:
            msg = "PATCH APPLIES TO NONE OF THE LAST 60 COMMITS OF /repo"
            print(("SKIP   %s: " % name) + msg)
            if mode == "all":
                open(f"{out}/checks.txt", "w").write(msg + "\n")
            return 0
        short = base[:7]
        head = commits[0][:7]
        props = [own] if mode == "own" else [l.split(":")[0] for l in sh(f"{LINT} -list").stdout.splitlines() if l.startswith("C")]
        # baseline of the base commit (cached per checker binary + commit + property)
        stamp = str(int(os.path.getmtime(LINT)))
        b = None
        lines = [f"# quick checks on /repo {short}" + (" (= HEAD)" if short == head else f" (the newest commit the patch applies to; HEAD is {head})") +
                 f" + seeded/{name}/patch.diff; listed: what the patch ADDS to the reports on {short} itself (exit 1 = VIOLATION reported)"]
        caught_own = False
        for p in props:
            code, keys = reports(d, p)
            if code == 0:
                continue
            cdir = f"{CACHE}/{stamp}/{short}"
            os.makedirs(cdir, exist_ok=True)
            cf = f"{cdir}/{p}.txt"
            if not os.path.exists(cf):
                if b is None:
                    b = tempfile.mkdtemp(prefix="seedbase.", dir="/tmp")
                    sh(f"git -C /repo archive {base} | tar -x -C {b}")
                _, bk = reports(b, p)
                open(cf, "w").write("\n".join("%s\t%s\t%s" % (k[0], k[1], bk[k]) for k in sorted(bk)) + "\n")
            # a construct the base commit already violates counts again when the patch makes it violated in ANOTHER way
            # (a different report text): the seed C15-3 rewrites the very assignment that D51 later repaired
            base = {}
            for l in open(cf).read().splitlines():
                parts = l.split("\t", 2)
                if len(parts) == 3:
                    base[(parts[0], parts[1])] = parts[2]
            def strip_pos(t):
                return re.sub(r" at \S+:\d+:", " at :", t)
            new = {k: v for k, v in keys.items() if k not in base or strip_pos(base[k]) != strip_pos(v)}
            if not new:
                continue
            viol = any(not v.startswith(("UNDECIDED", "ANCHOR-LOST")) for v in new.values())
            lines.append(f"{p} exit={1 if viol else 2}")
            for k in sorted(new):
                lines.append("   " + new[k][:420])
            if p == own and viol:
                caught_own = True
                rules = ",".join(sorted({k[0] for k, v in new.items() if not v.startswith(("UNDECIDED", "ANCHOR-LOST"))}))
        if b:
            shutil.rmtree(b, ignore_errors=True)
        if mode == "all":
            open(f"{out}/checks.txt", "w").write("\n".join(lines) + "\n")
            print("\n".join(l[:200] for l in lines))
            return 0
        if caught_own:
            print(f"CAUGHT {name} by -property {own} (on {short}): {rules}")
            return 0
        print(f"MISSED {name} by -property {own} (on {short})")
        return 1
    finally:
        shutil.rmtree(d, ignore_errors=True)


sys.exit(main())
