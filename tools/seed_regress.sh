#!/bin/bash
# usage: tools/seed_regress.sh [filter]
# For every seeded change kept under seeded/<id>/ : apply patch.diff to a scratch copy of /repo HEAD (outside /repo and
# /verif), run the quick check of THE PROPERTY THE CHANGE WAS WRITTEN AGAINST, and require that it reports a VIOLATION
# (exit 1). Prints one line per seed; exits 1 if any seed is not reported by its own property's check.
set -u
export GOFLAGS=-mod=mod GOPROXY=off GOSUMDB=off GOTOOLCHAIN=local; unset GOWORK
fail=0
for d in /verif/seeded/C*; do
  id=$(basename "$d"); prop=${id%%-*}
  [ -f "$d/patch.diff" ] || continue
  echo "$id" | grep -qE "${1:-.}" || continue
  s=$(mktemp -d /tmp/seedreg.XXXXXX)
  git -C /repo archive HEAD | tar -x -C "$s"
  if ! (cd "$s" && patch -p1 -s --no-backup-if-mismatch < "$d/patch.diff" >/dev/null 2>&1); then echo "SKIP   $id: patch does not apply to /repo HEAD"; rm -rf "$s"; continue; fi
  if ! (cd "$s" && go build ./... >/dev/null 2>&1); then echo "SKIP   $id: does not build on /repo HEAD"; rm -rf "$s"; continue; fi
  o=$(/verif/bin/raftlint -repo "$s" -no-evidence -property "$prop" -tier quick 2>&1); c=$?
  rules=$(echo "$o" | grep -E "^  rule=" | sed -E 's/^  rule=([A-Z0-9-]+).*/\1/' | sort -u | paste -sd, )
  if [ $c -eq 1 ]; then echo "CAUGHT $id by -property $prop: $rules"; else echo "MISSED $id by -property $prop (exit $c)"; fail=1; fi
  rm -rf "$s"
done
exit $fail
