#!/bin/bash
# usage: tools/seed_regress.sh [filter]  (env SEED_PAR, default 4)
# For every seeded change kept under seeded/<id>/: the quick check of THE PROPERTY THE CHANGE WAS WRITTEN AGAINST must
# report a VIOLATION that the unpatched commit does not have. One line per seed; exit 1 if any seed is missed.
# See tools/seed_eval.py (the patch is applied to the newest /repo commit it applies to).
ls -d /verif/seeded/C* | xargs -n1 basename | grep -E "${1:-.}" | xargs -P ${SEED_PAR:-4} -I{} python3 /verif/tools/seed_eval.py {} own | sort | tee /tmp/seed_regress.out
! grep -q "^MISSED" /tmp/seed_regress.out
