#!/usr/bin/env python3
"""Writes seeded/<id>/meta.json for every confirmed seeded change from the files tools/confirm_seed.sh and
tools/seed_checks.sh left there plus the hand-written notes below (what it breaks, what it needs, and whether the
checks caught it AS DELIVERED, i.e. before anything was strengthened because of it)."""
import json, os, re, glob
ROOT = os.path.dirname(os.path.dirname(os.path.abspath(__file__)))
NOTES = {
 "C01": dict(change="becomeLeader no longer resets follower.matchIndex to 0", needs="5 voters; the same Raft object leads twice with its log rewritten by another leader in between; a follower that acknowledged the old suffix stays partitioned",
             as_delivered="caught by SENDER (MATCH-PROV reset obligation), which existed, but SENDER was wired to C04/C11/C15 only — the C01 check itself stayed silent", strengthened="SENDER added to C01's rules; the agent's side remark led to D21 (stale AppendEntries reply), a genuine defect, now fixed"),
 "C02": dict(change="sendRequestVote: stale-reply check replaced by 'still campaigning?'", needs="a vote reply delayed by more than one election timeout, arriving while the node is candidate of a later term",
             as_delivered="caught by the C02 check (TERM-VOTE/TERM-MONO, STATE-TRANSITIONS, COUNT-VOTES)", strengthened="none needed"),
 "C04": dict(change="same edit as the C01 seed (matchIndex reset removed), found independently", needs="5 voters, re-elected leader, truncation in between, crash of exactly the holders",
             as_delivered="caught by the C04 check (SENDER)", strengthened="none needed"),
 "C05": dict(change="sendAppendEntries retries a rejected request immediately, handing on the round's counter instead of nil", needs=">=4 voters, partition leaving the old leader with one lagging voter that rejects and is retried, newer leader elsewhere, pending linearizable read",
             as_delivered="MISSED: no rule said that a round counts a peer at most once", strengthened="CONFIRM-QUORUM/COUNT-VOTES: the round counter must not be handed on by the reply handler (counterNotForwarded); spawner must not send to itself"),
 "C06": dict(change="follower commit index := Min(LeaderCommit, prev+len(entries)) under the old guard LeaderCommit > commitIndex", needs="a well-formed short request (prev+len < commitIndex < leaderCommit), which this code base's own sender never produces",
             as_delivered="MISSED: COMMIT-FOLLOWER accepted the bound prev+len(entries) as equivalent to LastIndex() without asking for the stronger guard", strengthened="COMMIT-FOLLOWER: for the bound prev+len(entries) the bound itself must be > commitIndex on every path"),
 "C08": dict(change="sendRequestVote: step-down on response.Term moved above the stale-reply check", needs="delayed (pre)vote reply whose term lies strictly between the request's term and the node's current term",
             as_delivered="caught by the C08 check (TERM-VOTE/TERM-MONO: currentTerm can decrease)", strengthened="none needed"),
 "C09": dict(change="takeSnapshot labels the snapshot with r.configuration instead of r.committedConfiguration", needs="snapshot taken while a membership change is uncommitted, the change is overwritten, restart from that snapshot",
             as_delivered="caught by SNAP-LABEL, but that rule was wired to C10/C11 only — the C09 check stayed silent", strengthened="SNAP-LABEL added to C09's rules"),
 "C10": dict(change="same edit as the C09 seed, found independently", needs="as C09", as_delivered="caught by the C10 check (SNAP-LABEL)", strengthened="none needed"),
 "C11": dict(change="InstallSnapshot: DiscardEntries(LII, request.Term) instead of (LII, LastIncludedTerm)", needs="install through the discard branch with leader term != snapshot term, then a vote before the next append",
             as_delivered="caught by the C11 check (IS-HANDLER/IS-TRIM argument provenance)", strengthened="none needed"),
 "C12": dict(change="Replay: clean-EOF test lost its position check; re-seek moved into the torn-tail branch (two cooperating sites)", needs="crash leaving exactly the 4-byte header of a record; then reopen, append, reopen",
             as_delivered="caught by the C12 check (REPLAY-TAIL)", strengthened="none needed"),
 "C13": dict(change="MkdirTemp prefix 'tmp-snapshot' -> 'tmp-snapshot-' (three cooperating sites: prefix, unanchored regexp, failing sort key)", needs="SnapshotFile() called while a writer is open",
             as_delivered="caught by the C13 check (SNAP-PICK evaluates the source's regexp against the source's own temp prefix)", strengthened="none needed"),
 "C14": dict(change="takeSnapshot: snapshot.Close() moved into a defer (runs after Log.Compact)", needs="kill immediately after Log.Compact",
             as_delivered="caught by the C14 check (SNAP-ORDER: 3 violations + 1 undecided)", strengthened="none needed"),
 "C18": dict(change="sendAppendEntries: isMember re-check after the unlock window dropped", needs="leader with a snapshot, RemoveServer applied while an AppendEntries to that peer is in flight, late rejection with a hint inside the snapshot -> nil deref in sendInstallSnapshot",
             as_delivered="caught by SENDER and CONFIRM-QUORUM (member must be re-established after the window) under C01/C04/C05, but the C18 check stayed silent", strengthened="FOLLOWER-LOOKUP (C18): r.followers[k] is fetched for use only while k is a member in the same critical section"),
 "C19": dict(change="Compact assigns entry.Offset only after the rename: records on disk carry stale offsets", needs="append, Compact with surviving entries, restart, Truncate of a surviving entry, append, restart",
             as_delivered="MISSED: the Offset-before-write obligation existed for AppendEntries only", strengthened="RECORD-OFFSET (C12, C19): every encodeLogEntry of a kept entry is dominated by entry.Offset := file.Seek(0, SeekCurrent) on the same file"),
 "C20": dict(change="shared (*LogEntry).toProto helper makes the wire converter read entry.Offset (unlocked) while Compact rewrites it", needs="AppendEntries request in flight (converted with the mutex released) while the node compacts its log; visible only under -race",
             as_delivered="MISSED: LOCKSET guards node state, not the fields of shared log entries (and the tables corpus had filed 'send Offset both ways' as benign)", strengthened="OFFSET-OWNER (C20): LogEntry.Offset may be accessed only by code that runs inside the bundled log; the benign case was reclassified as a must-fire mutant"),
}
for d in sorted(glob.glob(os.path.join(ROOT, "seeded", "C*"))):
    pid = os.path.basename(d)
    if not os.path.exists(os.path.join(d, "confirm.log")) or pid not in NOTES:
        continue
    log = open(os.path.join(d, "confirm.log")).read()
    ex = re.findall(r"exit=(\d+)", log)
    confirmed = "CONFIRMED=true" in log
    caught = {}
    cf = os.path.join(d, "checks.txt")
    if os.path.exists(cf):
        cur = None
        for line in open(cf):
            m = re.match(r"^(C\d+) exit=(\d)", line)
            if m:
                cur = m.group(1); caught[cur] = {"exit": int(m.group(2)), "rules": []}
            m = re.search(r'rule=(\S+) construct="([^"]*)"', line)
            if m and cur:
                caught[cur]["rules"].append(m.group(1) + ": " + m.group(2))
    n = NOTES[pid]
    meta = {
        "property_broken": pid,
        "origin": "written by a fresh sub-agent that was given ONLY the text of the property and a scratch worktree of /repo (prompt: seeded/_prompts/%s.txt); nothing from /verif" % pid,
        "change": n["change"],
        "needs_in_order_to_manifest": n["needs"],
        "confirmed_by_me": confirmed,
        "what_i_ran": [
            "tools/confirm_seed.sh %s  (in the scratch worktree, every go test under flock /tmp/raft-test.lock):" % pid,
            "  go build ./... with the change",
            "  demonstration WITH the change: exit %s (expected non-zero: FAIL)  -> demo_with.log" % (ex[0] if ex else "?"),
            "  demonstration WITHOUT the change (git apply -R): exit %s (expected 0: PASS)  -> demo_without.log" % (ex[1] if len(ex) > 1 else "?"),
            "  existing suite, unedited, WITH the change, demonstration moved aside: exit %s (expected 0)  -> suite_with.log" % (ex[2] if len(ex) > 2 else "?"),
            "tools/seed_checks.sh %s  (patch applied to a scratch copy of /repo HEAD outside /repo and /verif; every property's quick check with -repo)  -> checks.txt" % pid,
        ],
        "checks_as_delivered": n["as_delivered"],
        "strengthened_because_of_it": n["strengthened"],
        "checks_that_report_it_now": caught,
        "files": ["patch.diff", "demo_test.go.txt", "agent_README.md", "confirm.log", "demo_with.log", "demo_without.log", "suite_with.log", "checks.txt"],
    }
    json.dump(meta, open(os.path.join(d, "meta.json"), "w"), indent=1)
    print(pid, "confirmed" if confirmed else "NOT CONFIRMED", sorted(caught))
