#!/usr/bin/env python3
"""Writes seeded/<id>/meta.json for every confirmed seeded change from the files tools/confirm_seed.sh and
tools/seed_checks.sh left there plus the hand-written notes below (what it breaks, what it needs, and whether the
checks caught it AS DELIVERED, i.e. before anything was strengthened because of it)."""
import json, os, re, glob
ROOT = os.path.dirname(os.path.dirname(os.path.abspath(__file__)))
NOTES = {
 "C01": dict(change="becomeLeader no longer resets follower.matchIndex to 0", needs="5 voters; the same Raft object leads twice with its log rewritten by another leader in between; a follower that acknowledged the old suffix stays partitioned",
             as_delivered="caught by SENDER (MATCH-PROV reset obligation), which existed, but SENDER was wired to C04/C11/C15 only — the C01 check itself stayed silent", strengthened="SENDER added to C01's rules; the agent's side remark led to D21 (stale AppendEntries reply), a genuine defect, now fixed"),
 "C02": dict(change="sendRequestVote: stale-reply check replaced by 'still campaigning?'", needs="a vote reply delayed by more than one election timeout, arriving while the node is candidate of a later term",
             as_delivered="caught by the C02 check (TERM-VOTE/TERM-MONO, STATE-TRANSITIONS, COUNT-VOTES)", strengthened="none needed"),
 "C04": dict(change="same edit as the C01 seed (matchIndex reset removed), found independently", needs="5 voters, re-elected leader, truncation in between, crash of exactly the holders",
             as_delivered="caught by the C04 check (SENDER)", strengthened="none needed"),
 "C05": dict(change="sendAppendEntries retries a rejected request immediately, handing on the round's counter instead of nil", needs=">=4 voters, partition leaving the old leader with one lagging voter that rejects and is retried, newer leader elsewhere, pending linearizable read",
             as_delivered="MISSED: no rule said that a round counts a peer at most once", strengthened="CONFIRM-QUORUM/COUNT-VOTES: the round counter must not be handed on by the reply handler (counterNotForwarded); spawner must not send to itself"),
 "C06": dict(change="follower commit index := Min(LeaderCommit, prev+len(entries)) under the old guard LeaderCommit > commitIndex", needs="a well-formed short request (prev+len < commitIndex < leaderCommit), which this code base's own sender never produces",
             as_delivered="MISSED: COMMIT-FOLLOWER accepted the bound prev+len(entries) as equivalent to LastIndex() without asking for the stronger guard", strengthened="COMMIT-FOLLOWER: for the bound prev+len(entries) the bound itself must be > commitIndex on every path"),
 "C08": dict(change="sendRequestVote: step-down on response.Term moved above the stale-reply check", needs="delayed (pre)vote reply whose term lies strictly between the request's term and the node's current term",
             as_delivered="caught by the C08 check (TERM-VOTE/TERM-MONO: currentTerm can decrease)", strengthened="none needed"),
 "C09": dict(change="takeSnapshot labels the snapshot with r.configuration instead of r.committedConfiguration", needs="snapshot taken while a membership change is uncommitted, the change is overwritten, restart from that snapshot",
             as_delivered="caught by SNAP-LABEL, but that rule was wired to C10/C11 only — the C09 check stayed silent", strengthened="SNAP-LABEL added to C09's rules"),
 "C10": dict(change="same edit as the C09 seed, found independently", needs="as C09", as_delivered="caught by the C10 check (SNAP-LABEL)", strengthened="none needed"),
 "C11": dict(change="InstallSnapshot: DiscardEntries(LII, request.Term) instead of (LII, LastIncludedTerm)", needs="install through the discard branch with leader term != snapshot term, then a vote before the next append",
             as_delivered="caught by the C11 check (IS-HANDLER/IS-TRIM argument provenance)", strengthened="none needed"),
 "C12": dict(change="Replay: clean-EOF test lost its position check; re-seek moved into the torn-tail branch (two cooperating sites)", needs="crash leaving exactly the 4-byte header of a record; then reopen, append, reopen",
             as_delivered="caught by the C12 check (REPLAY-TAIL)", strengthened="none needed"),
 "C13": dict(change="MkdirTemp prefix 'tmp-snapshot' -> 'tmp-snapshot-' (three cooperating sites: prefix, unanchored regexp, failing sort key)", needs="SnapshotFile() called while a writer is open",
             as_delivered="caught by the C13 check (SNAP-PICK evaluates the source's regexp against the source's own temp prefix)", strengthened="none needed"),
 "C14": dict(change="takeSnapshot: snapshot.Close() moved into a defer (runs after Log.Compact)", needs="kill immediately after Log.Compact",
             as_delivered="caught by the C14 check (SNAP-ORDER: 3 violations + 1 undecided)", strengthened="none needed"),
 "C18": dict(change="sendAppendEntries: isMember re-check after the unlock window dropped", needs="leader with a snapshot, RemoveServer applied while an AppendEntries to that peer is in flight, late rejection with a hint inside the snapshot -> nil deref in sendInstallSnapshot",
             as_delivered="caught by SENDER and CONFIRM-QUORUM (member must be re-established after the window) under C01/C04/C05, but the C18 check stayed silent", strengthened="FOLLOWER-LOOKUP (C18): r.followers[k] is fetched for use only while k is a member in the same critical section"),
 "C19": dict(change="Compact assigns entry.Offset only after the rename: records on disk carry stale offsets", needs="append, Compact with surviving entries, restart, Truncate of a surviving entry, append, restart",
             as_delivered="MISSED: the Offset-before-write obligation existed for AppendEntries only", strengthened="RECORD-OFFSET (C12, C19): every encodeLogEntry of a kept entry is dominated by entry.Offset := file.Seek(0, SeekCurrent) on the same file"),
 "C03": dict(change="becomeFollower fails pending futures and replaces the operation manager only 'if wasLeader' (state read into a local before the store to r.state)", needs="leader stopped with pending futures, restarted as follower (Stop leaves the tables), higher-term RPC, new leader commits another client's entry at the same index",
             as_delivered="MISSED, and for a bad reason: LEADER-EXIT-RESET discharged the obligation because the interpreter applied the condition 'wasLeader' (computed from a load made BEFORE the store state := Follower) to the current value of r.state — an unsoundness of the engine, not a gap of the rule",
             strengthened="engine: a condition filters an atom only if every memory read it is computed from is still current at the branch (fresh()/unchangedBetween; later extended to stale parameter and closure bindings, found by the engine unit tests written because of this seed); with that LEADER-EXIT-RESET reports all 7 contexts"),
 "C07": dict(change="Compact replaces the kept boundary entry by a fresh placeholder without its Term", needs="log entirely compacted (snapshot at LastIndex) on a voter, then a vote request from a candidate with a shorter/older log",
             as_delivered="caught by COMPACT-KEEP (placeholder must be the kept entry), but that rule was wired to C11/C12 only — the C07 check stayed silent", strengthened="COMPACT-KEEP added to C07's rules (the vote restriction compares against LastTerm(), which compaction must preserve)"),
 "C16": dict(change="stickiness gate in RequestVote applies to real votes only ('!request.Prevote && (…)')", needs="one-directional partition or the window after a heal; idle cluster (equal logs); the cut-off node wins the prevote, bumps its term, deposes the leader on the next heartbeat",
             as_delivered="caught by the C16 check (STICKY: VoteGranted := true outside the gate for prevote:T)", strengthened="none needed"),
 "C17": dict(change="stickiness gate in RequestVote applies to prevotes only ('request.Prevote && (…)')", needs="partition that heals for one follower exactly between its prevote answer and the arrival of the real vote; lease read on the old leader inside the lease window",
             as_delivered="caught by the C17 check (STICKY: term/vote/state writes of a real vote outside the gate, 9 contexts)", strengthened="none needed"),
 "C01-2": dict(change="sendAppendEntries caps a request at 1024 entries while LeaderCommit stays the full commit index", needs=">1024 entries before a divergence point, follower with a stale uncommitted suffix beyond the batch, second leader change; the follower clamps commitIndex to the end of its OWN log",
             as_delivered="reported, but only by accident: SENDER/SNAP-FALLBACK could not prove index < NextIndex() through numeric.Min (an imprecision, with a message beside the point); the rule that owns the contract (COMMIT-FOLLOWER's SEND-TO-END companion) accepted any mention of NextIndex() in a loop condition",
             strengthened="SEND-TO-END is now decided on the loop's exit state (index not below NextIndex() when request.Entries is filled, unless the follower bounds by prev+len(entries)); engine: phi transfer (loop variable initial value / increment) and Min/Max implications, so the capped-but-safe variant and the bound-in-a-local variant stay silent"),
 "C02-2": dict(change="same edit as the round-1 C08 seed (step-down moved above the stale-reply check in sendRequestVote), found independently", needs="as C08", as_delivered="caught by the C02 check (TERM-VOTE/TERM-MONO)", strengthened="none needed"),
 "C05-2": dict(change="readOnlyLoop releases verified reads against commitIndex instead of lastApplied", needs="new leader whose apply loop is behind an entry its predecessor acknowledged (slow Apply), verified read in that window",
             as_delivered="caught by the C05 check (READ-SERVE RS1: the apply index handed to the selection must be r.lastApplied)", strengthened="none needed"),
 "C09-2": dict(change="same edit as the round-1 C09/C10 seeds (snapshot labelled with r.configuration)", needs="as C09", as_delivered="caught by the C09 check (SNAP-LABEL, wired to C09 after round 1)", strengthened="none needed"),
 "C10-2": dict(change="sendInstallSnapshot labels the request with r.lastIncludedIndex/Term instead of the metadata of the file being sent", needs="transfer started between takeSnapshot's Close (new file visible) and its re-locking (boundary moved); single-chunk snapshot; leader change before the re-send",
             as_delivered="MISSED: no rule tied the label of an outgoing request to the file whose bytes it carries", strengthened="new rule SEND-LABEL (C10, C11): LastIncludedIndex/Term/Configuration of the request = Metadata() of the reader the chunk is read from. The agent's side remark about the ordering of snapshot directories led to D23 (genuine, known finding)"),
 "C12-2": dict(change="Replay's byte counter moved beneath the bufio.Reader (counts read-ahead, not decoded bytes)", needs="crash inside an append (torn tail), reopen, further append, reopen",
             as_delivered="MISSED: REPLAY-TAIL accepted any non-constant offset as 'tracked'", strengthened="REPLAY-TAIL position-source clause: a position used for Truncate/Seek must not be read from beneath the decoder's read-ahead buffer (counter field or file offset) unless corrected by Buffered()"),
 "C13-2": dict(change="same edit as the round-1 C13 seed (MkdirTemp prefix 'tmp-snapshot-')", needs="as C13", as_delivered="caught by the C13 check (SNAP-PICK)", strengthened="none needed"),
 "C15-2": dict(change="InstallSnapshot (matching-entry branch): boundary stores moved after the wait for lastApplied, re-check changed to >=", needs="follower whose log holds the snapshot's last entry but lastApplied below it; the re-sent tail chunk restarts the transfer for ever",
             as_delivered="caught by IS-HANDLER (IS-COMPLETE: the handler can park/return after publishing the snapshot without having moved the boundary), but that rule was wired to C10/C11 only — the C15 check stayed silent", strengthened="IS-HANDLER added to C15's rules (known finding D10 extended to C15)"),
 "C03-2": dict(change="sendAppendEntries credits the follower with r.log.LastIndex() read after the RPC instead of what the request carried", needs="a second submission while an AppendEntries is in flight; the RPCs that carry the new entry are lost; leader goes away",
             as_delivered="caught by SENDER (MATCH-PROV: matchIndex must be request.PrevLogIndex + len(entries) of the request sent), but SENDER was not wired to C03 — the C03 check stayed silent", strengthened="COMMIT-LEADER, SENDER and QUORUM-SHAPE added to C03's rules (a future is answered for a committed entry, so the commit rule is a necessary condition of a truthful acknowledgement)"),
 "C04-2": dict(change="same edit as the round-1 C01/C04 seeds (becomeLeader no longer resets matchIndex), found independently a third time", needs="as C04", as_delivered="caught by the C04 check (SENDER)", strengthened="none needed"),
 "C06-2": dict(change="same edit as C01-2 (sender caps the entries of a request, LeaderCommit stays full), found independently", needs="as C01-2", as_delivered="as C01-2: reported by SENDER/SNAP-FALLBACK for the wrong reason", strengthened="as C01-2 (SEND-TO-END decided on the loop exit; COMMIT-FOLLOWER is in C06's rules)"),
 "C07-2": dict(change="same edit as the round-1 C01/C04 seeds (matchIndex reset removed), a fourth time", needs="five voters, same node leads twice without restart, tail overwritten in between",
             as_delivered="caught by SENDER, but SENDER was not wired to C07 — the C07 check stayed silent", strengthened="COMMIT-LEADER, SENDER and QUORUM-SHAPE added to C07's rules (leader completeness is stated in terms of the commit index)"),
 "C08-2": dict(change="sendAppendEntries compares response.Term with request.Term instead of currentTerm (wrong variable after the unlock window)", needs="an AppendEntries in flight while the sender loses and regains leadership in a later term; delayed reply with an intermediate term",
             as_delivered="caught by the C08 check (TERM-VOTE/TERM-MONO: currentTerm can decrease in sendAppendEntries > becomeFollower)", strengthened="none needed"),
 "C11-2": dict(change="same edit as the round-1 C11 seed (DiscardEntries with the leader's term)", needs="as C11", as_delivered="caught by the C11 check (IS-HANDLER/IS-TRIM)", strengthened="none needed"),
 "C14-2": dict(change="takeSnapshot: Close (publish) moved after Log.Compact, disguised as 'discard a stale snapshot instead of publishing it'", needs="kill immediately after Log.Compact", as_delivered="caught by the C14 check (SNAP-ORDER)", strengthened="none needed"),
 "C16-2": dict(change="becomeFollower returns early, before state := Follower, when term and leaderID are already current; the AppendEntries handler sets leaderID just before demoting a same-term candidate", needs="contested election (node still Candidate when the winner's first AppendEntries arrives), later isolation > election timeout, rejoin",
             as_delivered="MISSED by every rule: nothing said that a (pre)candidate which accepts the leader of its term must become a follower", strengthened="new rule HANDLER-DEMOTE (C16, C02): no error-free non-stale reply of AppendEntries, and no progress of InstallSnapshot past its term checks, in the Candidate/PreCandidate role"),
 "C17-2": dict(change="AppendEntries refreshes lastContact only when it accepts the request; the leader counts rejecting replies towards its lease quorum all the same (two sites, each fine alone)", needs="returning lagging follower rejects the first heartbeat (renews the leader's lease) and immediately votes for another node; lease read on the old leader",
             as_delivered="MISSED by every rule: the receiver-side half of the lease contract was not encoded", strengthened="new rule CONTACT-REFRESH (C17, C16): every error-free reply of AppendEntries that does not signal a larger term is returned after lastContact := time.Now()"),
 "C18-2": dict(change="Bootstrap: the two 'already has state' checks merged with the log check first (r.log.LastIndex() > 0 || r.configuration != nil)", needs="NewRaft; Start; Stop; Bootstrap (the stopped node's log is closed: index out of range)",
             as_delivered="caught by the C18 check (LIFECYCLE names the call sequence NewRaft; Start; Stop; Bootstrap and the use of the closed log)", strengthened="none needed"),
 "C19-2": dict(change="Compact computes entry.Offset arithmetically (entry.Offset -= base) instead of asking the file", needs="compaction with surviving entries, later Truncate at a surviving entry, restart",
             as_delivered="caught by the C19 check (RECORD-OFFSET, the rule added after the round-1 C19 seed)", strengthened="none needed"),
 "C20-2": dict(change="makeProtoEntries copies entry.Offset into the wire entry (same class as the round-1 C20 seed, different helper)", needs="AppendEntries in flight while the node compacts; visible only under -race",
             as_delivered="caught by the C20 check (OFFSET-OWNER, the rule added after the round-1 C20 seed)", strengthened="none needed"),
 "C01-3": dict(change="InstallSnapshot keeps the log whenever it merely Contains(LastIncludedIndex): the term of the entry there is no longer compared with LastIncludedTerm", needs="node with an uncommitted stale suffix at least as long as the majority's next snapshot; rejoin through InstallSnapshot, then AppendEntries",
             as_delivered="caught by IS-HANDLER (IS-TRIM), but IS-HANDLER was not wired to C01 — the C01 check stayed silent", strengthened="IS-HANDLER added to C01 (and, more generally, rules are now borrowed across dependent properties: C01 also evaluates the election, log-matching and snapshot-label rules)"),
 "C02-3": dict(change="RequestVote persists BEFORE it assigns votedFor (disguised as 'skip the write when the same candidate asks again')", needs="deciding voter crashes after replying and restarts before a higher term appears; delayed same-term request of the other candidate",
             as_delivered="caught by the C02 check (TERM-VOTE/VOTE-PERSIST)", strengthened="none needed"),
 "C04-3": dict(change="same edit as C03-2 (matchIndex := r.log.LastIndex() read after the RPC)", needs="as C03-2", as_delivered="caught by the C04 check (SENDER/MATCH-PROV)", strengthened="none needed"),
 "C06-3": dict(change="Compact assigns the new file position to a COPY of each kept entry and encodes the copy: the entries kept in memory keep their offsets in the old file", needs="compaction with surviving entries, conflict truncation of one of them, restart before the next compaction",
             as_delivered="MISSED as a violation (RECORD-OFFSET answered 'undecided: fresh entry with a non-zero Offset', and it was not in C06's rules)", strengthened="RECORD-OFFSET: a record encoded from a copy of a kept entry is a violation; rule wired to C06 (and C04, C11)"),
 "C07-3": dict(change="sendRequestVote: the two guards after the unlock window (error/shutdown; stale term) folded into 'still (pre)candidate?'", needs="real-vote reply delayed beyond an election timeout while the sender stays candidate and moves to a later term",
             as_delivered="caught by rules of C02 (TERM-MONO, STATE-TRANSITIONS, COUNT-VOTES) — the C07 check as delivered stayed silent", strengthened="the election rules are borrowed into C07 (leader completeness rests on a real-vote quorum of one term)"),
 "C09-3": dict(change="AddServer: 'configuration := *r.configuration' instead of Clone(): the struct copy shares the two maps with committedConfiguration", needs="leader accepts an add while partitioned; the next leader overwrites the entry; the rollback restores a committedConfiguration that already holds the phantom member",
             as_delivered="caught by the C09 check (CONF-CHANGE/CONF-CONTENT)", strengthened="none needed"),
 "C11-3": dict(change="same edit as C19-2 (offsets of surviving entries computed arithmetically in Compact), found independently", needs="as C19-2", as_delivered="caught by RECORD-OFFSET, which was not wired to C11 — the C11 check stayed silent", strengthened="RECORD-OFFSET and LOG-WSP added to C11"),
 "C13-3": dict(change="RemoveTmpFiles uses os.Remove instead of os.RemoveAll", needs="crash while a snapshot writer is open (the temporary directory then holds two files)",
             as_delivered="MISSED: WALK-RM accepted either removal call — although C13's why_tests_cant names exactly the non-empty interrupted directory", strengthened="WALK-RM: os.Remove only where the entry is known not to be a directory; SNAP-ATOMIC: Discard and the cleanup of a failed Close must remove the directory recursively"),
 "C03-3": dict(change="sender caps a request at 1 MiB of entry data (same class as C01-2/C06-2)", needs="as C01-2 with >1 MiB before the divergence point", as_delivered="caught by the C03 check (COMMIT-FOLLOWER/SEND-TO-END, borrowed into C03 after round 2)", strengthened="none needed"),
 "C05-3": dict(change="sendAppendEntries: the check that drops replies to requests of an earlier term moved behind the counting of the round", needs="same node leads twice; a heartbeat reply outlives a whole term; round numbers restart at 0 with the new operation manager",
             as_delivered="MISSED, through a second engine unsoundness: CONFIRM-QUORUM's space held two mirror-image atoms about (currentTerm, request.Term) and the unlock window forgot them one after the other, each being re-derived from the other by the consistency closure",
             strengthened="engine: coupled atoms are forgotten together and depend on whatever their terms depend on (engine tests zzMirrorWindow, zzTransitiveWindow); CONFIRM-QUORUM's discovery of the reply's term fixed"),
 "C10-3": dict(change="becomeFollower resets the snapshot files only if the node was leader: a follower keeps its half-received snapshot across a leader change", needs="multi-chunk snapshot, leader change mid-transfer to a leader with an OLDER snapshot, restart",
             as_delivered="MISSED: nothing said that a partial incoming snapshot dies with the term (the handler's own one-sided label test is known finding D10)", strengthened="new rule PARTIAL-RESET (C10, C11): every activation of becomeFollower ends with r.snapshot == nil"),
 "C12-3": dict(change="same edit as C19-2/C11-3 (arithmetic offsets in Compact), a third time", needs="as C19-2", as_delivered="caught by the C12 check (RECORD-OFFSET)", strengthened="none needed"),
 "C15-3": dict(change="on rejection nextIndex := Min(nextIndex, response.Index): the follower's hint is never allowed to RAISE nextIndex", needs="follower compacted past the leader's nextIndex for it (promotion resets nextIndex to 1; re-added member; late rejection)",
             as_delivered="caught by the C15 check (SENDER/BACKOFF)", strengthened="none needed"),
 "C16-3": dict(change="the vote counter becomes a field r.votes reset only in becomePreCandidate/becomeCandidate; a pre-candidate's successive prevote rounds add up", needs="connected minority of two voters in a cluster of five, partition longer than two election timeouts, heal",
             as_delivered="reported under C16 only through side effects of the changed signature (PREVOTE-TOKEN's parameter position; ROUND-KIND panicked → undecided); the rule that names the defect, COUNT-VOTES ('not a variable local to this call: votes of different rounds would accumulate'), was not in C16's rules",
             strengthened="COUNT-VOTES added to C16; ROUND-KIND no longer panics on a changed signature"),
 "C08-3": dict(change="RequestVote inlines the step-down on a higher term with stepdown() (which does not persist) instead of becomeFollower; only the grant path persists afterwards", needs="real vote request with a higher term from a candidate whose log is behind (vote refused), then crash and restart of the voter",
             as_delivered="caught by the C08 check (TERM-VOTE/VOTE-PERSIST: a write of term/vote reaches the end of its critical section without SetState)", strengthened="none needed"),
 "C14-3": dict(change="InstallSnapshot accepts a chunk whose offset is BEYOND the partial file ('request.Offset < offset' instead of '!=')", needs="receiver killed between two chunk writes (or between the write and Close) of a transfer; the leader carries on from its old offset",
             as_delivered="caught by IS-HANDLER (IS-OFFSET), but IS-HANDLER was not wired to C14 — the C14 check stayed silent", strengthened="IS-HANDLER added to C14 (known finding D10 extended to C14)"),
 "C18-3": dict(change="the wait loop of the InstallSnapshot handler lost its Shutdown test", needs="follower whose log holds the snapshot's last entry but has not applied it; Stop() while the handler waits",
             as_delivered="caught by the C18 check (COND-PARITY: the loop around Wait contains no test of r.state against Shutdown that leaves the loop)", strengthened="none needed (while looking at this wait, its missing wake-up on an idle cluster became D30)"),
 "C20-3": dict(change="start(): transport.Run() moved before the three Register…Handler calls", needs="an RPC dispatched while Start/Restart is still registering handlers (nil handler call / unsynchronised write vs read of the handler fields)",
             as_delivered="caught by the C20 check (LOCKSET: handler field written without transport.mu and not ordered before Transport.Run)", strengthened="none needed"),
 "C17-3": dict(change="becomeLeader builds the operation manager (and so the leader's lease) with options.electionTimeout instead of options.leaseDuration", needs="heartbeat ack delayed within the allowed bound, leader then partitioned, another node elected in the window between the voter's promise and the lease's end, lease read on the old leader",
             as_delivered="MISSED: nothing tied the duration a lease is extended by to the configured option", strengthened="new rule LEASE-DURATION (C17): every lease is created with options.leaseDuration, plumbed unchanged into lease.duration, and renew is expiration := now + duration; no other writer"),
 "C20": dict(change="shared (*LogEntry).toProto helper makes the wire converter read entry.Offset (unlocked) while Compact rewrites it", needs="AppendEntries request in flight (converted with the mutex released) while the node compacts its log; visible only under -race",
             as_delivered="MISSED: LOCKSET guards node state, not the fields of shared log entries (and the tables corpus had filed 'send Offset both ways' as benign)", strengthened="OFFSET-OWNER (C20): LogEntry.Offset may be accessed only by code that runs inside the bundled log; the benign case was reclassified as a must-fire mutant"),
}
for d in sorted(glob.glob(os.path.join(ROOT, "seeded", "C*"))):
    pid = os.path.basename(d)
    if not os.path.exists(os.path.join(d, "confirm.log")) or pid not in NOTES:
        continue
    log = open(os.path.join(d, "confirm.log")).read()
    ex = re.findall(r"exit=(\d+)", log)
    confirmed = "CONFIRMED=true" in log
    caught = {}
    cf = os.path.join(d, "checks.txt")
    if os.path.exists(cf):
        cur = None
        for line in open(cf):
            m = re.match(r"^(C\d+) exit=(\d)", line)
            if m:
                cur = m.group(1); caught[cur] = {"exit": int(m.group(2)), "rules": []}
            m = re.search(r'rule=(\S+) construct="([^"]*)"', line)
            if m and cur:
                caught[cur]["rules"].append(m.group(1) + ": " + m.group(2))
    n = NOTES[pid]
    prop = pid.split("-")[0]
    meta = {
        "property_broken": prop,
        "origin": "written by a fresh sub-agent that was given ONLY the text of the property and a scratch worktree of /repo (prompt: seeded/_prompts/%s.txt); nothing from /verif" % (("round2/" + prop) if pid.endswith("-2") else ("round3/" + prop) if pid.endswith("-3") else prop),
        "change": n["change"],
        "needs_in_order_to_manifest": n["needs"],
        "confirmed_by_me": confirmed,
        "what_i_ran": [
            "tools/confirm_seed.sh %s  (in the scratch worktree, every go test under flock /tmp/raft-test.lock):" % pid,
            "  go build ./... with the change",
            "  demonstration WITH the change: exit %s (expected non-zero: FAIL)  -> demo_with.log" % (ex[0] if ex else "?"),
            "  demonstration WITHOUT the change (git apply -R): exit %s (expected 0: PASS)  -> demo_without.log" % (ex[1] if len(ex) > 1 else "?"),
            "  existing suite, unedited, WITH the change, demonstration moved aside: exit %s (expected 0)  -> suite_with.log" % (ex[2] if len(ex) > 2 else "?"),
            "tools/seed_checks.sh %s  (patch applied to a scratch copy of /repo HEAD outside /repo and /verif; every property's quick check with -repo)  -> checks.txt" % pid,
        ],
        "checks_as_delivered": n["as_delivered"],
        "strengthened_because_of_it": n["strengthened"],
        "checks_that_report_it_now": caught,
        "files": ["patch.diff", "demo_test.go.txt", "agent_README.md", "confirm.log", "demo_with.log", "demo_without.log", "suite_with.log", "checks.txt"],
    }
    json.dump(meta, open(os.path.join(d, "meta.json"), "w"), indent=1)
    print(pid, "confirmed" if confirmed else "NOT CONFIRMED", sorted(caught))
