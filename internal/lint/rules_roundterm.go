package lint

import (
	"fmt"
	"strings"

	"golang.org/x/tools/go/ssa"
)

// ruleRoundTerm: ROUND-TERM.
//
// A round of requests — vote requests of one candidacy, AppendEntries of one heartbeat round — shares one counter, and
// what the counter holds are answers given in the term the round was started in. The goroutines of a round build their
// request when they RUN. One that runs late, after the node has entered a later term (a new candidacy; leadership lost
// and won again), would ask in the new term and add the answer to the old counter: votes of two terms make a
// "quorum", acknowledgements of two leaderships "confirm" a read. The term of a round is therefore fixed when the
// round is started and handed to its goroutines, and a goroutine sends only while it is still the current term.
func ruleRoundTerm() *Rule {
	const id = "ROUND-TERM"
	return &Rule{
		ID: id,
		Text: "sendRequestVoteToPeers / sendAppendEntriesToPeers hand r.currentTerm, read when the round is started, to every goroutine of the round, and sendRequestVote / sendAppendEntries release the mutex for the send " +
			"only with r.currentTerm equal to that argument established since the mutex was taken.",
		Floor: 4,
		Run: func(p *Program) []Obligation {
			var out []Obligation
			for _, r := range []struct{ spawner, target, send string }{
				{"(*Raft).sendRequestVoteToPeers", "(*Raft).sendRequestVote", "SendRequestVote"},
				{"(*Raft).sendAppendEntriesToPeers", "(*Raft).sendAppendEntries", "SendAppendEntries"},
			} {
				sp, tg := p.Func(r.spawner), p.Func(r.target)
				if sp == nil || tg == nil {
					out = append(out, missing(id, r.spawner+" / "+r.target)...)
					continue
				}
				fr := NewRootFrame(sp)
				// 1. the round's term among the arguments of every go statement
				k := -1
				n := 0
				for _, b := range sp.Blocks {
					for _, in := range b.Instrs {
						g, ok := in.(*ssa.Go)
						if !ok || g.Common().StaticCallee() != tg {
							continue
						}
						n++
						ob := Obligation{Rule: id, Construct: fmt.Sprintf("term of the round handed to go %s%s in %s", r.target, ordSuffix(n), r.spawner), Pos: p.InstrPos(in)}
						found := -1
						for i, a := range g.Common().Args {
							if i > 0 && p.Canon(fr, a).S == "r.currentTerm" {
								found = i - 1
							}
						}
						if found < 0 {
							ob.Verdict = Violated
							ob.Detail = "the goroutines of the round are not told which term the round belongs to: one that runs late, after the node has entered a later term, sends its request in the new term and adds the answer to this round's counter"
						} else {
							ob.Verdict, ob.Detail = Discharged, fmt.Sprintf("argument #%d = r.currentTerm read when the round is started", found)
							k = found
						}
						out = append(out, ob)
					}
				}
				if n == 0 {
					out = append(out, missing(id, "go "+r.target+" in "+r.spawner)...)
					continue
				}
				if k < 0 {
					continue
				}
				// 2. the send happens only with currentTerm == that argument, established in the critical section that ends
				// with the unlock before the send
				latch := GhostAtom("roundTermOkAtLastUnlock", "no", "yes")
				space := NewSpace(CmpAtom("curTerm?roundTerm", "r.currentTerm", fmt.Sprintf("p%d", k)), latch)
				a := NewAnalysis(p, space)
				a.Hook = func(a *Analysis, f *Frame, in ssa.Instruction, st State) State {
					if ci, ok := in.(ssa.CallInstruction); ok {
						if _, isDefer := in.(*ssa.Defer); isDefer && !a.AtRunDefers {
							return st
						}
						if op, recv := isMutexOp(ci.Common()); op == "Mutex.Unlock" && isNodeMutex(recv) {
							return space.Map(st, 1, func(pt, old int) uint32 {
								if space.Val(pt, 0) == EQ {
									return 1 << 1
								}
								return 1 << 0
							})
						}
					}
					if iface, m, _ := invokeOf(in); iface == "Transport" && m == r.send {
						a.Observe("term of the round when "+r.target+" releases the mutex for Transport."+r.send, f, in, st)
					}
					return st
				}
				a.RunFrame(NewRootFrame(tg), space.Filter(space.Top(), 1, 1))
				obs := a.SortedObs()
				if len(obs) == 0 {
					out = append(out, missing(id, "Transport."+r.send+" in "+r.target)...)
					continue
				}
				out = append(out, evalObs(a, id, obs, func(_ *Observation, pt int) bool { return space.Val(pt, 1) == 1 }, []int{1},
					"the request is sent only while the node is still in the term the round was started in")...)
			}
			return out
		},
	}
}

// everyReplyCounts: the other direction of CONFIRM-COUNT. A reply that is not stale, from a voter, to a node that still
// leads, is the voter's promise (it has refreshed its lastContact before answering, whatever it answered): it must be
// counted. The conditions under which the counter is incremented are therefore ONLY those: the counter is still there,
// the responder is a voter — nothing about what the reply says (a rejection for a log mismatch counts: otherwise a
// healthy leader whose followers are busy catching up lets its lease lapse and grants the vote of a rejoining node).
func everyReplyCounts(p *Program, id string) []Obligation {
	fn := p.Func("(*Raft).sendAppendEntries")
	if fn == nil {
		return missing(id, "(*Raft).sendAppendEntries")
	}
	fr := NewRootFrame(fn)
	ob := Obligation{Rule: id, Construct: "every non-stale reply of a voter is counted in (*Raft).sendAppendEntries", Pos: p.Pos(fn.Pos())}
	// the increment: a store through a *int parameter
	var inc *ssa.Store
	for _, b := range fn.Blocks {
		for _, in := range b.Instrs {
			if st, ok := in.(*ssa.Store); ok {
				if par, ok := st.Addr.(*ssa.Parameter); ok && par.Parent() == fn {
					inc = st
				}
			}
		}
	}
	if inc == nil {
		ob.Verdict, ob.Detail = AnchorLost, "no increment of the round's counter found"
		return []Obligation{ob}
	}
	ob.Pos = p.InstrPos(inc)
	// the send
	var send ssa.Instruction
	for _, b := range fn.Blocks {
		for _, in := range b.Instrs {
			if iface, m, _ := invokeOf(in); iface == "Transport" && m == "SendAppendEntries" {
				send = in
			}
		}
	}
	if send == nil {
		ob.Verdict, ob.Detail = AnchorLost, "no Transport.SendAppendEntries found"
		return []Obligation{ob}
	}
	var extra []string
	for _, b := range fn.Blocks {
		iff, ok := b.Instrs[len(b.Instrs)-1].(*ssa.If)
		if !ok || !instrBlockDominates(send, iff) {
			continue
		}
		// does this branch decide whether the increment is reached? (exactly one arm leads to it, and that arm continues the function)
		toInc := [2]bool{}
		for i, sc := range b.Succs {
			toInc[i] = sc == inc.Block() || blockReaches(sc, inc.Block())
		}
		if toInc[0] == toInc[1] {
			continue
		}
		other := b.Succs[0]
		if toInc[0] {
			other = b.Succs[1]
		}
		// a branch whose other arm leaves the function (return) is one of the staleness / leadership tests: CONFIRM-COUNT's matter
		if _, isRet := other.Instrs[len(other.Instrs)-1].(*ssa.Return); isRet && len(other.Succs) == 0 {
			continue
		}
		s := p.Canon(fr, iff.Cond).S
		switch {
		case strings.Contains(s, "IsVoter["), strings.Contains(s, "Members["), strings.Contains(s, "nil") && strings.Contains(s, "p2"):
		default:
			extra = append(extra, s+" at "+p.InstrPos(iff))
		}
	}
	if len(extra) > 0 {
		ob.Verdict = Violated
		ob.Detail = "whether a reply is counted also depends on " + strings.Join(extra, "; ") + ": a voter's reply that is not stale is its promise not to vote for anyone else, whatever the reply says — a leader that does not count rejecting replies lets its lease lapse while its followers catch up, " +
			"and then grants the prevote and the vote of a rejoining node"
	} else {
		ob.Verdict, ob.Detail = Discharged, "apart from the tests that leave the function, the increment depends only on the counter still being there and on the responder being a voter"
	}
	return []Obligation{ob}
}
