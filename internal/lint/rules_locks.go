package lint

import (
	"fmt"
	"go/token"
	"go/types"
	"sort"
	"strings"

	"golang.org/x/tools/go/ssa"
)

// Rules built on the lock-state analysis A3 (locks.go): C20 LOCKSET / WINDOW-CLEAN, C10 FSM-EXCL /
// APPLY-RECHECK, C18 LOCK-PAIR.
func rulesLocks() []*Rule {
	return []*Rule{ruleLockset(), ruleWindowClean(), ruleFsmExcl(), ruleApplyRecheck(), ruleLockPair()}
}

const nodeMutex = "Raft.mu"

// the three mutexes of the module and what each rule instantiates on them
var lockSpecs = []string{nodeMutex, "transport.mu", "connectionManager.mu"}

// Structs whose every field belongs to the node's monitor (reached only through guarded Raft fields).
var nodeGuardedStructs = []string{"follower", "operationManager", "lease"}

// Interfaces whose bundled implementations are documented "not concurrent safe": the node mutex is their monitor.
var nodeGuardedIfaces = []string{"Log", "StateStorage", "SnapshotStorage"}

// Recorded exemptions (one reason each).
var lockExemptReasons = []string{
	"Operation values: ownership passes from the pending table to the serving goroutine (the entry is deleted from the table under the lock before the value is used in the window)",
	"(*sync.Cond).Broadcast/Signal: safe without the lock",
	"Configuration values: replaced as a whole under the lock, never mutated after publication (not decided by this rule)",
	"transport, logger, fsm objects: thread-safe by contract; only the pointers (immutable after NewRaft) are read",
}

// ---- guard model: what must be accessed under a mutex ----

type lockSite struct {
	Instr  ssa.Instruction
	Target string // "Raft.commitIndex", "Log.LastIndex", "(*lease).isValid", "round counter"
	Mode   string // read | write | map read | map update | map delete | map range | len | call
	Write  bool
}

func (s *lockSite) label() string {
	if s.Mode == "call" {
		return "call " + s.Target
	}
	return "access " + s.Target + " (" + s.Mode + ")"
}

type guardModel struct {
	p        *Program
	a        *LockAnalysis
	node     bool
	fields   map[*types.Var]string // guarded fields of the owner
	handlers map[*types.Var]string // function-typed fields written after construction
	exempt   map[string]string     // owner field -> reason
	structs  map[*types.TypeName]string
	ifaces   map[string]bool
	counters map[ssa.Value]string
	sites    map[*ssa.Function][]*lockSite
	problems []string
}

var guardModelCache = map[*LockAnalysis]*guardModel{}

func isSyncType(t types.Type) bool {
	if pt, ok := t.(*types.Pointer); ok {
		t = pt.Elem()
	}
	n, ok := t.(*types.Named)
	return ok && n.Obj().Pkg() != nil && n.Obj().Pkg().Path() == "sync"
}

// ownerField returns the field of the owner struct an address lies in (nested value fields included).
func (m *guardModel) ownerField(addr ssa.Value) *types.Var {
	for {
		switch x := addr.(type) {
		case *ssa.FieldAddr:
			if m.a.isOwnerPtr(x.X.Type()) {
				return faField(x)
			}
			addr = x.X
		case *ssa.IndexAddr:
			if _, ok := x.X.Type().Underlying().(*types.Pointer); !ok {
				return nil
			}
			addr = x.X
		default:
			return nil
		}
	}
}

// loadedOwnerField: v is (a phi of) a load of an owner field: the field.
func (m *guardModel) loadedOwnerField(v ssa.Value) *types.Var {
	switch x := v.(type) {
	case *ssa.UnOp:
		if x.Op == token.MUL {
			return m.ownerField(x.X)
		}
	case *ssa.Phi:
		for _, e := range x.Edges {
			if u, ok := e.(*ssa.UnOp); ok && u.Op == token.MUL {
				if f := m.ownerField(u.X); f != nil {
					return f
				}
			}
		}
	}
	return nil
}

func isMapType(t types.Type) bool { _, ok := t.Underlying().(*types.Map); return ok }

// mapMutation returns the map value an instruction mutates (MapUpdate, delete), if any.
func mapMutation(in ssa.Instruction) ssa.Value {
	switch x := in.(type) {
	case *ssa.MapUpdate:
		return x.Map
	case ssa.CallInstruction:
		if b, ok := x.Common().Value.(*ssa.Builtin); ok && b.Name() == "delete" {
			return x.Common().Args[0]
		}
	}
	return nil
}

func (p *Program) guardModel(a *LockAnalysis) *guardModel {
	if m, ok := guardModelCache[a]; ok {
		return m
	}
	m := &guardModel{p: p, a: a, node: a.Spec.Name == nodeMutex, fields: map[*types.Var]string{}, handlers: map[*types.Var]string{},
		exempt: map[string]string{}, structs: map[*types.TypeName]string{}, ifaces: map[string]bool{}, counters: map[ssa.Value]string{},
		sites: map[*ssa.Function][]*lockSite{}}
	guardModelCache[a] = m
	owner := a.Spec.Owner.Obj().Name()
	st := a.Spec.Owner.Underlying().(*types.Struct)

	// 1. which owner fields are written once the object is shared
	written := map[*types.Var]string{}
	escapes := map[*types.Var]string{}
	p.eachInstr(func(fn *ssa.Function, in ssa.Instruction) {
		var f *types.Var
		if s, ok := in.(*ssa.Store); ok {
			f = m.ownerField(s.Addr)
		} else if mv := mapMutation(in); mv != nil {
			f = m.loadedOwnerField(mv)
		}
		if f != nil {
			for _, c := range a.Contexts(fn) {
				if s, ok := c.In[in]; ok && s.Bits&^LkUnshared != 0 {
					if _, have := written[f]; !have {
						written[f] = FuncName(fn)
					}
				}
			}
		}
		// address of a non-sync field handed to a call: someone else may write through it
		if ci, ok := in.(ssa.CallInstruction); ok {
			for _, arg := range ci.Common().Args {
				v := arg
				if mi, ok := v.(*ssa.MakeInterface); ok {
					v = mi.X
				}
				if fa, ok := v.(*ssa.FieldAddr); ok && m.a.isOwnerPtr(fa.X.Type()) && !isSyncType(faField(fa).Type()) {
					escapes[faField(fa)] = FuncName(fn)
				}
			}
		}
	})
	for i := 0; i < st.NumFields(); i++ {
		f := st.Field(i)
		name := owner + "." + f.Name()
		switch {
		case isSyncType(f.Type()) && written[f] == "":
			m.exempt[name] = "synchronisation object / never reassigned"
		case written[f] != "":
			if _, isFn := f.Type().Underlying().(*types.Signature); isFn {
				m.handlers[f] = name
			} else {
				m.fields[f] = name
			}
		case escapes[f] != "":
			m.fields[f] = name
			m.problems = append(m.problems, "address of "+name+" escapes to a call in "+escapes[f]+": treated as guarded")
		default:
			m.exempt[name] = "never stored after construction (immutable)"
		}
	}

	if m.node {
		for _, s := range nodeGuardedStructs {
			if n := p.NamedType(s); n != nil {
				if _, ok := n.Underlying().(*types.Struct); ok {
					m.structs[n.Obj()] = s
					continue
				}
			}
			m.problems = append(m.problems, "guarded struct "+s+" not found")
		}
		for _, s := range nodeGuardedIfaces {
			if n := p.NamedType(s); n != nil {
				if _, ok := n.Underlying().(*types.Interface); ok {
					m.ifaces[s] = true
					continue
				}
			}
			m.problems = append(m.problems, "guarded interface "+s+" not found")
		}
		// per-round counters: address of a spawner's local handed to the goroutines it starts
		p.eachInstr(func(fn *ssa.Function, in ssa.Instruction) {
			g, ok := in.(*ssa.Go)
			if !ok {
				return
			}
			callee := g.Common().StaticCallee()
			if callee == nil || !p.InScope[callee] {
				return
			}
			args := g.Common().Args
			for i, arg := range args {
				al, ok := arg.(*ssa.Alloc)
				if !ok || i >= len(callee.Params) {
					continue
				}
				if _, basic := al.Type().Underlying().(*types.Pointer).Elem().Underlying().(*types.Basic); !basic {
					continue
				}
				m.counters[al] = "round counter"
				m.counters[callee.Params[i]] = "round counter"
			}
		})
	}
	for _, fn := range p.SortedFuncs() {
		for _, b := range fn.Blocks {
			for _, in := range b.Instrs {
				m.sites[fn] = append(m.sites[fn], m.sitesOf(in)...)
			}
		}
	}
	return m
}

func (m *guardModel) structName(t types.Type) string {
	if pt, ok := t.Underlying().(*types.Pointer); ok {
		t = pt.Elem()
	}
	if n, ok := t.(*types.Named); ok {
		return m.structs[n.Obj()]
	}
	return ""
}

// guardedAddr names the guarded location an address denotes.
func (m *guardModel) guardedAddr(addr ssa.Value) (string, bool) {
	for depth := 0; depth < 16; depth++ {
		switch x := addr.(type) {
		case *ssa.FieldAddr:
			f := faField(x)
			if m.a.isOwnerPtr(x.X.Type()) {
				name, ok := m.fields[f]
				return name, ok
			}
			if s := m.structName(x.X.Type()); s != "" {
				return s + "." + f.Name(), true
			}
			addr = x.X
		case *ssa.IndexAddr:
			if _, ok := x.X.Type().Underlying().(*types.Pointer); !ok {
				return "", false
			}
			addr = x.X
		case *ssa.Phi:
			for _, e := range x.Edges {
				if n, ok := m.counters[e]; ok {
					return n, true
				}
			}
			return "", false
		default:
			n, ok := m.counters[addr]
			return n, ok
		}
	}
	return "", false
}

// guardedValue: v was loaded from a guarded location (the value aliases guarded memory: maps, interface values).
func (m *guardModel) guardedValue(v ssa.Value) (string, bool) {
	switch x := v.(type) {
	case *ssa.UnOp:
		if x.Op == token.MUL {
			return m.guardedAddr(x.X)
		}
	case *ssa.Phi:
		for _, e := range x.Edges {
			if u, ok := e.(*ssa.UnOp); ok && u.Op == token.MUL {
				if n, ok := m.guardedAddr(u.X); ok {
					return n, true
				}
			}
		}
	}
	return "", false
}

func (m *guardModel) sitesOf(in ssa.Instruction) []*lockSite {
	var out []*lockSite
	add := func(target, mode string, write bool) {
		out = append(out, &lockSite{Instr: in, Target: target, Mode: mode, Write: write})
	}
	switch x := in.(type) {
	case *ssa.UnOp:
		if x.Op == token.MUL {
			if n, ok := m.guardedAddr(x.X); ok {
				add(n, "read", false)
			}
		}
	case *ssa.Store:
		if n, ok := m.guardedAddr(x.Addr); ok {
			add(n, "write", true)
		}
	case *ssa.Lookup:
		if isMapType(x.X.Type()) {
			if n, ok := m.guardedValue(x.X); ok {
				add(n, "map read", false)
			}
		}
	case *ssa.MapUpdate:
		if n, ok := m.guardedValue(x.Map); ok {
			add(n, "map update", true)
		}
	case *ssa.Range:
		if isMapType(x.X.Type()) {
			if n, ok := m.guardedValue(x.X); ok {
				add(n, "map range", false)
			}
		}
	case *ssa.Next:
		if r, ok := x.Iter.(*ssa.Range); ok && isMapType(r.X.Type()) {
			if n, ok := m.guardedValue(r.X); ok {
				add(n, "map range", false)
			}
		}
	case ssa.CallInstruction:
		c := x.Common()
		if b, ok := c.Value.(*ssa.Builtin); ok {
			if len(c.Args) > 0 && isMapType(c.Args[0].Type()) {
				if n, ok := m.guardedValue(c.Args[0]); ok {
					switch b.Name() {
					case "delete":
						add(n, "map delete", true)
					case "len":
						add(n, "len", false)
					}
				}
			}
			return out
		}
		if !m.node {
			return out
		}
		if c.IsInvoke() {
			iface := ifaceOf(c)
			if m.ifaces[iface] {
				add(iface+"."+c.Method.Name(), "call", true)
			} else if iface == "SnapshotFile" {
				if n, ok := m.guardedValue(c.Value); ok {
					add("SnapshotFile."+c.Method.Name()+" on "+n, "call", true)
				}
			}
			return out
		}
		if callee := staticCallee(in); callee != nil && callee.Signature.Recv() != nil {
			if s := m.structName(callee.Signature.Recv().Type()); s != "" {
				add(FuncName(callee), "call", true)
			}
		}
	}
	return out
}

// need classifies a state against a site's requirement: ok, bad (certainly not held), mixed.
func (m *guardModel) need(s *lockSite, st LState) string {
	ok := LkHeld | LkUnshared
	if !s.Write {
		ok |= LkRead
	}
	switch {
	case st.Bits == 0:
		return "unreached"
	case st.Bits&^ok == 0:
		return "ok"
	case st.Bits&ok == 0:
		return "bad"
	}
	return "mixed"
}

// inheritedRelease: the mutex is not held and nothing in this activation changed that: the caller is responsible.
func (m *guardModel) inheritedRelease(c *LockCtx, st LState) bool {
	return !m.a.IsRootCtx(c) && st.Bits&(LkHeld|LkUnshared) == 0 && st.Bits != 0 && st.Openers == 0 && c.Entry&(LkHeld|LkUnshared) == 0
}

// inherited lists the guarded accesses a context performs with the mutex not held because its caller
// did not hold it (transitively through its own callees).
func (m *guardModel) inherited(c *LockCtx, seen map[*LockCtx]bool) []string {
	if seen[c] {
		return nil
	}
	seen[c] = true
	var out []string
	for _, s := range m.sites[c.Fn] {
		st := c.StateAt(s.Instr)
		if v := m.need(s, st); (v == "bad" || v == "mixed") && m.inheritedRelease(c, st) {
			out = append(out, fmt.Sprintf("%s in %s at %s", s.label(), FuncName(c.Fn), m.p.InstrPos(s.Instr)))
		}
	}
	for _, e := range c.Calls {
		if e.Go || e.Callee.Entry&(LkHeld|LkUnshared) != 0 || m.a.IsRootCtx(e.Callee) || !m.inheritedRelease(c, e.State) {
			continue
		}
		out = append(out, m.inherited(e.Callee, seen)...)
	}
	return out
}

func siteOrdinal(m *guardModel, s *lockSite) int {
	lab := s.label()
	return instrOrdinal(s.Instr, func(x ssa.Instruction) bool {
		for _, t := range m.sites[x.Parent()] {
			if t.Instr == x && t.label() == lab {
				return true
			}
		}
		return false
	})
}

func callOrdinal(in ssa.Instruction, callee *ssa.Function) int {
	return instrOrdinal(in, func(x ssa.Instruction) bool { return staticCallee(x) == callee })
}

// locksetObligations evaluates the lockset rule for one mutex.
func (m *guardModel) locksetObligations(rule string) []Obligation {
	a, p := m.a, m.p
	var out []Obligation
	mu := a.Spec.Name

	// the derived table
	tab := Obligation{Rule: rule, Construct: "guarded table of " + mu, Pos: p.Pos(a.Spec.Mu.Pos()), Verdict: Discharged}
	var gf []string
	for _, n := range m.fields {
		gf = append(gf, n)
	}
	sort.Strings(gf)
	tab.Detail = fmt.Sprintf("%d field(s) of %s are written after construction and must be accessed under %s: %s", len(gf), a.Spec.Owner.Obj().Name(), mu, strings.Join(gf, ", "))
	var ex []string
	for n, r := range m.exempt {
		ex = append(ex, "exempt "+n+": "+r)
	}
	sort.Strings(ex)
	tab.Facts = append(tab.Facts, ex...)
	if m.node {
		tab.Facts = append(tab.Facts, "guarded structs (every field): "+strings.Join(nodeGuardedStructs, ", "))
		tab.Facts = append(tab.Facts, "guarded interfaces (every method): "+strings.Join(nodeGuardedIfaces, ", ")+"; SnapshotFile values loaded from guarded fields")
		tab.Facts = append(tab.Facts, fmt.Sprintf("per-round counters shared with spawned goroutines: %d value(s)", len(m.counters)))
		for _, r := range lockExemptReasons {
			tab.Facts = append(tab.Facts, "exempt: "+r)
		}
	}
	var ctors []string
	for fn := range a.Ctors {
		ctors = append(ctors, FuncName(fn))
	}
	sort.Strings(ctors)
	tab.Facts = append(tab.Facts, "constructors (object unshared, accesses exempt): "+strings.Join(ctors, ", "))
	if len(m.problems) > 0 {
		tab.Verdict = Undecided
		tab.Detail += "; " + strings.Join(m.problems, "; ")
	}
	if len(m.fields) == 0 {
		tab.Verdict = AnchorLost
		tab.Detail = "no field of " + a.Spec.Owner.Obj().Name() + " is written after construction: the rule has no subject"
	}
	out = append(out, tab)

	type agg struct {
		fn                  *ssa.Function
		target              string
		pos                 string
		kind                string
		reads, writes, ctxs int
		charged             int
		entries             map[string]bool
	}
	aggs := map[string]*agg{}
	for _, fn := range p.SortedFuncs() {
		for _, s := range m.sites[fn] {
			for _, c := range a.Contexts(fn) {
				st := c.StateAt(s.Instr)
				v := m.need(s, st)
				if v == "unreached" {
					continue
				}
				kind := "access"
				if s.Mode == "call" {
					kind = "call"
				}
				key := FuncName(fn) + "|" + kind + "|" + s.Target
				g := aggs[key]
				if g == nil {
					g = &agg{fn: fn, target: s.Target, kind: kind, pos: p.InstrPos(s.Instr), entries: map[string]bool{}}
					aggs[key] = g
				}
				if v == "ok" {
					if s.Write {
						g.writes++
					} else {
						g.reads++
					}
					g.entries[lkString(c.Entry)] = true
					continue
				}
				if m.inheritedRelease(c, st) {
					g.charged++
					continue
				}
				ob := Obligation{Rule: rule, Pos: p.InstrPos(s.Instr),
					Construct: s.label() + ordSuffix(siteOrdinal(m, s)) + " in " + FuncName(fn)}
				if len(a.Contexts(fn)) > 1 && !a.IsRootCtx(c) {
					ob.Construct += " [entered " + lkString(c.Entry) + "]"
				}
				where := ""
				if ws := a.WindowsOf(s.Instr); len(ws) > 0 {
					where = fmt.Sprintf(" (inside unlock window #%d of %s, opened at %s)", ws[0].Ord, FuncName(fn), p.InstrPos(ws[0].Opener))
				} else if st.Openers != 0 {
					where = " (after " + mu + " was released at " + m.openerPos(c, st) + ")"
				} else {
					where = " (" + mu + " is never acquired on the way from the entry of " + FuncName(fn) + ")"
				}
				if v == "bad" {
					ob.Verdict = Violated
					ob.Detail = fmt.Sprintf("%s with %s %s%s", s.label(), mu, lkString(st.Bits), where)
					if a.Escaped[fn] {
						ob.Verdict = Undecided
						ob.Detail += "; the function is a closure value whose calling context is not visible"
					}
				} else {
					ob.Verdict = Undecided
					ob.Detail = fmt.Sprintf("%s with %s %s: held on some paths only%s", s.label(), mu, lkString(st.Bits), where)
				}
				ob.Path = a.CallerChain(c)
				out = append(out, ob)
			}
		}
		// calls that enter a callee without the mutex although the callee touches guarded state
		seenEdge := map[string]bool{}
		for _, c := range a.Contexts(fn) {
			for _, e := range c.Calls {
				if e.Go || e.Callee.Entry&(LkHeld|LkUnshared) != 0 || a.IsRootCtx(e.Callee) || m.inheritedRelease(c, e.State) {
					continue
				}
				touched := m.inherited(e.Callee, map[*LockCtx]bool{})
				if len(touched) == 0 {
					continue
				}
				in := e.Instr.(ssa.Instruction)
				key := "call " + FuncName(e.Callee.Fn) + ordSuffix(callOrdinal(in, e.Callee.Fn)) + " (touches guarded state) in " + FuncName(fn)
				if seenEdge[key] {
					continue
				}
				seenEdge[key] = true
				ob := Obligation{Rule: rule, Construct: key, Pos: p.InstrPos(in), Path: a.CallerChain(c)}
				if e.State.Bits&(LkHeld|LkUnshared) == 0 {
					ob.Verdict = Violated
					ob.Detail = fmt.Sprintf("%s is called with %s %s and performs %d guarded access(es), e.g. %s", FuncName(e.Callee.Fn), mu, lkString(e.State.Bits), len(touched), touched[0])
				} else {
					ob.Verdict = Undecided
					ob.Detail = fmt.Sprintf("%s is called with %s %s (held on some paths only) and performs %d guarded access(es)", FuncName(e.Callee.Fn), mu, lkString(e.State.Bits), len(touched))
				}
				for _, t := range touched {
					ob.Facts = append(ob.Facts, "touches: "+t)
				}
				out = append(out, ob)
			}
		}
	}
	var keys []string
	for k := range aggs {
		keys = append(keys, k)
	}
	sort.Strings(keys)
	for _, k := range keys {
		g := aggs[k]
		if g.reads+g.writes == 0 {
			continue
		}
		var es []string
		for e := range g.entries {
			es = append(es, e)
		}
		sort.Strings(es)
		ob := Obligation{Rule: rule, Construct: g.kind + " " + g.target + " in " + FuncName(g.fn), Pos: g.pos, Verdict: Discharged,
			Detail: fmt.Sprintf("%d read / %d write evaluation(s) with %s held or the object unshared (function entered: %s)", g.reads, g.writes, mu, strings.Join(es, ", "))}
		if g.kind == "call" {
			ob.Detail = fmt.Sprintf("%d call evaluation(s) with %s held or the object unshared (function entered: %s)", g.reads+g.writes, mu, strings.Join(es, ", "))
		}
		if g.charged > 0 {
			ob.Detail += fmt.Sprintf("; %d evaluation(s) in a context entered without the mutex are charged to the calling function", g.charged)
		}
		out = append(out, ob)
	}
	out = append(out, m.handlerObligations(rule)...)
	return out
}

func (m *guardModel) openerPos(c *LockCtx, st LState) string {
	var ps []string
	for id, op := range c.openers {
		if id < 64 && st.Openers&(1<<uint(id)) != 0 {
			ps = append(ps, m.p.InstrPos(op))
		}
	}
	return strings.Join(ps, ", ")
}

// handlerObligations: function-typed fields written after construction without the mutex are acceptable
// only if every write is ordered before Transport.Run (which creates the goroutines that read them).
func (m *guardModel) handlerObligations(rule string) []Obligation {
	p := m.p
	var out []Obligation
	var hs []*types.Var
	for f := range m.handlers {
		hs = append(hs, f)
	}
	sort.Slice(hs, func(i, j int) bool { return m.handlers[hs[i]] < m.handlers[hs[j]] })
	for _, f := range hs {
		ob := Obligation{Rule: rule, Construct: "unsynchronised handler registration " + m.handlers[f], Pos: p.Pos(f.Pos())}
		writers := map[*ssa.Function]bool{}
		var readers []string
		locked := true
		p.eachInstr(func(fn *ssa.Function, in ssa.Instruction) {
			switch x := in.(type) {
			case *ssa.Store:
				if m.ownerField(x.Addr) == f {
					writers[fn] = true
					if st := m.a.MergedAt(in); st.Bits&^(LkHeld|LkUnshared) != 0 {
						locked = false
					}
				}
			case *ssa.UnOp:
				if x.Op == token.MUL && m.ownerField(x.X) == f {
					readers = append(readers, FuncName(fn))
					if st := m.a.MergedAt(in); st.Bits&^(LkHeld|LkRead|LkUnshared) != 0 {
						locked = false
					}
				}
			}
		})
		if locked {
			ob.Verdict = Discharged
			ob.Detail = "every access is made under " + m.a.Spec.Name
			out = append(out, ob)
			continue
		}
		bad, good := []string{}, []string{}
		var ws []*ssa.Function
		for w := range writers {
			ws = append(ws, w)
		}
		sort.Slice(ws, func(i, j int) bool { return FuncName(ws[i]) < FuncName(ws[j]) })
		for _, w := range ws {
			nsites := 0
			p.eachInstr(func(fn *ssa.Function, in ssa.Instruction) {
				iface, meth, c := invokeOf(in)
				isCall := false
				if c != nil && iface == "Transport" && meth == w.Name() && w.Signature.Recv() != nil {
					isCall = true
				}
				if staticCallee(in) == w {
					isCall = true
				}
				if !isCall {
					return
				}
				nsites++
				// an invoke of Transport.Run in the same function that this call dominates and that cannot reach it again
				ordered := false
				for _, b := range fn.Blocks {
					for _, y := range b.Instrs {
						i2, m2, _ := invokeOf(y)
						if i2 != "Transport" || m2 != "Run" || !instrDominates(in, y) {
							continue
						}
						again := false
						scanFrom(y, func(z ssa.Instruction) bool {
							if z == in {
								again = true
							}
							return !again
						}, nil)
						if !again {
							ordered = true
						}
					}
				}
				if ordered {
					good = append(good, fmt.Sprintf("%s registers through %s at %s before Transport.Run", FuncName(fn), w.Name(), p.InstrPos(in)))
				} else {
					bad = append(bad, fmt.Sprintf("%s calls %s at %s with no later Transport.Run in the same function", FuncName(fn), w.Name(), p.InstrPos(in)))
				}
			})
			if nsites == 0 {
				bad = append(bad, FuncName(w)+" is never called in scope")
			}
		}
		sort.Strings(readers)
		ob.Facts = append(ob.Facts, good...)
		ob.Facts = append(ob.Facts, "readers (server goroutines created by Run): "+strings.Join(dedup(readers), ", "))
		if len(bad) == 0 && len(good) > 0 {
			ob.Verdict = Discharged
			ob.Detail = fmt.Sprintf("written without %s, but every writer call is made before Transport.Run in the same function (%d site(s)); the readers are goroutines created by Run", m.a.Spec.Name, len(good))
		} else {
			ob.Verdict = Violated
			ob.Detail = "handler field written without " + m.a.Spec.Name + " and not ordered before Transport.Run: " + strings.Join(bad, "; ")
		}
		out = append(out, ob)
	}
	return out
}

func dedup(xs []string) []string {
	var out []string
	for i, x := range xs {
		if i == 0 || x != xs[i-1] {
			out = append(out, x)
		}
	}
	return out
}

func ruleLockset() *Rule {
	return &Rule{
		ID: "LOCKSET",
		Text: "Guarded table derived from the source on every run: every field of Raft written after NewRaft, every field of follower/operationManager/lease " +
			"(incl. operations on the maps held in them and calls of their methods), every method of Log/StateStorage/SnapshotStorage and of SnapshotFile values " +
			"held in Raft.snapshot/follower.snapshot, and the per-round counters handed to spawned goroutines, is accessed only with Raft.mu held (or while the " +
			"object is still unshared in NewRaft). Same for transport.{running,server} under transport.mu (RLock suffices for reads) and " +
			"connectionManager.{connections,clients} under connectionManager.mu. Handler fields of transport must be registered before Transport.Run.",
		Floor: 60,
		Run: func(p *Program) []Obligation {
			var out []Obligation
			for _, name := range lockSpecs {
				a := p.Locks(name)
				if a == nil {
					out = append(out, missing("LOCKSET", "mutex "+name)...)
					continue
				}
				out = append(out, p.guardModel(a).locksetObligations("LOCKSET")...)
			}
			return out
		},
	}
}

// ---- WINDOW-CLEAN ----

func describeCall(in ssa.Instruction) string {
	ci, ok := in.(ssa.CallInstruction)
	if !ok {
		return ""
	}
	c := ci.Common()
	if c.IsInvoke() {
		if i := ifaceOf(c); i != "" {
			return i + "." + c.Method.Name()
		}
		return "(" + c.Value.Type().String() + ")." + c.Method.Name()
	}
	if _, ok := c.Value.(*ssa.Builtin); ok {
		return ""
	}
	if callee := c.StaticCallee(); callee != nil {
		if callee.Pkg != nil && !strings.HasPrefix(callee.Pkg.Pkg.Path(), ModulePath) {
			return callee.Pkg.Pkg.Name() + "." + strings.TrimPrefix(callee.RelString(callee.Pkg.Pkg), callee.Pkg.Pkg.Name()+".")
		}
		return FuncName(callee)
	}
	return "dynamic call"
}

func ruleWindowClean() *Rule {
	return &Rule{
		ID: "WINDOW-CLEAN",
		Text: "Inside every unlock window of the node mutex (between r.mu.Unlock() and the next r.mu.Lock() in the same function) only locals, parameters, " +
			"immutable fields and the thread-safe objects (transport, logger, fsm) are touched: no access of the LOCKSET table, directly or through a callee.",
		Floor: 6,
		Run: func(p *Program) []Obligation {
			a := p.Locks(nodeMutex)
			if a == nil {
				return missing("WINDOW-CLEAN", "mutex "+nodeMutex)
			}
			m := p.guardModel(a)
			var out []Obligation
			for _, fn := range p.SortedFuncs() {
				for _, w := range a.Windows(fn) {
					ob := Obligation{Rule: "WINDOW-CLEAN", Construct: fmt.Sprintf("window #%d in %s", w.Ord, FuncName(fn)), Pos: p.InstrPos(w.Opener)}
					inWin := map[ssa.Instruction]bool{}
					for _, in := range w.Instrs {
						inWin[in] = true
					}
					var bad, mixed, calls []string
					for _, s := range m.sites[fn] {
						if !inWin[s.Instr] {
							continue
						}
						for _, c := range w.Ctxs {
							switch m.need(s, c.StateAt(s.Instr)) {
							case "bad":
								bad = append(bad, fmt.Sprintf("%s at %s", s.label(), p.InstrPos(s.Instr)))
							case "mixed":
								mixed = append(mixed, fmt.Sprintf("%s at %s", s.label(), p.InstrPos(s.Instr)))
							}
						}
					}
					for _, in := range w.Instrs {
						if d := describeCall(in); d != "" {
							if op, recv := isMutexOp(in.(ssa.CallInstruction).Common()); op != "" && a.isMu(recv) {
								continue
							}
							calls = append(calls, d)
						}
					}
					for _, c := range w.Ctxs {
						for _, e := range c.Calls {
							if !inWin[e.Instr.(ssa.Instruction)] || e.Go || e.Callee.Entry&(LkHeld|LkUnshared) != 0 || a.IsRootCtx(e.Callee) {
								continue
							}
							for _, t := range m.inherited(e.Callee, map[*LockCtx]bool{}) {
								bad = append(bad, "through "+FuncName(e.Callee.Fn)+": "+t)
							}
						}
					}
					sort.Strings(bad)
					sort.Strings(mixed)
					sort.Strings(calls)
					bad, mixed, calls = dedup(bad), dedup(mixed), dedup(calls)
					ob.Facts = append(ob.Facts, fmt.Sprintf("window of %d instruction(s); calls: %s", len(w.Instrs), strings.Join(calls, ", ")))
					switch {
					case len(bad) > 0:
						ob.Verdict = Violated
						ob.Detail = fmt.Sprintf("%d guarded access(es) while %s is released, e.g. %s", len(bad), nodeMutex, bad[0])
						for _, b := range bad {
							ob.Facts = append(ob.Facts, "touches: "+b)
						}
					case len(mixed) > 0:
						ob.Verdict = Undecided
						ob.Detail = "guarded access possibly inside the window: " + mixed[0]
					default:
						ob.Verdict = Discharged
						ob.Detail = "only locals, immutable fields and thread-safe objects are touched; calls: " + strings.Join(calls, ", ")
					}
					out = append(out, ob)
				}
			}
			return out
		},
	}
}

// ---- FSM-EXCL / APPLY-RECHECK ----

type fsmSite struct {
	Instr  ssa.CallInstruction
	Fn     *ssa.Function
	Method string
	Class  string // "", "replicated", "read-only", "unknown" (Apply only)
	Key    string
	State  LState
}

// classifyApplyArg decides whether the operation handed to StateMachine.Apply is a replicated one.
func (p *Program) classifyApplyArg(v ssa.Value) string {
	opType := p.Field("Operation.OperationType")
	repl, okc := p.ConstVal("Replicated")
	if opType == nil || !okc {
		return "unknown"
	}
	var constStore func(al *ssa.Alloc, depth int) (int64, bool)
	constStore = func(al *ssa.Alloc, depth int) (int64, bool) {
		if al.Referrers() == nil || depth > 3 {
			return 0, false
		}
		for _, r := range *al.Referrers() {
			switch x := r.(type) {
			case *ssa.FieldAddr:
				if faField(x) != opType || x.Referrers() == nil {
					continue
				}
				for _, r2 := range *x.Referrers() {
					if s, ok := r2.(*ssa.Store); ok && s.Addr == x {
						if c, ok := s.Val.(*ssa.Const); ok {
							return constInt(c)
						}
						return 0, false
					}
				}
			case *ssa.Store:
				if x.Addr != al {
					continue
				}
				if u, ok := x.Val.(*ssa.UnOp); ok && u.Op == token.MUL {
					if src, ok := u.X.(*ssa.Alloc); ok {
						if v, ok := constStore(src, depth+1); ok {
							return v, true
						}
					}
				}
			}
		}
		return 0, false
	}
	switch x := v.(type) {
	case *ssa.Alloc:
		if val, ok := constStore(x, 0); ok {
			if val == repl {
				return "replicated"
			}
			return "read-only"
		}
	case *ssa.Extract:
		if nx, ok := x.Tuple.(*ssa.Next); ok && x.Index == 1 {
			if rg, ok := nx.Iter.(*ssa.Range); ok {
				if mt, ok := rg.X.Type().Underlying().(*types.Map); ok && isPtrToNamed(mt.Key(), "Operation") {
					return "read-only"
				}
			}
		}
	}
	return "unknown"
}

func (p *Program) fsmSites(a *LockAnalysis) []*fsmSite {
	var out []*fsmSite
	p.eachInstr(func(fn *ssa.Function, in ssa.Instruction) {
		iface, meth, c := invokeOf(in)
		if c == nil || iface != "StateMachine" {
			return
		}
		if meth != "Snapshot" && meth != "Restore" && meth != "Apply" {
			return
		}
		s := &fsmSite{Instr: in.(ssa.CallInstruction), Fn: fn, Method: meth}
		label := "call StateMachine." + meth
		if meth == "Apply" {
			s.Class = "unknown"
			if len(c.Args) == 1 {
				s.Class = p.classifyApplyArg(c.Args[0])
			}
			label += " (" + s.Class + ")"
		}
		n := instrOrdinal(in, func(x ssa.Instruction) bool {
			i2, m2, c2 := invokeOf(x)
			if c2 == nil || i2 != "StateMachine" || m2 != meth {
				return false
			}
			if meth == "Apply" && len(c2.Args) == 1 && p.classifyApplyArg(c2.Args[0]) != s.Class {
				return false
			}
			return true
		})
		s.Key = label + ordSuffix(n) + " in " + FuncName(fn)
		for _, cx := range a.Contexts(fn) {
			s.State = joinL(s.State, cx.StateAt(in))
		}
		out = append(out, s)
	})
	return out
}

func isLoadOf(in ssa.Instruction, f *types.Var) bool {
	u, ok := in.(*ssa.UnOp)
	if !ok || u.Op != token.MUL {
		return false
	}
	fa, ok := u.X.(*ssa.FieldAddr)
	return ok && faField(fa) == f
}

// labelAnchor: the latest load of Raft.lastApplied that executes before the call on every path.
func labelAnchor(call ssa.Instruction, f *types.Var) ssa.Instruction {
	var cands []ssa.Instruction
	for _, b := range call.Parent().Blocks {
		for _, in := range b.Instrs {
			if isLoadOf(in, f) && instrDominates(in, call) {
				cands = append(cands, in)
			}
		}
	}
	var best ssa.Instruction
	for _, c := range cands {
		if best == nil || instrDominates(best, c) {
			best = c
		}
	}
	return best
}

// recheckResult is the outcome of APPLY-RECHECK for one replicated Apply made in an unlock window.
type recheckResult struct {
	Verdict string
	Detail  string
	Facts   []string
}

func (p *Program) applyRecheck(a *LockAnalysis, s *fsmSite) recheckResult {
	lastApplied := p.Field("Raft.lastApplied")
	call := s.Instr.(ssa.Instruction)
	if s.State.Bits&^(LkHeld|LkUnshared) == 0 {
		return recheckResult{Verdict: Discharged, Detail: "the call is made with " + nodeMutex + " held: there is no window to re-check after"}
	}
	isAcquire := func(in ssa.Instruction) bool {
		ci, ok := in.(*ssa.Call)
		if !ok {
			return false
		}
		op, recv := isMutexOp(ci.Common())
		return op == "Mutex.Lock" && a.isMu(recv)
	}
	isGetEntry := func(in ssa.Instruction) bool {
		i, m, c := invokeOf(in)
		return c != nil && i == "Log" && m == "GetEntry"
	}
	isStoreLA := func(in ssa.Instruction) bool {
		_, f := storeField(in)
		return f == lastApplied
	}
	// the re-locks that close the window of this call
	var relocks []ssa.Instruction
	scanFrom(call, func(in ssa.Instruction) bool {
		if isAcquire(in) {
			relocks = append(relocks, in)
			return false
		}
		return true
	}, nil)
	if len(relocks) == 0 {
		return recheckResult{Verdict: Undecided, Detail: "no re-Lock of " + nodeMutex + " found after the call in the same function"}
	}
	var ctx *LockCtx
	for _, c := range a.Contexts(s.Fn) {
		if !c.StateAt(call).bottom() {
			ctx = c
		}
	}
	res := recheckResult{Verdict: Discharged}
	for _, l := range relocks {
		// increments that belong to this application: stores reached before the next entry is fetched
		var incs []ssa.Instruction
		scanFrom(l, func(in ssa.Instruction) bool {
			if isStoreLA(in) {
				incs = append(incs, in)
			}
			return !isGetEntry(in)
		}, nil)
		if len(incs) == 0 {
			return recheckResult{Verdict: Undecided, Detail: "no store to Raft.lastApplied follows the re-Lock at " + p.InstrPos(l) + " before the next Log.GetEntry"}
		}
		// the re-check: if fresh(lastApplied) ==/!= saved(lastApplied)
		type chk struct {
			ifI    *ssa.If
			eqEdge int
		}
		var checks []chk
		var windowOpeners []ssa.Instruction
		for _, w := range a.WindowsOf(call) {
			windowOpeners = append(windowOpeners, w.Opener)
		}
		scanFrom(l, func(in ssa.Instruction) bool {
			iff, ok := in.(*ssa.If)
			if !ok {
				return !isGetEntry(in)
			}
			cond := iff.Cond
			neg := false
			for {
				u, ok := cond.(*ssa.UnOp)
				if !ok || u.Op != token.NOT {
					break
				}
				neg = !neg
				cond = u.X
			}
			bo, ok := cond.(*ssa.BinOp)
			if !ok || (bo.Op != token.EQL && bo.Op != token.NEQ) {
				return true
			}
			for _, pair := range [][2]ssa.Value{{bo.X, bo.Y}, {bo.Y, bo.X}} {
				fresh, ok1 := pair[0].(ssa.Instruction)
				saved, ok2 := pair[1].(ssa.Instruction)
				if !ok1 || !ok2 || !isLoadOf(fresh, lastApplied) || !isLoadOf(saved, lastApplied) {
					continue
				}
				// fresh: read after the re-Lock with the mutex held since; saved: read before the Unlock with the mutex held until it
				if !instrDominates(l, fresh) || (ctx != nil && (ctx.StateAt(fresh).Bits != LkHeld || ctx.ReleaseBetween(l, fresh) != nil)) {
					continue
				}
				okSaved := len(windowOpeners) > 0
				for _, u := range windowOpeners {
					if !instrDominates(saved, u) || (ctx != nil && (ctx.StateAt(saved).Bits != LkHeld || ctx.ReleaseBetween(saved, u) != nil)) {
						okSaved = false
					}
				}
				if !okSaved {
					continue
				}
				eq := 0
				if (bo.Op == token.NEQ) != neg {
					eq = 1
				}
				checks = append(checks, chk{iff, eq})
				res.Facts = append(res.Facts, fmt.Sprintf("re-check at %s compares Raft.lastApplied read at %s (after re-Lock) with the value read at %s (before Unlock)", p.InstrPos(fresh), p.InstrPos(fresh), p.InstrPos(saved)))
			}
			return true
		}, nil)
		if len(checks) == 0 {
			return recheckResult{Verdict: Violated, Facts: res.Facts,
				Detail: fmt.Sprintf("after the window (re-Lock at %s) Raft.lastApplied is stored at %s without comparing it with the value saved before the Unlock: an InstallSnapshot that ran in the window is overwritten", p.InstrPos(l), p.InstrPos(incs[0]))}
		}
		// every increment must lie behind the equal edge of a re-check
		var unguarded ssa.Instruction
		scanFrom(l, func(in ssa.Instruction) bool {
			if isStoreLA(in) && unguarded == nil {
				unguarded = in
			}
			return !isGetEntry(in)
		}, func(b *ssa.BasicBlock, k int) bool {
			for _, c := range checks {
				if c.ifI.Block() == b {
					return k != c.eqEdge
				}
			}
			return true
		})
		if unguarded != nil {
			return recheckResult{Verdict: Violated, Facts: res.Facts,
				Detail: fmt.Sprintf("the store to Raft.lastApplied at %s is reachable from the re-Lock at %s without passing the equal edge of the re-check", p.InstrPos(unguarded), p.InstrPos(l))}
		}
		// ... and the application is accounted for: unless the re-check says that lastApplied was changed in the window
		// (its not-equal edge), no path from the re-Lock reaches the next fetch, a wait or a return without a store to
		// lastApplied. An entry that was handed to the state machine and not counted is handed to it again (by the next
		// iteration, or by the loop that a Start() after Stop() runs over the same state machine).
		var skipped ssa.Instruction
		scanFrom(l, func(in ssa.Instruction) bool {
			if isStoreLA(in) {
				return false
			}
			stop := isGetEntry(in)
			if _, isRet := in.(*ssa.Return); isRet {
				stop = true
			}
			if ci, ok := in.(*ssa.Call); ok {
				if op, _ := isMutexOp(ci.Common()); op == "Cond.Wait" {
					stop = true
				}
			}
			if stop {
				if skipped == nil {
					skipped = in
				}
				return false
			}
			return true
		}, func(b *ssa.BasicBlock, k int) bool {
			for _, c := range checks {
				if c.ifI.Block() == b {
					return k == c.eqEdge
				}
			}
			return true
		})
		if skipped != nil {
			return recheckResult{Verdict: Violated, Facts: res.Facts,
				Detail: fmt.Sprintf("after the re-Lock at %s the loop can reach %s without storing Raft.lastApplied although the re-check found it unchanged (a condition other than the re-check skips the increment): "+
					"the entry has been handed to the state machine and is not counted, so it is handed to it again — by the next iteration, or after Stop() and Start() of the same node, which keep the same state machine", p.InstrPos(l), p.InstrPos(skipped))}
		}
		res.Detail = fmt.Sprintf("after the re-Lock at %s every store to Raft.lastApplied (%d) before the next Log.GetEntry lies behind the equal edge of a comparison of Raft.lastApplied with the value saved before the Unlock, and nothing but that comparison's other edge skips the store", p.InstrPos(l), len(incs))
	}
	return res
}

func ruleFsmExcl() *Rule {
	return &Rule{
		ID: "FSM-EXCL",
		Text: "The state-machine calls that read or replace the whole state (StateMachine.Snapshot, StateMachine.Restore, StateMachine.Apply of a replicated operation) are " +
			"each made with Raft.mu held continuously from the read of their label (the latest load of Raft.lastApplied before the call) to the return of the call, " +
			"so that they exclude one another. A replicated Apply made in an unlock window is tolerated only under APPLY-RECHECK; read-only Apply is exempt.",
		Floor: 4,
		Run: func(p *Program) []Obligation {
			a := p.Locks(nodeMutex)
			lastApplied := p.Field("Raft.lastApplied")
			if a == nil || lastApplied == nil {
				return missing("FSM-EXCL", "Raft.mu / Raft.lastApplied")
			}
			sites := p.fsmSites(a)
			var out []Obligation
			for _, s := range sites {
				in := s.Instr.(ssa.Instruction)
				ob := Obligation{Rule: "FSM-EXCL", Construct: s.Key, Pos: p.InstrPos(in)}
				var partners []string
				for _, t := range sites {
					if t == s || t.Class == "read-only" {
						continue
					}
					partners = append(partners, fmt.Sprintf("%s [%s %s]", t.Key, nodeMutex, lkString(t.State.Bits)))
				}
				for _, c := range a.Contexts(s.Fn) {
					if st := c.StateAt(in); !st.bottom() {
						ob.Facts = append(ob.Facts, fmt.Sprintf("context %s entered %s: %s %s at the call", FuncName(s.Fn), lkString(c.Entry), nodeMutex, lkString(st.Bits)))
					}
				}
				anchor := labelAnchor(in, lastApplied)
				if anchor != nil {
					ob.Facts = append(ob.Facts, "label: Raft.lastApplied read at "+p.InstrPos(anchor))
				} else {
					ob.Facts = append(ob.Facts, "label: no read of Raft.lastApplied precedes the call; continuity is required from the function entry")
				}
				window := ""
				if ws := a.WindowsOf(in); len(ws) > 0 {
					window = fmt.Sprintf(" (unlock window #%d of %s, opened at %s)", ws[0].Ord, FuncName(s.Fn), p.InstrPos(ws[0].Opener))
				}
				switch {
				case s.Class == "read-only":
					ob.Verdict = Discharged
					ob.Detail = "read-only operation taken from the pending read-only table: does not replace or label the state (exempt)"
				case s.Class == "unknown":
					ob.Verdict = Undecided
					ob.Detail = "cannot tell whether the applied operation is a replicated one"
				case s.State.bottom():
					ob.Verdict = Undecided
					ob.Detail = "call site not reached by the lock-state analysis"
				case s.State.Bits&^(LkHeld|LkUnshared) == 0:
					ob.Verdict = Discharged
					ob.Detail = "made with " + nodeMutex + " " + lkString(s.State.Bits)
					// continuity from the label
					for _, c := range a.Contexts(s.Fn) {
						st := c.StateAt(in)
						if st.bottom() || st.Bits == LkUnshared {
							continue
						}
						var rel ssa.Instruction
						if anchor != nil {
							rel = c.ReleaseBetween(anchor, in)
						} else {
							for _, r := range c.Releases {
								hit := false
								scanFrom(r, func(x ssa.Instruction) bool {
									if x == in {
										hit = true
									}
									return !hit
								}, nil)
								if hit {
									rel = r
								}
							}
						}
						if rel != nil {
							ob.Verdict = Violated
							ob.Detail = fmt.Sprintf("%s is held at the call but was released at %s between the read of the label and the call: the label may be older than the state", nodeMutex, p.InstrPos(rel))
						}
					}
					if ob.Verdict == Discharged {
						ob.Detail += " continuously since the label was read"
						for _, t := range sites {
							if t != s && t.Class == "replicated" && t.State.Bits&LkReleased != 0 && s.State.Bits&LkHeld != 0 {
								ob.Facts = append(ob.Facts, "caveat: "+t.Key+" runs with "+nodeMutex+" released, so holding the mutex here does not exclude it; that pair is tolerated only through APPLY-RECHECK (a changed Raft.lastApplied is noticed after the window) and is not charged to this site")
							}
						}
					}
				case s.State.Bits&(LkHeld|LkUnshared) == 0:
					if s.Class == "replicated" {
						r := p.applyRecheck(a, s)
						if r.Verdict == Discharged {
							ob.Verdict = Discharged
							ob.Detail = "made with " + nodeMutex + " released" + window + "; tolerated because Raft.lastApplied is re-checked after the re-Lock (APPLY-RECHECK); " +
								"its overlap with Snapshot/Restore is charged to those sites"
						} else {
							ob.Verdict = r.Verdict
							ob.Detail = "made with " + nodeMutex + " released" + window + " and APPLY-RECHECK does not hold: " + r.Detail
						}
						break
					}
					ob.Verdict = Violated
					ob.Detail = "made with " + nodeMutex + " released" + window + ": not excluded from " + strings.Join(partners, "; ")
				default:
					ob.Verdict = Undecided
					ob.Detail = "made with " + nodeMutex + " " + lkString(s.State.Bits)
				}
				for _, pn := range partners {
					ob.Facts = append(ob.Facts, "other whole-state call: "+pn)
				}
				out = append(out, ob)
			}
			return out
		},
	}
}

func ruleApplyRecheck() *Rule {
	return &Rule{
		ID: "APPLY-RECHECK",
		Text: "A replicated StateMachine.Apply made in an unlock window of Raft.mu: after the re-Lock, every store to Raft.lastApplied before the next entry is fetched " +
			"(Log.GetEntry) is guarded by the equal edge of a comparison of Raft.lastApplied (read after the re-Lock) with its value saved before the Unlock, and only that comparison's other edge lets the loop go on (fetch, wait, return) without such a store.",
		Floor: 1,
		Run: func(p *Program) []Obligation {
			a := p.Locks(nodeMutex)
			if a == nil || p.Field("Raft.lastApplied") == nil {
				return missing("APPLY-RECHECK", "Raft.mu / Raft.lastApplied")
			}
			var out []Obligation
			for _, s := range p.fsmSites(a) {
				if s.Method != "Apply" || s.Class == "read-only" {
					continue
				}
				key := "re-check of Raft.lastApplied after " + strings.TrimPrefix(s.Key, "call ")
				ob := Obligation{Rule: "APPLY-RECHECK", Construct: key, Pos: p.InstrPos(s.Instr.(ssa.Instruction))}
				if s.Class == "unknown" {
					ob.Verdict = Undecided
					ob.Detail = "cannot tell whether the applied operation is a replicated one"
				} else {
					r := p.applyRecheck(a, s)
					ob.Verdict, ob.Detail, ob.Facts = r.Verdict, r.Detail, r.Facts
				}
				out = append(out, ob)
			}
			return out
		},
	}
}

// ---- LOCK-PAIR ----

// lockPairObligations evaluates the pairing discipline of one mutex.
func lockPairObligations(p *Program, a *LockAnalysis) []Obligation {
	const rule = "LOCK-PAIR"
	mu := a.Spec.Name
	var out []Obligation

	// condition variables bound to the mutex
	if st, ok := a.Spec.Owner.Underlying().(*types.Struct); ok {
		for i := 0; i < st.NumFields(); i++ {
			f := st.Field(i)
			name := a.Spec.Owner.Obj().Name() + "." + f.Name()
			if a.Spec.Conds[f] {
				out = append(out, Obligation{Rule: rule, Construct: "cond " + name + " is bound to " + mu, Pos: p.Pos(f.Pos()), Verdict: Discharged,
					Detail: "every store to the field stores sync.NewCond(&x." + a.Spec.Mu.Name() + ") of the same object: Wait releases and re-acquires " + mu})
			} else if why, bad := a.Spec.CondProblems[f]; bad {
				out = append(out, Obligation{Rule: rule, Construct: "cond " + name + " is bound to " + mu, Pos: p.Pos(f.Pos()), Verdict: Undecided,
					Detail: "cannot verify the Locker of the condition variable: " + why})
			}
		}
	}

	// events, charged to the function responsible
	type charge struct {
		definite bool
		text     string
	}
	charges := map[*ssa.Function][]charge{}
	involved := map[*ssa.Function]bool{}
	var chargeUp func(c *LockCtx, ev *LockEvent, seen map[*LockCtx]bool)
	chargeUp = func(c *LockCtx, ev *LockEvent, seen map[*LockCtx]bool) {
		if seen[c] {
			return
		}
		seen[c] = true
		n := 0
		for _, e := range c.CallersIn {
			if e.Go {
				continue
			}
			n++
			if e.State.Pristine && !a.IsRootCtx(e.Caller) && e.Caller.Entry == c.Entry {
				chargeUp(e.Caller, ev, seen)
				continue
			}
			charges[e.Caller.Fn] = append(charges[e.Caller.Fn], charge{ev.Definite && e.State.Bits == c.Entry,
				fmt.Sprintf("calls %s at %s with %s %s; there: %s (%s)", FuncName(c.Fn), p.InstrPos(e.Instr.(ssa.Instruction)), mu, lkString(e.State.Bits), ev.What, p.InstrPos(ev.Instr))})
		}
		if n == 0 {
			charges[c.Fn] = append(charges[c.Fn], charge{ev.Definite, ev.What + " at " + p.InstrPos(ev.Instr)})
		}
	}
	for _, c := range a.AllContexts() {
		if c.Touches || len(c.Waits) > 0 || len(c.Events) > 0 {
			involved[c.Fn] = true
		}
		for _, ev := range c.Events {
			switch ev.Kind {
			case "double-lock", "unlock-not-held", "exit-mismatch", "conditional-defer", "unbound-cond":
			default:
				continue // per-site obligations below
			}
			if ev.State.Pristine && !a.IsRootCtx(c) && ev.Kind != "exit-mismatch" {
				chargeUp(c, ev, map[*LockCtx]bool{})
				continue
			}
			what := ev.What
			if !a.IsRootCtx(c) || c.Entry != LkReleased {
				what += " [" + FuncName(c.Fn) + " entered " + lkString(c.Entry) + "]"
			}
			charges[c.Fn] = append(charges[c.Fn], charge{ev.Definite, what + " at " + p.InstrPos(ev.Instr)})
		}
	}
	for fn := range charges {
		involved[fn] = true
	}
	for _, fn := range p.SortedFuncs() {
		if !involved[fn] {
			continue
		}
		ob := Obligation{Rule: rule, Construct: "lock pairing of " + mu + " in " + FuncName(fn), Pos: p.Pos(fn.Pos()), Verdict: Discharged}
		var entries []string
		ops := 0
		for _, c := range a.Contexts(fn) {
			entries = append(entries, lkString(c.Entry)+"->"+lkString(c.Exit.Bits))
		}
		for _, b := range fn.Blocks {
			for _, in := range b.Instrs {
				if ci, ok := in.(ssa.CallInstruction); ok {
					if op, recv := isMutexOp(ci.Common()); op != "" && a.isMu(recv) {
						ops++
					}
				}
			}
		}
		ob.Detail = fmt.Sprintf("%d lock operation(s); entry->exit state per context: %s; no double lock, no unlock of an unlocked mutex, every return leaves the mutex as it was on entry", ops, strings.Join(entries, ", "))
		cs := charges[fn]
		sort.Slice(cs, func(i, j int) bool { return cs[i].text < cs[j].text })
		for i, c := range cs {
			if i > 0 && c.text == cs[i-1].text {
				continue
			}
			ob.Facts = append(ob.Facts, c.text)
			if c.definite {
				ob.Verdict = Violated
			} else if ob.Verdict != Violated {
				ob.Verdict = Undecided
			}
		}
		if len(cs) > 0 {
			ob.Detail = cs[0].text
			for _, c := range cs {
				if c.definite {
					ob.Detail = c.text
					break
				}
			}
			if len(ob.Facts) > 1 {
				ob.Detail += fmt.Sprintf(" (+%d more)", len(ob.Facts)-1)
			}
		}
		out = append(out, ob)
	}

	// per-site: Cond.Wait held; and for the node mutex: no unbounded wait while holding it
	p.eachInstr(func(fn *ssa.Function, in ssa.Instruction) {
		ci, ok := in.(ssa.CallInstruction)
		if !ok {
			return
		}
		cc := ci.Common()
		st := a.MergedAt(in)
		if st.bottom() {
			return
		}
		op, recv := isMutexOp(cc)
		switch {
		case op == "Cond.Wait":
			f, ok := a.condField(recv)
			if !ok {
				return
			}
			name := a.Spec.Owner.Obj().Name() + "." + f.Name()
			n := instrOrdinal(in, func(x ssa.Instruction) bool {
				c2, ok := x.(ssa.CallInstruction)
				if !ok {
					return false
				}
				o2, r2 := isMutexOp(c2.Common())
				f2, _ := a.condField(r2)
				return o2 == "Cond.Wait" && f2 == f
			})
			ob := Obligation{Rule: rule, Construct: "call (*sync.Cond).Wait on " + name + ordSuffix(n) + " in " + FuncName(fn), Pos: p.InstrPos(in)}
			switch {
			case !a.Spec.Conds[f]:
				ob.Verdict = Undecided
				ob.Detail = "the condition variable's Locker is not verified to be &" + mu
			case st.Bits == LkHeld:
				ob.Verdict = Discharged
				ob.Detail = "made with " + mu + " held (Wait unlocks it, so it must be locked)"
			case st.Bits&LkHeld == 0:
				ob.Verdict = Violated
				ob.Detail = "made with " + mu + " " + lkString(st.Bits) + ": Wait unlocks an unlocked mutex"
			default:
				ob.Verdict = Undecided
				ob.Detail = "made with " + mu + " " + lkString(st.Bits)
			}
			out = append(out, ob)
		case a.Spec.Name == nodeMutex && (isTransportSend(cc) || op == "WaitGroup.Wait"):
			what := "(*sync.WaitGroup).Wait"
			why := "waits for goroutines that need the mutex to finish"
			same := func(x ssa.Instruction) bool {
				c2, ok := x.(ssa.CallInstruction)
				if !ok {
					return false
				}
				o2, _ := isMutexOp(c2.Common())
				return o2 == "WaitGroup.Wait"
			}
			if isTransportSend(cc) {
				what = "Transport." + cc.Method.Name()
				why = "an unbounded remote call (gRPC on context.Background())"
				if cc.Method.Name() == "Shutdown" {
					why = "Shutdown waits for this node's outgoing RPCs (they hold the transport lock until the peer's handler answers) and for incoming handlers that need the node mutex: two nodes stopped together wait for each other for ever, and it"
				}
				meth := cc.Method
				same = func(x ssa.Instruction) bool {
					c2, ok := x.(ssa.CallInstruction)
					return ok && isTransportSend(c2.Common()) && c2.Common().Method == meth
				}
			}
			ob := Obligation{Rule: rule, Construct: "call " + what + ordSuffix(instrOrdinal(in, same)) + " in " + FuncName(fn), Pos: p.InstrPos(in)}
			switch {
			case st.Bits&(LkHeld|LkRead) == 0:
				ob.Verdict = Discharged
				ob.Detail = "made with " + mu + " " + lkString(st.Bits)
				if ws := a.WindowsOf(in); len(ws) > 0 {
					ob.Detail += fmt.Sprintf(" (unlock window #%d)", ws[0].Ord)
				}
			case st.Bits&^(LkHeld|LkRead) == 0:
				ob.Verdict = Violated
				ob.Detail = "made with " + mu + " held: " + why + " blocks every other user of the node"
			default:
				ob.Verdict = Undecided
				ob.Detail = "made with " + mu + " " + lkString(st.Bits)
			}
			out = append(out, ob)
		}
	})

	// field-based identity: a function must not mix two objects of the owner type
	multi := []string{}
	nfn := 0
	for _, fn := range p.SortedFuncs() {
		roots := map[ssa.Value]bool{}
		for _, b := range fn.Blocks {
			for _, in := range b.Instrs {
				fa, ok := in.(*ssa.FieldAddr)
				if ok && a.isOwnerPtr(fa.X.Type()) {
					roots[objRoot(fa.X)] = true
				}
			}
		}
		if len(roots) > 0 {
			nfn++
		}
		if len(roots) > 1 {
			multi = append(multi, FuncName(fn))
		}
	}
	id := Obligation{Rule: rule, Construct: "one " + a.Spec.Owner.Obj().Name() + " object per function (" + mu + ")", Pos: p.Pos(a.Spec.Mu.Pos()), Verdict: Discharged,
		Detail: fmt.Sprintf("each of the %d function(s) that touch a %s reaches it through a single variable, so the mutex operated and the fields accessed belong to the same object", nfn, a.Spec.Owner.Obj().Name())}
	if len(multi) > 0 {
		id.Verdict = Undecided
		id.Detail = "functions that use more than one " + a.Spec.Owner.Obj().Name() + " value (lock identity is tracked per field, not per object): " + strings.Join(multi, ", ")
	}
	out = append(out, id)

	var notes []string
	for n := range a.Notes {
		notes = append(notes, n)
	}
	sort.Strings(notes)
	rec := Obligation{Rule: rule, Construct: "call graph analysable for " + mu, Verdict: Discharged,
		Detail: fmt.Sprintf("%d context(s) of %d function(s) analysed; no recursion among in-scope functions", len(a.Ctx), len(a.byFn))}
	if len(notes) > 0 {
		rec.Verdict = Undecided
		rec.Detail = strings.Join(notes, "; ")
	}
	reasons := map[string]int{}
	for _, r := range a.Roots {
		reasons[r]++
	}
	var rs []string
	for r, n := range reasons {
		rs = append(rs, fmt.Sprintf("%d %s", n, r))
	}
	sort.Strings(rs)
	rec.Facts = append(rec.Facts, "roots (entered released; constructors entered unshared): "+strings.Join(rs, ", "))
	var esc []string
	for fn := range a.Escaped {
		esc = append(esc, FuncName(fn))
	}
	sort.Strings(esc)
	if len(esc) > 0 {
		rec.Facts = append(rec.Facts, "closure values never called directly (analysed as released; a guarded access inside one is reported undecided): "+strings.Join(esc, ", "))
	}
	gm := p.guardModel(a)
	for _, fn := range p.SortedFuncs() {
		cs := a.Contexts(fn)
		if len(cs) < 2 || (len(gm.sites[fn]) == 0 && !involved[fn]) {
			continue
		}
		var parts []string
		for _, c := range cs {
			from := strings.Join(c.CallerNames(), ", ")
			if a.IsRootCtx(c) {
				from = strings.TrimPrefix(from+", root ("+a.Roots[fn]+")", ", ")
			}
			parts = append(parts, lkString(c.Entry)+" (from "+from+")")
		}
		rec.Facts = append(rec.Facts, "entered in several lock states, analysed separately: "+FuncName(fn)+": "+strings.Join(parts, "; "))
	}
	out = append(out, rec)
	return out
}

func ruleLockPair() *Rule {
	return &Rule{
		ID: "LOCK-PAIR",
		Text: "For each of Raft.mu, transport.mu, connectionManager.mu and every function that operates it (directly or through callees): every path from a Lock reaches an Unlock " +
			"(explicit or deferred) before the function returns and a function returns with the mutex in the state it was entered with; no Lock while held (also not by calling a " +
			"locking function with the mutex held); no Unlock while not held; every (*sync.Cond).Wait is made with the mutex held on a cond created by sync.NewCond(&x.mu); " +
			"no Transport.Send* / Transport.Shutdown call and no (*sync.WaitGroup).Wait with the node mutex held.",
		Floor: 30,
		Run: func(p *Program) []Obligation {
			var out []Obligation
			for _, name := range lockSpecs {
				a := p.Locks(name)
				if a == nil {
					out = append(out, missing("LOCK-PAIR", "mutex "+name)...)
					continue
				}
				out = append(out, lockPairObligations(p, a)...)
			}
			return out
		},
	}
}
