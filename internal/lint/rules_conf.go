package lint

import (
	"fmt"
	"go/token"
	"sort"
	"strings"

	"golang.org/x/tools/go/ssa"
)

// ruleConfGuard: C09 CONF-GUARD and CONF-INFORCE.
func ruleConfGuard() *Rule {
	const id = "CONF-CHANGE"
	return &Rule{
		ID: id,
		Text: "(CONF-GUARD) every call of appendConfiguration happens with state = Leader ∧ committedThisTerm() ∧ ¬pendingConfigurationChange(); " +
			"(CONF-INFORCE) after appendConfiguration(c), on every path to the end of the critical section, r.configuration := c is stored — otherwise pendingConfigurationChange() cannot see the uncommitted change and a second change is accepted on top of the old configuration.",
		Floor: 4,
		Run: func(p *Program) []Obligation {
			appendConf := p.Func("(*Raft).appendConfiguration")
			confFld := p.Field("Raft.configuration")
			if appendConf == nil || confFld == nil {
				return missing(id, "(*Raft).appendConfiguration / Raft.configuration")
			}
			var out []Obligation
			for _, root := range p.Roots() {
				reach := false
				var args []string
				p.discover(root, func(a *Analysis, f *Frame, in ssa.Instruction) {
					if c, ok := in.(*ssa.Call); ok && c.Common().StaticCallee() == appendConf {
						reach = true
						args = append(args, p.Canon(f, c.Common().Args[1]).S)
					}
				})
				if !reach {
					continue
				}
				stateAtom := p.StateAtom()
				labels := append([]string{"no"}, args...)
				owed := GhostAtom("inForceOwed", labels...)
				sp := NewSpace(stateAtom,
					BoolAtom("committedThisTerm", "r.committedThisTerm()"),
					BoolAtom("pendingChange", "r.pendingConfigurationChange()"),
					owed)
				a := NewAnalysis(p, sp)
				type pend struct{ key, pos string }
				owedBy := map[int]pend{}
				a.Hook = func(a *Analysis, f *Frame, in ssa.Instruction, st State) State {
					if c, ok := in.(*ssa.Call); ok && c.Common().StaticCallee() == appendConf {
						n := instrOrdinal(in, func(x ssa.Instruction) bool { return staticCallee(x) == appendConf })
						key := "call appendConfiguration" + ordSuffix(n) + " in " + chainKey(f)
						a.Observe("CONF-GUARD "+key, f, in, st)
						arg := p.Canon(f, c.Common().Args[1]).S
						for i, l := range labels {
							if i > 0 && l == arg {
								owedBy[i] = pend{key, p.InstrPos(in)}
								return sp.Assign(st, 3, i)
							}
						}
						return st
					}
					if s, fld := storeField(in); s != nil && fld == confFld {
						v := p.Canon(f, s.Val).S
						return sp.Map(st, 3, func(pt, old int) uint32 {
							if old > 0 && labels[old] == v {
								return 1
							}
							return 1 << uint(old)
						})
					}
					if what, ok := a.isSectionEnd(in); ok {
						n := instrOrdinal(in, func(x ssa.Instruction) bool { _, ok := a.isSectionEndStatic(x); return ok })
						a.Observe("END "+what+ordSuffix(n)+" in "+chainKey(f), f, in, st)
						return sp.Assign(st, 3, 0)
					}
					return st
				}
				entry := sp.Filter(sp.Top(), 3, 1)
				a.RunFrame(NewRootFrame(root), entry)
				L := enumIdx(stateAtom, "Leader")
				stillOwed := map[int][]string{}
				for _, o := range a.SortedObs() {
					if strings.HasPrefix(o.Key, "CONF-GUARD") {
						out = append(out, evalObs(a, id, []*Observation{o}, func(_ *Observation, pt int) bool {
							return sp.Val(pt, 0) == L && sp.Val(pt, 1) == 1 && sp.Val(pt, 2) == 0
						}, []int{0, 1, 2}, "membership change appended only by a leader that committed this term and has no pending change")...)
						continue
					}
					for i := 1; i < len(labels); i++ {
						if !sp.Filter(o.State, 3, 1<<uint(i)).IsEmpty() {
							stillOwed[i] = append(stillOwed[i], strings.TrimPrefix(o.Key, "END ")+" ("+o.Pos+")")
						}
					}
				}
				_ = owedBy
				for i, pd := range owedBy {
					ob := Obligation{Rule: id, Construct: "CONF-INFORCE configuration in force after " + pd.key, Pos: pd.pos}
					if ends := stillOwed[i]; len(ends) > 0 {
						ob.Verdict = Violated
						ob.Detail = "the appended configuration does not become r.configuration before the critical section ends: pendingConfigurationChange() stays false, a second change is accepted while the first is uncommitted and is built from the old configuration (two changes in flight: disjoint majorities)"
						for _, e := range ends {
							ob.Facts = append(ob.Facts, "section ends without the store at: "+e)
						}
					} else {
						ob.Verdict, ob.Detail = Discharged, "r.configuration := the appended configuration before the section ends"
					}
					out = append(out, ob)
				}
			}
			out = append(out, confContent(p, id)...)
			return dedupe(out)
		},
	}
}

// confContent: the configuration appended by AddServer / RemoveServer is the clone of the configuration in force with
// exactly the requested change, and the append happens on the path that registers the future.
func confContent(p *Program, id string) []Obligation {
	var out []Obligation
	appendConf := p.Func("(*Raft).appendConfiguration")
	clone := p.Func("(*Configuration).Clone")
	for _, spec := range []struct {
		fn      string
		add     bool
		members string
	}{{"(*Raft).AddServer", true, "Members"}, {"(*Raft).RemoveServer", false, "Members"}} {
		fn := p.Func(spec.fn)
		if fn == nil {
			out = append(out, missing(id, spec.fn)...)
			continue
		}
		fr := NewRootFrame(fn)
		ob := Obligation{Rule: id, Construct: "CONF-CONTENT configuration appended by " + spec.fn, Pos: p.Pos(fn.Pos())}
		var call *ssa.Call
		for _, b := range fn.Blocks {
			for _, in := range b.Instrs {
				if c, ok := in.(*ssa.Call); ok && c.Common().StaticCallee() == appendConf {
					call = c
				}
			}
		}
		if call == nil {
			ob.Verdict = Violated
			ob.Detail = spec.fn + " never appends a configuration entry: the change is never replicated or committed although the caller is told it was accepted"
			out = append(out, ob)
			continue
		}
		ob.Pos = p.InstrPos(call)
		al := rootAlloc(call.Common().Args[1])
		if al == nil {
			ob.Verdict, ob.Detail = Undecided, "the appended configuration is not a local variable"
			out = append(out, ob)
			continue
		}
		// the local is initialised from r.configuration.Clone()
		fromClone := false
		if sv := singleStoreBefore(al, call); sv != nil {
			if c, ok := sv.(*ssa.Call); ok && c.Common().StaticCallee() == clone && p.Canon(fr, c.Common().Args[0]).S == "r.configuration" {
				fromClone = true
			}
		}
		// edits of the clone's maps that dominate the append
		edits := map[string]string{}
		for _, b := range fn.Blocks {
			for _, in := range b.Instrs {
				if !instrDominates(in, call) {
					continue
				}
				switch x := in.(type) {
				case *ssa.MapUpdate:
					if m := mapFieldOfLocal(x.Map, al); m != "" {
						edits["set "+m] = p.Canon(fr, x.Key).S + " := " + p.Canon(fr, x.Value).S
					}
				case *ssa.Call:
					if bi, ok := x.Common().Value.(*ssa.Builtin); ok && bi.Name() == "delete" {
						if m := mapFieldOfLocal(x.Common().Args[0], al); m != "" {
							edits["delete "+m] = p.Canon(fr, x.Common().Args[1]).S
						}
					}
				}
			}
		}
		var want map[string]string
		if spec.add {
			want = map[string]string{"set Members": "p0 := p1", "set IsVoter": "p0 := p2"}
		} else {
			want = map[string]string{"delete Members": "p0", "delete IsVoter": "p0"}
		}
		var bad []string
		if !fromClone {
			bad = append(bad, "the appended configuration is not a clone of r.configuration")
		}
		for k, v := range want {
			if edits[k] != v {
				bad = append(bad, fmt.Sprintf("missing or wrong edit %q (found %q, want %q)", k, edits[k], v))
			}
		}
		for k := range edits {
			if _, ok := want[k]; !ok {
				bad = append(bad, "unexpected edit "+k+" "+edits[k])
			}
		}
		if len(bad) > 0 {
			sort.Strings(bad)
			ob.Verdict = Violated
			ob.Detail = "the configuration that is appended (and later reported to the caller as committed) does not contain exactly the requested change: " + strings.Join(bad, "; ")
		} else {
			ob.Verdict, ob.Detail = Discharged, "clone of r.configuration with exactly the requested change, appended before the future is registered"
		}
		out = append(out, ob)
	}
	// REMOVED-STEPDOWN: leaving nextConfiguration as Leader although this node is not a member of the next configuration
	nc := p.Func("(*Raft).nextConfiguration")
	if nc == nil {
		return append(out, missing(id, "(*Raft).nextConfiguration")...)
	}
	stateAtom := p.StateAtom()
	sp := NewSpace(stateAtom, BoolAtom("selfInNext", "p0.Members[r.id]#1"), CmpAtom("configuration?next", "r.configuration", "p0"))
	a := NewAnalysis(p, sp)
	a.Hook = func(a *Analysis, f *Frame, in ssa.Instruction, st State) State {
		if _, ok := exitPoint(in); ok && f.Parent == nil {
			a.Observe("REMOVED-STEPDOWN exit of (*Raft).nextConfiguration", f, in, st)
		}
		// the switch itself happens in a deferred function: look at the state after the defers ran
		if _, ok := in.(*ssa.Return); ok && f.Parent == nil {
			a.Observe("CONF-SWITCH configuration in force at return of (*Raft).nextConfiguration", f, in, st)
		}
		return st
	}
	a.Run(nc, nil)
	L := enumIdx(stateAtom, "Leader")
	for _, o := range a.SortedObs() {
		if strings.HasPrefix(o.Key, "CONF-SWITCH") {
			out = append(out, evalObs(a, id, []*Observation{o}, func(_ *Observation, pt int) bool { return sp.Val(pt, 2) == EQ }, []int{2},
				"nextConfiguration(next) leaves r.configuration = next on every return")...)
			continue
		}
		out = append(out, evalObs(a, id, []*Observation{o}, func(_ *Observation, pt int) bool { return !(sp.Val(pt, 0) == L && sp.Val(pt, 1) == 0) }, []int{0, 1},
			"a leader that is not a member of the configuration it switches to steps down")...)
	}
	return out
}

// singleStoreBefore returns the value of the only whole-variable store to al that dominates `before`.
func singleStoreBefore(al *ssa.Alloc, before ssa.Instruction) ssa.Value {
	var v ssa.Value
	n := 0
	for _, r := range *al.Referrers() {
		if s, ok := r.(*ssa.Store); ok && s.Addr == al {
			n++
			if instrDominates(s, before) {
				v = s.Val
			}
		}
	}
	if n == 1 {
		return v
	}
	return nil
}

// mapFieldOfLocal returns the field name when m is the load of a map field of the local struct al.
func mapFieldOfLocal(m ssa.Value, al *ssa.Alloc) string {
	u, ok := m.(*ssa.UnOp)
	if !ok {
		return ""
	}
	fa, ok := u.X.(*ssa.FieldAddr)
	if !ok || fa.X != ssa.Value(al) {
		return ""
	}
	return fieldOf(fa.X.Type(), fa.Field).Name()
}

// ruleConfFollower: C09 CONF-TRUNC, CONF-ADOPT (handler side) and CONF-RESTORE.
func ruleConfFollower() *Rule {
	const id = "CONF-FOLLOW"
	return &Rule{
		ID: id,
		Text: "(CONF-TRUNC) when the AppendEntries handler truncates the log at an index ≤ configuration.Index it falls back, before appending, to committedConfiguration or to a configuration decoded from an entry that remains in the log (else committedConfiguration); " +
			"(CONF-ADOPT) sibling agreement: restore() and the leader adopt the latest configuration entry in the log, so every path of the handler that appends received entries must inspect their type and make the latest configuration entry the one in force; " +
			"(CONF-RESTORE) restore() scans (lastIncludedIndex, LastIndex] and stores r.configuration only from entries of type ConfigurationEntry, the previous one becoming committedConfiguration.",
		Floor: 3,
		Run: func(p *Program) []Obligation {
			root := p.Func("(*Raft).AppendEntries")
			nextConf := p.Func("(*Raft).nextConfiguration")
			if root == nil || nextConf == nil {
				return missing(id, "(*Raft).AppendEntries / (*Raft).nextConfiguration")
			}
			var out []Obligation
			// discovery: truncate argument
			truncArg := ""
			p.discover(root, func(a *Analysis, f *Frame, in ssa.Instruction) {
				if iface, m, c := invokeOf(in); iface == "Log" && m == "Truncate" {
					truncArg = p.Canon(f, c.Args[0]).S
				}
			})
			confEntry, _ := p.ConstVal("ConfigurationEntry")
			atoms := []*Atom{
				GhostAtom("truncated", "no", "yes"),
				GhostAtom("fellBack", "no", "yes"),
				GhostAtom("appended", "no", "yes"),
				GhostAtom("inspectedEntryTypes", "no", "yes"),
			}
			iCmp := -1
			if truncArg != "" {
				iCmp = len(atoms)
				atoms = append(atoms, CmpAtom("truncIndex?confIndex", truncArg, "r.configuration.Index").Hist())
			}
			sp := NewSpace(atoms...)
			a := NewAnalysis(p, sp)
			a.Hook = func(a *Analysis, f *Frame, in ssa.Instruction, st State) State {
				if iface, m, _ := invokeOf(in); iface == "Log" {
					if _, isDefer := in.(*ssa.Defer); isDefer {
						return st
					}
					switch m {
					case "Truncate":
						return sp.Assign(st, 0, 1)
					case "AppendEntries", "AppendEntry":
						a.Observe("CONF-TRUNC configuration after truncation, at Log."+m+" in "+chainKey(f), f, in, st)
						return sp.Assign(st, 2, 1)
					}
				}
				if c, ok := in.(*ssa.Call); ok && c.Common().StaticCallee() == nextConf {
					if p.Canon(f, c.Common().Args[1]).S == "r.committedConfiguration" || fallbackHelper(p, c.Common().Args[1]) {
						return sp.Assign(st, 1, 1)
					}
				}
				if iff, ok := in.(*ssa.If); ok {
					// a test of some entry's type against ConfigurationEntry
					if b, ok := iff.Cond.(*ssa.BinOp); ok {
						for _, pair := range [][2]ssa.Value{{b.X, b.Y}, {b.Y, b.X}} {
							if c, ok := pair[1].(*ssa.Const); ok {
								if v, ok := constInt(c); ok && v == confEntry && strings.HasSuffix(p.Canon(f, pair[0]).S, ".EntryType") {
									return sp.Assign(st, 3, 1)
								}
							}
						}
					}
				}
				if ret, ok := exitPoint(in); ok && f.Parent == nil && returnedError(ret) == "nil" {
					a.Observe("CONF-ADOPT exit of (*Raft).AppendEntries", f, in, st)
				}
				return st
			}
			entry := sp.Top()
			for i := 0; i < 4; i++ {
				entry = sp.Filter(entry, i, 1)
			}
			a.RunFrame(NewRootFrame(root), entry)
			adoptDone := false
			for _, o := range a.SortedObs() {
				switch {
				case strings.HasPrefix(o.Key, "CONF-TRUNC"):
					out = append(out, evalObs(a, id, []*Observation{o}, func(_ *Observation, pt int) bool {
						if sp.Val(pt, 0) == 0 || sp.Val(pt, 1) == 1 {
							return true
						}
						return iCmp >= 0 && sp.Val(pt, iCmp) == GT
					}, nil, "a truncation that removes the current configuration entry falls back to the committed configuration")...)
				case strings.HasPrefix(o.Key, "CONF-ADOPT"):
					if adoptDone {
						continue
					}
					adoptDone = true
					ob := Obligation{Rule: id, Construct: "CONF-ADOPT configuration entries received from the leader in (*Raft).AppendEntries", Pos: o.Pos}
					if why := confAdoptStructure(p, root, nextConf, confEntry); why == "" {
						ob.Verdict, ob.Detail = Discharged, "after appending, the handler looks for configuration entries among the entries it appended, decodes the one it finds and puts it in force"
					} else {
						ob.Facts = append(ob.Facts, why)
						ob.Verdict = Violated
						ob.Detail = "the handler appends received entries without ever looking at their type: a configuration entry takes effect on this node only when it is applied, while restore() and the leader use the latest configuration in the log — nodes can be two configurations apart and elect/commit with disjoint majorities"
					}
					out = append(out, ob)
				}
			}
			out = append(out, confRestore(p, id)...)
			out = append(out, confApplyMono(p, id, nextConf)...)
			return out
		},
	}
}

// confApplyMono: once followers put a configuration in force when it is appended, the configuration that is APPLIED
// can be older than the one in force (index 5 is applied after index 8 was appended). Applying must not go back:
// in applyConfiguration the switch to the applied configuration is conditioned on its index not being below
// r.configuration.Index.
func confApplyMono(p *Program, id string, nextConf *ssa.Function) []Obligation {
	fn := p.Func("(*Raft).applyConfiguration")
	if fn == nil {
		return missing(id, "(*Raft).applyConfiguration")
	}
	ob := Obligation{Rule: id, Construct: "CONF-APPLY applying a configuration never replaces a more recent one that is in force, in (*Raft).applyConfiguration", Pos: p.Pos(fn.Pos())}
	fr := NewRootFrame(fn)
	n := 0
	for _, b := range fn.Blocks {
		for _, in := range b.Instrs {
			c, ok := in.(*ssa.Call)
			if !ok || c.Common().StaticCallee() != nextConf {
				continue
			}
			n++
			guarded := false
			for _, bb := range fn.Blocks {
				iff, ok := bb.Instrs[len(bb.Instrs)-1].(*ssa.If)
				if !ok {
					continue
				}
				bo, ok := iff.Cond.(*ssa.BinOp)
				if !ok {
					continue
				}
				x, y := p.Canon(fr, bo.X).S, p.Canon(fr, bo.Y).S
				// applied.Index >= / > r.configuration.Index on the true arm (or the mirrored / negated forms)
				arm := -1
				switch {
				case y == "r.configuration.Index" && strings.HasSuffix(x, ".Index") && (bo.Op == token.GEQ || bo.Op == token.GTR):
					arm = 0
				case x == "r.configuration.Index" && strings.HasSuffix(y, ".Index") && (bo.Op == token.LEQ || bo.Op == token.LSS):
					arm = 0
				case y == "r.configuration.Index" && strings.HasSuffix(x, ".Index") && (bo.Op == token.LSS || bo.Op == token.LEQ):
					arm = 1
				case x == "r.configuration.Index" && strings.HasSuffix(y, ".Index") && (bo.Op == token.GTR || bo.Op == token.GEQ):
					arm = 1
				}
				if arm < 0 {
					continue
				}
				// every path to the call passes this arm: the other arm does not reach the call
				other := bb.Succs[1-arm]
				if other != in.Block() && !blockReaches(other, in.Block()) && (bb.Succs[arm] == in.Block() || blockReaches(bb.Succs[arm], in.Block())) {
					guarded = true
				}
			}
			if !guarded {
				ob.Verdict = Violated
				ob.Pos = p.InstrPos(in)
				ob.Detail = "applyConfiguration switches to the configuration it applies without comparing its index with r.configuration.Index: a follower that has a later configuration entry in its log (in force since it was appended) goes BACK to the earlier one when that is applied, " +
					"and holds elections with a configuration the cluster has left"
				return []Obligation{ob}
			}
		}
	}
	if n == 0 {
		ob.Verdict, ob.Detail = Undecided, "applyConfiguration does not call nextConfiguration"
	} else {
		ob.Verdict, ob.Detail = Discharged, "the switch is conditioned on the applied configuration's index not being below the index of the one in force"
	}
	return []Obligation{ob}
}

func confRestore(p *Program, id string) []Obligation {
	fn := p.Func("(*Raft).restore")
	confFld := p.Field("Raft.configuration")
	if fn == nil {
		return missing(id, "(*Raft).restore")
	}
	// discovery: the loop index (argument of GetEntry in restore)
	idx := ""
	loopLo, loopHi := false, false
	type cnd struct{ x, y, op string }
	var conds []cnd
	p.discover(fn, func(a *Analysis, f *Frame, in ssa.Instruction) {
		if f.Parent != nil {
			return
		}
		if iface, m, c := invokeOf(in); iface == "Log" && m == "GetEntry" {
			idx = p.Canon(f, c.Args[0]).S
			if phi, ok := stripConv(c.Args[0]).(*ssa.Phi); ok {
				for _, e := range phi.Edges {
					if s := p.Canon(f, e).S; s == "(1 + r.lastIncludedIndex)" {
						loopLo = true
					}
				}
			}
		}
		if x, y, ok := p.condPair(f, in); ok {
			if b, ok := in.(*ssa.If).Cond.(*ssa.BinOp); ok {
				conds = append(conds, cnd{x, y, b.Op.String()})
			}
		}
	})
	for _, c := range conds {
		if (c.x == idx && c.y == "r.log.LastIndex()" && c.op == "<=") || (c.y == idx && c.x == "r.log.LastIndex()" && c.op == ">=") ||
			(c.x == idx && c.y == "r.log.NextIndex()" && c.op == "<") || (c.y == idx && c.x == "r.log.NextIndex()" && c.op == ">") {
			loopHi = true
		}
	}
	var out []Obligation
	lb := Obligation{Rule: id, Construct: "CONF-RESTORE scan bounds in (*Raft).restore", Pos: p.Pos(fn.Pos())}
	switch {
	case idx == "":
		lb.Verdict, lb.Detail = Violated, "restore() does not read the log entries after the snapshot: a configuration appended but not yet snapshotted is lost on restart"
	case loopLo && loopHi:
		lb.Verdict, lb.Detail = Discharged, "scans lastIncludedIndex+1 .. LastIndex() inclusive"
	default:
		lb.Verdict = Undecided
		lb.Detail = fmt.Sprintf("scan bounds not recognised (starts at lastIncludedIndex+1: %v, runs while index <= LastIndex(): %v)", loopLo, loopHi)
	}
	out = append(out, lb)
	if idx == "" {
		return out
	}
	confEntry, _ := p.ConstVal("ConfigurationEntry")
	typ := EnumAtom("entryType", "r.log.GetEntry("+idx+")#0.EntryType", []int64{0, 1, confEntry}, []string{"NoOp", "Operation", "Configuration"})
	inLoop := GhostAtom("inScan", "no", "yes")
	sp := NewSpace(typ, inLoop)
	a := NewAnalysis(p, sp)
	a.Hook = func(a *Analysis, f *Frame, in ssa.Instruction, st State) State {
		// (only the read of the scanned entry starts the scan: restore may look at other entries before, e.g. the one
		// at the snapshot boundary)
		if iface, m, c := invokeOf(in); iface == "Log" && m == "GetEntry" && f.Parent == nil && p.Canon(f, c.Args[0]).S == idx {
			return sp.Assign(st, 1, 1)
		}
		if s, fld := storeField(in); s != nil && fld == confFld && f.Parent == nil {
			n := instrOrdinal(in, func(x ssa.Instruction) bool { _, fl := storeField(x); return fl == confFld })
			a.Observe("CONF-RESTORE store Raft.configuration"+ordSuffix(n)+" in (*Raft).restore", f, in, st)
		}
		return st
	}
	a.RunFrame(NewRootFrame(fn), sp.Filter(sp.Top(), 1, 1))
	nScan := 0
	for _, o := range a.SortedObs() {
		inScan := sp.Filter(o.State, 1, 1<<1)
		if inScan.IsEmpty() {
			continue // the snapshot's configuration, before the scan
		}
		nScan++
		o.State = inScan
		out = append(out, evalObs(a, id, []*Observation{o}, func(_ *Observation, pt int) bool { return sp.Val(pt, 0) == 2 }, []int{0},
			"during the scan r.configuration is taken only from entries of type ConfigurationEntry")...)
	}
	if nScan == 0 {
		out = append(out, Obligation{Rule: id, Construct: "CONF-RESTORE store Raft.configuration in the scan of (*Raft).restore", Pos: p.Pos(fn.Pos()), Verdict: Violated,
			Detail: "the scan never assigns r.configuration: configuration entries in the log are ignored on restart"})
	}
	return out
}

// ruleVoteRequests: C09/C16 only voters are asked and only voters ask.
func ruleVoteRequests() *Rule {
	const id = "VOTE-REQUESTS"
	return &Rule{
		ID:    id,
		Text:  "sendRequestVote releases the mutex to send a vote request only when both the peer and this node are voters of the configuration in force; sendRequestVoteToPeers spawns requests only for voters other than itself.",
		Floor: 2,
		Run: func(p *Program) []Obligation {
			root := p.Func("(*Raft).sendRequestVote")
			if root == nil {
				return missing(id, "(*Raft).sendRequestVote")
			}
			latch := GhostAtom("bothVotersAtLastUnlock", "no", "yes")
			sp := NewSpace(BoolAtom("peerIsVoter", "r.configuration.IsVoter[p0]"), BoolAtom("selfIsVoter", "r.configuration.IsVoter[r.id]"), latch)
			a := NewAnalysis(p, sp)
			a.Hook = func(a *Analysis, f *Frame, in ssa.Instruction, st State) State {
				if ci, ok := in.(ssa.CallInstruction); ok {
					if _, isDefer := in.(*ssa.Defer); isDefer && !a.AtRunDefers {
						return st
					}
					if op, recv := isMutexOp(ci.Common()); op == "Mutex.Unlock" && isNodeMutex(recv) {
						// remember, per concrete state, whether both were voters when the mutex was released
						return sp.Map(st, 2, func(pt, old int) uint32 {
							if sp.Val(pt, 0) == 1 && sp.Val(pt, 1) == 1 {
								return 1 << 1
							}
							return 1 << 0
						})
					}
				}
				if iface, m, _ := invokeOf(in); iface == "Transport" && m == "SendRequestVote" {
					a.Observe("call Transport.SendRequestVote in "+chainKey(f), f, in, st)
				}
				return st
			}
			a.RunFrame(NewRootFrame(root), sp.Filter(sp.Top(), 2, 1))
			out := evalObs(a, id, a.SortedObs(), func(_ *Observation, pt int) bool { return sp.Val(pt, 2) == 1 }, []int{2},
				"a vote request is sent only if, when the mutex was released for it, both the peer and this node were voters")
			if len(out) == 0 {
				out = append(out, missing(id, "Transport.SendRequestVote reachable from (*Raft).sendRequestVote")...)
			}
			// spawner
			spawner := p.Func("(*Raft).sendRequestVoteToPeers")
			if spawner == nil {
				return append(out, missing(id, "(*Raft).sendRequestVoteToPeers")...)
			}
			// discover the range key
			key := ""
			p.discover(spawner, func(a *Analysis, f *Frame, in ssa.Instruction) {
				if x, y, ok := p.condPair(f, in); ok && f.Parent == nil {
					if y == "r.id" && strings.HasPrefix(x, "%") {
						key = x
					} else if x == "r.id" && strings.HasPrefix(y, "%") {
						key = y
					}
				}
			})
			if key == "" {
				return append(out, Obligation{Rule: id, Construct: "go sendRequestVote in (*Raft).sendRequestVoteToPeers", Pos: p.Pos(spawner.Pos()), Verdict: Violated,
					Detail: "no test id ≠ self guards the spawn of vote requests"})
			}
			sp2 := NewSpace(CmpAtom("id?self", key, "r.id"), BoolAtom("idIsVoter", "r.configuration.IsVoter["+key+"]"))
			a2 := NewAnalysis(p, sp2)
			a2.Hook = func(a *Analysis, f *Frame, in ssa.Instruction, st State) State {
				if g, ok := in.(*ssa.Go); ok && g.Common().StaticCallee() == root {
					o := a.Observe("go sendRequestVote in "+chainKey(f), f, in, st)
					o.Extra["arg"] = p.Canon(f, g.Common().Args[1]).S
				}
				return st
			}
			a2.Run(spawner, nil)
			for _, o := range a2.SortedObs() {
				obs := evalObs(a2, id, []*Observation{o}, func(_ *Observation, pt int) bool { return sp2.Val(pt, 0) != EQ && sp2.Val(pt, 1) == 1 }, nil,
					"requests are spawned only for other voters")
				if o.Extra["arg"] != key {
					obs[0].Verdict, obs[0].Detail = Undecided, "the id passed to the goroutine ("+o.Extra["arg"]+") is not the tested range key "+key
				}
				out = append(out, obs...)
			}
			return out
		},
	}
}

// fallbackHelper: v is the result of an in-scope function every return of which is r.committedConfiguration (possibly
// replaced by an empty configuration when nil) or a configuration decoded from the Data of an entry fetched from the
// log with Log.GetEntry.
func fallbackHelper(p *Program, v ssa.Value) bool {
	c, ok := v.(*ssa.Call)
	if !ok {
		return false
	}
	fn := c.Common().StaticCallee()
	if fn == nil || !p.InScope[fn] {
		return false
	}
	committed := p.Field("Raft.committedConfiguration")
	var okVal func(x ssa.Value, d int) bool
	okVal = func(x ssa.Value, d int) bool {
		if d > 6 {
			return false
		}
		switch y := x.(type) {
		case *ssa.Phi:
			for _, e := range y.Edges {
				if !okVal(e, d+1) {
					return false
				}
			}
			return true
		case *ssa.UnOp:
			if y.Op == token.MUL {
				if fa, ok := y.X.(*ssa.FieldAddr); ok && fieldOf(fa.X.Type(), fa.Field) == committed {
					return true
				}
			}
		case *ssa.Alloc:
			// &Configuration{} (nothing stored, or only zero values), or a Configuration filled from DecodeConfiguration(entry.Data)
			if y.Referrers() == nil {
				return true
			}
			for _, r := range *y.Referrers() {
				st, ok := r.(*ssa.Store)
				if !ok || st.Addr != ssa.Value(y) {
					continue
				}
				ex, ok := st.Val.(*ssa.Extract)
				if !ok {
					return false
				}
				dc, ok := ex.Tuple.(*ssa.Call)
				if !ok || !strings.HasSuffix(calleeName(dc.Common()), "DecodeConfiguration") {
					return false
				}
			}
			return true
		}
		return false
	}
	rets := 0
	for _, b := range fn.Blocks {
		if ret, ok := b.Instrs[len(b.Instrs)-1].(*ssa.Return); ok && len(ret.Results) == 1 {
			rets++
			if !okVal(ret.Results[0], 0) {
				return false
			}
		}
	}
	return rets > 0
}

// confAdoptStructure returns "" if the handler, after handing a slice of entries to Log.AppendEntries, calls
// nextConfiguration with a configuration decoded from the Data of an element of that same slice, under a test of that
// element's EntryType against ConfigurationEntry; otherwise what is missing.
func confAdoptStructure(p *Program, root, nextConf *ssa.Function, confEntry int64) string {
	var appendCall ssa.Instruction
	var appended ssa.Value
	for _, b := range root.Blocks {
		for _, in := range b.Instrs {
			if iface, m, c := invokeOf(in); iface == "Log" && m == "AppendEntries" && len(c.Args) == 1 {
				if _, isDefer := in.(*ssa.Defer); !isDefer {
					appendCall, appended = in, c.Args[0]
				}
			}
		}
	}
	if appendCall == nil {
		return "no Log.AppendEntries in the handler"
	}
	elemOfAppended := func(v ssa.Value) bool {
		// v = *(&slice[i]) with slice the appended one
		u, ok := v.(*ssa.UnOp)
		if !ok || u.Op != token.MUL {
			return false
		}
		ia, ok := u.X.(*ssa.IndexAddr)
		return ok && sameSliceVar(ia.X, appended)
	}
	fr := NewRootFrame(root)
	for _, b := range root.Blocks {
		for _, in := range b.Instrs {
			c, ok := in.(*ssa.Call)
			if !ok || c.Common().StaticCallee() != nextConf || !instrBlockDominates(appendCall, in) {
				continue
			}
			al, ok := c.Common().Args[1].(*ssa.Alloc)
			if !ok || al.Referrers() == nil {
				continue
			}
			decoded := false
			for _, r := range *al.Referrers() {
				st, ok := r.(*ssa.Store)
				if !ok || st.Addr != ssa.Value(al) {
					continue
				}
				ex, ok := st.Val.(*ssa.Extract)
				if !ok {
					continue
				}
				dc, ok := ex.Tuple.(*ssa.Call)
				if !ok || !strings.HasSuffix(calleeName(dc.Common()), "DecodeConfiguration") {
					continue
				}
				// argument: load of X.Data with X an element of the appended slice
				args := dc.Common().Args
				arg := args[len(args)-1]
				if u, ok := arg.(*ssa.UnOp); ok && u.Op == token.MUL {
					if fa, ok := u.X.(*ssa.FieldAddr); ok && fieldOf(fa.X.Type(), fa.Field).Name() == "Data" && elemOfAppended(fa.X) {
						decoded = true
					}
				}
			}
			if !decoded {
				continue
			}
			// a dominating test of an element's EntryType against ConfigurationEntry
			for _, bb := range root.Blocks {
				iff, ok := bb.Instrs[len(bb.Instrs)-1].(*ssa.If)
				if !ok || !bb.Dominates(in.Block()) {
					continue
				}
				bo, ok := iff.Cond.(*ssa.BinOp)
				if !ok {
					continue
				}
				for _, pair := range [][2]ssa.Value{{bo.X, bo.Y}, {bo.Y, bo.X}} {
					if k, ok := constIntOf(pair[1]); ok && k == confEntry && strings.HasSuffix(p.Canon(fr, pair[0]).S, ".EntryType") {
						if u, ok := pair[0].(*ssa.UnOp); ok {
							if fa, ok := u.X.(*ssa.FieldAddr); ok && elemOfAppended(fa.X) {
								// the configuration put in force is the LAST configuration entry among the appended ones:
								// a scan from the end that stops at its first hit, or a scan from the start that does not stop
								l, isLoad := fa.X.(*ssa.UnOp)
								if !isLoad {
									return ""
								}
								ia, isIA := l.X.(*ssa.IndexAddr)
								if !isIA {
									return ""
								}
								descending := false
								if ph, ok := stripConv(ia.Index).(*ssa.Phi); ok {
									for _, e := range ph.Edges {
										if bo, ok := stripConv(e).(*ssa.BinOp); ok && bo.Op == token.SUB && isConstInt(bo.Y, 1) {
											descending = true
										}
									}
								}
								stops := !blockReaches(in.Block(), in.Block())
								// (a call inside a loop from which the loop head is no longer reachable is followed by a break)
								switch {
								case descending && stops, !descending && !stops:
									return ""
								case descending:
									return "the scan runs from the last appended entry to the first and does not stop at its first hit: the EARLIEST configuration entry of the request ends up in force, not the latest"
								default:
									return "the scan runs from the first appended entry and stops at its first hit: with two configuration entries in one request the EARLIER one is put in force, while the leader and restore() use the later one"
								}
							}
						}
					}
				}
			}
		}
	}
	return "no call of nextConfiguration after Log.AppendEntries with a configuration decoded from a configuration entry among the appended entries"
}
