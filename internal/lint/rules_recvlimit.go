package lint

import (
	"go/constant"

	"golang.org/x/tools/go/ssa"
)

// ruleRecvLimit: RECV-LIMIT (C15, C19).
//
// AE-BOUND bounds an AppendEntries request at 1 MiB "unless its first entry alone is larger": the sender always includes
// one entry, whatever its size, because it must. So the size of a request is bounded by what clients submit, not by the
// library — and the receiving side must not impose a smaller bound of its own: grpc.NewServer() without options rejects
// every message above 4 MiB, for ever (the request is re-sent unchanged), which stalls replication to every follower.
//
// D50: the server was created with the default limit.
func ruleRecvLimit() *Rule {
	const id = "RECV-LIMIT"
	const grpcDefault = 4 * 1024 * 1024
	return &Rule{
		ID:    id,
		Text:  "Every grpc.NewServer call of the module passes a grpc.MaxRecvMsgSize option whose constant argument exceeds gRPC's 4 MiB default (the sender's bound does not cover a single large entry).",
		Floor: 1,
		Run: func(p *Program) []Obligation {
			var out []Obligation
			for _, fn := range p.SortedFuncs() {
				var servers, limits []*ssa.Call
				for _, b := range fn.Blocks {
					for _, in := range b.Instrs {
						c, ok := in.(*ssa.Call)
						if !ok || c.Common().StaticCallee() == nil || c.Common().StaticCallee().Pkg == nil || c.Common().StaticCallee().Pkg.Pkg.Path() != "google.golang.org/grpc" {
							continue
						}
						switch c.Common().StaticCallee().Name() {
						case "NewServer":
							servers = append(servers, c)
						case "MaxRecvMsgSize":
							limits = append(limits, c)
						}
					}
				}
				for i, srv := range servers {
					ob := Obligation{Rule: id, Construct: "receive limit of the server created in " + FuncName(fn) + ordSuffix(i+1), Pos: p.InstrPos(srv)}
					best := int64(-1)
					for _, l := range limits {
						if k, ok := l.Common().Args[0].(*ssa.Const); ok && k.Value != nil && k.Value.Kind() == constant.Int {
							if v, exact := constant.Int64Val(k.Value); exact && v > best && instrReaches(l, srv) {
								best = v
							}
						}
					}
					switch {
					case best > grpcDefault:
						ob.Verdict, ob.Detail = Discharged, "the server is created with grpc.MaxRecvMsgSize above the 4 MiB default"
					case len(limits) > 0 && best < 0:
						ob.Verdict, ob.Detail = Undecided, "grpc.MaxRecvMsgSize is called with a value that is not a constant"
					default:
						ob.Verdict = Violated
						ob.Detail = "the server rejects every message above gRPC's default of 4 MiB, while the sender must put at least one log entry in a request however large it is: " +
							"one operation of that size is accepted and appended by the leader and can never be delivered to any follower; every request, heartbeats included, fails until the leader is deposed, and the next leader fares the same"
					}
					out = append(out, ob)
				}
			}
			if len(out) == 0 {
				return missing(id, "a call of grpc.NewServer")
			}
			return out
		},
	}
}
