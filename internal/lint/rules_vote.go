package lint

import (
	"golang.org/x/tools/go/ssa"
)

// voteAtoms is the vocabulary of the RequestVote handler rules.
func (p *Program) voteSpace(extra ...*Atom) *Space {
	atoms := []*Atom{
		CmpAtom("reqTerm?curTerm", "p0.Term", "r.currentTerm"),
		BoolAtom("prevote", "p0.Prevote"),
		CmpAtom("votedFor?empty", "r.votedFor", `""`),
		CmpAtom("votedFor?cand", "r.votedFor", "p0.CandidateID"),
		CmpAtom("candLastTerm?mine", "p0.LastLogTerm", "r.log.LastTerm()"),
		CmpAtom("candLastIdx?mine", "p0.LastLogIndex", "r.log.LastIndex()"),
	}
	atoms = append(atoms, extra...)
	return NewSpace(atoms...)
}

// ruleVoteGrant: C02/C07/C08 VOTE-GRANT.
func ruleVoteGrant() *Rule {
	return &Rule{
		ID: "VOTE-GRANT",
		Text: "In the RequestVote handler, on every path: the store votedFor := request.CandidateID happens only with " +
			"¬Prevote ∧ request.Term = currentTerm ∧ (votedFor = \"\" ∨ votedFor = CandidateID) ∧ candidate log ≥ own log lexicographically on (lastTerm,lastIndex); " +
			"VoteGranted := true happens only with the log restriction and (Prevote ∧ request.Term ≥ currentTerm, or the real-vote condition).",
		Floor: 2,
		Run: func(p *Program) []Obligation {
			root := p.Func("(*Raft).RequestVote")
			if root == nil {
				return missing("VOTE-GRANT", "(*Raft).RequestVote")
			}
			sp := p.voteSpace()
			a := NewAnalysis(p, sp)
			votedFor := p.Field("Raft.votedFor")
			granted := p.Field("RequestVoteResponse.VoteGranted")
			if votedFor == nil || granted == nil {
				return missing("VOTE-GRANT", "Raft.votedFor / RequestVoteResponse.VoteGranted")
			}
			a.Hook = func(a *Analysis, f *Frame, in ssa.Instruction, st State) State {
				s, fld := storeField(in)
				if s == nil {
					return st
				}
				switch fld {
				case votedFor:
					v := p.Canon(f, s.Val)
					if v.S == "p0.CandidateID" {
						n := instrOrdinal(in, func(x ssa.Instruction) bool { _, fl := storeField(x); return fl == votedFor })
						a.Observe("store Raft.votedFor := request.CandidateID"+ordSuffix(n)+" in "+chainKey(f), f, in, st).Extra["kind"] = "vote"
					}
				case granted:
					if b, ok := constBool(s.Val); ok && !b {
						return st
					}
					n := instrOrdinal(in, func(x ssa.Instruction) bool {
						sx, fl := storeField(x)
						if fl != granted {
							return false
						}
						b, ok := constBool(sx.Val)
						return !(ok && !b)
					})
					a.Observe("store response.VoteGranted := true"+ordSuffix(n)+" in "+chainKey(f), f, in, st).Extra["kind"] = "grant"
				}
				return st
			}
			a.Run(root, nil)
			iT, iP, iE, iC, iLT, iLI := 0, 1, 2, 3, 4, 5
			upToDate := func(pt int) bool {
				lt, li := sp.Val(pt, iLT), sp.Val(pt, iLI)
				return lt == GT || (lt == EQ && li != LT)
			}
			realVote := func(pt int) bool {
				return sp.Val(pt, iP) == 0 && sp.Val(pt, iT) == EQ && (sp.Val(pt, iE) == EQ || sp.Val(pt, iC) == EQ)
			}
			out := evalObs(a, "VOTE-GRANT", a.SortedObs(), func(o *Observation, pt int) bool {
				if o.Extra["kind"] == "vote" {
					return upToDate(pt) && realVote(pt)
				}
				return upToDate(pt) && ((sp.Val(pt, iP) == 1 && sp.Val(pt, iT) != LT) || realVote(pt))
			}, nil, "one-vote-per-term and log restriction")
			return out
		},
	}
}

// raftFieldStore returns the Raft field written by in (a store through a field address of *Raft).
func raftFieldStore(in ssa.Instruction) (*ssa.Store, string) {
	s, ok := in.(*ssa.Store)
	if !ok {
		return nil, ""
	}
	fa, ok := s.Addr.(*ssa.FieldAddr)
	if !ok || !isPtrToNamed(fa.X.Type(), "Raft") {
		return nil, ""
	}
	return s, fieldOf(fa.X.Type(), fa.Field).Name()
}

// ruleSticky: C16 STICKY and C08/C16 PREVOTE-PURE.
func ruleSticky() *Rule {
	const id = "STICKY"
	return &Rule{
		ID: id,
		Text: "In the RequestVote handler every write to a field of Raft, every StateStorage.SetState and every VoteGranted := true happens only after the stickiness gate was passed " +
			"(¬lease.isValid() ∧ ¬(time.Since(lastContact) < electionTimeout), evaluated on the entry state), for prevotes and real votes alike; " +
			"(PREVOTE-PURE) with Prevote set, no write to currentTerm, votedFor, state, lastContact, leaderID or operationManager and no SetState happens at all.",
		Floor: 6,
		Run: func(p *Program) []Obligation {
			root := p.Func("(*Raft).RequestVote")
			if root == nil {
				return missing(id, "(*Raft).RequestVote")
			}
			lease := BoolAtom("leaseValid", "r.operationManager.leaderLease.isValid()").Hist()
			since := CmpAtom("sinceContact?timeout", "time.Since(r.lastContact)", "r.options.electionTimeout").Hist()
			prevote := BoolAtom("prevote", "p0.Prevote")
			sp := NewSpace(lease, since, prevote)
			a := NewAnalysis(p, sp)
			granted := p.Field("RequestVoteResponse.VoteGranted")
			matched := map[string]bool{}
			a.Hook = func(a *Analysis, f *Frame, in ssa.Instruction, st State) State {
				if s, name := raftFieldStore(in); s != nil {
					n := instrOrdinal(in, func(x ssa.Instruction) bool { _, nm := raftFieldStore(x); return nm == name })
					a.Observe("store Raft."+name+ordSuffix(n)+" in "+chainKey(f), f, in, st).Extra["field"] = name
					return st
				}
				if s, fld := storeField(in); s != nil && fld == granted {
					if b, ok := constBool(s.Val); ok && !b {
						return st
					}
					a.Observe("store response.VoteGranted := true in "+chainKey(f), f, in, st).Extra["field"] = "VoteGranted"
					return st
				}
				if iface, m, _ := invokeOf(in); iface == "StateStorage" && m == "SetState" {
					a.Observe("call StateStorage.SetState in "+chainKey(f), f, in, st).Extra["field"] = "SetState"
				}
				if x, y, ok := p.condPair(f, in); ok {
					matched[x+"|"+y] = true
				}
				return st
			}
			a.Run(root, nil)
			pure := map[string]bool{"currentTerm": true, "votedFor": true, "state": true, "lastContact": true, "leaderID": true, "operationManager": true, "SetState": true}
			out := evalObs(a, id, a.SortedObs(), func(o *Observation, pt int) bool {
				gate := sp.Val(pt, 0) == 0 && sp.Val(pt, 1) != LT
				if pure[o.Extra["field"]] {
					return gate && sp.Val(pt, 2) == 0
				}
				return gate
			}, nil, "stickiness gate passed (and no state change for a prevote)")
			// the gate itself must exist: both atoms must have been matched to program terms
			if len(lease.dep.Fields) == 0 {
				out = append(out, Obligation{Rule: id, Construct: "gate: lease validity test in (*Raft).RequestVote", Verdict: Violated,
					Detail: "no branch on the leader lease's validity (r.operationManager.leaderLease.isValid()) was found in the handler: a leader with a valid lease can be deposed by any vote request"})
			}
			if len(since.dep.Fields) == 0 {
				out = append(out, Obligation{Rule: id, Construct: "gate: recent-contact test in (*Raft).RequestVote", Verdict: Violated,
					Detail: "no branch comparing time.Since(r.lastContact) with r.options.electionTimeout was found in the handler"})
			}
			return out
		},
	}
}
