package lint

import (
	"golang.org/x/tools/go/ssa"
)

// voteAtoms is the vocabulary of the RequestVote handler rules.
func (p *Program) voteSpace(extra ...*Atom) *Space {
	atoms := []*Atom{
		CmpAtom("reqTerm?curTerm", "p0.Term", "r.currentTerm"),
		BoolAtom("prevote", "p0.Prevote"),
		CmpAtom("votedFor?empty", "r.votedFor", `""`),
		CmpAtom("votedFor?cand", "r.votedFor", "p0.CandidateID"),
		CmpAtom("candLastTerm?mine", "p0.LastLogTerm", "r.log.LastTerm()"),
		CmpAtom("candLastIdx?mine", "p0.LastLogIndex", "r.log.LastIndex()"),
	}
	atoms = append(atoms, extra...)
	return NewSpace(atoms...)
}

// ruleVoteGrant: C02/C07/C08 VOTE-GRANT.
func ruleVoteGrant() *Rule {
	return &Rule{
		ID: "VOTE-GRANT",
		Text: "In the RequestVote handler, on every path: the store votedFor := request.CandidateID happens only with " +
			"¬Prevote ∧ request.Term = currentTerm ∧ (votedFor = \"\" ∨ votedFor = CandidateID) ∧ candidate log ≥ own log lexicographically on (lastTerm,lastIndex); " +
			"VoteGranted := true happens only with the log restriction and (Prevote ∧ request.Term ≥ currentTerm, or the real-vote condition).",
		Floor: 2,
		Run: func(p *Program) []Obligation {
			root := p.Func("(*Raft).RequestVote")
			if root == nil {
				return missing("VOTE-GRANT", "(*Raft).RequestVote")
			}
			sp := p.voteSpace()
			a := NewAnalysis(p, sp)
			votedFor := p.Field("Raft.votedFor")
			granted := p.Field("RequestVoteResponse.VoteGranted")
			if votedFor == nil || granted == nil {
				return missing("VOTE-GRANT", "Raft.votedFor / RequestVoteResponse.VoteGranted")
			}
			a.Hook = func(a *Analysis, f *Frame, in ssa.Instruction, st State) State {
				s, fld := storeField(in)
				if s == nil {
					return st
				}
				switch fld {
				case votedFor:
					v := p.Canon(f, s.Val)
					if v.S == "p0.CandidateID" {
						n := instrOrdinal(in, func(x ssa.Instruction) bool { _, fl := storeField(x); return fl == votedFor })
						a.Observe("store Raft.votedFor := request.CandidateID"+ordSuffix(n)+" in "+chainKey(f), f, in, st).Extra["kind"] = "vote"
					}
				case granted:
					if b, ok := constBool(s.Val); ok && !b {
						return st
					}
					n := instrOrdinal(in, func(x ssa.Instruction) bool {
						sx, fl := storeField(x)
						if fl != granted {
							return false
						}
						b, ok := constBool(sx.Val)
						return !(ok && !b)
					})
					a.Observe("store response.VoteGranted := true"+ordSuffix(n)+" in "+chainKey(f), f, in, st).Extra["kind"] = "grant"
				}
				return st
			}
			a.Run(root, nil)
			iT, iP, iE, iC, iLT, iLI := 0, 1, 2, 3, 4, 5
			upToDate := func(pt int) bool {
				lt, li := sp.Val(pt, iLT), sp.Val(pt, iLI)
				return lt == GT || (lt == EQ && li != LT)
			}
			realVote := func(pt int) bool {
				return sp.Val(pt, iP) == 0 && sp.Val(pt, iT) == EQ && (sp.Val(pt, iE) == EQ || sp.Val(pt, iC) == EQ)
			}
			out := evalObs(a, "VOTE-GRANT", a.SortedObs(), func(o *Observation, pt int) bool {
				if o.Extra["kind"] == "vote" {
					return upToDate(pt) && realVote(pt)
				}
				return upToDate(pt) && ((sp.Val(pt, iP) == 1 && sp.Val(pt, iT) != LT) || realVote(pt))
			}, nil, "one-vote-per-term and log restriction")
			return out
		},
	}
}
