package lint

import (
	"go/types"
	"reflect"
	"sort"
	"strings"

	"golang.org/x/tools/go/ssa"
)

// rulePresence: PAYLOAD-PRESENCE (C19).
//
// C19 asks that every message arrives, and every log entry is read back, "with all fields equal to what was sent - ...
// empty versus absent payloads". The payloads are Go byte slices, for which nil (absent) and []byte{} (empty) are
// different values; they travel in proto3 `bytes` fields WITHOUT presence, which put nothing on the wire for either,
// and the generated getter returns nil for both. So for each such field of a generated message that a decoder of the
// library copies into a byte slice: unless the message has a companion that carries presence (a oneof / proto3
// optional field, or a boolean `Has<Name>` the encoder sets and the decoder reads), an empty payload arrives absent.
//
// D47 (known finding): LogEntry.Data (wire and log file), InstallSnapshotRequest.Data and .Configuration.
func rulePresence() *Rule {
	const id = "PAYLOAD-PRESENCE"
	return &Rule{
		ID: id,
		Text: "For every []byte field of a generated protobuf message that an in-scope function reads (directly or through its getter) into a byte-slice field of a library type: " +
			"the field has presence on the wire (oneof / proto3 optional) or the message has a boolean Has<Name> companion; a plain proto3 bytes field delivers nil for an empty payload.",
		Floor: 3,
		Run: func(p *Program) []Obligation {
			type site struct{ fn, pos string }
			reads := map[*types.Var][]site{}
			owner := map[*types.Var]*types.Named{}
			noteField := func(fn *ssa.Function, in ssa.Instruction, st *types.Struct, named *types.Named, idx int) {
				f := st.Field(idx)
				sl, ok := f.Type().Underlying().(*types.Slice)
				if !ok {
					return
				}
				if b, ok := sl.Elem().Underlying().(*types.Basic); !ok || b.Kind() != types.Byte {
					return
				}
				tag := reflect.StructTag(st.Tag(idx)).Get("protobuf")
				if !strings.HasPrefix(tag, "bytes,") {
					return
				}
				reads[f] = append(reads[f], site{FuncName(fn), p.InstrPos(in)})
				owner[f] = named
			}
			pbStruct := func(t types.Type) (*types.Struct, *types.Named) {
				if ptr, ok := types.Unalias(t).(*types.Pointer); ok {
					t = ptr.Elem()
				}
				n, ok := types.Unalias(t).(*types.Named)
				if !ok || n.Obj().Pkg() == nil || !strings.HasPrefix(n.Obj().Pkg().Path(), ModulePath+"/internal/protobuf") {
					return nil, nil
				}
				st, ok := n.Underlying().(*types.Struct)
				if !ok {
					return nil, nil
				}
				return st, n
			}
			for _, fn := range p.SortedFuncs() {
				if fn.Pkg != nil && strings.HasPrefix(fn.Pkg.Pkg.Path(), ModulePath+"/internal/protobuf") {
					continue // the generated code itself
				}
				for _, b := range fn.Blocks {
					for _, in := range b.Instrs {
						switch x := in.(type) {
						case *ssa.FieldAddr:
							// only reads: a load of the address
							isRead := false
							for _, r := range *x.Referrers() {
								if u, ok := r.(*ssa.UnOp); ok && u.X == x {
									isRead = true
								}
							}
							if st, n := pbStruct(x.X.Type()); st != nil && isRead {
								noteField(fn, in, st, n, x.Field)
							}
						case *ssa.Call:
							callee := x.Common().StaticCallee()
							if callee == nil || callee.Signature.Recv() == nil || !strings.HasPrefix(callee.Name(), "Get") {
								continue
							}
							st, n := pbStruct(callee.Signature.Recv().Type())
							if st == nil {
								continue
							}
							for i := 0; i < st.NumFields(); i++ {
								if st.Field(i).Name() == strings.TrimPrefix(callee.Name(), "Get") {
									noteField(fn, in, st, n, i)
								}
							}
						}
					}
				}
			}
			var fields []*types.Var
			for f := range reads {
				fields = append(fields, f)
			}
			sort.Slice(fields, func(i, j int) bool {
				return owner[fields[i]].Obj().Name()+"."+fields[i].Name() < owner[fields[j]].Obj().Name()+"."+fields[j].Name()
			})
			var out []Obligation
			for _, f := range fields {
				n := owner[f]
				st := n.Underlying().(*types.Struct)
				tag := ""
				hasCompanion := false
				for i := 0; i < st.NumFields(); i++ {
					if st.Field(i) == f {
						tag = reflect.StructTag(st.Tag(i)).Get("protobuf")
					}
					if st.Field(i).Name() == "Has"+f.Name() {
						if b, ok := st.Field(i).Type().Underlying().(*types.Basic); ok && b.Kind() == types.Bool {
							hasCompanion = true
						}
					}
				}
				ob := Obligation{Rule: id, Construct: "presence of the payload " + n.Obj().Name() + "." + f.Name() + " (generated message) on the wire", Pos: reads[f][0].pos}
				for _, s := range reads[f] {
					ob.Facts = append(ob.Facts, "decoded in "+s.fn+" at "+s.pos)
				}
				ob.Facts = append(ob.Facts, "tag: "+tag)
				switch {
				case strings.Contains(tag, "oneof") || strings.Contains(tag, "proto3_optional") || hasCompanion:
					ob.Verdict, ob.Detail = Discharged, "the field has presence (or a Has"+f.Name()+" companion): an empty payload is distinguishable from an absent one"
				default:
					ob.Verdict = Violated
					ob.Detail = "a proto3 bytes field without presence: an empty payload ([]byte{}) and an absent one (nil) both put nothing on the wire and the decoder builds nil for both, " +
						"so a message or log entry sent/written with an empty non-nil payload does not arrive/read back equal"
				}
				out = append(out, ob)
			}
			if len(out) == 0 {
				return missing(id, "reads of []byte fields of generated protobuf messages")
			}
			return out
		},
	}
}
