package lint

import (
	"fmt"
	"go/token"

	"golang.org/x/tools/go/ssa"
)

// ruleRecordOffset: C12/C19 RECORD-OFFSET.
func ruleRecordOffset() *Rule {
	const id = "RECORD-OFFSET"
	return &Rule{
		ID: id,
		Text: "Every record the bundled log writes with encodeLogEntry(file, entry) for an entry that stays in the in-memory log (an element of a slice, a parameter) carries the file position it is written at: " +
			"on every path, entry.Offset := result #0 of file.Seek(0, io.SeekCurrent) on the SAME file for the SAME entry precedes the write (the Offset is serialised into the record and is what Truncate cuts the file at after a reopen). " +
			"A freshly allocated placeholder entry written at the start of a new file keeps Offset 0.",
		Floor: 2,
		Run: func(p *Program) []Obligation {
			enc := p.Func("encodeLogEntry")
			offFld := p.Field("LogEntry.Offset")
			if enc == nil || offFld == nil {
				return missing(id, "encodeLogEntry / LogEntry.Offset")
			}
			var out []Obligation
			for _, fn := range p.SortedFuncs() {
				if fn == enc {
					continue
				}
				fr := NewRootFrame(fn)
				n := 0
				for _, b := range fn.Blocks {
					for _, in := range b.Instrs {
						c, ok := in.(*ssa.Call)
						if !ok || c.Common().StaticCallee() != enc {
							continue
						}
						n++
						ob := Obligation{Rule: id, Construct: "offset of the record written by encodeLogEntry" + ordSuffix(n) + " in " + FuncName(fn), Pos: p.InstrPos(in)}
						w, e := c.Common().Args[0], c.Common().Args[1]
						if al, ok := e.(*ssa.Alloc); ok {
							// a copy of an entry that stays in memory (`c := *entry; c.Offset = …; encode(&c)`): the record gets
							// the position, the entry the log keeps does not — Truncate later seeks by the in-memory Offset
							copied := false
							for _, r := range *al.Referrers() {
								if s, ok := r.(*ssa.Store); ok && s.Addr == ssa.Value(al) {
									if u, ok := s.Val.(*ssa.UnOp); ok && u.Op == token.MUL {
										copied = true
									}
								}
							}
							if copied {
								ob.Verdict = Violated
								ob.Detail = "the record is encoded from a COPY of the entry: the position is assigned to the copy, while the entry that stays in the in-memory log keeps the offset it had in the old file; " +
									"Truncate seeks and cuts the file by the in-memory Offset, so a later conflict leaves the old suffix on disk and the replacement lands behind it (visible after a reopen)"
								out = append(out, ob)
								continue
							}
							// fresh placeholder: its Offset must not be set to anything but the zero value
							okZero := true
							for _, r := range *al.Referrers() {
								if fa, ok := r.(*ssa.FieldAddr); ok && fieldOf(fa.X.Type(), fa.Field) == offFld {
									for _, rr := range *fa.Referrers() {
										if s, ok := rr.(*ssa.Store); ok && !isConstInt(s.Val, 0) {
											okZero = false
										}
									}
								}
							}
							if okZero {
								ob.Verdict, ob.Detail = Discharged, "freshly allocated placeholder with Offset 0"
							} else {
								ob.Verdict, ob.Detail = Undecided, "fresh entry with a non-zero Offset"
							}
							out = append(out, ob)
							continue
						}
						// a store e.Offset := Seek(0, SeekCurrent)#0 on the same file that dominates the write
						found, why := false, "no assignment of entry.Offset from file.Seek(0, io.SeekCurrent) precedes the write on every path"
						wS := p.Canon(fr, w).S
						for _, b2 := range fn.Blocks {
							for _, in2 := range b2.Instrs {
								s, ok := in2.(*ssa.Store)
								if !ok {
									continue
								}
								fa, ok := s.Addr.(*ssa.FieldAddr)
								if !ok || fieldOf(fa.X.Type(), fa.Field) != offFld || fa.X != e {
									continue
								}
								if !instrDominates(in2, in) {
									why = "entry.Offset is assigned, but not on every path before the record is written (e.g. only after the file was published)"
									continue
								}
								ex, ok := s.Val.(*ssa.Extract)
								if !ok || ex.Index != 0 {
									why = "entry.Offset is assigned from " + p.Canon(fr, s.Val).S + ", not from Seek(0, io.SeekCurrent)"
									continue
								}
								sc, ok := ex.Tuple.(*ssa.Call)
								if !ok {
									continue
								}
								callee := sc.Common().StaticCallee()
								isSeek := callee != nil && callee.Name() == "Seek" && callee.Pkg != nil && callee.Pkg.Pkg.Path() == "os"
								if !isSeek && sc.Common().IsInvoke() && sc.Common().Method.Name() == "Seek" {
									isSeek = true
								}
								if !isSeek {
									continue
								}
								args := sc.Common().Args
								var file ssa.Value
								var a0, a1 ssa.Value
								if sc.Common().IsInvoke() {
									file, a0, a1 = sc.Common().Value, args[0], args[1]
								} else {
									file, a0, a1 = args[0], args[1], args[2]
								}
								if !isConstInt(a0, 0) || !isConstInt(a1, 1) {
									why = "Seek is not Seek(0, io.SeekCurrent)"
									continue
								}
								if p.Canon(fr, file).S != wS {
									why = "the offset is taken from a different file (" + p.Canon(fr, file).S + ") than the one written (" + wS + ")"
									continue
								}
								found = true
							}
						}
						if found {
							ob.Verdict, ob.Detail = Discharged, "entry.Offset := "+wS+".Seek(0, io.SeekCurrent) dominates the write"
						} else {
							ob.Verdict = Violated
							ob.Detail = why + ": the record on disk carries a stale offset; after a reopen Truncate cuts the file at the wrong place and later appends land behind garbage"
						}
						out = append(out, ob)
					}
				}
			}
			return out
		},
	}
}

var _ = token.ADD

// ruleOffsetOwner: C20 OFFSET-OWNER.
func ruleOffsetOwner() *Rule {
	const id = "OFFSET-OWNER"
	return &Rule{
		ID: id,
		Text: "LogEntry.Offset is the only field of a log entry that is rewritten after the entry was published (Compact re-positions surviving entries in place, under the node mutex that is the log's monitor), " +
			"while entries are shared by pointer with requests that are converted and sent with the mutex released. " +
			"Therefore Offset may be read or written only by code that runs inside the bundled log: methods of persistentLog and functions all of whose callers are such code (its record codec). " +
			"Any other accessor (a converter, a helper shared with the wire format) is an unsynchronised access racing with compaction.",
		Floor: 3,
		Run: func(p *Program) []Obligation {
			offFld := p.Field("LogEntry.Offset")
			if offFld == nil {
				return missing(id, "LogEntry.Offset")
			}
			internal := map[*ssa.Function]bool{}
			for fn := range p.InScope {
				if rv := fn.Signature.Recv(); rv != nil && isPtrToNamed(rv.Type(), "persistentLog") {
					internal[fn] = true
				}
			}
			for changed := true; changed; {
				changed = false
				for fn := range p.InScope {
					if internal[fn] || fn.Parent() != nil {
						continue
					}
					cs := p.Callers[fn]
					if len(cs) == 0 {
						continue
					}
					all := true
					for _, c := range cs {
						if !internal[EnclosingDeclared(c.Caller)] {
							all = false
						}
					}
					if all {
						internal[fn] = true
						changed = true
					}
				}
			}
			var out []Obligation
			for _, fn := range p.SortedFuncs() {
				n := 0
				var pos string
				for _, b := range fn.Blocks {
					for _, in := range b.Instrs {
						var fld interface{}
						switch x := in.(type) {
						case *ssa.FieldAddr:
							fld = fieldOf(x.X.Type(), x.Field)
						case *ssa.Field:
							fld = fieldOf(x.X.Type(), x.Field)
						}
						if fld == offFld {
							n++
							if pos == "" {
								pos = p.InstrPos(in)
							}
						}
					}
				}
				if n == 0 {
					continue
				}
				owner := EnclosingDeclared(fn)
				ob := Obligation{Rule: id, Construct: "access to LogEntry.Offset in " + FuncName(owner), Pos: pos}
				if internal[owner] {
					ob.Verdict, ob.Detail = Discharged, fmt.Sprintf("%d access(es); runs only inside the bundled log (under its monitor)", n)
				} else {
					var callers []string
					for _, c := range p.Callers[owner] {
						if !internal[EnclosingDeclared(c.Caller)] {
							callers = append(callers, FuncName(c.Caller)+" ("+p.InstrPos(c.Instr.(ssa.Instruction))+")")
						}
					}
					if len(callers) == 0 {
						callers = []string{"(an entry point: exported or without in-scope callers)"}
					}
					ob.Verdict = Violated
					ob.Detail = "LogEntry.Offset is accessed by code that is reachable from outside the bundled log: entries are shared by pointer with in-flight requests that are converted with the node mutex released, and Compact rewrites Offset in place — an unsynchronised conflicting access"
					ob.Facts = append([]string{"reached from outside the log through:"}, callers...)
				}
				out = append(out, ob)
			}
			return out
		},
	}
}

// ruleLogPosition: C12/C19 LOG-POSITION.
//
// A record's Offset is the position of the log file when the record is written (RECORD-OFFSET), and Truncate cuts the
// file at it. That is only the record's real position if whoever installs a new descriptor in persistentLog.file
// positions it before the log is used again: rename() (the common tail of Compact and DiscardEntries) at the end of the
// new file, Replay() at the end of the last complete record. (Opening in append mode does not replace the Seek: the
// descriptor's position is 0 until the first write. Append mode WITH the Seek behaves as today and is not reported.)
func ruleLogPosition() *Rule {
	const id = "LOG-POSITION"
	return &Rule{
		ID: id,
		Text: "Wherever the log file is cut with (*os.File).Truncate(size), Seek(size, io.SeekStart) (or Seek(0, io.SeekEnd)) on it dominates every successful return that follows; rename() and Replay() return nil only after (*os.File).Seek on the log file to its end (Seek(0, io.SeekEnd)) or to a computed offset from the start: " +
			"the position a record's Offset is taken from is the position the record is written at.",
		Floor: 4,
		Run: func(p *Program) []Obligation {
			fileFld := p.Field("persistentLog.file")
			if fileFld == nil {
				return missing(id, "persistentLog.file")
			}
			var out []Obligation
			// (c) wherever the log file is cut, it is repositioned: (*os.File).Truncate does not move the descriptor, so
			// the next write would land at the old end and leave a hole of zero bytes that Replay reads as records
			for _, fn := range p.SortedFuncs() {
				for _, b := range fn.Blocks {
					for _, in := range b.Instrs {
						c, ok := in.(*ssa.Call)
						if !ok || calleeName(c.Common()) != "(*os.File).Truncate" {
							continue
						}
						u, ok := c.Common().Args[0].(*ssa.UnOp)
						if !ok {
							continue
						}
						fa, ok := u.X.(*ssa.FieldAddr)
						if !ok || fieldOf(fa.X.Type(), fa.Field) != fileFld {
							continue
						}
						size := stripConvert(c.Common().Args[1])
						ob := Obligation{Rule: id, Construct: "log file repositioned after it is cut in " + FuncName(fn), Pos: p.InstrPos(in)}
						var seeks []ssa.Instruction
						for _, bb := range fn.Blocks {
							for _, x := range bb.Instrs {
								sc, ok := x.(*ssa.Call)
								if !ok || calleeName(sc.Common()) != "(*os.File).Seek" {
									continue
								}
								su, ok := sc.Common().Args[0].(*ssa.UnOp)
								if !ok {
									continue
								}
								sfa, ok := su.X.(*ssa.FieldAddr)
								if !ok || fieldOf(sfa.X.Type(), sfa.Field) != fileFld {
									continue
								}
								whence, okw := constIntOf(sc.Common().Args[2])
								if okw && ((whence == 0 && phiRelated(stripConvert(sc.Common().Args[1]), size)) || (whence == 2 && isConstInt(sc.Common().Args[1], 0))) {
									seeks = append(seeks, x)
								}
							}
						}
						// every path from the cut to a successful return passes a repositioning Seek
						seekIn := map[*ssa.BasicBlock]ssa.Instruction{}
						for _, sk := range seeks {
							seekIn[sk.Block()] = sk
						}
						rets, bad := 0, ""
						seen := map[*ssa.BasicBlock]bool{}
						var walk func(bb *ssa.BasicBlock, from int)
						walk = func(bb *ssa.BasicBlock, from int) {
							for i := from; i < len(bb.Instrs); i++ {
								if sk, ok := seekIn[bb]; ok && bb.Instrs[i] == sk {
									return
								}
							}
							if ret, ok := bb.Instrs[len(bb.Instrs)-1].(*ssa.Return); ok {
								if len(ret.Results) > 0 && isNilConst(returnedValue(ret, len(ret.Results)-1)) {
									rets++
									bad = p.InstrPos(ret)
								}
								return
							}
							for _, sc := range bb.Succs {
								if !seen[sc] {
									seen[sc] = true
									walk(sc, 0)
								}
							}
						}
						start := 0
						for i, x := range b.Instrs {
							if x == in {
								start = i + 1
							}
						}
						walk(b, start)
						if bad == "" {
							rets = 1
						}
						switch {
						case rets == 0:
							ob.Verdict, ob.Detail = Undecided, "no successful return after the cut"
						case bad != "":
							ob.Verdict = Violated
							ob.Detail = "the log file is cut with Truncate(size) and a successful return (" + bad + ") is reached without Seek(size, io.SeekStart) (or Seek(0, io.SeekEnd)) on it: Truncate leaves the descriptor where it was, the next append is written at the OLD end of the file and the gap reads back as zero bytes — phantom records, or a failing Replay"
						default:
							ob.Verdict, ob.Detail = Discharged, "every successful return after the cut is dominated by a Seek to the new end"
						}
						out = append(out, ob)
					}
				}
			}
			// (b) positioning before a successful return
			for _, name := range []string{"(*persistentLog).rename", "(*persistentLog).Replay"} {
				fn := p.Func(name)
				if fn == nil {
					out = append(out, missing(id, name)...)
					continue
				}
				var seeks []ssa.Instruction
				var lastStore ssa.Instruction
				for _, b := range fn.Blocks {
					for _, in := range b.Instrs {
						if st, fld := storeField(in); st != nil && fld == fileFld {
							lastStore = in
						}
						c, ok := in.(*ssa.Call)
						if !ok || calleeName(c.Common()) != "(*os.File).Seek" {
							continue
						}
						u, ok := c.Common().Args[0].(*ssa.UnOp)
						if !ok {
							continue
						}
						fa, ok := u.X.(*ssa.FieldAddr)
						if !ok || fieldOf(fa.X.Type(), fa.Field) != fileFld {
							continue
						}
						whence, okw := constIntOf(c.Common().Args[2])
						_, offConst := constIntOf(stripConvert(c.Common().Args[1]))
						if okw && ((whence == 2 && isConstInt(c.Common().Args[1], 0)) || (whence == 0 && !offConst)) {
							seeks = append(seeks, in)
						}
					}
				}
				rets := 0
				bad := ""
				for _, b := range fn.Blocks {
					ret, ok := b.Instrs[len(b.Instrs)-1].(*ssa.Return)
					if !ok || len(ret.Results) == 0 {
						continue
					}
					if !isNilConst(returnedValue(ret, len(ret.Results)-1)) {
						continue // a failing (or propagated) return
					}
					rets++
					covered := false
					for _, s := range seeks {
						if instrBlockDominates(s, ret) && (lastStore == nil || lastStore.Parent() != fn || instrBlockDominates(lastStore, s)) {
							covered = true
						}
					}
					if !covered {
						bad = p.InstrPos(ret)
					}
				}
				ob := Obligation{Rule: id, Construct: "log file positioned before " + name + " returns successfully", Pos: p.Pos(fn.Pos())}
				switch {
				case rets == 0:
					ob.Verdict, ob.Detail = Undecided, "no successful return found"
				case bad != "":
					ob.Verdict = Violated
					ob.Detail = "a successful return (" + bad + ") is not preceded by a Seek of the log file to its end / to the end of the last complete record after the descriptor was installed: the next record takes its Offset from a position that is not where it is written"
				default:
					ob.Verdict, ob.Detail = Discharged, "every successful return is dominated by a positioning Seek on the log file"
				}
				out = append(out, ob)
			}
			return out
		},
	}
}

// phiRelated: a and b are the same value, or one is a phi through which the other flows (the same source variable
// seen inside and after a loop).
func phiRelated(a, b ssa.Value) bool {
	if a == b {
		return true
	}
	var flows func(from ssa.Value, to ssa.Value, seen map[ssa.Value]bool) bool
	flows = func(from, to ssa.Value, seen map[ssa.Value]bool) bool {
		ph, ok := to.(*ssa.Phi)
		if !ok || seen[to] {
			return false
		}
		seen[to] = true
		for _, e := range ph.Edges {
			e = stripConvert(e)
			if e == from || flows(from, e, seen) {
				return true
			}
		}
		return false
	}
	if flows(a, b, map[ssa.Value]bool{}) || flows(b, a, map[ssa.Value]bool{}) {
		return true
	}
	// two phis of the same variable (loop header and loop exit) share an incoming value that is itself a phi of the web
	pa, okA := a.(*ssa.Phi)
	pb, okB := b.(*ssa.Phi)
	if okA && okB {
		for _, x := range pa.Edges {
			for _, y := range pb.Edges {
				if _, isC := stripConvert(x).(*ssa.Const); !isC && stripConvert(x) == stripConvert(y) {
					return true
				}
			}
		}
	}
	return false
}
