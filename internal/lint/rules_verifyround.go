package lint

import (
	"go/token"
	"go/types"
	"regexp"
	"strings"

	"golang.org/x/tools/go/ssa"
)

// ruleVerifyRound: C05 VERIFY-ROUND.
//
// A linearizable read may be confirmed only by a heartbeat round that was STARTED after the read was submitted: the
// replies of a round that was already in flight were produced before the read was invoked and say nothing about who
// leads at that moment (a newer leader may have committed and acknowledged a write in between; replies are not bounded
// in time). Structure demanded of the code:
//
//	MARK   every store Operation.quorumVerified := true that is reachable from a reply (sendAppendEntries) or from the
//	       start of a round (sendAppendEntriesToPeers, single-voter case) is guarded by a STRICT comparison
//	       operation.S < R between a stamp field S of that same operation and a round identifier R;
//	ROUND  R is fixed when the round is started: seen from the reply handler it is a parameter of sendAppendEntries
//	       (bound at the go statement), seen from the spawner it is the round counter C read after C was incremented in
//	       the same critical section; the go statement passes exactly that;
//	STAMP  submitReadOnlyOperation stamps the operation's S with the current value of the same counter C.
//
// An unconditional marking of everything that is pending (the pinned code) violates MARK.
func ruleVerifyRound() *Rule {
	const id = "VERIFY-ROUND"
	return &Rule{
		ID: id,
		Text: "A pending read is marked quorum-verified only under a strict comparison of a per-operation stamp with the identifier of the confirming round (stamp < round); " +
			"the round identifier is fixed when the round starts (a parameter of sendAppendEntries bound at the go statement to the round counter read after its increment in the same critical section); " +
			"submitReadOnlyOperation stamps every read with the current value of that counter. So a round that was in flight when a read was submitted can never confirm it.",
		Floor: 3,
		Run: func(p *Program) []Obligation {
			verFld := p.Field("Operation.quorumVerified")
			reply := p.Func("(*Raft).sendAppendEntries")
			spawner := p.Func("(*Raft).sendAppendEntriesToPeers")
			submit := p.Func("(*Raft).submitReadOnlyOperation")
			if verFld == nil || reply == nil || spawner == nil || submit == nil {
				return missing(id, "Operation.quorumVerified / (*Raft).sendAppendEntries / (*Raft).sendAppendEntriesToPeers / (*Raft).submitReadOnlyOperation")
			}
			paramRe := regexp.MustCompile(`^p[0-9]+$`)
			var out []Obligation
			type guard struct {
				stamp  *types.Var
				other  string // canonical, in the vocabulary of the analysis root
				strict bool
				ok     bool
			}
			// findGuard: the store through base.<quorumVerified> is dominated by the true edge of `base.S < X` (or X > base.S).
			findGuard := func(f *Frame, st *ssa.Store, base ssa.Value) guard {
				for _, b := range f.Fn.Blocks {
					if len(b.Instrs) == 0 {
						continue
					}
					iff, ok := b.Instrs[len(b.Instrs)-1].(*ssa.If)
					if !ok {
						continue
					}
					cond := iff.Cond
					neg := false
					for {
						u, ok := cond.(*ssa.UnOp)
						if !ok || u.Op != token.NOT {
							break
						}
						neg = !neg
						cond = u.X
					}
					bo, ok := cond.(*ssa.BinOp)
					if !ok {
						continue
					}
					stampOf := func(v ssa.Value) *types.Var {
						u, ok := v.(*ssa.UnOp)
						if !ok || u.Op != token.MUL {
							return nil
						}
						fa, ok := u.X.(*ssa.FieldAddr)
						if !ok || fa.X != base {
							return nil
						}
						return fieldOf(fa.X.Type(), fa.Field)
					}
					op := bo.Op
					x, y := bo.X, bo.Y
					var stamp *types.Var
					if s := stampOf(x); s != nil {
						stamp = s
					} else if s := stampOf(y); s != nil {
						stamp = s
						x, y = y, x
						op = flipOp(op)
					} else {
						continue
					}
					// which successor carries "stamp < other" / "stamp <= other"
					var succ *ssa.BasicBlock
					strict := false
					switch {
					case (op == token.LSS || op == token.LEQ) && !neg:
						succ, strict = b.Succs[0], op == token.LSS
					case (op == token.GEQ || op == token.GTR) && !neg:
						// else-edge: stamp < other (from >=) or stamp <= other (from >)
						succ, strict = b.Succs[1], op == token.GEQ
					case (op == token.LSS || op == token.LEQ) && neg:
						continue
					case (op == token.GEQ || op == token.GTR) && neg:
						succ, strict = b.Succs[0], op == token.GEQ
					default:
						continue
					}
					if len(succ.Preds) != 1 {
						continue
					}
					if succ != st.Block() && !succ.Dominates(st.Block()) {
						continue
					}
					return guard{stamp: stamp, other: p.Canon(f, y).S, strict: strict, ok: true}
				}
				return guard{}
			}
			counterTerm := "" // canonical name of the round counter, learnt from the stamping site
			var stampFld *types.Var
			// ---- STAMP
			{
				type st struct {
					fld      *types.Var
					val, pos string
				}
				var stamps []st
				p.discover(submit, func(a *Analysis, f *Frame, in ssa.Instruction) {
					if f.Parent != nil {
						return
					}
					if s, fld := storeField(in); s != nil && fld != nil && fld != verFld && fieldOfType(fld, p, "Operation") {
						stamps = append(stamps, st{fld, p.Canon(f, s.Val).S, p.InstrPos(in)})
					}
				})
				_ = stamps
				// decided below, once the marking sites have told which field is the stamp
				defer func() {}()
				// ---- MARK / ROUND, per root from which a marking store is reachable
				seenAny := false
				for _, root := range p.Roots() {
					root := root
					a := NewAnalysis(p, NewSpace(GhostAtom("counterIncremented", "no", "yes")))
					type site struct {
						o    *Observation
						g    guard
						live bool   // the operation marked is an element of a collection read from node state at this moment
						src  string // that collection
					}
					var sites []site
					var incFld *types.Var
					a.Hook = func(a *Analysis, f *Frame, in ssa.Instruction, st State) State {
						if s, fld := storeField(in); s != nil && fld == verFld {
							if b, ok := constBool(s.Val); ok && b {
								fa := s.Addr.(*ssa.FieldAddr)
								n := instrOrdinal(in, func(x ssa.Instruction) bool { sx, fl := storeField(x); return sx != nil && fl == verFld })
								o := a.Observe("MARK store Operation.quorumVerified := true"+ordSuffix(n)+" in "+chainKey(f), f, in, st)
								live, src := true, "unknown source"
								if ex, ok := fa.X.(*ssa.Extract); ok {
									if nx, ok := ex.Tuple.(*ssa.Next); ok {
										if rg, ok := nx.Iter.(*ssa.Range); ok {
											t := p.Canon(f, rg.X)
											src = t.S
											live = t.readsMemory() && !strings.HasPrefix(t.S, "@")
										}
									}
								}
								sites = append(sites, site{o, findGuard(f, s, fa.X), live, src})
							}
						}
						return st
					}
					a.Post = func(a *Analysis, f *Frame, in ssa.Instruction, st State) State {
						// an increment of a counter field (candidate round counter): remember which, set the ghost
						if s, fld := storeField(in); s != nil && fld != nil {
							loc := strings.TrimPrefix(p.Canon(f, s.Addr).S, "&")
							if incrementOf(p, f, s.Val, loc) == 1 {
								incFld = fld
								_ = incFld
								if counterTerm == "" || counterTerm == loc {
									return a.Space.Assign(st, 0, 1)
								}
							}
						}
						if op, _ := isMutexOp(callCommonOf(in)); op == "Mutex.Unlock" || op == "Cond.Wait" {
							return a.Space.Assign(st, 0, 0)
						}
						return st
					}
					a.RunFrame(NewRootFrame(root), a.Space.Assign(a.Space.Top(), 0, 0))
					if len(sites) == 0 {
						continue
					}
					seenAny = true
					dedup := map[string]bool{}
					for _, s := range sites {
						if dedup[s.o.Key] {
							continue
						}
						dedup[s.o.Key] = true
						ob := Obligation{Rule: id, Construct: s.o.Key, Pos: s.o.Pos}
						switch {
						case !s.g.ok && !s.live:
							ob.Verdict = Undecided
							ob.Detail = "the read is marked quorum-verified without a stamp/round comparison, but the operations marked are not taken from the live table of pending reads (" + s.src + "): a design this rule does not recognise (e.g. a set captured when the round was started); not decided"
						case !s.g.ok:
							ob.Verdict = Violated
							ob.Detail = "the read is marked quorum-verified without comparing a stamp of the operation with the identity of the confirming round: a heartbeat round that was already in flight when the read was submitted confirms it, " +
								"although its replies were produced before the read was invoked (a newer leader may have acknowledged a write in between; replies are not bounded in time)"
						case !s.g.strict:
							ob.Verdict = Violated
							ob.Detail = "the comparison between the operation's stamp (" + s.g.stamp.Name() + ") and the round (" + s.g.other + ") is not strict: the round that was the latest one started when the read was submitted can confirm it"
						default:
							if stampFld == nil {
								stampFld = s.g.stamp
							}
							ob.Facts = append(ob.Facts, "stamp: Operation."+s.g.stamp.Name(), "round: "+s.g.other)
							inc := a.Space.Where(s.o.State, func(pt int) bool { return a.Space.Val(pt, 0) == 0 })
							switch {
							case paramRe.MatchString(s.g.other) && FuncName(root) == "(*Raft).sendAppendEntries":
								ob.Verdict, ob.Detail = Discharged, "guarded by Operation."+s.g.stamp.Name()+" < "+s.g.other+", a parameter of the reply handler (the round's identity is bound when the round is started)"
							case inc.IsEmpty() && !paramRe.MatchString(s.g.other) && s.g.stamp == stampFld:
								ob.Verdict, ob.Detail = Discharged, "guarded by Operation."+s.g.stamp.Name()+" < "+s.g.other+", read after the round counter was incremented in the same critical section (the round starts here)"
								if counterTerm == "" {
									counterTerm = s.g.other
								}
							default:
								ob.Verdict = Violated
								ob.Detail = "the round identifier " + s.g.other + " is neither a parameter bound when the round was started nor the round counter just incremented in this critical section: read at reply time it identifies a LATER round than the one whose replies arrive"
							}
						}
						out = append(out, ob)
					}
				}
				if !seenAny {
					return missing(id, "store Operation.quorumVerified := true reachable from an entry point")
				}
				// ---- ROUND at the go statement
				if stampFld != nil {
					var goArg, goPos string
					ghostAtGo := true
					a := NewAnalysis(p, NewSpace(GhostAtom("counterIncremented", "no", "yes")))
					a.Hook = func(a *Analysis, f *Frame, in ssa.Instruction, st State) State {
						if g, ok := in.(*ssa.Go); ok && g.Common().StaticCallee() == reply && f.Parent == nil {
							// which parameter of the reply handler is the round? the one compared in the marking guard
							for i, par := range reply.Params {
								_ = par
								if i < len(g.Common().Args) {
									name := p.Canon(f, g.Common().Args[i]).S
									if !isReferenceType(g.Common().Args[i].Type()) && strings.Contains(name, ".") && !strings.HasPrefix(name, "p") {
										goArg, goPos = name, p.InstrPos(in)
										if !a.Space.Where(st, func(pt int) bool { return a.Space.Val(pt, 0) == 0 }).IsEmpty() {
											ghostAtGo = false
										}
									}
								}
							}
						}
						return st
					}
					a.Post = func(a *Analysis, f *Frame, in ssa.Instruction, st State) State {
						if s, fld := storeField(in); s != nil && fld != nil {
							loc := strings.TrimPrefix(p.Canon(f, s.Addr).S, "&")
							if incrementOf(p, f, s.Val, loc) == 1 {
								return a.Space.Assign(st, 0, 1)
							}
						}
						return st
					}
					a.RunFrame(NewRootFrame(spawner), a.Space.Assign(a.Space.Top(), 0, 0))
					ob := Obligation{Rule: id, Construct: "ROUND identifier handed to the reply handlers in (*Raft).sendAppendEntriesToPeers", Pos: goPos}
					switch {
					case goArg == "":
						ob.Verdict, ob.Detail = Violated, "the go statement that starts a reply handler passes no value read from node state: the handlers cannot know which round they belong to"
						ob.Pos = p.Pos(spawner.Pos())
					case !ghostAtGo:
						ob.Verdict, ob.Detail = Violated, "the round identifier "+goArg+" is passed without the counter having been incremented in this critical section: two rounds share an identifier, so an earlier round can confirm reads submitted before the later one"
					default:
						ob.Verdict, ob.Detail = Discharged, "each round passes "+goArg+", read after its increment in the same critical section"
						if counterTerm == "" {
							counterTerm = goArg
						}
					}
					out = append(out, ob)
					// ---- STAMP
					ob = Obligation{Rule: id, Construct: "STAMP of a read at submission in (*Raft).submitReadOnlyOperation", Pos: p.Pos(submit.Pos())}
					found := false
					for _, s := range stamps {
						if s.fld != stampFld {
							continue
						}
						found = true
						ob.Pos = s.pos
						if counterTerm != "" && ValueName(s.val) == counterTerm && !strings.Contains(s.val, "@") {
							ob.Verdict, ob.Detail = Discharged, "Operation."+stampFld.Name()+" := "+s.val+" (the number of rounds started so far)"
						} else {
							ob.Verdict, ob.Detail = Violated, "Operation."+stampFld.Name()+" := "+s.val+", must be the current value of the round counter ("+counterTerm+"): with a smaller stamp a round that is already in flight confirms the read"
						}
					}
					if !found {
						ob.Verdict, ob.Detail = Violated, "submitReadOnlyOperation never sets Operation."+stampFld.Name()+": every read carries the zero stamp and is confirmed by any round"
					}
					out = append(out, ob)
				}
			}
			return out
		},
	}
}

func fieldOfType(fld *types.Var, p *Program, typeName string) bool {
	n := p.NamedType(typeName)
	if n == nil {
		return false
	}
	st, ok := n.Underlying().(*types.Struct)
	if !ok {
		return false
	}
	for i := 0; i < st.NumFields(); i++ {
		if st.Field(i) == fld {
			return true
		}
	}
	return false
}

func callCommonOf(in ssa.Instruction) *ssa.CallCommon {
	if ci, ok := in.(ssa.CallInstruction); ok {
		return ci.Common()
	}
	return &ssa.CallCommon{}
}
