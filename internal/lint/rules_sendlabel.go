package lint

import (
	"strings"

	"golang.org/x/tools/go/ssa"
)

// ruleSendLabel: C10/C11 SEND-LABEL (sender side of a snapshot transfer).
//
// The receiver stores and restores whatever bytes arrive under the label of the request and then moves lastApplied to
// that label. So the label (index, term, configuration) of every InstallSnapshotRequest must be the metadata of the
// very file whose bytes the request carries. The node's in-memory boundary is NOT that: takeSnapshot publishes the new
// file (Close) before it re-takes the mutex and moves the boundary, so in between the newest file is ahead of the
// boundary and a request labelled from the boundary carries operations beyond its label, which the follower then
// applies a second time.
func ruleSendLabel() *Rule {
	const id = "SEND-LABEL"
	return &Rule{
		ID: id,
		Text: "In sendInstallSnapshot every InstallSnapshotRequest takes LastIncludedIndex, LastIncludedTerm and Configuration from Metadata() of the snapshot file F whose bytes it carries " +
			"(F = the reader the chunk is read from), never from the node's own boundary fields or configuration.",
		Floor: 3,
		Run: func(p *Program) []Obligation {
			root := p.Func("(*Raft).sendInstallSnapshot")
			if root == nil {
				return missing(id, "(*Raft).sendInstallSnapshot")
			}
			label := map[string]string{"LastIncludedIndex": "", "LastIncludedTerm": "", "Configuration": ""}
			pos := map[string]string{}
			var sources []string
			addSource := func(s string) {
				for _, x := range sources {
					if x == s {
						return
					}
				}
				sources = append(sources, s)
			}
			p.discover(root, func(a *Analysis, f *Frame, in ssa.Instruction) {
				if f.Parent != nil {
					return
				}
				if s, fld := storeField(in); s != nil && fld != nil {
					for name := range label {
						if fld == p.Field("InstallSnapshotRequest."+name) {
							label[name] = p.Canon(f, s.Val).S
							pos[name] = p.InstrPos(in)
						}
					}
				}
				ci, ok := in.(ssa.CallInstruction)
				if !ok {
					return
				}
				c := ci.Common()
				if c.IsInvoke() {
					if ifaceOf(c) == "SnapshotFile" && c.Method.Name() == "Read" {
						addSource(p.Canon(f, c.Value).S)
					}
					return
				}
				callee := c.StaticCallee()
				if callee == nil || callee.Pkg == nil || callee.Pkg.Pkg.Path() != "io" {
					return
				}
				switch callee.Name() {
				case "Copy", "CopyN", "CopyBuffer":
					if len(c.Args) >= 2 {
						addSource(p.Canon(f, stripIface(c.Args[1])).S)
					}
				case "ReadFull", "ReadAtLeast", "ReadAll":
					if len(c.Args) >= 1 {
						addSource(p.Canon(f, stripIface(c.Args[0])).S)
					}
				}
			})
			var out []Obligation
			if len(sources) != 1 {
				return []Obligation{{Rule: id, Construct: "source of the chunk bytes in (*Raft).sendInstallSnapshot", Pos: p.Pos(root.Pos()), Verdict: Undecided,
					Detail: "expected exactly one reader the chunk is read from (io.Copy/CopyN/ReadFull or SnapshotFile.Read), found: " + strings.Join(sources, ", ")}}
			}
			F := sources[0]
			for _, name := range []string{"LastIncludedIndex", "LastIncludedTerm", "Configuration"} {
				ob := Obligation{Rule: id, Construct: "field InstallSnapshotRequest." + name + " of the request built in (*Raft).sendInstallSnapshot", Pos: pos[name],
					Facts: []string{"value: " + label[name], "bytes read from: " + F}}
				want := F + ".Metadata()." + name
				switch {
				case label[name] == "":
					ob.Verdict, ob.Detail = AnchorLost, "no store to this field found"
				case label[name] == want:
					ob.Verdict, ob.Detail = Discharged, "= Metadata()."+name+" of the file the bytes are read from"
				default:
					ob.Verdict = Violated
					ob.Detail = "the request is labelled with " + label[name] + ", must be " + want + ": the label must describe the bytes sent; " +
						"the node's own boundary lags behind the newest snapshot file between takeSnapshot's Close and its re-locking, so a follower would install later operations under an older label and apply them again"
				}
				out = append(out, ob)
			}
			return out
		},
	}
}

func stripIface(v ssa.Value) ssa.Value {
	for {
		switch x := v.(type) {
		case *ssa.MakeInterface:
			v = x.X
		case *ssa.ChangeInterface:
			v = x.X
		default:
			return v
		}
	}
}
