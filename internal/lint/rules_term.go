package lint

import (
	"fmt"
	"go/token"
	"sort"
	"strings"

	"golang.org/x/tools/go/ssa"
)

// isLoadPlusOne reports whether v is load(field)+1.
func isLoadPlusOne(p *Program, v ssa.Value, fieldSpec string) bool {
	b, ok := v.(*ssa.BinOp)
	if !ok || b.Op != token.ADD {
		return false
	}
	isLoad := func(x ssa.Value) bool {
		u, ok := x.(*ssa.UnOp)
		if !ok || u.Op != token.MUL {
			return false
		}
		fa, ok := u.X.(*ssa.FieldAddr)
		return ok && fieldOf(fa.X.Type(), fa.Field) == p.Field(fieldSpec)
	}
	isOne := func(x ssa.Value) bool {
		c, ok := x.(*ssa.Const)
		if !ok {
			return false
		}
		v, ok := constInt(c)
		return ok && v == 1
	}
	return (isLoad(b.X) && isOne(b.Y)) || (isLoad(b.Y) && isOne(b.X))
}

// fromStateStorage reports whether v is result #idx of an invoke of StateStorage.State.
func fromStateStorage(v ssa.Value, idx int) bool {
	ex, ok := v.(*ssa.Extract)
	if !ok || ex.Index != idx {
		return false
	}
	c, ok := ex.Tuple.(*ssa.Call)
	if !ok {
		return false
	}
	return c.Common().IsInvoke() && ifaceOf(c.Common()) == "StateStorage" && c.Common().Method.Name() == "State"
}

// ruleTermVote: C02/C08 TERM-MONO, VOTE-RESET, VOTE-PERSIST as one typestate over
// (term raised?, raise owed?, dirty?) evaluated in every root that may write term or vote.
func ruleTermVote() *Rule {
	const id = "TERM-VOTE"
	return &Rule{
		ID: id,
		Text: "In every entry point that may write Raft.currentTerm or Raft.votedFor, per critical section: " +
			"(TERM-MONO) every store currentTerm := t has t = currentTerm+1, or t ≥ currentTerm on every path, or t read from StateStorage.State(); " +
			"(VOTE-RESET) a store that clears or re-assigns votedFor (other than the grant checked by VOTE-GRANT) is accompanied, in the same critical section, by a strict increase of currentTerm; " +
			"(VOTE-PERSIST) after any such store a StateStorage.SetState(currentTerm, votedFor) whose error is fatal happens before the mutex is released, before any transport send and before the entry point returns.",
		Floor: 6,
		Run: func(p *Program) []Obligation {
			curTerm, votedFor := p.Field("Raft.currentTerm"), p.Field("Raft.votedFor")
			if curTerm == nil || votedFor == nil {
				return missing(id, "Raft.currentTerm / Raft.votedFor")
			}
			var out []Obligation
			for _, root := range p.Roots() {
				if !p.writesAny(root, curTerm, votedFor) {
					continue
				}
				out = append(out, termVoteRoot(p, id, root)...)
			}
			return out
		},
	}
}

func termVoteRoot(p *Program, id string, root *ssa.Function) []Obligation {
	curTerm, votedFor := p.Field("Raft.currentTerm"), p.Field("Raft.votedFor")
	storeKey := func(f *Frame, in ssa.Instruction, fld string) string {
		fv := p.Field(fld)
		n := instrOrdinal(in, func(x ssa.Instruction) bool { _, fl := storeField(x); return fl == fv })
		return "store " + fld + ordSuffix(n) + " in " + chainKey(f)
	}
	// pass 1: discover the values stored to currentTerm, the comparisons between terms and the write sites
	termVals := map[string]bool{}
	var pairs [][2]string
	siteSet := map[string]bool{}
	p.discover(root, func(a *Analysis, f *Frame, in ssa.Instruction) {
		if s, fld := storeField(in); s != nil && (fld == curTerm || fld == votedFor) {
			if fld == curTerm {
				siteSet[storeKey(f, in, "Raft.currentTerm")] = true
				if isLoadPlusOne(p, s.Val, "Raft.currentTerm") || fromStateStorage(s.Val, 0) {
					return
				}
				termVals[p.Canon(f, s.Val).S] = true
			} else {
				siteSet[storeKey(f, in, "Raft.votedFor")] = true
			}
		}
		if x, y, ok := p.condPair(f, in); ok {
			pairs = append(pairs, [2]string{x, y})
		}
	})
	var sites []string
	for k := range siteSet {
		sites = append(sites, k)
	}
	sort.Strings(sites)
	siteIdx := func(k string) int {
		for i, s := range sites {
			if s == k {
				return i + 1
			}
		}
		return 0
	}
	// atoms: target comparisons plus comparisons connected to them (two hops)
	const cur = "r.currentTerm"
	interesting := map[string]bool{cur: true}
	for v := range termVals {
		interesting[v] = true
	}
	var atoms []*Atom
	have := map[string]bool{}
	add := func(x, y string) {
		if x == y {
			return
		}
		k1, k2 := x+"|"+y, y+"|"+x
		if have[k1] || have[k2] || len(atoms) >= 5 {
			return
		}
		have[k1] = true
		atoms = append(atoms, CmpAtom(x+"?"+y, x, y))
	}
	var vals []string
	for v := range termVals {
		vals = append(vals, v)
	}
	sort.Strings(vals)
	for _, v := range vals {
		add(v, cur)
	}
	for hop := 0; hop < 2; hop++ {
		for _, pr := range pairs {
			if interesting[pr[0]] && interesting[pr[1]] {
				add(pr[0], pr[1])
			}
		}
		for _, pr := range pairs {
			if interesting[pr[0]] != interesting[pr[1]] {
				other := pr[1]
				if interesting[pr[1]] {
					other = pr[0]
				}
				if strings.HasSuffix(other, "Term") {
					interesting[other] = true
				}
			}
		}
	}
	nCmp := len(atoms)
	raised := GhostAtom("termRaised", "no", "yes")
	siteLabels := append([]string{"no"}, sites...)
	owed := GhostAtom("raiseOwedBy", siteLabels...)
	dirty := GhostAtom("unpersisted", siteLabels...)
	atoms = append(atoms, raised, owed, dirty)
	sp := NewSpace(atoms...)
	iR, iO, iD := nCmp, nCmp+1, nCmp+2
	a := NewAnalysis(p, sp)
	entry := sp.Top()
	entry = sp.Filter(entry, iR, 1)
	entry = sp.Filter(entry, iO, 1)
	entry = sp.Filter(entry, iD, 1)

	cmpIdx := func(v string) int {
		for i := 0; i < nCmp; i++ {
			if atoms[i].A == v && atoms[i].B == cur {
				return i
			}
		}
		return -1
	}
	a.Hook = func(a *Analysis, f *Frame, in ssa.Instruction, st State) State {
		if s, fld := storeField(in); s != nil && (fld == curTerm || fld == votedFor) {
			inRestore := FuncName(EnclosingDeclared(f.Fn)) == "(*Raft).restore"
			if fld == curTerm {
				key := storeKey(f, in, "Raft.currentTerm")
				si := siteIdx(key)
				switch {
				case fromStateStorage(s.Val, 0) && inRestore:
					a.Observe("TERM-MONO "+key, f, in, st).Extra["kind"] = "restore"
					return st
				case isLoadPlusOne(p, s.Val, "Raft.currentTerm"):
					a.Observe("TERM-MONO "+key, f, in, st).Extra["kind"] = "increment"
					st = sp.Assign(st, iR, 1)
					st = sp.Assign(st, iO, 0)
					return sp.Assign(st, iD, si)
				}
				v := p.Canon(f, s.Val).S
				ci := cmpIdx(v)
				o := a.Observe("TERM-MONO "+key, f, in, st)
				o.Extra["kind"] = "assign"
				o.Extra["value"] = v
				if ci < 0 {
					o.Extra["atom"] = "none"
					return sp.Assign(st, iD, si)
				}
				o.Extra["atom"] = fmt.Sprint(ci)
				gt := sp.Filter(st, ci, 1<<GT)
				rest := sp.Filter(st, ci, 1<<LT|1<<EQ)
				gt = sp.Assign(sp.Assign(gt, iR, 1), iO, 0)
				st = Union(gt, rest)
				return sp.Assign(st, iD, si)
			}
			key := storeKey(f, in, "Raft.votedFor")
			si := siteIdx(key)
			if fromStateStorage(s.Val, 1) && inRestore {
				return st
			}
			v := p.Canon(f, s.Val).S
			if v == "p0.CandidateID" && FuncName(f.Root().Fn) == "(*Raft).RequestVote" {
				// the grant: guarded by VOTE-GRANT. The vote is now cast: a later reset needs a new raise.
				a.Observe("VOTE-WRITE "+key, f, in, st).Extra["value"] = v + " (the grant; guarded by rule VOTE-GRANT)"
				st = sp.Assign(st, iR, 0)
				return sp.Assign(st, iD, si)
			}
			a.Observe("VOTE-WRITE "+key, f, in, st).Extra["value"] = v
			no := sp.Filter(st, iR, 1<<0)
			yes := sp.Filter(st, iR, 1<<1)
			no = sp.Assign(no, iO, si)
			st = Union(no, yes)
			if v != `""` {
				st = sp.Assign(st, iR, 0)
			}
			return sp.Assign(st, iD, si)
		}
		if iface, m, c := invokeOf(in); iface == "StateStorage" && m == "SetState" {
			if _, isDefer := in.(*ssa.Defer); isDefer && !a.AtRunDefers {
				return st
			}
			t0, t1 := p.Canon(f, c.Args[0]).S, p.Canon(f, c.Args[1]).S
			n := instrOrdinal(in, func(x ssa.Instruction) bool { i, mm, _ := invokeOf(x); return i == "StateStorage" && mm == "SetState" })
			o := a.Observe("PERSIST-ARGS call StateStorage.SetState"+ordSuffix(n)+" in "+FuncName(f.Fn), f, in, st)
			o.Extra["args"] = t0 + ", " + t1
			if v, ok := in.(ssa.Value); ok {
				o.Extra["errFate"] = p.errFate(v)
			}
			if t0 == cur && t1 == "r.votedFor" && o.Extra["errFate"] == "fatal" {
				return sp.Assign(st, iD, 0)
			}
			return st
		}
		if what, ok := a.isSectionEnd(in); ok {
			n := instrOrdinal(in, func(x ssa.Instruction) bool { _, ok := a.isSectionEndStatic(x); return ok })
			a.Observe("SECTION-END "+what+ordSuffix(n)+" in "+chainKey(f), f, in, st)
			// a new critical section starts without a raise; what is owed or unpersisted stays reported once
			st = sp.Assign(st, iR, 0)
			st = sp.Assign(st, iO, 0)
			return sp.Assign(st, iD, 0)
		}
		if _, ok := in.(*ssa.Return); ok && f.Parent == nil {
			a.Observe("SECTION-END return of "+FuncName(f.Fn), f, in, st)
		}
		return st
	}
	a.RunFrame(NewRootFrame(root), entry)

	// verdicts at section ends, attributed to the write sites
	owedAt := map[int][]string{}
	dirtyAt := map[int][]string{}
	nEnds := 0
	for _, o := range a.SortedObs() {
		if !strings.HasPrefix(o.Key, "SECTION-END") {
			continue
		}
		nEnds++
		for si := 1; si <= len(sites); si++ {
			if !sp.Filter(o.State, iO, 1<<uint(si)).IsEmpty() {
				owedAt[si] = append(owedAt[si], strings.TrimPrefix(o.Key, "SECTION-END ")+" ("+o.Pos+")")
			}
			if !sp.Filter(o.State, iD, 1<<uint(si)).IsEmpty() {
				dirtyAt[si] = append(dirtyAt[si], strings.TrimPrefix(o.Key, "SECTION-END ")+" ("+o.Pos+")")
			}
		}
	}
	var out []Obligation
	for _, o := range a.SortedObs() {
		ob := Obligation{Rule: id, Construct: o.Key, Pos: o.Pos, Facts: []string{"context: " + o.Chain}}
		switch {
		case strings.HasPrefix(o.Key, "TERM-MONO"):
			switch o.Extra["kind"] {
			case "restore":
				ob.Verdict, ob.Detail = Discharged, "value is result #0 of StateStorage.State() in restore"
			case "increment":
				ob.Verdict, ob.Detail = Discharged, "value is currentTerm+1"
			default:
				if o.Extra["atom"] == "none" {
					ob.Verdict, ob.Detail = Undecided, "stored value "+o.Extra["value"]+" could not be related to currentTerm"
					break
				}
				var ci int
				fmt.Sscan(o.Extra["atom"], &ci)
				bad := sp.Filter(o.State, ci, 1<<LT)
				if bad.IsEmpty() {
					ob.Verdict = Discharged
					ob.Detail = "stored value " + o.Extra["value"] + " ≥ currentTerm on every path: " + strings.Join(sp.Project(o.State, ci), " | ")
				} else {
					ob.Verdict = Violated
					ob.Detail = "currentTerm can decrease: stored value " + o.Extra["value"] + " may be smaller than currentTerm in this context"
					ob.Facts = append(ob.Facts, sp.Project(bad, ci)...)
				}
			}
			out = append(out, ob)
			// persistence of this write
			si := siteIdx(strings.TrimPrefix(o.Key, "TERM-MONO "))
			if o.Extra["kind"] != "restore" {
				out = append(out, persistObligation(id, o, si, dirtyAt))
			}
		case strings.HasPrefix(o.Key, "VOTE-WRITE"):
			si := siteIdx(strings.TrimPrefix(o.Key, "VOTE-WRITE "))
			vr := Obligation{Rule: id, Construct: "VOTE-RESET " + strings.TrimPrefix(o.Key, "VOTE-WRITE "), Pos: o.Pos, Facts: []string{"context: " + o.Chain, "value: " + o.Extra["value"]}}
			if ends := owedAt[si]; len(ends) > 0 {
				vr.Verdict = Violated
				vr.Detail = "votedFor is cleared or re-assigned (value " + o.Extra["value"] + ") although currentTerm does not strictly increase in the same critical section on some path: a vote already cast in this term can be forgotten and cast again"
				for _, e := range ends {
					vr.Facts = append(vr.Facts, "section can end with the raise still owed at: "+e)
				}
				vr.Facts = append(vr.Facts, "raise status at the write: "+strings.Join(sp.Project(o.State, iR), " | "))
			} else {
				vr.Verdict = Discharged
				vr.Detail = "every path through this write also strictly raises currentTerm in the same critical section (or it is the guarded grant)"
			}
			out = append(out, vr)
			out = append(out, persistObligation(id, o, si, dirtyAt))
		case strings.HasPrefix(o.Key, "PERSIST-ARGS"):
			if o.Extra["args"] == "r.currentTerm, r.votedFor" && o.Extra["errFate"] == "fatal" {
				ob.Verdict, ob.Detail = Discharged, "persists (currentTerm, votedFor); error is fatal"
			} else {
				ob.Verdict = Violated
				ob.Detail = "SetState(" + o.Extra["args"] + ") with error " + o.Extra["errFate"] + ": must persist the node's current term and vote and treat failure as fatal"
			}
			out = append(out, ob)
		}
	}
	if nEnds == 0 && len(sites) > 0 {
		out = append(out, Obligation{Rule: id, Construct: "section ends in " + FuncName(root), Verdict: Undecided, Detail: "term/vote writers found but no critical-section end was recognised"})
	}
	return out
}

func persistObligation(id string, o *Observation, si int, dirtyAt map[int][]string) Obligation {
	key := o.Key[strings.Index(o.Key, " ")+1:]
	ob := Obligation{Rule: id, Construct: "VOTE-PERSIST " + key, Pos: o.Pos, Facts: []string{"context: " + o.Chain}}
	if ends := dirtyAt[si]; len(ends) > 0 {
		ob.Verdict = Violated
		ob.Detail = "this write of term/vote can reach the end of its critical section (unlock, cond wait, transport send or return) without StateStorage.SetState(currentTerm, votedFor) having succeeded"
		for _, e := range ends {
			ob.Facts = append(ob.Facts, "unpersisted at: "+e)
		}
	} else {
		ob.Verdict = Discharged
		ob.Detail = "persisted by SetState(currentTerm, votedFor) with a fatal error path before every section end"
	}
	return ob
}

// isSectionEndStatic is isSectionEnd without the run-defers distinction (for ordinals).
func (a *Analysis) isSectionEndStatic(in ssa.Instruction) (string, bool) {
	ci, ok := in.(ssa.CallInstruction)
	if !ok {
		return "", false
	}
	if _, isGo := in.(*ssa.Go); isGo {
		return "", false
	}
	c := ci.Common()
	if op, recv := isMutexOp(c); op != "" {
		if (op == "Mutex.Unlock" && isNodeMutex(recv)) || op == "Cond.Wait" {
			return op, true
		}
		return "", false
	}
	if c.IsInvoke() && ifaceOf(c) == "Transport" && strings.HasPrefix(c.Method.Name(), "Send") {
		return "Transport." + c.Method.Name(), true
	}
	return "", false
}

// ruleReplyTerm: C08 REPLY-TERM.
func ruleReplyTerm() *Rule {
	const id = "REPLY-TERM"
	return &Rule{
		ID: id,
		Text: "Every reply of the three RPC handlers that is returned without error carries the node's term: whenever response.Term or currentTerm was last written in the invocation, the two were equal " +
			"(a handler that raises currentTerm must refresh response.Term; a handler must set response.Term at all). Together with TERM-MONO this makes the term seen in replies non-decreasing.",
		Floor: 3,
		Run: func(p *Program) []Obligation {
			var out []Obligation
			curTerm := p.Field("Raft.currentTerm")
			for _, h := range []struct{ fn, resp string }{
				{"(*Raft).AppendEntries", "AppendEntriesResponse"},
				{"(*Raft).RequestVote", "RequestVoteResponse"},
				{"(*Raft).InstallSnapshot", "InstallSnapshotResponse"},
			} {
				root := p.Func(h.fn)
				respTerm := p.Field(h.resp + ".Term")
				if root == nil || respTerm == nil {
					out = append(out, missing(id, h.fn)...)
					continue
				}
				sp := NewSpace(
					CmpAtom("respTerm?curTerm", "p1.Term", "r.currentTerm"),
					CmpAtom("reqTerm?curTerm", "p0.Term", "r.currentTerm"),
					CmpAtom("respTerm?reqTerm", "p1.Term", "p0.Term"),
					GhostAtom("replyTermCurrent", "no", "yes"),
				)
				a := NewAnalysis(p, sp)
				a.Post = func(a *Analysis, f *Frame, in ssa.Instruction, st State) State {
					if s, fld := storeField(in); s != nil && (fld == respTerm || fld == curTerm) {
						return sp.Map(st, 3, func(pt, old int) uint32 {
							if sp.Val(pt, 0) == EQ {
								return 1 << 1
							}
							return 1 << 0
						})
					}
					return st
				}
				a.Hook = func(a *Analysis, f *Frame, in ssa.Instruction, st State) State {
					if ret, ok := exitPoint(in); ok && f.Parent == nil && returnedError(ret) == "nil" {
						n := instrOrdinal(ret, func(x ssa.Instruction) bool { _, ok := x.(*ssa.Return); return ok })
						a.Observe(fmt.Sprintf("reply returned at return #%d of %s", n, h.fn), f, in, st)
					}
					return st
				}
				a.RunFrame(NewRootFrame(root), sp.Filter(sp.Top(), 3, 1))
				var bad []string
				pos := ""
				for _, o := range a.SortedObs() {
					pos = o.Pos
					if !sp.Filter(o.State, 3, 1<<0).IsEmpty() {
						bad = append(bad, o.Key+" ("+o.Pos+")")
					}
				}
				ob := Obligation{Rule: id, Construct: "term carried by the replies of " + h.fn, Pos: pos}
				switch {
				case len(a.Obs) == 0:
					ob.Verdict, ob.Detail = Undecided, "no error-free return found"
				case len(bad) > 0:
					ob.Verdict = Violated
					ob.Detail = "a reply can be returned whose Term was not the node's current term when either was last written (response.Term never set, or not refreshed after currentTerm was raised): the term seen in this node's replies can go backwards / a stale leader is not told the newer term"
					ob.Facts = bad
				default:
					ob.Verdict, ob.Detail = Discharged, fmt.Sprintf("%d return(s): response.Term = currentTerm at the last write of either", len(a.Obs))
				}
				out = append(out, ob)
			}
			return out
		},
	}
}
