package lint

// Unit tests of the guard-fact interpreter itself (not of the library): synthetic functions with known
// answers are added to a scratch copy of the library (outside /repo and /verif), loaded like the real tree and
// analysed; nothing is executed. Each probe states which valuations the interpreter MUST keep feasible
// (soundness: dropping one means a rule could discharge an obligation that does not hold) and which it must
// exclude (precision: keeping one means a false alarm on code like today's).
//
//	go test ./internal/lint -run TestEngine        (REPO=/repo by default)

import (
	"os"
	"os/exec"
	"path/filepath"
	"sort"
	"strings"
	"testing"

	"golang.org/x/tools/go/ssa"
)

type probeWant struct {
	must, forbid string
}

type engineCase struct {
	fn    string
	atom  string // "T" (default), "L", "V"
	wants map[string]probeWant
}

func engineAtom(kind string) *Atom {
	switch kind {
	case "L":
		return CmpAtom("L", "r.log.LastIndex()", "p0.PrevLogIndex")
	case "V":
		return BoolAtom("V", "r.operationManager.shouldVerifyQuorum")
	case "M":
		return BoolAtom("M", "r.configuration.IsVoter[p0]")
	}
	return CmpAtom("T", "r.currentTerm", "p0.Term")
}

var engineCases = []engineCase{
	{"zzDirect", "T", map[string]probeWant{"eq": {"=", "<>"}, "ne": {"<>", "="}}},
	{"zzStaleBool", "T", map[string]probeWant{"a": {"<=>", ""}}},
	{"zzStaleLoad", "T", map[string]probeWant{"a": {"<=>", ""}}},
	{"zzParam", "T", map[string]probeWant{"a": {"<=>", ""}}},
	{"zzParamBool", "T", map[string]probeWant{"a": {"<=>", ""}}},
	{"zzWindow", "T", map[string]probeWant{"before": {"=", "<>"}, "a": {"<=>", ""}}},
	{"zzCondWait", "T", map[string]probeWant{"a": {"<=>", ""}}},
	{"zzStaleWindow", "T", map[string]probeWant{"a": {"<=>", ""}}},
	{"zzCalleeBump", "T", map[string]probeWant{"a": {">", "<="}}},
	{"zzStaleCallee", "T", map[string]probeWant{"a": {">", ""}}},
	{"zzAliasStore", "T", map[string]probeWant{"a": {"<=", ""}}},
	{"zzClosureCall", "T", map[string]probeWant{"a": {"<=", ""}}},
	{"zzLoop", "T", map[string]probeWant{"a": {"=>", "<"}}},
	{"zzMessageStore", "T", map[string]probeWant{"a": {"=>", ""}}},
	{"zzMessageAlias", "T", map[string]probeWant{"a": {"=>", ""}}},
	{"zzMessageWhole", "T", map[string]probeWant{"a": {"=>", ""}}},
	{"zzIfaceMutator", "L", map[string]probeWant{"before": {"=", "<>"}, "a": {">", ""}}},
	{"zzStaleObserver", "L", map[string]probeWant{"a": {">", ""}}},
	{"zzPhi", "T", map[string]probeWant{"a": {"=>", ""}}},
	{"zzShortCircuit", "T", map[string]probeWant{"a": {"=", "<>"}, "b": {"<=>", ""}}},
	{"zzShortCircuitStale", "T", map[string]probeWant{"a": {">", ""}}},
	{"zzDefer", "T", map[string]probeWant{"d": {"<=>", ""}, "ne": {"<>", "="}}},
	{"zzDeferStore", "T", map[string]probeWant{"d": {"<=", ""}}},
	{"zzPredicate", "T", map[string]probeWant{"a": {"=", "<>"}, "b": {"<>", "="}}},
	{"zzPredicateStale", "T", map[string]probeWant{"a": {">", ""}}},
	{"zzStoreEstablishes", "T", map[string]probeWant{"a": {"=", "<>"}, "b": {">", "<="}}},
	{"zzStoreStaleValue", "T", map[string]probeWant{"a": {"=>", ""}}},
	{"zzNestedAlias", "V", map[string]probeWant{"a": {"F", ""}}},
	{"zzParentReplaced", "V", map[string]probeWant{"a": {"T", ""}}},
	{"zzSwitch", "T", map[string]probeWant{"lt": {"<", "=>"}, "eq": {"=", "<>"}, "gt": {">", "<="}}},
	{"zzStructLocalStale", "T", map[string]probeWant{"a": {">", ""}}},
	{"zzClosureCaptureStale", "T", map[string]probeWant{"a": {"<=>", ""}}},
	{"zzClosureCaptureBoolStale", "T", map[string]probeWant{"d": {"<=>", ""}}},
	{"zzGoStmt", "T", map[string]probeWant{"a": {"=", "<>"}}},
	{"zzReturnedValue", "T", map[string]probeWant{"a": {"<=>", ""}}},
	{"zzEarlyReturnHelper", "T", map[string]probeWant{"a": {"=", "<>"}, "b": {"=>", "<"}}},
	{"zzIncrementBoth", "T", map[string]probeWant{"a": {"=", ""}}},
	{"zzDecrement", "T", map[string]probeWant{"a": {"=>", ""}}},
	{"zzIncrementFromLess", "T", map[string]probeWant{"a": {"<=", ">"}}},
	{"zzAddTwo", "T", map[string]probeWant{"a": {"<=>", ""}}},
	{"zzRangeLoopKill", "T", map[string]probeWant{"a": {"=", "<>"}, "b": {"<=>", ""}}},
	{"zzSelfAssignOtherField", "T", map[string]probeWant{"a": {"=", "<>"}}},
	{"zzNegatedOr", "T", map[string]probeWant{"a": {"=", "<>"}, "b": {"<>", "="}}},
	{"zzConstCompare", "T", map[string]probeWant{"a": {"=", ""}, "b": {"<", ""}}},
	// phi transfer: the loop variable's ordering against p0.Term (atom 0) follows its initial value and its increments
	{"zzPhiInit", "phi:i", map[string]probeWant{"body": {">", "<="}, "exit": {">", "<="}}},
	{"zzPhiInitStale", "phi:i", map[string]probeWant{"body": {"<=>", ""}}},
	{"zzPhiDecrement", "phi:i", map[string]probeWant{"body": {"<=>", ""}}},
	{"zzPhiStep2", "phi:i", map[string]probeWant{"body": {"<=>", ""}}},
	// one-directional consequences of comparisons with Min/Max
	{"zzMinBound", "T", map[string]probeWant{"a": {"<", "=>"}, "b": {"<=>", ""}}},
	{"zzMaxBound", "T", map[string]probeWant{"a": {">", "<="}, "b": {"<=>", ""}}},
	{"zzMinNegated", "T", map[string]probeWant{"a": {"<", "=>"}, "b": {"<=>", ""}}},
	{"zzMinStale", "T", map[string]probeWant{"a": {"=>", ""}}},
	// map facts
	{"zzMapDirect", "M", map[string]probeWant{"yes": {"T", "F"}, "no": {"F", "T"}}},
	{"zzMapUpdateSameKey", "M", map[string]probeWant{"a": {"F", ""}}},
	{"zzMapDelete", "M", map[string]probeWant{"a": {"F", ""}}},
	{"zzMapOtherKey", "M", map[string]probeWant{"a": {"FT", ""}}},
	{"zzMapAlias", "M", map[string]probeWant{"a": {"F", ""}}},
	{"zzMapOwnerReplaced", "M", map[string]probeWant{"a": {"F", ""}}},
	{"zzMapOwnerAlias", "M", map[string]probeWant{"a": {"F", ""}}},
	{"zzMapWindow", "M", map[string]probeWant{"a": {"FT", ""}}},
	{"zzMapCallee", "M", map[string]probeWant{"a": {"F", ""}}},
	{"zzMapStale", "M", map[string]probeWant{"a": {"F", ""}}},
	{"zzMapKeyReassigned", "M", map[string]probeWant{"a": {"T", ""}, "b": {"T", ""}}},
	{"zzMapUnrelatedStore", "M", map[string]probeWant{"a": {"T", "F"}}},
	{"zzMapAppliedConfiguration", "M", map[string]probeWant{"a": {"FT", ""}}},
	{"zzStoreThenWindow", "T", map[string]probeWant{"before": {"=", "<>"}, "a": {"<=>", ""}}},
	// coupled atoms: atom 0 is r.currentTerm ? p1.Term, constrained only through transitivity ("X" adds the two links);
	// "Y" adds the mirror image of T. Forgetting must hit all of them at once.
	{"zzTransitiveWindow", "X", map[string]probeWant{"before": {"=", "<>"}, "a": {"<=>", ""}}},
	{"zzMirrorWindow", "Y", map[string]probeWant{"a": {"<=>", ""}}},
	{"zzSwitchConjunctions", "T", map[string]probeWant{"one": {"<=>", ""}, "two": {"<=>", ""}}},
	{"zzMinWrongDirection", "T", map[string]probeWant{"a": {"<=>", ""}, "b": {"<=", ">"}}},
}

// engineNames: the canonical names under which the arguments of zzUse(…) are seen, in call order per root.
var engineNames = []struct {
	fn   string
	want []string
}{
	{"zzNameStale", []string{"@r.currentTerm"}},
	{"zzNameFresh", []string{"r.currentTerm"}},
	{"zzNameUsedBeforeAndAfter", []string{"@r.currentTerm", "@r.currentTerm"}}, // flow-insensitive: one name per value
	{"zzNameWindow", []string{"@r.currentTerm"}},
	{"zzNameObserver", []string{"@r.log.LastIndex()"}},
	{"zzNameParam", []string{"@r.currentTerm"}},
	{"zzNameParamFresh", []string{"r.currentTerm"}},
	{"zzNameArithmetic", []string{"(1 + @r.currentTerm)"}},
	{"zzNameIncrementInPlace", []string{"r.currentTerm"}},
	{"zzNameMessageField", []string{"p0.Term"}},
	{"zzNameLoopCarried", []string{"@r.currentTerm"}},
	{"zzNameDeferred", []string{"@r.currentTerm"}},
	{"zzNameStructLocal", []string{"@r.snapshot.Metadata().LastIncludedIndex"}},
	{"zzNameStructLocalFresh", []string{"r.snapshot.Metadata().LastIncludedIndex"}},
	{"zzNameSpilledLocal", []string{"!r.currentTerm"}},
	{"zzNameClosureInside", []string{"@r.currentTerm"}},
}

func TestEngineValueNames(t *testing.T) {
	dir := engineScratch(t)
	p, err := Load(dir)
	if err != nil {
		t.Fatalf("load: %v", err)
	}
	for _, c := range engineNames {
		root := p.Func("(*Raft)." + c.fn)
		if root == nil {
			t.Errorf("%s: function not found", c.fn)
			continue
		}
		var got []string
		a := NewAnalysis(p, NewSpace())
		a.Hook = func(a *Analysis, f *Frame, in ssa.Instruction, st State) State {
			call, ok := in.(ssa.CallInstruction)
			if !ok {
				return st
			}
			if _, isDefer := in.(*ssa.Defer); isDefer && !a.AtRunDefers {
				return st
			}
			callee := call.Common().StaticCallee()
			if callee == nil || callee.Name() != "zzUse" {
				return st
			}
			got = append(got, p.Canon(f, call.Common().Args[0]).S)
			return st
		}
		a.Run(root, nil)
		// a loop is visited more than once: compare the set of names
		uniq := func(xs []string) string {
			m := map[string]bool{}
			for _, x := range xs {
				m[x] = true
			}
			var out []string
			for x := range m {
				out = append(out, x)
			}
			sort.Strings(out)
			return strings.Join(out, " | ")
		}
		if len(c.want) == 1 && strings.HasPrefix(c.want[0], "!") {
			if uniq(got) == c.want[0][1:] || len(got) == 0 {
				t.Errorf("%s: zzUse argument is named {%s}, which claims the current contents of memory", c.fn, uniq(got))
			}
			continue
		}
		if uniq(got) != uniq(c.want) {
			t.Errorf("%s: zzUse arguments are named {%s}, want {%s}", c.fn, uniq(got), uniq(c.want))
		}
	}
}

func engineScratch(t *testing.T) string {
	repo := os.Getenv("REPO")
	if repo == "" {
		repo = "/repo"
	}
	dir, err := os.MkdirTemp("", "raftlint-engine-")
	if err != nil {
		t.Fatal(err)
	}
	t.Cleanup(func() { os.RemoveAll(dir) })
	cmd := exec.Command("rsync", "-a", "--exclude", ".git", repo+"/", dir+"/")
	if out, err := cmd.CombinedOutput(); err != nil {
		t.Fatalf("copy: %v %s", err, out)
	}
	src, err := os.ReadFile("testdata/engine_cases.go.txt")
	if err != nil {
		t.Fatal(err)
	}
	if err := os.WriteFile(filepath.Join(dir, "zz_engine_cases.go"), src, 0o644); err != nil {
		t.Fatal(err)
	}
	return dir
}

func TestEngine(t *testing.T) {
	dir := engineScratch(t)
	p, err := Load(dir)
	if err != nil {
		t.Fatalf("load: %v", err)
	}
	for _, c := range engineCases {
		root := p.Func("(*Raft)." + c.fn)
		if root == nil {
			t.Errorf("%s: function not found", c.fn)
			continue
		}
		var at *Atom
		atoms := []*Atom{}
		if strings.HasPrefix(c.atom, "phi:") {
			// ordering of the named loop variable (a phi) against p0.Term, supported by the ordering of currentTerm
			name := ""
			fr := NewRootFrame(root)
			for _, b := range root.Blocks {
				for _, in := range b.Instrs {
					if phi, ok := in.(*ssa.Phi); ok && phi.Comment == strings.TrimPrefix(c.atom, "phi:") {
						name = p.Canon(fr, phi).S
					}
				}
			}
			if name == "" {
				t.Errorf("%s: phi %s not found", c.fn, c.atom)
				continue
			}
			at = CmpAtom("I", name, "p0.Term")
			atoms = append(atoms, at, engineAtom("T"))
		} else if c.atom == "X" {
			at = CmpAtom("R", "r.currentTerm", "p1.Term")
			atoms = append(atoms, at, engineAtom("T"), CmpAtom("Q", "p0.Term", "p1.Term"))
		} else if c.atom == "Y" {
			at = CmpAtom("M", "p0.Term", "r.currentTerm")
			atoms = append(atoms, at, engineAtom("T"))
		} else {
			at = engineAtom(c.atom)
			atoms = append(atoms, at)
		}
		sp := NewSpace(atoms...)
		a := NewAnalysis(p, sp)
		seen := map[string]State{}
		a.Hook = func(a *Analysis, f *Frame, in ssa.Instruction, st State) State {
			call, ok := in.(ssa.CallInstruction)
			if !ok {
				return st
			}
			if _, isDefer := in.(*ssa.Defer); isDefer && !a.AtRunDefers {
				return st
			}
			callee := call.Common().StaticCallee()
			if callee == nil || callee.Name() != "zzProbe" || len(call.Common().Args) != 1 {
				return st
			}
			k, ok := call.Common().Args[0].(*ssa.Const)
			if !ok {
				return st
			}
			name := constString(k)
			name = strings.Trim(name, `"`)
			seen[name] = Union(seen[name], st)
			return st
		}
		a.Run(root, nil)
		var names []string
		for n := range c.wants {
			names = append(names, n)
		}
		sort.Strings(names)
		for _, n := range names {
			w := c.wants[n]
			st, ok := seen[n]
			got := ""
			if ok {
				for v := 0; v < at.N; v++ {
					for pt := 0; pt < sp.Size; pt++ {
						if st.Has(pt) && sp.Val(pt, 0) == v {
							got += at.Labels[v]
							break
						}
					}
				}
			}
			for _, m := range w.must {
				if !strings.ContainsRune(got, m) {
					t.Errorf("UNSOUND %s probe %q: feasible {%s} lacks %q (must keep {%s})", c.fn, n, got, string(m), w.must)
				}
			}
			for _, m := range w.forbid {
				if strings.ContainsRune(got, m) {
					t.Errorf("IMPRECISE %s probe %q: feasible {%s} contains %q (should exclude {%s})", c.fn, n, got, string(m), w.forbid)
				}
			}
		}
	}
}
