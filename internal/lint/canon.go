package lint

import (
	"fmt"
	"go/constant"
	"go/token"
	"go/types"
	"sort"
	"strings"

	"golang.org/x/tools/go/ssa"
)

// Term is the canonical form of an SSA value: an access path / pure expression rendered in
// the vocabulary of the analysis root, together with everything whose change invalidates it.
type Term struct {
	S        string
	Fields   map[*types.Var]bool // struct fields read from memory (field-based alias classes)
	Ifaces   map[string]bool     // observed storage interfaces ("Log", "StateStorage", ...)
	Regs     map[ssa.Value]bool  // SSA registers (non-parameter) the term mentions
	Shared   bool                // reads memory other goroutines may write while the node mutex is released
	HasMap   bool                // contains a map lookup or slice index
	Volatile bool                // depends on the clock
	Opaque   bool                // could not be expressed; S is a unique register name
}

func (t *Term) String() string {
	if t == nil {
		return "<nil>"
	}
	return t.S
}

// readsMemory reports whether the value of the term depends on memory that can be written.
func (t *Term) readsMemory() bool {
	return t != nil && (len(t.Fields) > 0 || len(t.Ifaces) > 0 || t.Shared || t.HasMap)
}

func newTerm(s string) *Term {
	return &Term{S: s, Fields: map[*types.Var]bool{}, Ifaces: map[string]bool{}, Regs: map[ssa.Value]bool{}}
}

func (t *Term) absorb(o *Term) {
	for k := range o.Fields {
		t.Fields[k] = true
	}
	for k := range o.Ifaces {
		t.Ifaces[k] = true
	}
	for k := range o.Regs {
		t.Regs[k] = true
	}
	t.Shared = t.Shared || o.Shared
	t.HasMap = t.HasMap || o.HasMap
	t.Volatile = t.Volatile || o.Volatile
}

func derive(s string, parts ...*Term) *Term {
	t := newTerm(s)
	for _, p := range parts {
		if p != nil {
			t.absorb(p)
		}
	}
	return t
}

// Frame is one activation in the inlining interpreter: a function plus the binding of its
// parameters and free variables to terms of the caller's vocabulary.
type Frame struct {
	Fn     *ssa.Function
	Parent *Frame
	Site   ssa.CallInstruction // call site in the parent (nil for a root)
	Bind   map[ssa.Value]*Term // parameters and free variables
	cache  map[ssa.Value]*Term
	Depth  int
	// bindKey distinguishes activations of one call site whose bindings differ (a binding that went stale is opaque)
	bindKey string
}

// Chain renders the call chain "root > callee@file:line > ...".
func (f *Frame) Chain(p *Program) string {
	var parts []string
	for q := f; q != nil; q = q.Parent {
		parts = append(parts, FuncName(q.Fn))
	}
	for i, j := 0, len(parts)-1; i < j; i, j = i+1, j-1 {
		parts[i], parts[j] = parts[j], parts[i]
	}
	return strings.Join(parts, " > ")
}

// Root returns the outermost frame.
func (f *Frame) Root() *Frame {
	for f.Parent != nil {
		f = f.Parent
	}
	return f
}

// messageStructs are the per-call request/response structs: memory reached through a
// parameter of pointer-to-one-of-these type belongs to the invocation, not to the node.
var messageStructs = map[string]bool{
	"AppendEntriesRequest": true, "AppendEntriesResponse": true,
	"RequestVoteRequest": true, "RequestVoteResponse": true,
	"InstallSnapshotRequest": true, "InstallSnapshotResponse": true,
}

func isMessagePtr(t types.Type) bool {
	pt, ok := t.Underlying().(*types.Pointer)
	if !ok {
		return false
	}
	n, ok := pt.Elem().(*types.Named)
	if !ok {
		return false
	}
	return n.Obj().Pkg() != nil && n.Obj().Pkg().Path() == ModulePath && messageStructs[n.Obj().Name()]
}

// NewRootFrame creates the frame of an analysis root. The receiver of a *Raft method is
// named "r", any other receiver "recv", parameters "p0", "p1", ...
func NewRootFrame(fn *ssa.Function) *Frame {
	fr := &Frame{Fn: fn, Bind: map[ssa.Value]*Term{}, cache: map[ssa.Value]*Term{}}
	idx := 0
	for i, par := range fn.Params {
		var t *Term
		if i == 0 && fn.Signature.Recv() != nil {
			name := "recv"
			if isPtrToNamed(par.Type(), "Raft") {
				name = "r"
			}
			t = newTerm(name)
		} else {
			t = newTerm(fmt.Sprintf("p%d", idx))
			idx++
		}
		fr.Bind[par] = t
	}
	for i, fv := range fn.FreeVars {
		t := newTerm(fmt.Sprintf("fv%d", i))
		// free variables are pointers to captured variables
		fr.Bind[fv] = t
	}
	return fr
}

func isPtrToNamed(t types.Type, name string) bool {
	pt, ok := t.Underlying().(*types.Pointer)
	if !ok {
		return false
	}
	n, ok := pt.Elem().(*types.Named)
	return ok && n.Obj().Name() == name && n.Obj().Pkg() != nil && n.Obj().Pkg().Path() == ModulePath
}

func namedName(t types.Type) string {
	if pt, ok := t.(*types.Pointer); ok {
		t = pt.Elem()
	}
	if n, ok := t.(*types.Named); ok {
		return n.Obj().Name()
	}
	return ""
}

// Observers and mutators of the storage interfaces (frozen; one line of reason each in DESIGN §3).
var ifaceObservers = map[string]map[string]bool{
	"Log":             {"GetEntry": true, "Contains": true, "LastIndex": true, "LastTerm": true, "NextIndex": true, "Size": true},
	"StateStorage":    {"State": true},
	"SnapshotFile":    {"Metadata": true},
	"SnapshotStorage": {},
	"Transport":       {"Address": true, "EncodeConfiguration": true, "DecodeConfiguration": true},
	"StateMachine":    {"NeedSnapshot": true},
}
var ifaceMutators = map[string]map[string]bool{
	"Log":          {"Open": true, "Replay": true, "Close": true, "AppendEntry": true, "AppendEntries": true, "Truncate": true, "Compact": true, "DiscardEntries": true},
	"StateStorage": {"SetState": true},
	// SnapshotFile's only observer is Metadata(), which is fixed when the file is created or opened:
	// Write/Read/Seek/Close/Discard do not change it, so nothing invalidates facts about it.
	"SnapshotFile":    {},
	"SnapshotStorage": {"NewSnapshotFile": true, "SnapshotFile": true},
	"StateMachine":    {"Apply": true, "Snapshot": true, "Restore": true},
}

// ifaceNeutral lists the methods that are known NOT to change what the interface's observers return (reason per
// interface). A method that is in none of the three tables — e.g. one added to the interface later — is treated as a
// mutator: the sound default.
var ifaceNeutral = map[string]map[string]bool{
	// Metadata() is fixed when the file is created or opened
	"SnapshotFile": {"Write": true, "Read": true, "Seek": true, "Close": true, "Discard": true},
	// the observers are the node's own address and the two pure codecs
	"Transport": {"Run": true, "Shutdown": true, "SendAppendEntries": true, "SendRequestVote": true, "SendInstallSnapshot": true,
		"RegisterAppendEntriesHandler": true, "RegisterRequestVoteHandler": true, "RegsiterInstallSnapshotHandler": true},
}

// ifaceMayMutate: a call of method m on module interface iface may change what the interface's observers return.
func ifaceMayMutate(iface, m string) bool {
	if ifaceMutators[iface][m] {
		return true
	}
	return !ifaceObservers[iface][m] && !ifaceNeutral[iface][m]
}

// ifaceOf returns the module interface name a method call is made on ("" if none).
func ifaceOf(c *ssa.CallCommon) string {
	if !c.IsInvoke() {
		return ""
	}
	n, ok := c.Value.Type().(*types.Named)
	if !ok {
		return ""
	}
	if n.Obj().Pkg() == nil || n.Obj().Pkg().Path() != ModulePath {
		return ""
	}
	return n.Obj().Name()
}

// Canon computes the canonical term of v in frame f.
func (p *Program) Canon(f *Frame, v ssa.Value) *Term {
	if t, ok := f.Bind[v]; ok {
		return t
	}
	if t, ok := f.cache[v]; ok {
		return t
	}
	t := p.canon1(f, v, 0)
	f.cache[v] = t
	return t
}

// isReferenceType: values of these types denote objects, not contents; a rule that follows such a value across
// a write follows the object (field-based memory model), which is what it means to.
func isReferenceType(t types.Type) bool {
	switch t.Underlying().(type) {
	case *types.Pointer, *types.Map, *types.Slice, *types.Chan, *types.Interface, *types.Signature:
		return true
	}
	if tp, ok := t.(*types.Tuple); ok {
		for i := 0; i < tp.Len(); i++ {
			if !isReferenceType(tp.At(i).Type()) {
				return false
			}
		}
		return tp.Len() > 0
	}
	return false
}

// settle names the result t of a memory read v (a load, a map lookup, an observer or pure call): the name of the
// location ("r.currentTerm") is a statement about the CURRENT contents of that location, so the value may carry it
// only if at every place where the value is consumed the location still holds it. Otherwise the value is named as a
// captured value ("@r.currentTerm"): it keeps its identity, matches no atom about current memory, and rules that
// compare stored or passed values by name see that it is not the current contents.
func (p *Program) settle(f *Frame, v ssa.Value, t *Term) *Term {
	if t == nil || t.Opaque || !t.readsMemory() || isReferenceType(v.Type()) {
		return t
	}
	r, ok := v.(ssa.Instruction)
	if !ok || r.Block() == nil {
		return t
	}
	if p.stableAtUses(r, v, t) {
		return t
	}
	return capturedCopy(t)
}

// loadsOf returns the loads from a local allocation and from the addresses of its fields and elements.
func loadsOf(al *ssa.Alloc) []ssa.Value {
	var out []ssa.Value
	var visit func(addr ssa.Value, depth int)
	visit = func(addr ssa.Value, depth int) {
		refs := addr.Referrers()
		if refs == nil || depth > 4 {
			return
		}
		for _, r := range *refs {
			switch y := r.(type) {
			case *ssa.UnOp:
				if y.Op == token.MUL && y.X == addr {
					out = append(out, y)
				}
			case *ssa.FieldAddr:
				if y.X == addr {
					visit(y, depth+1)
				}
			case *ssa.IndexAddr:
				if y.X == addr {
					visit(y, depth+1)
				}
			}
		}
	}
	visit(al, 0)
	return out
}

// stableAtUses: on every path from the read r to every instruction that consumes the value v (directly or through
// pure operators), nothing may write what the read depends on (dep). r == nil: from the entry of v's function.
func (p *Program) stableAtUses(r ssa.Instruction, v ssa.Value, dep *Term) bool {
	a := &Analysis{P: p}
	seen := map[ssa.Value]bool{v: true}
	work := []ssa.Value{v}
	for len(work) > 0 {
		x := work[0]
		work = work[1:]
		refs := x.Referrers()
		if refs == nil {
			continue
		}
		for _, u := range *refs {
			switch y := u.(type) {
			case *ssa.DebugRef:
				continue
			case *ssa.BinOp, *ssa.Convert, *ssa.ChangeType, *ssa.MakeInterface, *ssa.ChangeInterface, *ssa.Field, *ssa.Extract, *ssa.Slice:
				if val := u.(ssa.Value); !seen[val] {
					seen[val] = true
					work = append(work, val)
				}
				continue
			case *ssa.UnOp:
				if y.Op != token.MUL {
					if !seen[y] {
						seen[y] = true
						work = append(work, y)
					}
					continue
				}
			case *ssa.Store:
				// spilled into a local variable (or a field of a local struct): the loads from it carry the value on
				// (only where Canon names those loads after the stored value: a local struct assigned exactly once
				// as a whole; a field of a message under construction is a consumer like any other, and later loads
				// of that field are named after the message, not after the value)
				if y.Val == x {
					if al, ok := y.Addr.(*ssa.Alloc); ok && !al.Heap && singleStore(al) != nil && onlyFieldReads(al) {
						for _, ld := range loadsOf(al) {
							if !seen[ld] {
								seen[ld] = true
								work = append(work, ld)
							}
						}
					}
				}
			case *ssa.Defer:
				// evaluated here, consumed when the deferred call runs
				for _, b := range y.Parent().Blocks {
					for _, in := range b.Instrs {
						if rd, ok := in.(*ssa.RunDefers); ok && !a.unchangedBetween(r, rd, nil, dep) {
							return false
						}
					}
				}
				continue
			case *ssa.Phi:
				// consumed at the end of the predecessor it arrives from
				for i, e := range y.Edges {
					if e != x || i >= len(y.Block().Preds) {
						continue
					}
					pb := y.Block().Preds[i]
					if len(pb.Instrs) == 0 {
						continue
					}
					if !a.unchangedBetween(r, pb.Instrs[len(pb.Instrs)-1], nil, dep) {
						return false
					}
				}
				continue
			}
			if u == r {
				continue
			}
			if !a.unchangedBetween(r, u, nil, dep) {
				return false
			}
		}
	}
	return true
}

func (p *Program) opaque(f *Frame, v ssa.Value) *Term {
	t := newTerm(fmt.Sprintf("%%%s.%s", FuncName(f.Fn), v.Name()))
	t.Regs[v] = true
	t.Opaque = true
	return t
}

func constString(c *ssa.Const) string {
	if c.Value == nil {
		return "nil"
	}
	switch c.Value.Kind() {
	case constant.String:
		return fmt.Sprintf("%q", constant.StringVal(c.Value))
	case constant.Bool:
		if constant.BoolVal(c.Value) {
			return "true"
		}
		return "false"
	}
	return c.Value.ExactString()
}

func (p *Program) canon1(f *Frame, v ssa.Value, depth int) *Term {
	if depth > 40 {
		return p.opaque(f, v)
	}
	rec := func(x ssa.Value) *Term {
		if t, ok := f.Bind[x]; ok {
			return t
		}
		if t, ok := f.cache[x]; ok {
			return t
		}
		t := p.canon1(f, x, depth+1)
		f.cache[x] = t
		return t
	}
	switch v := v.(type) {
	case *ssa.Const:
		return newTerm(constString(v))
	case *ssa.Parameter, *ssa.FreeVar:
		// unbound parameter (should not happen: frames bind all)
		return p.opaque(f, v)
	case *ssa.Global:
		t := newTerm("&global:" + v.Name())
		t.Shared = true
		return t
	case *ssa.Function:
		return newTerm("func:" + FuncName(v))
	case *ssa.Alloc:
		t := newTerm("&$" + FuncName(f.Fn) + "." + v.Name())
		t.Regs[v] = true
		if v.Heap {
			t.Shared = true
		}
		return t
	case *ssa.FieldAddr:
		base := rec(v.X)
		if al, ok := v.X.(*ssa.Alloc); ok && !al.Heap {
			// a local struct variable assigned exactly once (x := f()): its fields are the fields of that value
			if sv := singleStore(al); sv != nil && onlyFieldReads(al) {
				if t := rec(sv); !t.Opaque {
					base = derive("&"+t.S, t)
				}
			}
		}
		fld := fieldOf(v.X.Type(), v.Field)
		bs := base.S
		if strings.HasPrefix(bs, "&") {
			bs = bs[1:]
		}
		t := derive("&"+bs+"."+fld.Name(), base)
		t.Fields[fld] = true // remembered so that a load through it depends on the field
		return t
	case *ssa.IndexAddr:
		base := rec(v.X)
		idx := rec(v.Index)
		bs := base.S
		if strings.HasPrefix(bs, "&") {
			bs = bs[1:]
		}
		t := derive("&"+bs+"["+idx.S+"]", base, idx)
		t.HasMap = true
		return t
	case *ssa.UnOp:
		switch v.Op {
		case token.MUL: // load
			if al, ok := v.X.(*ssa.Alloc); ok {
				// a variable assigned exactly once and otherwise only read (typically a parameter
				// spilled because a closure captures it) denotes the stored value
				if sv := singleStore(al); sv != nil && readOnlyAfterInit(al) {
					if _, isParam := sv.(*ssa.Parameter); isParam {
						return rec(sv)
					}
				}
			}
			a := rec(v.X)
			if a.Opaque && !strings.HasPrefix(a.S, "&") {
				t := derive("*"+a.S, a)
				t.Shared = true
				return t
			}
			if strings.HasPrefix(a.S, "&") {
				t := derive(a.S[1:], a)
				t.Shared = a.Shared || p.addrShared(f, v.X)
				return p.settle(f, v, t)
			}
			t := derive("*"+a.S, a)
			t.Shared = a.Shared || p.addrShared(f, v.X)
			return p.settle(f, v, t)
		case token.NOT:
			a := rec(v.X)
			return derive("!"+a.S, a)
		case token.SUB:
			a := rec(v.X)
			return derive("-"+a.S, a)
		case token.ARROW:
			return p.opaque(f, v)
		}
		return p.opaque(f, v)
	case *ssa.Field:
		base := rec(v.X)
		fld := fieldOf(v.X.Type(), v.Field)
		return derive(base.S+"."+fld.Name(), base)
	case *ssa.Extract:
		base := rec(v.Tuple)
		if base.Opaque {
			return p.opaque(f, v)
		}
		return derive(fmt.Sprintf("%s#%d", base.S, v.Index), base)
	case *ssa.Lookup:
		base := rec(v.X)
		idx := rec(v.Index)
		t := derive(base.S+"["+idx.S+"]", base, idx)
		t.HasMap = true
		return p.settle(f, v, t)
	case *ssa.Index:
		base := rec(v.X)
		idx := rec(v.Index)
		t := derive(base.S+"["+idx.S+"]", base, idx)
		t.HasMap = true
		return t
	case *ssa.Slice:
		base := rec(v.X)
		s := base.S
		if strings.HasPrefix(s, "&") {
			s = s[1:]
		}
		lo, hi := "", ""
		parts := []*Term{base}
		if v.Low != nil {
			l := rec(v.Low)
			lo = l.S
			parts = append(parts, l)
		}
		if v.High != nil {
			h := rec(v.High)
			hi = h.S
			parts = append(parts, h)
		}
		if lo == "" && hi == "" && v.Max == nil {
			return derive(s+"[:]", parts...)
		}
		return derive(s+"["+lo+":"+hi+"]", parts...)
	case *ssa.Convert:
		return rec(v.X)
	case *ssa.ChangeType:
		return rec(v.X)
	case *ssa.MakeInterface:
		return rec(v.X)
	case *ssa.ChangeInterface:
		return rec(v.X)
	case *ssa.BinOp:
		a, b := rec(v.X), rec(v.Y)
		as, bs := a.S, b.S
		switch v.Op {
		case token.ADD, token.MUL, token.EQL, token.NEQ, token.AND, token.OR, token.XOR:
			if !isStringType(v.X.Type()) && bs < as {
				as, bs = bs, as
			}
		case token.GTR:
			return derive("("+bs+" < "+as+")", a, b)
		case token.GEQ:
			return derive("("+bs+" <= "+as+")", a, b)
		}
		return derive("("+as+" "+v.Op.String()+" "+bs+")", a, b)
	case *ssa.Phi:
		return p.opaque(f, v)
	case *ssa.Call:
		return p.settle(f, v, p.canonCall(f, v, rec))
	}
	return p.opaque(f, v)
}

// readOnlyAfterInit reports whether the alloc, apart from one initialising store, is only loaded,
// possibly through closures that capture it and only load it.
func readOnlyAfterInit(al *ssa.Alloc) bool {
	refs := al.Referrers()
	if refs == nil {
		return false
	}
	for _, r := range *refs {
		switch x := r.(type) {
		case *ssa.Store:
			if x.Addr != al {
				return false
			}
		case *ssa.UnOp, *ssa.DebugRef:
		case *ssa.MakeClosure:
			fn, ok := x.Fn.(*ssa.Function)
			if !ok {
				return false
			}
			for i, b := range x.Bindings {
				if b != ssa.Value(al) || i >= len(fn.FreeVars) {
					continue
				}
				fv := fn.FreeVars[i]
				if fv.Referrers() == nil {
					continue
				}
				for _, fr := range *fv.Referrers() {
					switch y := fr.(type) {
					case *ssa.UnOp, *ssa.DebugRef:
					case *ssa.Store:
						if y.Addr == ssa.Value(fv) {
							return false
						}
					default:
						return false
					}
				}
			}
		default:
			return false
		}
	}
	return true
}

// onlyFieldReads reports whether, apart from its single initialising store, the alloc is only
// read (field addresses that are loaded, whole loads, debug refs).
func onlyFieldReads(al *ssa.Alloc) bool {
	for _, r := range *al.Referrers() {
		switch x := r.(type) {
		case *ssa.Store:
			if x.Addr != al {
				return false
			}
		case *ssa.UnOp, *ssa.DebugRef:
		case *ssa.FieldAddr:
			if x.Referrers() == nil {
				return false
			}
			for _, rr := range *x.Referrers() {
				if u, ok := rr.(*ssa.UnOp); !ok || u.Op != token.MUL {
					if _, ok := rr.(*ssa.DebugRef); !ok {
						return false
					}
				}
			}
		default:
			return false
		}
	}
	return true
}

func isStringType(t types.Type) bool {
	b, ok := t.Underlying().(*types.Basic)
	return ok && b.Info()&types.IsString != 0
}

func fieldOf(t types.Type, i int) *types.Var {
	if pt, ok := t.Underlying().(*types.Pointer); ok {
		t = pt.Elem()
	}
	st := t.Underlying().(*types.Struct)
	return st.Field(i)
}

// addrShared reports whether a load through the address value reads node-shared memory.
func (p *Program) addrShared(f *Frame, addr ssa.Value) bool {
	for {
		switch a := addr.(type) {
		case *ssa.FieldAddr:
			// walk to the base pointer
			if isMessagePtr(a.X.Type()) {
				// message structs belong to the invocation if they came in as a parameter
				// or were allocated locally.
				switch b := a.X.(type) {
				case *ssa.Parameter:
					_ = b
					return false
				case *ssa.Alloc:
					return false
				}
			}
			addr = a.X
			continue
		case *ssa.IndexAddr:
			addr = a.X
			continue
		case *ssa.Alloc:
			return a.Heap && allocEscapesToGo(a)
		case *ssa.Parameter:
			if isMessagePtr(a.Type()) {
				return false
			}
			return true
		case *ssa.UnOp:
			if a.Op == token.MUL {
				// pointer loaded from memory: shared if the memory is
				addr = a.X
				continue
			}
			return true
		default:
			return true
		}
	}
}

// allocEscapesToGo: a heap alloc is shared only if it is captured by a closure or passed to a
// go statement or stored somewhere; conservatively true unless all referrers are loads/stores/
// field addresses/calls that take it as a plain argument of a non-go call.
func allocEscapesToGo(a *ssa.Alloc) bool {
	refs := a.Referrers()
	if refs == nil {
		return true
	}
	for _, r := range *refs {
		switch r := r.(type) {
		case *ssa.UnOp, *ssa.FieldAddr, *ssa.IndexAddr, *ssa.DebugRef:
		case *ssa.Store:
			if r.Val == a {
				return true
			}
		case *ssa.Call:
			// passing &local to a synchronous call: callee may retain it; be conservative
			// only for in-module callees that spawn goroutines — approximated as shared.
			return true
		default:
			return true
		}
	}
	return false
}

func (p *Program) canonCall(f *Frame, v *ssa.Call, rec func(ssa.Value) *Term) *Term {
	c := v.Common()
	// builtins
	if b, ok := c.Value.(*ssa.Builtin); ok {
		switch b.Name() {
		case "len", "cap":
			a := rec(c.Args[0])
			s := a.S
			return derive(b.Name()+"("+s+")", a)
		}
		return p.opaque(f, v)
	}
	argTerms := func() ([]*Term, string) {
		var ts []*Term
		var ss []string
		for _, a := range c.Args {
			t := rec(a)
			ts = append(ts, t)
			ss = append(ss, t.S)
		}
		return ts, strings.Join(ss, ", ")
	}
	if c.IsInvoke() {
		iface := ifaceOf(c)
		if iface != "" && ifaceObservers[iface][c.Method.Name()] {
			recv := rec(c.Value)
			ts, as := argTerms()
			t := derive(recv.S+"."+c.Method.Name()+"("+as+")", append(ts, recv)...)
			t.Ifaces[iface] = true
			t.Shared = true
			return t
		}
		return p.opaque(f, v)
	}
	callee := c.StaticCallee()
	if callee == nil {
		return p.opaque(f, v)
	}
	// external pure functions of interest
	if callee.Pkg != nil && callee.Pkg.Pkg.Path() == "time" {
		switch callee.Name() {
		case "Since":
			ts, as := argTerms()
			t := derive("time.Since("+as+")", ts...)
			t.Volatile = true
			return t
		case "Now":
			t := newTerm("time.Now()")
			t.Volatile = true
			return t
		}
	}
	if !p.InScope[callee] {
		return p.opaque(f, v)
	}
	pi := p.Purity(callee)
	if !pi.Pure {
		return p.opaque(f, v)
	}
	// single-expression accessor: expand in place
	if len(callee.Blocks) == 1 {
		b := callee.Blocks[0]
		if ret, ok := b.Instrs[len(b.Instrs)-1].(*ssa.Return); ok && len(ret.Results) == 1 {
			sub := &Frame{Fn: callee, Parent: f, Bind: map[ssa.Value]*Term{}, cache: map[ssa.Value]*Term{}, Depth: f.Depth + 1}
			for i, par := range callee.Params {
				sub.Bind[par] = rec(c.Args[i])
			}
			if f.Depth < 6 {
				t := p.Canon(sub, ret.Results[0])
				if !t.Opaque {
					return t
				}
			}
		}
	}
	ts, _ := argTerms()
	var name string
	var parts []string
	if callee.Signature.Recv() != nil && len(ts) > 0 {
		name = ts[0].S + "." + callee.Name()
		for _, t := range ts[1:] {
			parts = append(parts, t.S)
		}
	} else {
		name = FuncName(callee)
		for _, t := range ts {
			parts = append(parts, t.S)
		}
	}
	t := derive(name+"("+strings.Join(parts, ", ")+")", ts...)
	for fl := range pi.Fields {
		t.Fields[fl] = true
	}
	for i := range pi.Ifaces {
		t.Ifaces[i] = true
	}
	if len(pi.Fields) > 0 || len(pi.Ifaces) > 0 {
		t.Shared = true
	}
	t.HasMap = t.HasMap || pi.HasMap
	t.Volatile = t.Volatile || pi.Volatile
	return t
}

// pureInfo is the effect summary of a module function as far as term stability is concerned.
type pureInfo struct {
	Pure     bool
	Fields   map[*types.Var]bool
	Ifaces   map[string]bool
	HasMap   bool
	Volatile bool
	Why      string
	busy     bool
}

// Purity decides whether fn writes no module memory and calls no mutator, and collects what it reads.
func (p *Program) Purity(fn *ssa.Function) *pureInfo {
	if pi, ok := p.pure[fn]; ok {
		if pi.busy {
			return &pureInfo{Pure: false, Why: "recursion"}
		}
		return pi
	}
	pi := &pureInfo{Pure: true, Fields: map[*types.Var]bool{}, Ifaces: map[string]bool{}, busy: true}
	p.pure[fn] = pi
	fail := func(why string) {
		if pi.Pure {
			pi.Pure = false
			pi.Why = why
		}
	}
	for _, b := range fn.Blocks {
		for _, in := range b.Instrs {
			switch in := in.(type) {
			case *ssa.Store:
				if !localAddr(in.Addr) {
					fail("store at " + p.InstrPos(in))
				}
			case *ssa.MapUpdate:
				if !localMap(in.Map) {
					fail("map update")
				}
			case *ssa.Send, *ssa.Go, *ssa.Defer:
				fail("send/go/defer")
			case *ssa.FieldAddr:
				pi.Fields[fieldOf(in.X.Type(), in.Field)] = true
			case *ssa.Lookup:
				pi.HasMap = true
			case *ssa.Call:
				c := in.Common()
				if bi, ok := c.Value.(*ssa.Builtin); ok {
					switch bi.Name() {
					case "delete", "copy", "close":
						fail("builtin " + bi.Name())
					case "append":
						// append may write into shared backing arrays; treat as impure unless local
					}
					continue
				}
				if c.IsInvoke() {
					iface := ifaceOf(c)
					if iface != "" && ifaceObservers[iface][c.Method.Name()] {
						pi.Ifaces[iface] = true
						continue
					}
					fail("invoke " + c.Method.Name())
					continue
				}
				callee := c.StaticCallee()
				if callee == nil {
					fail("dynamic call")
					continue
				}
				if p.IsNoReturnCall(c) {
					continue
				}
				if p.InScope[callee] {
					if callee.Pkg != nil && callee.Pkg.Pkg.Path() == ModulePath+"/logging" {
						continue
					}
					sub := p.Purity(callee)
					if !sub.Pure {
						fail("calls " + FuncName(callee))
						continue
					}
					for f := range sub.Fields {
						pi.Fields[f] = true
					}
					for i := range sub.Ifaces {
						pi.Ifaces[i] = true
					}
					pi.HasMap = pi.HasMap || sub.HasMap
					pi.Volatile = pi.Volatile || sub.Volatile
					continue
				}
				if callee.Pkg != nil {
					switch callee.Pkg.Pkg.Path() {
					case "time":
						if callee.Name() == "Now" || callee.Name() == "Since" {
							pi.Volatile = true
						}
						continue
					case "fmt", "errors", "strings", "strconv", "math", "sort", "bytes", "path/filepath", "regexp":
						continue
					case ModulePath + "/logging":
						continue
					}
				}
				// methods of time.Time etc.
				if callee.Signature.Recv() != nil {
					if n := namedName(callee.Signature.Recv().Type()); n == "Time" || n == "Duration" {
						continue
					}
				}
				fail("external call " + callee.String())
			}
		}
	}
	pi.busy = false
	return pi
}

func localAddr(a ssa.Value) bool {
	for {
		switch x := a.(type) {
		case *ssa.Alloc:
			return true
		case *ssa.FieldAddr:
			a = x.X
		case *ssa.IndexAddr:
			a = x.X
		default:
			return false
		}
	}
}

func localMap(m ssa.Value) bool {
	switch x := m.(type) {
	case *ssa.MakeMap:
		return true
	case *ssa.UnOp:
		if x.Op == token.MUL {
			return localAddr(x.X)
		}
	}
	return false
}

// sortedKeys renders a deterministic list of field names.
func fieldNames(m map[*types.Var]bool) []string {
	var out []string
	for f := range m {
		out = append(out, f.Name())
	}
	sort.Strings(out)
	return out
}
