package lint

import (
	"go/token"
	"go/types"

	"golang.org/x/tools/go/ssa"
)

// ruleConfFuture: CONF-FUTURE.
//
// A membership change that commits is applied by applyLoop, which then answers the pending configuration future with
// the configuration now in force. Applying a configuration can itself fail that future: a configuration that removes
// this node makes it step down (nextConfiguration -> stepdown), and stepping down answers whatever is pending with
// ErrNotLeader and forgets the channel. So the channel the success answer goes to must have been read BEFORE anything
// that can fail-and-forget it is called in the same iteration, and the configuration it carries must be read AFTER the
// entry was applied. (D36: the pinned code read the channel afterwards; a leader asked to remove itself reported
// ErrNotLeader for a removal that had committed and taken effect.)
func ruleConfFuture() *Rule {
	const id = "CONF-FUTURE"
	return &Rule{
		ID: id,
		Text: "In applyLoop the success answer for an applied configuration entry goes to the value r.configurationResponseCh had before any call of that iteration that can " +
			"(transitively) store to r.configurationResponseCh, and carries r.configuration as read after the call that applies the entry.",
		Floor: 2,
		Run: func(p *Program) []Obligation {
			const fname = "(*Raft).applyLoop"
			fn := p.Func(fname)
			chFld, cfgFld := p.Field("Raft.configurationResponseCh"), p.Field("Raft.configuration")
			if fn == nil || chFld == nil || cfgFld == nil {
				return missing(id, fname+" / Raft.configurationResponseCh / Raft.configuration")
			}
			// functions that (transitively, synchronously) store to the channel field / to the configuration field
			storesTo := func(fld *types.Var) map[*ssa.Function]bool {
				direct := map[*ssa.Function]bool{}
				for _, f := range p.SortedFuncs() {
					for _, b := range f.Blocks {
						for _, in := range b.Instrs {
							if s, fl := storeField(in); s != nil && fl == fld {
								direct[f] = true
							}
						}
					}
				}
				memo := map[*ssa.Function]int{}
				var reach func(f *ssa.Function) bool
				reach = func(f *ssa.Function) bool {
					if f == nil || !p.InScope[f] {
						return false
					}
					if v, ok := memo[f]; ok {
						return v == 1
					}
					memo[f] = 0
					r := direct[f]
					for _, b := range f.Blocks {
						for _, in := range b.Instrs {
							switch x := in.(type) {
							case *ssa.Call:
								if reach(x.Common().StaticCallee()) {
									r = true
								}
							case *ssa.Defer:
								if reach(x.Common().StaticCallee()) {
									r = true
								}
								if mc, ok := x.Common().Value.(*ssa.MakeClosure); ok {
									if cf, ok := mc.Fn.(*ssa.Function); ok && reach(cf) {
										r = true
									}
								}
							}
						}
					}
					if r {
						memo[f] = 1
					}
					return r
				}
				out := map[*ssa.Function]bool{}
				for _, f := range p.SortedFuncs() {
					if reach(f) {
						out[f] = true
					}
				}
				return out
			}
			clearers, appliers := storesTo(chFld), storesTo(cfgFld)
			// the start of an iteration: the block that fetches the entry
			var iterStart *ssa.BasicBlock
			for _, b := range fn.Blocks {
				for _, in := range b.Instrs {
					if iface, m, _ := invokeOf(in); iface == "Log" && m == "GetEntry" {
						iterStart = b
					}
				}
			}
			if iterStart == nil {
				return missing(id, "Log.GetEntry in "+fname)
			}
			// before(c, l): c is executed before l within one iteration
			before := func(c, l ssa.Instruction) bool {
				if c.Block() == l.Block() {
					for _, in := range c.Block().Instrs {
						if in == c {
							return true
						}
						if in == l {
							return false
						}
					}
				}
				seen := map[*ssa.BasicBlock]bool{iterStart: true}
				work := append([]*ssa.BasicBlock{}, c.Block().Succs...)
				for len(work) > 0 {
					b := work[len(work)-1]
					work = work[:len(work)-1]
					if seen[b] {
						continue
					}
					seen[b] = true
					if b == l.Block() {
						return true
					}
					work = append(work, b.Succs...)
				}
				return false
			}
			isLoadOf := func(v ssa.Value, fld *types.Var) *ssa.UnOp {
				u, ok := v.(*ssa.UnOp)
				if !ok || u.Op != token.MUL {
					return nil
				}
				fa, ok := u.X.(*ssa.FieldAddr)
				if !ok || fieldOf(fa.X.Type(), fa.Field) != fld {
					return nil
				}
				return u
			}
			var out []Obligation
			n := 0
			for _, b := range fn.Blocks {
				for _, in := range b.Instrs {
					c, ok := in.(*ssa.Call)
					if !ok || len(c.Common().Args) != 3 {
						continue
					}
					callee := c.Common().StaticCallee()
					if callee == nil {
						continue
					}
					name := callee.Name()
					if o := callee.Origin(); o != nil {
						name = o.Name()
					}
					if name != "respond" {
						continue
					}
					if cn, isC := c.Common().Args[2].(*ssa.Const); !isC || !cn.IsNil() {
						continue
					}
					// a success answer: is it the configuration future's?
					cfgVal, isCfg := c.Common().Args[1].(*ssa.UnOp)
					if !isCfg || cfgVal.Op != token.MUL {
						continue
					}
					cfgLoad := isLoadOf(cfgVal.X, cfgFld)
					if cfgLoad == nil {
						continue
					}
					n++
					keyC := "the configuration future's success answer goes to the channel pending before the entry was applied, in " + fname
					keyV := "the configuration future's success answer carries the configuration read after the entry was applied, in " + fname
					chLoad := isLoadOf(c.Common().Args[0], chFld)
					if chLoad == nil {
						out = append(out, Obligation{Rule: id, Construct: keyC, Pos: p.InstrPos(c), Verdict: Undecided,
							Detail: "the channel answered is not a read of r.configurationResponseCh: " + describe(nil, c.Common().Args[0])})
					} else {
						// stores of nil to the slot in applyLoop itself
						var nilStores []*ssa.Store
						for _, bb := range fn.Blocks {
							for _, x := range bb.Instrs {
								if st, fl := storeField(x); st != nil && fl == chFld {
									if cn, isC := st.Val.(*ssa.Const); isC && cn.IsNil() {
										nilStores = append(nilStores, st)
									}
								}
							}
						}
						bad := ""
						for _, bb := range fn.Blocks {
							for _, x := range bb.Instrs {
								cc, isCall := x.(*ssa.Call)
								if !isCall || cc == c {
									continue
								}
								f := cc.Common().StaticCallee()
								if f == nil || !clearers[f] || !before(cc, c) {
									continue
								}
								// a call that can answer the pending slot with an error runs before the success answer
								if before(cc, chLoad) {
									bad = "r.configurationResponseCh is read after the call of " + FuncName(f) + " at " + p.InstrPos(cc) + ", which can answer it with an error and set it to nil"
									continue
								}
								emptied := false
								for _, st := range nilStores {
									if before(chLoad, st) && before(st, cc) && st.Block().Dominates(cc.Block()) {
										emptied = true
									}
								}
								if !emptied {
									bad = "the slot r.configurationResponseCh still holds the channel when " + FuncName(f) + " is called at " + p.InstrPos(cc) +
										", which can answer it with an error first (the channel has room for one answer: the success answer that follows is dropped)"
								}
							}
						}
						ob := Obligation{Rule: id, Construct: keyC, Pos: p.InstrPos(c)}
						if bad != "" {
							ob.Verdict = Violated
							ob.Detail = bad + " (applying a configuration that removes this node steps it down): " +
								"the submitter of a removal of the leader is told ErrNotLeader although the change committed while it led and is in force"
						} else {
							ob.Verdict, ob.Detail = Discharged, "r.configurationResponseCh is read, and the slot emptied, before every call of the iteration that can answer it"
						}
						out = append(out, ob)
					}
					okV := false
					for _, bb := range fn.Blocks {
						for _, x := range bb.Instrs {
							cc, isCall := x.(*ssa.Call)
							if !isCall {
								continue
							}
							if f := cc.Common().StaticCallee(); f != nil && appliers[f] && before(cc, cfgLoad) && cc.Block().Dominates(cfgLoad.Block()) {
								okV = true
							}
						}
					}
					ob := Obligation{Rule: id, Construct: keyV, Pos: p.InstrPos(c)}
					if okV {
						ob.Verdict, ob.Detail = Discharged, "r.configuration is read after a call that puts the applied configuration in force"
					} else {
						ob.Verdict, ob.Detail = Violated, "r.configuration is read before the entry is applied: a successful membership change reports the configuration it replaced"
					}
					out = append(out, ob)
				}
			}
			if n == 0 {
				return missing(id, "respond(…, *r.configuration, nil) in "+fname)
			}
			return out
		},
	}
}
