package lint

import (
	"go/token"
	"go/types"

	"golang.org/x/tools/go/ssa"
)

// ruleConfFuture: CONF-FUTURE.
//
// A membership change that commits is applied by applyLoop, which then answers the pending configuration future with
// the configuration now in force. Applying a configuration can itself fail that future: a configuration that removes
// this node makes it step down (nextConfiguration -> stepdown), and stepping down answers whatever is pending with
// ErrNotLeader and forgets the channel. So the channel the success answer goes to must have been read BEFORE anything
// that can fail-and-forget it is called in the same iteration, and the configuration it carries must be read AFTER the
// entry was applied. (D36: the pinned code read the channel afterwards; a leader asked to remove itself reported
// ErrNotLeader for a removal that had committed and taken effect.)
func ruleConfFuture() *Rule {
	const id = "CONF-FUTURE"
	return &Rule{
		ID: id,
		Text: "In applyLoop the success answer for an applied configuration entry goes to the value r.configurationResponseCh had before any call of that iteration that can " +
			"(transitively) store to r.configurationResponseCh, and carries r.configuration as read after the call that applies the entry. " +
			"Where the slot is answered with an error (leadership ends, Stop) the answer lies on the side of a comparison r.configuration.Index > r.commitIndex, the committed side answers successfully (D42). " +
			"AddServer's no-change shortcut is reached only where Members[id] == address (D43). appendConfiguration in AddServer/RemoveServer lies behind a voter-exists predicate over the new configuration (D44).",
		Floor: 8,
		Run: func(p *Program) []Obligation {
			const fname = "(*Raft).applyLoop"
			fn := p.Func(fname)
			chFld, cfgFld := p.Field("Raft.configurationResponseCh"), p.Field("Raft.configuration")
			if fn == nil || chFld == nil || cfgFld == nil {
				return missing(id, fname+" / Raft.configurationResponseCh / Raft.configuration")
			}
			// functions that (transitively, synchronously) store to the channel field / to the configuration field
			storesTo := func(fld *types.Var) map[*ssa.Function]bool {
				direct := map[*ssa.Function]bool{}
				for _, f := range p.SortedFuncs() {
					for _, b := range f.Blocks {
						for _, in := range b.Instrs {
							if s, fl := storeField(in); s != nil && fl == fld {
								direct[f] = true
							}
						}
					}
				}
				memo := map[*ssa.Function]int{}
				var reach func(f *ssa.Function) bool
				reach = func(f *ssa.Function) bool {
					if f == nil || !p.InScope[f] {
						return false
					}
					if v, ok := memo[f]; ok {
						return v == 1
					}
					memo[f] = 0
					r := direct[f]
					for _, b := range f.Blocks {
						for _, in := range b.Instrs {
							switch x := in.(type) {
							case *ssa.Call:
								if reach(x.Common().StaticCallee()) {
									r = true
								}
							case *ssa.Defer:
								if reach(x.Common().StaticCallee()) {
									r = true
								}
								if mc, ok := x.Common().Value.(*ssa.MakeClosure); ok {
									if cf, ok := mc.Fn.(*ssa.Function); ok && reach(cf) {
										r = true
									}
								}
							}
						}
					}
					if r {
						memo[f] = 1
					}
					return r
				}
				out := map[*ssa.Function]bool{}
				for _, f := range p.SortedFuncs() {
					if reach(f) {
						out[f] = true
					}
				}
				return out
			}
			clearers, appliers := storesTo(chFld), storesTo(cfgFld)
			// the start of an iteration: the block that fetches the entry
			var iterStart *ssa.BasicBlock
			for _, b := range fn.Blocks {
				for _, in := range b.Instrs {
					if iface, m, _ := invokeOf(in); iface == "Log" && m == "GetEntry" {
						iterStart = b
					}
				}
			}
			if iterStart == nil {
				return missing(id, "Log.GetEntry in "+fname)
			}
			// before(c, l): c is executed before l within one iteration
			before := func(c, l ssa.Instruction) bool {
				if c.Block() == l.Block() {
					for _, in := range c.Block().Instrs {
						if in == c {
							return true
						}
						if in == l {
							return false
						}
					}
				}
				seen := map[*ssa.BasicBlock]bool{iterStart: true}
				work := append([]*ssa.BasicBlock{}, c.Block().Succs...)
				for len(work) > 0 {
					b := work[len(work)-1]
					work = work[:len(work)-1]
					if seen[b] {
						continue
					}
					seen[b] = true
					if b == l.Block() {
						return true
					}
					work = append(work, b.Succs...)
				}
				return false
			}
			isLoadOf := func(v ssa.Value, fld *types.Var) *ssa.UnOp {
				u, ok := v.(*ssa.UnOp)
				if !ok || u.Op != token.MUL {
					return nil
				}
				fa, ok := u.X.(*ssa.FieldAddr)
				if !ok || fieldOf(fa.X.Type(), fa.Field) != fld {
					return nil
				}
				return u
			}
			var out []Obligation
			n := 0
			for _, b := range fn.Blocks {
				for _, in := range b.Instrs {
					c, ok := in.(*ssa.Call)
					if !ok || len(c.Common().Args) != 3 {
						continue
					}
					callee := c.Common().StaticCallee()
					if callee == nil {
						continue
					}
					name := callee.Name()
					if o := callee.Origin(); o != nil {
						name = o.Name()
					}
					if name != "respond" {
						continue
					}
					if cn, isC := c.Common().Args[2].(*ssa.Const); !isC || !cn.IsNil() {
						continue
					}
					// a success answer: is it the configuration future's?
					cfgVal, isCfg := c.Common().Args[1].(*ssa.UnOp)
					if !isCfg || cfgVal.Op != token.MUL {
						continue
					}
					cfgLoad := isLoadOf(cfgVal.X, cfgFld)
					if cfgLoad == nil {
						continue
					}
					n++
					keyC := "the configuration future's success answer goes to the channel pending before the entry was applied, in " + fname
					keyV := "the configuration future's success answer carries the configuration read after the entry was applied, in " + fname
					chLoad := isLoadOf(c.Common().Args[0], chFld)
					if phi, isPhi := c.Common().Args[0].(*ssa.Phi); isPhi && chLoad == nil {
						// nil on the paths on which this entry is not the pending change's, the slot's value on the others
						for _, e := range phi.Edges {
							if k, isK := e.(*ssa.Const); isK && k.IsNil() {
								continue
							}
							if l := isLoadOf(e, chFld); l != nil && chLoad == nil {
								chLoad = l
							} else {
								chLoad = nil
								break
							}
						}
					}
					// (D46) the slot is taken for THIS entry only if this entry is the pending change's: the apply loop also
					// applies older configuration entries while a change is pending (after a restart, lastApplied is behind)
					if chLoad != nil {
						keyE := "the configuration future is answered by the entry of the pending change only, in " + fname
						entryIdx, cfgIdx := p.Field("LogEntry.Index"), p.Field("Configuration.Index")
						tied := false
						for _, bb := range fn.Blocks {
							iff, isIf := bb.Instrs[len(bb.Instrs)-1].(*ssa.If)
							if !isIf {
								continue
							}
							bo, isBo := iff.Cond.(*ssa.BinOp)
							if !isBo || bo.Op != token.EQL {
								continue
							}
							isE := func(v ssa.Value) bool { return isLoadOf(v, entryIdx) != nil }
							isC := func(v ssa.Value) bool {
								l := isLoadOf(v, cfgIdx)
								if l == nil {
									return false
								}
								return isLoadOf(l.X.(*ssa.FieldAddr).X, cfgFld) != nil
							}
							if !((isE(bo.X) && isC(bo.Y)) || (isC(bo.X) && isE(bo.Y))) {
								continue
							}
							if t := bb.Succs[0]; len(t.Preds) == 1 && t.Dominates(chLoad.Block()) {
								tied = true
							}
						}
						ob := Obligation{Rule: id, Construct: keyE, Pos: p.InstrPos(chLoad)}
						if entryIdx == nil || cfgIdx == nil {
							ob.Verdict, ob.Detail = AnchorLost, "LogEntry.Index / Configuration.Index not found"
						} else if tied {
							ob.Verdict, ob.Detail = Discharged, "r.configurationResponseCh is taken only where entry.Index == r.configuration.Index"
						} else {
							ob.Verdict = Violated
							ob.Detail = "the pending membership future is answered when ANY configuration entry is applied: an older configuration entry applied while the change is pending " +
								"(a restarted leader whose lastApplied is behind its log) resolves the future successfully before its own entry is committed"
						}
						out = append(out, ob)
					}
					if chLoad == nil {
						out = append(out, Obligation{Rule: id, Construct: keyC, Pos: p.InstrPos(c), Verdict: Undecided,
							Detail: "the channel answered is not a read of r.configurationResponseCh: " + describe(nil, c.Common().Args[0])})
					} else {
						// stores of nil to the slot in applyLoop itself
						var nilStores []*ssa.Store
						for _, bb := range fn.Blocks {
							for _, x := range bb.Instrs {
								if st, fl := storeField(x); st != nil && fl == chFld {
									if cn, isC := st.Val.(*ssa.Const); isC && cn.IsNil() {
										nilStores = append(nilStores, st)
									}
								}
							}
						}
						bad := ""
						for _, bb := range fn.Blocks {
							for _, x := range bb.Instrs {
								cc, isCall := x.(*ssa.Call)
								if !isCall || cc == c {
									continue
								}
								f := cc.Common().StaticCallee()
								if f == nil || !clearers[f] || !before(cc, c) {
									continue
								}
								// a call that can answer the pending slot with an error runs before the success answer
								if before(cc, chLoad) {
									bad = "r.configurationResponseCh is read after the call of " + FuncName(f) + " at " + p.InstrPos(cc) + ", which can answer it with an error and set it to nil"
									continue
								}
								emptied := false
								for _, st := range nilStores {
									// whenever the channel is taken the slot is emptied (same block), before the call
									if before(chLoad, st) && before(st, cc) && (st.Block().Dominates(cc.Block()) || st.Block() == chLoad.Block()) {
										emptied = true
									}
								}
								if !emptied {
									bad = "the slot r.configurationResponseCh still holds the channel when " + FuncName(f) + " is called at " + p.InstrPos(cc) +
										", which can answer it with an error first (the channel has room for one answer: the success answer that follows is dropped)"
								}
							}
						}
						ob := Obligation{Rule: id, Construct: keyC, Pos: p.InstrPos(c)}
						if bad != "" {
							ob.Verdict = Violated
							ob.Detail = bad + " (applying a configuration that removes this node steps it down): " +
								"the submitter of a removal of the leader is told ErrNotLeader although the change committed while it led and is in force"
						} else {
							ob.Verdict, ob.Detail = Discharged, "r.configurationResponseCh is read, and the slot emptied, before every call of the iteration that can answer it"
						}
						out = append(out, ob)
					}
					okV := false
					for _, bb := range fn.Blocks {
						for _, x := range bb.Instrs {
							cc, isCall := x.(*ssa.Call)
							if !isCall {
								continue
							}
							if f := cc.Common().StaticCallee(); f != nil && appliers[f] && before(cc, cfgLoad) && cc.Block().Dominates(cfgLoad.Block()) {
								okV = true
							}
						}
					}
					ob := Obligation{Rule: id, Construct: keyV, Pos: p.InstrPos(c)}
					if okV {
						ob.Verdict, ob.Detail = Discharged, "r.configuration is read after a call that puts the applied configuration in force"
					} else {
						ob.Verdict, ob.Detail = Violated, "r.configuration is read before the entry is applied: a successful membership change reports the configuration it replaced"
					}
					out = append(out, ob)
				}
			}
			if n == 0 {
				applies := ""
				for _, b := range fn.Blocks {
					for _, in := range b.Instrs {
						if c, ok := in.(*ssa.Call); ok && c.Common().StaticCallee() != nil && appliers[c.Common().StaticCallee()] {
							applies = p.InstrPos(c)
						}
					}
				}
				if applies == "" {
					return missing(id, "respond(…, *r.configuration, nil) in "+fname)
				}
				return append([]Obligation{{Rule: id, Construct: "the configuration future's success answer goes to the channel pending before the entry was applied, in " + fname, Pos: applies, Verdict: Violated,
					Detail: "applyLoop applies configuration entries (" + applies + ") but never answers the pending membership future with the configuration in force: a membership change that commits and is applied under its submitter's leadership only times out"}},
					confFutureFailures(p, id, chFld, cfgFld)...)
			}
			out = append(out, confFutureFailures(p, id, chFld, cfgFld)...)
			out = append(out, confShortcutAndVoters(p, id)...)
			return out
		},
	}
}

// confFutureFailures: wherever the pending membership future is FAILED (respond on the slot with a non-nil error: the
// node stops leading, or is stopped), the change it waits for may already be committed — commitLoop moves commitIndex,
// the apply loop answers the future later. A committed change has taken place; its future must not say it has not
// (C18: "a membership change that commits while its submitter is still leader resolves that future successfully").
// So in the function that fails the slot: a comparison r.configuration.Index <= r.commitIndex (either spelling), a
// success answer on its committed side, and the failing answer unreachable from that side. (D42.)
func confFutureFailures(p *Program, id string, chFld, cfgFld *types.Var) []Obligation {
	ciFld, idxFld := p.Field("Raft.commitIndex"), p.Field("Configuration.Index")
	if ciFld == nil || idxFld == nil {
		return missing(id, "Raft.commitIndex / Configuration.Index")
	}
	loadOf := func(v ssa.Value, fld *types.Var) (*ssa.UnOp, *ssa.FieldAddr) {
		u, ok := v.(*ssa.UnOp)
		if !ok || u.Op != token.MUL {
			return nil, nil
		}
		fa, ok := u.X.(*ssa.FieldAddr)
		if !ok || fieldOf(fa.X.Type(), fa.Field) != fld {
			return nil, nil
		}
		return u, fa
	}
	isRespond := func(in ssa.Instruction) *ssa.Call {
		c, ok := in.(*ssa.Call)
		if !ok || len(c.Common().Args) != 3 || c.Common().StaticCallee() == nil {
			return nil
		}
		callee := c.Common().StaticCallee()
		name := callee.Name()
		if o := callee.Origin(); o != nil {
			name = o.Name()
		}
		if name != "respond" {
			return nil
		}
		if u, _ := loadOf(c.Common().Args[0], chFld); u == nil {
			return nil
		}
		return c
	}
	var out []Obligation
	for _, fn := range p.SortedFuncs() {
		var fails, succs []*ssa.Call
		for _, b := range fn.Blocks {
			for _, in := range b.Instrs {
				c := isRespond(in)
				if c == nil {
					continue
				}
				if k, isC := c.Common().Args[2].(*ssa.Const); isC && k.IsNil() {
					succs = append(succs, c)
				} else {
					fails = append(fails, c)
				}
			}
		}
		if len(fails) == 0 {
			continue
		}
		// the committed side of a comparison of the configuration in force with the commit index
		var committedSide []*ssa.BasicBlock
		for _, b := range fn.Blocks {
			iff, ok := b.Instrs[len(b.Instrs)-1].(*ssa.If)
			if !ok {
				continue
			}
			bo, ok := iff.Cond.(*ssa.BinOp)
			if !ok {
				continue
			}
			isIdx := func(v ssa.Value) bool {
				u, fa := loadOf(v, idxFld)
				if u == nil {
					return false
				}
				base, _ := loadOf(fa.X, cfgFld)
				return base != nil
			}
			isCI := func(v ssa.Value) bool { u, _ := loadOf(v, ciFld); return u != nil }
			arm := -1
			switch {
			case isIdx(bo.X) && isCI(bo.Y) && bo.Op == token.LEQ, isCI(bo.X) && isIdx(bo.Y) && bo.Op == token.GEQ:
				arm = 0
			case isIdx(bo.X) && isCI(bo.Y) && bo.Op == token.GTR, isCI(bo.X) && isIdx(bo.Y) && bo.Op == token.LSS:
				arm = 1
			}
			if arm >= 0 && len(b.Succs[arm].Preds) == 1 {
				committedSide = append(committedSide, b.Succs[arm])
			}
		}
		for i, f := range fails {
			ob := Obligation{Rule: id, Construct: "the pending membership future is failed only if its change is not committed, in " + FuncName(fn) + ordSuffix(i+1), Pos: p.InstrPos(f)}
			switch {
			case len(committedSide) == 0:
				ob.Verdict = Violated
				ob.Detail = "the future of the pending membership change is answered with an error without asking whether the change has been committed (no comparison of r.configuration.Index with r.commitIndex in this function): " +
					"a leader that steps down or is stopped between the commit and the apply of the entry reports failure for a change that was committed under its leadership and takes effect"
			default:
				ok := true
				for _, t := range committedSide {
					if t == f.Block() || blockReaches(t, f.Block()) {
						ok = false
					}
					has := false
					for _, sc := range succs {
						if t.Dominates(sc.Block()) {
							has = true
						}
					}
					if !has {
						ok = false
					}
				}
				if ok {
					ob.Verdict, ob.Detail = Discharged, "on the side where r.configuration.Index <= r.commitIndex the slot is answered successfully, and the failing answer cannot be reached from there"
				} else {
					ob.Verdict = Violated
					ob.Detail = "the failing answer can be reached although r.configuration.Index <= r.commitIndex was established, or that side has no successful answer: a committed membership change is reported as failed"
				}
			}
			out = append(out, ob)
		}
	}
	if len(out) == 0 {
		return missing(id, "a failing respond on r.configurationResponseCh")
	}
	return out
}

// confShortcutAndVoters: two clauses on AddServer / RemoveServer.
//
// (D43) AddServer answers successfully at once, without appending anything, when the request changes nothing. "Nothing"
// must include the address: the shortcut's answer is reached only where r.configuration.Members[id] == address has been
// established (C09: "a configuration future that succeeds reports a committed configuration containing the requested
// change").
//
// (D44) The configuration handed to appendConfiguration has at least one voter: the call lies behind the positive
// outcome of a predicate over that very configuration that looks at IsVoter. A configuration without voters can never
// be committed, nor can anything after it, including the change that would add a voter back (C15, C18).
func confShortcutAndVoters(p *Program, id string) []Obligation {
	var out []Obligation
	appendFn := p.Func("(*Raft).appendConfiguration")
	isVoterFld, membersFld := p.Field("Configuration.IsVoter"), p.Field("Configuration.Members")
	if appendFn == nil || isVoterFld == nil || membersFld == nil {
		return missing(id, "(*Raft).appendConfiguration / Configuration.IsVoter / Configuration.Members")
	}
	// looksAtVoters: an in-module predicate over a configuration whose body reads IsVoter
	looksAtVoters := func(f *ssa.Function) bool {
		if f == nil || !p.InScope[f] || f.Signature.Results().Len() != 1 {
			return false
		}
		if b, ok := f.Signature.Results().At(0).Type().Underlying().(*types.Basic); !ok || b.Kind() != types.Bool {
			return false
		}
		for _, b := range f.Blocks {
			for _, in := range b.Instrs {
				if fa, ok := in.(*ssa.FieldAddr); ok && fieldOf(fa.X.Type(), fa.Field) == isVoterFld {
					return true
				}
			}
		}
		return false
	}
	for _, fname := range []string{"(*Raft).AddServer", "(*Raft).RemoveServer"} {
		fn := p.Func(fname)
		if fn == nil {
			out = append(out, missing(id, fname)...)
			continue
		}
		var appends []*ssa.Call
		for _, b := range fn.Blocks {
			for _, in := range b.Instrs {
				if c, ok := in.(*ssa.Call); ok && c.Common().StaticCallee() == appendFn {
					appends = append(appends, c)
				}
			}
		}
		if len(appends) == 0 {
			out = append(out, missing(id, "call of appendConfiguration in "+fname)...)
			continue
		}
		for _, ap := range appends {
			ob := Obligation{Rule: id, Construct: "the configuration appended by " + fname + " has a voter", Pos: p.InstrPos(ap)}
			cfgArg := ap.Common().Args[len(ap.Common().Args)-1]
			ok := false
			for _, b := range fn.Blocks {
				iff, isIf := b.Instrs[len(b.Instrs)-1].(*ssa.If)
				if !isIf {
					continue
				}
				cond, arm := iff.Cond, 0
				for {
					if u, isU := cond.(*ssa.UnOp); isU && u.Op == token.NOT {
						cond, arm = u.X, 1-arm
						continue
					}
					if bo, isBo := cond.(*ssa.BinOp); isBo && (bo.Op == token.EQL || bo.Op == token.NEQ) {
						if k, isK := constBool(bo.Y); isK {
							if k == (bo.Op == token.NEQ) { // x == false, x != true
								arm = 1 - arm
							}
							cond = bo.X
							continue
						}
					}
					break
				}
				c, isCall := cond.(*ssa.Call)
				if !isCall || !looksAtVoters(c.Common().StaticCallee()) || len(c.Common().Args) == 0 || c.Common().Args[0] != cfgArg {
					continue
				}
				if t := b.Succs[arm]; len(t.Preds) == 1 && t.Dominates(ap.Block()) {
					ok = true
				}
			}
			if ok {
				ob.Verdict, ob.Detail = Discharged, "appendConfiguration is reached only where a predicate over the new configuration that reads IsVoter has answered true"
			} else {
				ob.Verdict = Violated
				ob.Detail = "the new configuration is appended (and put in force) without a test that it still has a voting member: removing or demoting the only voter is accepted, " +
					"hasQuorum() can never be satisfied again, and neither this change nor any later operation or membership change (including one that adds a voter back) can ever be committed"
			}
			out = append(out, ob)
		}
		if fname != "(*Raft).AddServer" || len(fn.Params) < 3 {
			continue
		}
		// (D49) AddServer creates a follower record only for a node that has none: the record of a member whose status
		// changes (promotion) holds what the leader knows it has, and the new configuration cannot be committed without it
		if follFld := p.Field("Raft.followers"); follFld != nil {
			isFollowers := func(v ssa.Value) bool {
				u, ok := v.(*ssa.UnOp)
				if !ok || u.Op != token.MUL {
					return false
				}
				fa, ok := u.X.(*ssa.FieldAddr)
				return ok && fieldOf(fa.X.Type(), fa.Field) == follFld
			}
			for _, b := range fn.Blocks {
				for _, in := range b.Instrs {
					mu, ok := in.(*ssa.MapUpdate)
					if !ok || !isFollowers(mu.Map) {
						continue
					}
					ob := Obligation{Rule: id, Construct: "AddServer creates a follower record only for a node that has none", Pos: p.InstrPos(mu)}
					guarded := false
					for _, bb := range fn.Blocks {
						iff, isIf := bb.Instrs[len(bb.Instrs)-1].(*ssa.If)
						if !isIf {
							continue
						}
						// if ok (comma-ok of r.followers[key]) goto A else B : the update lies on the not-ok side
						ex, isEx := iff.Cond.(*ssa.Extract)
						if !isEx || ex.Index != 1 {
							continue
						}
						lk, isLk := ex.Tuple.(*ssa.Lookup)
						if !isLk || !lk.CommaOk || !isFollowers(lk.X) || lk.Index != mu.Key {
							continue
						}
						if t := bb.Succs[1]; len(t.Preds) == 1 && t.Dominates(b) {
							guarded = true
						}
					}
					if guarded {
						ob.Verdict, ob.Detail = Discharged, "r.followers[id] is assigned only where the comma-ok lookup of the same key found nothing"
					} else {
						ob.Verdict = Violated
						ob.Detail = "AddServer replaces the follower record of a node that may already be a member (promotion, demotion, change of address): its nextIndex/matchIndex are thrown away, " +
							"the leader sends it the snapshot and the log again, and the new configuration — which may need this very node — cannot be committed until that is done"
					}
					out = append(out, ob)
				}
			}
		}
		// the shortcut: a successful answer that no appendConfiguration precedes
		idPar, addrPar := fn.Params[1], fn.Params[2]
		for _, b := range fn.Blocks {
			for _, in := range b.Instrs {
				c, isCall := in.(*ssa.Call)
				if !isCall || len(c.Common().Args) != 3 || c.Common().StaticCallee() == nil {
					continue
				}
				callee := c.Common().StaticCallee()
				name := callee.Name()
				if o := callee.Origin(); o != nil {
					name = o.Name()
				}
				if k, isC := c.Common().Args[2].(*ssa.Const); name != "respond" || !isC || !k.IsNil() {
					continue
				}
				preceded := false
				for _, ap := range appends {
					if ap.Block() == b || ap.Block().Dominates(b) {
						preceded = true
					}
				}
				if preceded {
					continue
				}
				ob := Obligation{Rule: id, Construct: "AddServer answers successfully without a change only if the address is unchanged too", Pos: p.InstrPos(c)}
				ok := false
				for _, bb := range fn.Blocks {
					iff, isIf := bb.Instrs[len(bb.Instrs)-1].(*ssa.If)
					if !isIf {
						continue
					}
					bo, isBo := iff.Cond.(*ssa.BinOp)
					if !isBo || (bo.Op != token.EQL && bo.Op != token.NEQ) {
						continue
					}
					isMemberAddr := func(v ssa.Value) bool {
						lk, isLk := v.(*ssa.Lookup)
						if !isLk || lk.Index != ssa.Value(idPar) {
							return false
						}
						u, isU := lk.X.(*ssa.UnOp)
						if !isU || u.Op != token.MUL {
							return false
						}
						fa, isFA := u.X.(*ssa.FieldAddr)
						return isFA && fieldOf(fa.X.Type(), fa.Field) == membersFld
					}
					if !((isMemberAddr(bo.X) && bo.Y == ssa.Value(addrPar)) || (isMemberAddr(bo.Y) && bo.X == ssa.Value(addrPar))) {
						continue
					}
					arm := 0
					if bo.Op == token.NEQ {
						arm = 1
					}
					if t := bb.Succs[arm]; len(t.Preds) == 1 && t.Dominates(b) {
						ok = true
					}
				}
				if ok {
					ob.Verdict, ob.Detail = Discharged, "the answer is reached only where r.configuration.Members[id] == address"
				} else {
					ob.Verdict = Violated
					ob.Detail = "AddServer reports success without appending anything although the requested address may differ from the member's current one: " +
						"the future succeeds with a configuration that does not contain the requested change"
				}
				out = append(out, ob)
			}
		}
	}
	return out
}
