package lint

import (
	"go/token"
	"go/types"
	"strings"

	"golang.org/x/tools/go/ssa"
)

// ruleSendCancel: SEND-CANCEL (C18).
//
// The bundled transport makes its outgoing calls while holding the read side of transport.mu, and Shutdown() begins by
// taking the write side. A call that is never answered (a peer that accepts the request and then hangs) is therefore a
// Shutdown() — and a Raft.Stop() — that never returns, unless the calls can be cancelled from outside: each call is made
// with a context kept in the transport, and Shutdown() cancels it BEFORE it waits for the lock.
//
// D45: the calls were made with context.Background().
func ruleSendCancel() *Rule {
	const id = "SEND-CANCEL"
	return &Rule{
		ID: id,
		Text: "Every outgoing RPC of the bundled transport (a call through the generated client interface in a method of transport) is made with a context read from a field of the transport, " +
			"never context.Background()/TODO(); (*transport).Shutdown calls a context.CancelFunc read from a field of the transport before its first Lock() of transport.mu.",
		Floor: 4,
		Run: func(p *Program) []Obligation {
			tr := p.NamedType("transport")
			if tr == nil {
				return missing(id, "type transport")
			}
			isTransportPtr := func(t types.Type) bool {
				ptr, ok := types.Unalias(t).(*types.Pointer)
				if !ok {
					return false
				}
				n, ok := types.Unalias(ptr.Elem()).(*types.Named)
				return ok && n.Obj() == tr.Obj()
			}
			fieldLoadOfTransport := func(v ssa.Value) (*types.Var, bool) {
				u, ok := v.(*ssa.UnOp)
				if !ok || u.Op != token.MUL {
					return nil, false
				}
				fa, ok := u.X.(*ssa.FieldAddr)
				if !ok || !isTransportPtr(fa.X.Type()) {
					return nil, false
				}
				return fieldOf(fa.X.Type(), fa.Field), true
			}
			isContext := func(t types.Type) bool {
				n, ok := types.Unalias(t).(*types.Named)
				return ok && n.Obj().Pkg() != nil && n.Obj().Pkg().Path() == "context" && n.Obj().Name() == "Context"
			}
			var out []Obligation
			calls, deadlines := 0, 0
			for _, fn := range p.SortedFuncs() {
				if fn.Signature.Recv() == nil || !isTransportPtr(fn.Signature.Recv().Type()) {
					continue
				}
				for _, b := range fn.Blocks {
					for _, in := range b.Instrs {
						c, ok := in.(*ssa.Call)
						if !ok || !c.Common().IsInvoke() || len(c.Common().Args) == 0 || !isContext(c.Common().Args[0].Type()) {
							continue
						}
						// an outgoing call through a client interface of the generated package
						n, ok := types.Unalias(c.Common().Value.Type()).(*types.Named)
						if !ok || n.Obj().Pkg() == nil || !strings.HasPrefix(n.Obj().Pkg().Path(), ModulePath) || !strings.HasSuffix(n.Obj().Name(), "Client") {
							continue
						}
						calls++
						ob := Obligation{Rule: id, Construct: "context of the outgoing call " + n.Obj().Name() + "." + c.Common().Method.Name() + " in " + FuncName(fn), Pos: p.InstrPos(c)}
						arg := c.Common().Args[0]
						if f, ok := fieldLoadOfTransport(arg); ok {
							ob.Verdict, ob.Detail = Discharged, "the call is made with the context kept in transport."+f.Name()
						} else if cc, ok := arg.(*ssa.Call); ok && cc.Common().StaticCallee() != nil && cc.Common().StaticCallee().Pkg != nil && cc.Common().StaticCallee().Pkg.Pkg.Path() == "context" &&
							(cc.Common().StaticCallee().Name() == "Background" || cc.Common().StaticCallee().Name() == "TODO") {
							ob.Verdict = Violated
							ob.Detail = "the call is made with context." + cc.Common().StaticCallee().Name() + "(): nothing can end it but the peer's answer, and it holds the read side of transport.mu meanwhile: " +
								"Shutdown() (which takes the write side first) and Raft.Stop() never return while one peer accepts requests without answering them"
						} else if ex, ok := arg.(*ssa.Extract); ok && ex.Index == 0 && isDeadlineCtor(ex.Tuple) {
							deadlines++
							ob.Verdict, ob.Detail = Discharged, "the call is made with a context that has a deadline of its own"
						} else {
							ob.Verdict, ob.Detail = Undecided, "the context of the call is neither a field of the transport nor context.Background(): "+describe(nil, arg)
						}
						out = append(out, ob)
					}
				}
			}
			if calls == 0 {
				out = append(out, missing(id, "outgoing calls through the generated client in methods of transport")...)
			}
			// Shutdown cancels before it waits for the lock
			sd := p.Func("(*transport).Shutdown")
			if sd == nil {
				return append(out, missing(id, "(*transport).Shutdown")...)
			}
			ob := Obligation{Rule: id, Construct: "(*transport).Shutdown cancels the calls in flight before it waits for transport.mu", Pos: p.Pos(sd.Pos())}
			var firstLock *ssa.Call
			var cancels []*ssa.Call
			for _, b := range sd.Blocks {
				for _, in := range b.Instrs {
					c, ok := in.(*ssa.Call)
					if !ok {
						continue
					}
					if op, _ := isMutexOp(c.Common()); op == "RWMutex.Lock" || op == "Mutex.Lock" {
						if firstLock == nil || c.Block().Dominates(firstLock.Block()) && c.Block() != firstLock.Block() {
							firstLock = c
						}
					}
					if c.Common().StaticCallee() == nil && !c.Common().IsInvoke() {
						// a call of a function value: a CancelFunc read from the transport (possibly via a local)
						if n, ok := types.Unalias(c.Common().Value.Type()).(*types.Named); ok && n.Obj().Pkg() != nil && n.Obj().Pkg().Path() == "context" && n.Obj().Name() == "CancelFunc" {
							if _, ok := fieldLoadOfTransport(c.Common().Value); ok {
								cancels = append(cancels, c)
							}
						}
					}
				}
			}
			switch {
			case calls > 0 && deadlines == calls:
				ob.Verdict, ob.Detail = Discharged, "every outgoing call has a deadline of its own: Shutdown waits at most that long"
			case firstLock == nil:
				ob.Verdict, ob.Detail = Undecided, "no Lock() of a mutex found in Shutdown"
			case len(cancels) == 0:
				ob.Verdict, ob.Detail = Violated, "Shutdown never calls a context.CancelFunc kept in the transport: calls in flight end only when the peer answers"
			default:
				ok := false
				for _, c := range cancels {
					if instrReaches(c, firstLock) && !instrReaches(firstLock, c) {
						ok = true
					}
				}
				if ok {
					ob.Verdict, ob.Detail = Discharged, "the CancelFunc is called on a path before the first Lock() of transport.mu (at "+p.InstrPos(firstLock)+")"
				} else {
					ob.Verdict, ob.Detail = Violated, "the CancelFunc is called only after Shutdown has waited for the write lock, which the calls in flight keep it from getting"
				}
			}
			return append(out, ob)
		},
	}
}

func isDeadlineCtor(v ssa.Value) bool {
	c, ok := v.(*ssa.Call)
	if !ok || c.Common().StaticCallee() == nil || c.Common().StaticCallee().Pkg == nil {
		return false
	}
	f := c.Common().StaticCallee()
	return f.Pkg.Pkg.Path() == "context" && (f.Name() == "WithTimeout" || f.Name() == "WithDeadline")
}
