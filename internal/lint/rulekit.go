package lint

import (
	"fmt"
	"go/constant"
	"go/token"
	"go/types"
	"sort"
	"strings"

	"golang.org/x/tools/go/ssa"
)

// storeField returns the field a store writes through, if its address is a field address.
func storeField(in ssa.Instruction) (*ssa.Store, *types.Var) {
	s, ok := in.(*ssa.Store)
	if !ok {
		return nil, nil
	}
	fa, ok := s.Addr.(*ssa.FieldAddr)
	if !ok {
		return s, nil
	}
	return s, fieldOf(fa.X.Type(), fa.Field)
}

// isFieldOf reports whether fld is the field "Type.name" of package raft.
func isFieldOf(fld *types.Var, p *Program, spec string) bool {
	return fld != nil && fld == p.Field(spec)
}

func constBool(v ssa.Value) (bool, bool) {
	c, ok := v.(*ssa.Const)
	if !ok || c.Value == nil || c.Value.Kind() != constant.Bool {
		return false, false
	}
	return constant.BoolVal(c.Value), true
}

// invokeOf returns (interface name, method name) when in is a call through a module interface.
func invokeOf(in ssa.Instruction) (string, string, *ssa.CallCommon) {
	ci, ok := in.(ssa.CallInstruction)
	if !ok {
		return "", "", nil
	}
	c := ci.Common()
	if !c.IsInvoke() {
		return "", "", c
	}
	return ifaceOf(c), c.Method.Name(), c
}

// staticCallee returns the in-scope function called by in (also through a closure), or nil.
func staticCallee(in ssa.Instruction) *ssa.Function {
	ci, ok := in.(ssa.CallInstruction)
	if !ok {
		return nil
	}
	c := ci.Common()
	switch v := c.Value.(type) {
	case *ssa.Function:
		return v
	case *ssa.MakeClosure:
		return v.Fn.(*ssa.Function)
	}
	return nil
}

// stateVals returns the declared State constants in declaration order and their names.
func (p *Program) stateVals() ([]int64, []string) {
	names := []string{"Leader", "Follower", "PreCandidate", "Candidate", "Shutdown"}
	var vals []int64
	var labels []string
	for _, n := range names {
		if v, ok := p.ConstVal(n); ok {
			vals = append(vals, v)
			labels = append(labels, n)
		}
	}
	return vals, labels
}

// StateAtom is the enum atom over r.state.
func (p *Program) StateAtom() *Atom {
	v, l := p.stateVals()
	return EnumAtom("state", "r.state", v, l)
}

func enumIdx(at *Atom, label string) int {
	for i, l := range at.Labels {
		if l == label {
			return i
		}
	}
	panic("no label " + label)
}

// allFuncInstrs iterates over every instruction of every in-scope function (sorted).
func (p *Program) eachInstr(visit func(fn *ssa.Function, in ssa.Instruction)) {
	for _, fn := range p.SortedFuncs() {
		for _, b := range fn.Blocks {
			for _, in := range b.Instrs {
				visit(fn, in)
			}
		}
	}
}

// ordinal keys: "store Raft.votedFor #2 in (*Raft).becomeFollower"
type ordinals struct{ seen map[string]int }

func newOrdinals() *ordinals { return &ordinals{seen: map[string]int{}} }

func (o *ordinals) next(base string) string {
	o.seen[base]++
	if o.seen[base] == 1 {
		return base
	}
	return fmt.Sprintf("%s #%d", base, o.seen[base])
}

// instrOrdinal returns the ordinal (1-based) of in among the instructions of its function
// that satisfy same, in block/instruction order. It makes construct keys stable under
// edits elsewhere in the file.
func instrOrdinal(in ssa.Instruction, same func(ssa.Instruction) bool) int {
	n := 0
	fn := in.Parent()
	// order by source position where available to be independent of block numbering
	type item struct {
		in  ssa.Instruction
		pos token.Pos
		seq int
	}
	var items []item
	seq := 0
	for _, b := range fn.Blocks {
		for _, x := range b.Instrs {
			seq++
			if same(x) {
				items = append(items, item{x, x.Pos(), seq})
			}
		}
	}
	sort.SliceStable(items, func(i, j int) bool {
		if items[i].pos != items[j].pos && items[i].pos.IsValid() && items[j].pos.IsValid() {
			return items[i].pos < items[j].pos
		}
		return items[i].seq < items[j].seq
	})
	for _, it := range items {
		n++
		if it.in == in {
			return n
		}
	}
	return 0
}

func ordSuffix(n int) string {
	if n <= 1 {
		return ""
	}
	return fmt.Sprintf(" #%d", n)
}

// chainKey renders the calling context of a frame without positions: "A > B > C".
func chainKey(f *Frame) string {
	var parts []string
	for q := f; q != nil; q = q.Parent {
		s := FuncName(q.Fn)
		if q.Site != nil && q.Parent != nil {
			// ordinal of this call site among calls to the same callee in the parent
			callee := q.Fn
			n := instrOrdinal(q.Site.(ssa.Instruction), func(x ssa.Instruction) bool { return staticCallee(x) == callee })
			s += ordSuffix(n)
		}
		parts = append(parts, s)
	}
	for i, j := 0, len(parts)-1; i < j; i, j = i+1, j-1 {
		parts[i], parts[j] = parts[j], parts[i]
	}
	return strings.Join(parts, " > ")
}

// evalObs turns observations into obligations: Feasible ⊆ Allowed.
func evalObs(a *Analysis, rule string, obs []*Observation, allowed func(o *Observation, pt int) bool, show []int, what string) []Obligation {
	var out []Obligation
	sp := a.Space
	for _, o := range obs {
		bad := sp.Where(o.State, func(pt int) bool { return !allowed(o, pt) })
		ob := Obligation{Rule: rule, Construct: o.Key, Pos: o.Pos}
		ob.Facts = append(ob.Facts, "context: "+o.Chain)
		if len(show) == 0 {
			for i := range sp.Atoms {
				show = append(show, i)
			}
		}
		if bad.IsEmpty() {
			ob.Verdict = Discharged
			ob.Detail = fmt.Sprintf("%s holds in all %d feasible valuations", what, o.State.Count())
			for _, s := range sp.Project(o.State, show...) {
				ob.Facts = append(ob.Facts, "feasible: "+s)
			}
		} else {
			ob.Verdict = Violated
			ex := sp.Project(bad, show...)
			ob.Detail = fmt.Sprintf("%s can fail: %d feasible valuation(s) outside the allowed set, e.g. {%s}", what, bad.Count(), ex[0])
			for _, s := range ex {
				ob.Facts = append(ob.Facts, "offending: "+s)
			}
		}
		for k, v := range o.Extra {
			ob.Facts = append(ob.Facts, k+": "+v)
		}
		out = append(out, ob)
	}
	return out
}

// notesOf renders analysis notes as facts.
func notesOf(a *Analysis) []string {
	var out []string
	for n := range a.Notes {
		out = append(out, n)
	}
	sort.Strings(out)
	return out
}

func missing(rule, what string) []Obligation {
	return []Obligation{{Rule: rule, Construct: what, Verdict: AnchorLost, Detail: "anchor not found in the current source: " + what}}
}
