package lint

import (
	"fmt"
	"go/constant"
	"go/token"
	"go/types"
	"sort"
	"strings"

	"golang.org/x/tools/go/ssa"
)

// storeField returns the field a store writes through, if its address is a field address.
func storeField(in ssa.Instruction) (*ssa.Store, *types.Var) {
	s, ok := in.(*ssa.Store)
	if !ok {
		return nil, nil
	}
	fa, ok := s.Addr.(*ssa.FieldAddr)
	if !ok {
		return s, nil
	}
	return s, fieldOf(fa.X.Type(), fa.Field)
}

// isFieldOf reports whether fld is the field "Type.name" of package raft.
func isFieldOf(fld *types.Var, p *Program, spec string) bool {
	return fld != nil && fld == p.Field(spec)
}

func constBool(v ssa.Value) (bool, bool) {
	c, ok := v.(*ssa.Const)
	if !ok || c.Value == nil || c.Value.Kind() != constant.Bool {
		return false, false
	}
	return constant.BoolVal(c.Value), true
}

// invokeOf returns (interface name, method name) when in is a call through a module interface.
func invokeOf(in ssa.Instruction) (string, string, *ssa.CallCommon) {
	ci, ok := in.(ssa.CallInstruction)
	if !ok {
		return "", "", nil
	}
	c := ci.Common()
	if !c.IsInvoke() {
		return "", "", c
	}
	return ifaceOf(c), c.Method.Name(), c
}

// staticCallee returns the in-scope function called by in (also through a closure), or nil.
func staticCallee(in ssa.Instruction) *ssa.Function {
	ci, ok := in.(ssa.CallInstruction)
	if !ok {
		return nil
	}
	c := ci.Common()
	switch v := c.Value.(type) {
	case *ssa.Function:
		return v
	case *ssa.MakeClosure:
		return v.Fn.(*ssa.Function)
	}
	return nil
}

// stateVals returns the declared State constants in declaration order and their names.
func (p *Program) stateVals() ([]int64, []string) {
	names := []string{"Leader", "Follower", "PreCandidate", "Candidate", "Shutdown"}
	var vals []int64
	var labels []string
	for _, n := range names {
		if v, ok := p.ConstVal(n); ok {
			vals = append(vals, v)
			labels = append(labels, n)
		}
	}
	return vals, labels
}

// StateAtom is the enum atom over r.state.
func (p *Program) StateAtom() *Atom {
	v, l := p.stateVals()
	a := EnumAtom("state", "r.state", v, l)
	// Raft.state only ever holds declared constants: rule STATE-TRANSITIONS reports any
	// store of a non-constant or undeclared value as undecided/violated.
	a.Closed = true
	return a
}

func enumIdx(at *Atom, label string) int {
	for i, l := range at.Labels {
		if l == label {
			return i
		}
	}
	panic("no label " + label)
}

// allFuncInstrs iterates over every instruction of every in-scope function (sorted).
func (p *Program) eachInstr(visit func(fn *ssa.Function, in ssa.Instruction)) {
	for _, fn := range p.SortedFuncs() {
		for _, b := range fn.Blocks {
			for _, in := range b.Instrs {
				visit(fn, in)
			}
		}
	}
}

// ordinal keys: "store Raft.votedFor #2 in (*Raft).becomeFollower"
type ordinals struct{ seen map[string]int }

func newOrdinals() *ordinals { return &ordinals{seen: map[string]int{}} }

func (o *ordinals) next(base string) string {
	o.seen[base]++
	if o.seen[base] == 1 {
		return base
	}
	return fmt.Sprintf("%s #%d", base, o.seen[base])
}

// instrOrdinal returns the ordinal (1-based) of in among the instructions of its function
// that satisfy same, in block/instruction order. It makes construct keys stable under
// edits elsewhere in the file.
func instrOrdinal(in ssa.Instruction, same func(ssa.Instruction) bool) int {
	n := 0
	fn := in.Parent()
	// order by source position where available to be independent of block numbering
	type item struct {
		in  ssa.Instruction
		pos token.Pos
		seq int
	}
	var items []item
	seq := 0
	for _, b := range fn.Blocks {
		for _, x := range b.Instrs {
			seq++
			if same(x) {
				items = append(items, item{x, x.Pos(), seq})
			}
		}
	}
	sort.SliceStable(items, func(i, j int) bool {
		if items[i].pos != items[j].pos && items[i].pos.IsValid() && items[j].pos.IsValid() {
			return items[i].pos < items[j].pos
		}
		return items[i].seq < items[j].seq
	})
	for _, it := range items {
		n++
		if it.in == in {
			return n
		}
	}
	return 0
}

func ordSuffix(n int) string {
	if n <= 1 {
		return ""
	}
	return fmt.Sprintf(" #%d", n)
}

// chainKey renders the calling context of a frame without positions: "A > B > C".
func chainKey(f *Frame) string {
	var parts []string
	for q := f; q != nil; q = q.Parent {
		s := FuncName(q.Fn)
		if q.Site != nil && q.Parent != nil {
			// ordinal of this call site among calls to the same callee in the parent
			callee := q.Fn
			n := instrOrdinal(q.Site.(ssa.Instruction), func(x ssa.Instruction) bool { return staticCallee(x) == callee })
			s += ordSuffix(n)
		}
		parts = append(parts, s)
	}
	for i, j := 0, len(parts)-1; i < j; i, j = i+1, j-1 {
		parts[i], parts[j] = parts[j], parts[i]
	}
	return strings.Join(parts, " > ")
}

// evalObs turns observations into obligations: Feasible ⊆ Allowed.
func evalObs(a *Analysis, rule string, obs []*Observation, allowed func(o *Observation, pt int) bool, show []int, what string) []Obligation {
	var out []Obligation
	sp := a.Space
	for _, o := range obs {
		bad := sp.Where(o.State, func(pt int) bool { return !allowed(o, pt) })
		ob := Obligation{Rule: rule, Construct: o.Key, Pos: o.Pos}
		ob.Facts = append(ob.Facts, "context: "+o.Chain)
		if len(show) == 0 {
			for i := range sp.Atoms {
				show = append(show, i)
			}
		}
		if bad.IsEmpty() {
			ob.Verdict = Discharged
			ob.Detail = fmt.Sprintf("%s holds in all %d feasible valuations", what, o.State.Count())
			for _, s := range sp.Project(o.State, show...) {
				ob.Facts = append(ob.Facts, "feasible: "+s)
			}
		} else {
			ob.Verdict = Violated
			ex := sp.Project(bad, show...)
			ob.Signature = strings.Join(ex, " | ")
			ob.Detail = fmt.Sprintf("%s can fail: %d feasible valuation(s) outside the allowed set, e.g. {%s}", what, bad.Count(), ex[0])
			for _, s := range ex {
				ob.Facts = append(ob.Facts, "offending: "+s)
			}
		}
		// sorted: the evidence must not depend on map iteration order
		var extra []string
		for k, v := range o.Extra {
			extra = append(extra, k+": "+v)
		}
		sort.Strings(extra)
		ob.Facts = append(ob.Facts, extra...)
		out = append(out, ob)
	}
	return out
}

// notesOf renders analysis notes as facts.
func notesOf(a *Analysis) []string {
	var out []string
	for n := range a.Notes {
		out = append(out, n)
	}
	sort.Strings(out)
	return out
}

func missing(rule, what string) []Obligation {
	return []Obligation{{Rule: rule, Construct: what, Verdict: AnchorLost, Detail: "anchor not found in the current source: " + what}}
}

// Roots returns the entry functions of package raft: declared functions with no in-scope
// synchronous caller, plus every go target. Anonymous functions are reached through their parents.
func (p *Program) Roots() []*ssa.Function {
	var out []*ssa.Function
	for _, fn := range p.SortedFuncs() {
		if fn.Parent() != nil {
			continue
		}
		if fn.Pkg == nil || fn.Pkg.Pkg.Path() != ModulePath {
			if o := fn.Origin(); o == nil || o.Pkg == nil || o.Pkg.Pkg.Path() != ModulePath {
				continue
			}
		}
		sync := 0
		for _, cs := range p.Callers[fn] {
			if _, isGo := cs.Instr.(*ssa.Go); !isGo {
				sync++
			}
		}
		if sync == 0 || p.GoTargets[fn] {
			out = append(out, fn)
		}
	}
	return out
}

// writesAny reports whether fn may (transitively, synchronously) write one of the fields.
func (p *Program) writesAny(fn *ssa.Function, fields ...*types.Var) bool {
	e := p.Effects(fn)
	for _, f := range fields {
		if f != nil && e.Fields[f] {
			return true
		}
	}
	return false
}

// discover runs the interpreter without atoms so that hook sees every instruction in every
// inlined frame reachable from root.
func (p *Program) discover(root *ssa.Function, hook func(a *Analysis, f *Frame, in ssa.Instruction)) *Analysis {
	a := NewAnalysis(p, NewSpace())
	a.Hook = func(a *Analysis, f *Frame, in ssa.Instruction, st State) State {
		hook(a, f, in)
		return st
	}
	a.Run(root, nil)
	return a
}

// condPairs returns the canonical operand pair of a comparison used as a branch condition.
func (p *Program) condPair(f *Frame, in ssa.Instruction) (string, string, bool) {
	iff, ok := in.(*ssa.If)
	if !ok {
		return "", "", false
	}
	c := iff.Cond
	for {
		u, ok := c.(*ssa.UnOp)
		if !ok || u.Op != token.NOT {
			break
		}
		c = u.X
	}
	b, ok := c.(*ssa.BinOp)
	if !ok {
		return "", "", false
	}
	if _, ok := cmpMask(b.Op); !ok {
		return "", "", false
	}
	return p.Canon(f, b.X).S, p.Canon(f, b.Y).S, true
}

// errFate classifies what happens to the error result of a call: the error must be compared
// with nil and the non-nil edge must lead to a no-return call ("fatal") or a return ("returned").
func (p *Program) errFate(call ssa.Value) string {
	var errVals []ssa.Value
	if tup, ok := call.Type().(*types.Tuple); ok {
		refs := call.Referrers()
		if refs != nil {
			for _, r := range *refs {
				if ex, ok := r.(*ssa.Extract); ok && ex.Index == tup.Len()-1 {
					errVals = append(errVals, ex)
				}
			}
		}
	} else {
		errVals = append(errVals, call)
	}
	fate := "dropped"
	for _, ev := range errVals {
		refs := ev.Referrers()
		if refs == nil {
			continue
		}
		for _, r := range *refs {
			b, ok := r.(*ssa.BinOp)
			if !ok || (b.Op != token.NEQ && b.Op != token.EQL) {
				continue
			}
			brefs := b.Referrers()
			if brefs == nil {
				continue
			}
			for _, br := range *brefs {
				iff, ok := br.(*ssa.If)
				if !ok {
					continue
				}
				succ := iff.Block().Succs[0]
				if b.Op == token.EQL {
					succ = iff.Block().Succs[1]
				}
				if p.blockEndsNoReturn(succ) {
					return "fatal"
				}
				if _, ok := succ.Instrs[len(succ.Instrs)-1].(*ssa.Return); ok {
					fate = "returned"
				}
			}
		}
	}
	return fate
}

// blockEndsNoReturn reports whether every path from b hits a no-return call before leaving
// a short straight-line region (b and single-successor chains).
func (p *Program) blockEndsNoReturn(b *ssa.BasicBlock) bool {
	for depth := 0; depth < 4 && b != nil; depth++ {
		for _, in := range b.Instrs {
			if ci, ok := in.(ssa.CallInstruction); ok {
				if _, isDefer := in.(*ssa.Defer); isDefer {
					continue
				}
				if p.IsNoReturnCall(ci.Common()) {
					return true
				}
			}
			if _, ok := in.(*ssa.Panic); ok {
				return true
			}
		}
		if len(b.Succs) != 1 {
			return false
		}
		b = b.Succs[0]
	}
	return false
}

// isSectionEnd reports whether in ends a critical section of the node mutex or leaves the
// node (unlock, cond wait, transport send). Deferred unlocks count when they are run.
func (a *Analysis) isSectionEnd(in ssa.Instruction) (string, bool) {
	ci, ok := in.(ssa.CallInstruction)
	if !ok {
		return "", false
	}
	if _, isDefer := in.(*ssa.Defer); isDefer && !a.AtRunDefers {
		return "", false
	}
	if _, isGo := in.(*ssa.Go); isGo {
		return "", false
	}
	c := ci.Common()
	if op, recv := isMutexOp(c); op != "" {
		if (op == "Mutex.Unlock" && isNodeMutex(recv)) || op == "Cond.Wait" {
			return op, true
		}
		return "", false
	}
	if c.IsInvoke() && ifaceOf(c) == "Transport" && strings.HasPrefix(c.Method.Name(), "Send") {
		return "Transport." + c.Method.Name(), true
	}
	return "", false
}

// exitPoint reports whether in is the point where a function's body is done on one return path:
// the RunDefers of a block that ends in Return, or the Return of a block without RunDefers.
// Facts about shared state are still intact there (the deferred unlock has not run yet).
func exitPoint(in ssa.Instruction) (*ssa.Return, bool) {
	b := in.Block()
	ret, ok := b.Instrs[len(b.Instrs)-1].(*ssa.Return)
	if !ok {
		return nil, false
	}
	hasRD := false
	for _, x := range b.Instrs {
		if _, ok := x.(*ssa.RunDefers); ok {
			hasRD = true
		}
	}
	switch in.(type) {
	case *ssa.RunDefers:
		return ret, true
	case *ssa.Return:
		return ret, !hasRD
	}
	return nil, false
}

// OnlyClauses restricts a rule to the obligations whose construct starts with one of the given clause names (used when
// a property borrows some clauses of a rule that belongs to another property). At least one obligation per clause
// must remain, otherwise the clause's anchor is lost.
func OnlyClauses(r *Rule, clauses []string) *Rule {
	return &Rule{
		ID:    r.ID,
		Text:  r.Text + " [this property evaluates only the clauses " + strings.Join(clauses, ", ") + " of the rule]",
		Floor: len(clauses),
		Run: func(p *Program) []Obligation {
			var out []Obligation
			n := map[string]int{}
			for _, o := range r.Run(p) {
				for _, c := range clauses {
					if strings.HasPrefix(o.Construct, c) {
						out = append(out, o)
						n[c]++
						break
					}
				}
			}
			for _, c := range clauses {
				if n[c] == 0 {
					out = append(out, Obligation{Rule: r.ID, Construct: c + " clause", Verdict: AnchorLost, Detail: "the rule produced no obligation for this clause"})
				}
			}
			return out
		},
	}
}
