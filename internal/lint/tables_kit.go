package lint

import (
	"fmt"
	"go/constant"
	"go/token"
	"go/types"
	"sort"
	"strings"

	"golang.org/x/tools/go/ssa"
)

// Shared helpers of the table rules (rules_tables.go, tables_*.go). Everything is prefixed tb
// so that it cannot collide with helpers of other rule families.

const tbProtoPkgPath = ModulePath + "/internal/protobuf"

// ---------------------------------------------------------------------------------------------
// names

func tbQualifier(pkg *types.Package) string {
	if pkg == nil || pkg.Path() == ModulePath {
		return ""
	}
	return pkg.Name()
}

// tbTypeName renders a type relative to package raft ("LogEntry", "protobuf.LogEntry", "int32").
func tbTypeName(t types.Type) string {
	if t == nil {
		return "<nil>"
	}
	return types.TypeString(t, tbQualifier)
}

// tbFuncName names any function, in scope or not ("proto.Marshal", "(*sync.Cond).Wait").
func tbFuncName(fn *ssa.Function) string {
	if fn == nil {
		return "<nil>"
	}
	if fn.Pkg != nil && strings.HasPrefix(fn.Pkg.Pkg.Path(), ModulePath) {
		return FuncName(fn)
	}
	if o := fn.Origin(); o != nil {
		return tbFuncName(o)
	}
	if recv := fn.Signature.Recv(); recv != nil {
		return "(" + types.TypeString(recv.Type(), func(p *types.Package) string { return p.Name() }) + ")." + fn.Name()
	}
	if fn.Pkg != nil {
		return fn.Pkg.Pkg.Name() + "." + fn.Name()
	}
	return fn.Name()
}

// tbGenericName strips the type arguments from the name of an instantiation:
// "respond[github.com/jmsadair/raft.Configuration]" -> "respond".
func tbGenericName(fn *ssa.Function) string {
	n := FuncName(fn)
	if i := strings.Index(n, "["); i >= 0 {
		return n[:i]
	}
	return n
}

// tbInstances returns the in-scope functions whose name without type arguments is name, sorted.
func (p *Program) tbInstances(name string) []*ssa.Function {
	var out []*ssa.Function
	for _, fn := range p.SortedFuncs() {
		if tbGenericName(fn) == name {
			out = append(out, fn)
		}
	}
	return out
}

// tbNamed strips pointers and slices down to a named type (nil if there is none).
func tbNamed(t types.Type) *types.Named {
	for i := 0; i < 4 && t != nil; i++ {
		switch u := t.(type) {
		case *types.Named:
			return u
		case *types.Pointer:
			t = u.Elem()
		case *types.Slice:
			t = u.Elem()
		case *types.Alias:
			t = types.Unalias(u)
		default:
			return nil
		}
	}
	return nil
}

// tbPtrElemNamed returns N when t is N or *N.
func tbPtrElemNamed(t types.Type) *types.Named {
	t = types.Unalias(t)
	if pt, ok := t.(*types.Pointer); ok {
		t = types.Unalias(pt.Elem())
	}
	n, _ := t.(*types.Named)
	return n
}

func tbStructOf(n *types.Named) *types.Struct {
	if n == nil {
		return nil
	}
	st, _ := n.Underlying().(*types.Struct)
	return st
}

// tbLookupNamed finds a named type in the module package with the given import path.
func (p *Program) tbLookupNamed(pkgPath, name string) *types.Named {
	for _, pk := range p.Pkgs {
		if pk.PkgPath != pkgPath {
			continue
		}
		if o := pk.Types.Scope().Lookup(name); o != nil {
			n, _ := o.Type().(*types.Named)
			return n
		}
	}
	return nil
}

func tbFieldLabel(owner *types.Named, f *types.Var) string {
	return tbTypeName(owner) + "." + f.Name()
}

// ---------------------------------------------------------------------------------------------
// enumerations

// tbEnum is a module-declared named integer type together with its declared constants.
type tbEnum struct {
	Type   *types.Named
	Consts []*types.Const // declaration order
}

func (e *tbEnum) Name() string { return tbTypeName(e.Type) }

// Values maps each declared value to the names declaring it.
func (e *tbEnum) Values() map[int64][]string {
	m := map[int64][]string{}
	for _, c := range e.Consts {
		if v, ok := constant.Int64Val(c.Val()); ok {
			m[v] = append(m[v], c.Name())
		}
	}
	return m
}

// Missing returns the names of the declared values that are not in have, in declaration order.
func (e *tbEnum) Missing(have map[int64]bool) []string {
	var out []string
	seen := map[int64]bool{}
	for _, c := range e.Consts {
		v, ok := constant.Int64Val(c.Val())
		if !ok || have[v] || seen[v] {
			continue
		}
		seen[v] = true
		out = append(out, c.Name())
	}
	return out
}

// Undeclared returns the values in have that no constant declares.
func (e *tbEnum) Undeclared(have map[int64]bool) []int64 {
	decl := e.Values()
	var out []int64
	for v := range have {
		if _, ok := decl[v]; !ok {
			out = append(out, v)
		}
	}
	sort.Slice(out, func(i, j int) bool { return out[i] < out[j] })
	return out
}

func (e *tbEnum) NameOf(v int64) string {
	if ns := e.Values()[v]; len(ns) > 0 {
		return ns[0]
	}
	return fmt.Sprintf("%s(%d)", e.Name(), v)
}

// tbEnums collects the enumerations of every module package: named integer types declared in a
// module package with at least one package-level constant of exactly that type.
func (p *Program) tbEnums() map[*types.TypeName]*tbEnum {
	out := map[*types.TypeName]*tbEnum{}
	for _, pk := range p.Pkgs {
		sc := pk.Types.Scope()
		for _, n := range sc.Names() {
			c, ok := sc.Lookup(n).(*types.Const)
			if !ok {
				continue
			}
			nt, ok := c.Type().(*types.Named)
			if !ok || nt.Obj().Pkg() != pk.Types {
				continue
			}
			b, ok := nt.Underlying().(*types.Basic)
			if !ok || b.Info()&types.IsInteger == 0 || c.Val().Kind() != constant.Int {
				continue
			}
			e := out[nt.Obj()]
			if e == nil {
				e = &tbEnum{Type: nt}
				out[nt.Obj()] = e
			}
			e.Consts = append(e.Consts, c)
		}
	}
	for _, e := range out {
		sort.Slice(e.Consts, func(i, j int) bool { return e.Consts[i].Pos() < e.Consts[j].Pos() })
	}
	return out
}

func tbEnumOfType(enums map[*types.TypeName]*tbEnum, t types.Type) *tbEnum {
	n, ok := types.Unalias(t).(*types.Named)
	if !ok {
		return nil
	}
	return enums[n.Obj()]
}

func tbConstInt(v ssa.Value) (int64, bool) {
	c, ok := v.(*ssa.Const)
	if !ok || c.Value == nil || c.Value.Kind() != constant.Int {
		return 0, false
	}
	return constant.Int64Val(c.Value)
}

func tbIsNilConst(v ssa.Value) bool {
	c, ok := v.(*ssa.Const)
	return ok && c.Value == nil
}

// ---------------------------------------------------------------------------------------------
// calls

// tbCallee returns the statically known callee of a call instruction (nil for dynamic calls).
func tbCallee(in ssa.Instruction) *ssa.Function {
	ci, ok := in.(ssa.CallInstruction)
	if !ok {
		return nil
	}
	return ci.Common().StaticCallee()
}

// tbIsFunc reports whether fn is the function or method pkgPath.name ("(*T).m" for methods),
// looking through generic instantiation.
func tbIsFunc(fn *ssa.Function, pkgPath, name string) bool {
	if fn == nil {
		return false
	}
	if o := fn.Origin(); o != nil {
		fn = o
	}
	if fn.Pkg == nil || fn.Pkg.Pkg.Path() != pkgPath {
		return false
	}
	if recv := fn.Signature.Recv(); recv != nil {
		t := recv.Type()
		ptr := ""
		if pt, ok := t.(*types.Pointer); ok {
			ptr = "*"
			t = pt.Elem()
		}
		if n, ok := t.(*types.Named); ok {
			return "("+ptr+n.Obj().Name()+")."+fn.Name() == name
		}
		return false
	}
	return fn.Name() == name
}

// tbStrip removes value-preserving wrappers (interface boxing, type changes).
func tbStrip(v ssa.Value) ssa.Value {
	for {
		switch x := v.(type) {
		case *ssa.MakeInterface:
			v = x.X
		case *ssa.ChangeInterface:
			v = x.X
		case *ssa.ChangeType:
			v = x.X
		default:
			return v
		}
	}
}

// tbFieldLoad recognises "*(&base.f)" and "base.f" and returns the field and its base.
func tbFieldLoad(v ssa.Value) (*types.Var, ssa.Value) {
	switch x := v.(type) {
	case *ssa.UnOp:
		if x.Op != token.MUL {
			return nil, nil
		}
		if fa, ok := x.X.(*ssa.FieldAddr); ok {
			return fieldOf(fa.X.Type(), fa.Field), fa.X
		}
	case *ssa.Field:
		if st, ok := x.X.Type().Underlying().(*types.Struct); ok {
			return st.Field(x.Field), x.X
		}
	}
	return nil, nil
}

// tbGetterField recognises accessor methods such as the protobuf getters: a method without
// arguments whose every return is either a constant or a load of one and the same field of
// the receiver. It returns that field.
func tbGetterField(fn *ssa.Function) *types.Var {
	if fn == nil || fn.Signature.Recv() == nil || len(fn.Params) != 1 || fn.Signature.Results().Len() != 1 || len(fn.Blocks) == 0 {
		return nil
	}
	var got *types.Var
	for _, b := range fn.Blocks {
		if len(b.Instrs) == 0 {
			continue
		}
		ret, ok := b.Instrs[len(b.Instrs)-1].(*ssa.Return)
		if !ok {
			continue
		}
		if len(ret.Results) != 1 {
			return nil
		}
		if _, isConst := ret.Results[0].(*ssa.Const); isConst {
			continue
		}
		f, base := tbFieldLoad(ret.Results[0])
		if f == nil || base != ssa.Value(fn.Params[0]) {
			return nil
		}
		if got != nil && got != f {
			return nil
		}
		got = f
	}
	return got
}

// ---------------------------------------------------------------------------------------------
// provenance of a stored value

// tbWrap is one value transformation between a source field and the place it is stored to.
type tbWrap struct {
	From, To types.Type    // numeric / named conversion
	Fn       *ssa.Function // or a call to a one-argument module function (nested converter)
}

func (w tbWrap) String() string {
	if w.Fn != nil {
		return "call " + tbFuncName(w.Fn)
	}
	return "conversion " + tbTypeName(w.From) + " -> " + tbTypeName(w.To)
}

// tbSrc says where a value comes from: field Field of the struct value Base, read directly or
// through an accessor, then transformed by Wraps (outermost first).
type tbSrc struct {
	Field *types.Var
	Owner *types.Named
	Base  ssa.Value
	Via   string
	Wraps []tbWrap
}

// tbTrace follows v back to a field read. The second result explains a failure.
func tbTrace(v ssa.Value) (*tbSrc, string) {
	var wraps []tbWrap
	for depth := 0; depth < 16; depth++ {
		switch x := v.(type) {
		case *ssa.Convert:
			wraps = append(wraps, tbWrap{From: x.X.Type(), To: x.Type()})
			v = x.X
			continue
		case *ssa.ChangeType:
			wraps = append(wraps, tbWrap{From: x.X.Type(), To: x.Type()})
			v = x.X
			continue
		case *ssa.Call:
			callee := x.Common().StaticCallee()
			if callee == nil {
				return nil, "value comes from a dynamic call"
			}
			if f := tbGetterField(callee); f != nil && len(x.Call.Args) == 1 {
				return &tbSrc{Field: f, Owner: tbPtrElemNamed(x.Call.Args[0].Type()), Base: x.Call.Args[0], Via: "accessor " + callee.Name(), Wraps: wraps}, ""
			}
			if callee.Pkg != nil && strings.HasPrefix(callee.Pkg.Pkg.Path(), ModulePath) && len(x.Call.Args) == 1 && callee.Signature.Recv() == nil {
				wraps = append(wraps, tbWrap{Fn: callee})
				v = x.Call.Args[0]
				continue
			}
			return nil, "value comes from a call to " + tbFuncName(callee) + ", which is not an accessor or a one-argument converter"
		case *ssa.UnOp:
			if x.Op != token.MUL {
				return nil, "value is computed by operator " + x.Op.String()
			}
			if f, base := tbFieldLoad(x); f != nil {
				return &tbSrc{Field: f, Owner: tbPtrElemNamed(base.Type()), Base: base, Via: "field read", Wraps: wraps}, ""
			}
			if al, ok := x.X.(*ssa.Alloc); ok {
				if sv := tbSingleStore(al); sv != nil {
					v = sv
					continue
				}
			}
			return nil, "value is loaded from memory that is not a struct field"
		case *ssa.Field:
			f, base := tbFieldLoad(x)
			return &tbSrc{Field: f, Owner: tbPtrElemNamed(base.Type()), Base: base, Via: "field read", Wraps: wraps}, ""
		case *ssa.Const:
			return nil, "value is a constant"
		case *ssa.Phi:
			return nil, "value depends on control flow (phi)"
		case *ssa.Lookup:
			return nil, "value is looked up in a map"
		default:
			return nil, fmt.Sprintf("value has unrecognised shape %T", v)
		}
	}
	return nil, "value chain too deep"
}

// tbSingleStore returns the only value ever stored to a local cell (nil if none or several).
func tbSingleStore(al *ssa.Alloc) ssa.Value {
	var val ssa.Value
	for _, r := range *al.Referrers() {
		if s, ok := r.(*ssa.Store); ok && s.Addr == ssa.Value(al) {
			if val != nil {
				return nil
			}
			val = s.Val
		}
	}
	return val
}

// tbRootedAt reports whether base is (an element / a copy / a field of) a value accepted by root.
func tbRootedAt(base ssa.Value, root func(ssa.Value) bool) bool {
	seen := map[ssa.Value]bool{}
	var walk func(v ssa.Value) bool
	walk = func(v ssa.Value) bool {
		if v == nil || seen[v] {
			return false
		}
		seen[v] = true
		if root(v) {
			return true
		}
		switch x := v.(type) {
		case *ssa.Alloc:
			any := false
			for _, r := range *x.Referrers() {
				if s, ok := r.(*ssa.Store); ok && s.Addr == ssa.Value(x) {
					if !walk(s.Val) {
						return false
					}
					any = true
				}
			}
			return any
		case *ssa.UnOp:
			return x.Op == token.MUL && walk(x.X)
		case *ssa.IndexAddr:
			return walk(x.X)
		case *ssa.Index:
			return walk(x.X)
		case *ssa.FieldAddr:
			return walk(x.X)
		case *ssa.Field:
			return walk(x.X)
		case *ssa.Extract:
			return walk(x.Tuple)
		case *ssa.Next:
			return walk(x.Iter)
		case *ssa.Range:
			return walk(x.X)
		case *ssa.Lookup:
			return walk(x.X)
		case *ssa.Slice:
			return walk(x.X)
		case *ssa.ChangeType:
			return walk(x.X)
		case *ssa.Phi:
			for _, e := range x.Edges {
				if !walk(e) {
					return false
				}
			}
			return len(x.Edges) > 0
		}
		return false
	}
	return walk(base)
}

func tbIsParam(v ssa.Value) bool {
	_, ok := v.(*ssa.Parameter)
	return ok
}

// tbFlows follows v forward through copies (local cells, containers it is stored into,
// boxing, loads) and reports whether some use satisfies sink(user, operand).
func tbFlows(v ssa.Value, sink func(user ssa.Instruction, operand ssa.Value) bool) bool {
	seen := map[ssa.Value]bool{}
	work := []ssa.Value{v}
	for len(work) > 0 {
		cur := work[len(work)-1]
		work = work[:len(work)-1]
		if cur == nil || seen[cur] {
			continue
		}
		seen[cur] = true
		refs := cur.Referrers()
		if refs == nil {
			continue
		}
		for _, r := range *refs {
			if sink(r, cur) {
				return true
			}
			switch x := r.(type) {
			case *ssa.Store:
				if x.Val != cur {
					continue
				}
				switch a := x.Addr.(type) {
				case *ssa.Alloc:
					for _, rr := range *a.Referrers() {
						if u, ok := rr.(*ssa.UnOp); ok && u.Op == token.MUL {
							work = append(work, u)
						}
					}
				case *ssa.IndexAddr:
					work = append(work, a.X)
				}
			case *ssa.UnOp:
				if x.Op == token.MUL {
					work = append(work, x)
				}
			case *ssa.Phi:
				work = append(work, x)
			case *ssa.ChangeType:
				work = append(work, x)
			case *ssa.MakeInterface:
				work = append(work, x)
			case *ssa.ChangeInterface:
				work = append(work, x)
			case *ssa.Slice:
				work = append(work, x)
			case *ssa.Call:
				// append(s, elems...) carries both the slice and the elements
				if b, ok := x.Common().Value.(*ssa.Builtin); ok && b.Name() == "append" {
					work = append(work, x)
				}
			}
		}
	}
	return false
}

func tbIsReturn(user ssa.Instruction, _ ssa.Value) bool {
	_, ok := user.(*ssa.Return)
	return ok
}

// ---------------------------------------------------------------------------------------------
// control flow

// tbPrecedes reports whether a is executed before b on every path that reaches b.
func tbPrecedes(a, b ssa.Instruction) bool {
	if a.Block() == b.Block() {
		ia, ib := -1, -1
		for i, x := range a.Block().Instrs {
			if x == a {
				ia = i
			}
			if x == b {
				ib = i
			}
		}
		return ia >= 0 && ia < ib
	}
	return a.Block().Dominates(b.Block())
}

// tbInstrsByPos returns the instructions of fn in source order (an instruction without a
// position inherits the last position seen before it). Ordinals assigned in this order do not
// depend on how the SSA builder numbers basic blocks.
func tbInstrsByPos(fn *ssa.Function) []ssa.Instruction {
	type item struct {
		in  ssa.Instruction
		pos token.Pos
		seq int
	}
	var items []item
	last := fn.Pos()
	for _, b := range fn.Blocks {
		for _, in := range b.Instrs {
			if in.Pos().IsValid() {
				last = in.Pos()
			}
			items = append(items, item{in, last, len(items)})
		}
	}
	sort.SliceStable(items, func(i, j int) bool {
		if items[i].pos != items[j].pos {
			return items[i].pos < items[j].pos
		}
		return items[i].seq < items[j].seq
	})
	out := make([]ssa.Instruction, len(items))
	for i, it := range items {
		out[i] = it.in
	}
	return out
}

// tbSCC computes the strongly connected components of fn's CFG. comp[b.Index] is the
// component number; cyclic[c] says whether component c contains a cycle.
func tbSCC(fn *ssa.Function) (comp []int, cyclic map[int]bool) {
	n := len(fn.Blocks)
	comp = make([]int, n)
	for i := range comp {
		comp[i] = -1
	}
	index := make([]int, n)
	low := make([]int, n)
	on := make([]bool, n)
	for i := range index {
		index[i] = -1
	}
	var stack []int
	next, ncomp := 0, 0
	cyclic = map[int]bool{}
	var strong func(v int)
	strong = func(v int) {
		index[v], low[v] = next, next
		next++
		stack = append(stack, v)
		on[v] = true
		for _, s := range fn.Blocks[v].Succs {
			w := s.Index
			if index[w] < 0 {
				strong(w)
				if low[w] < low[v] {
					low[v] = low[w]
				}
			} else if on[w] && index[w] < low[v] {
				low[v] = index[w]
			}
		}
		if low[v] == index[v] {
			size := 0
			for {
				w := stack[len(stack)-1]
				stack = stack[:len(stack)-1]
				on[w] = false
				comp[w] = ncomp
				size++
				if w == v {
					break
				}
			}
			if size > 1 {
				cyclic[ncomp] = true
			} else {
				for _, s := range fn.Blocks[v].Succs {
					if s.Index == v {
						cyclic[ncomp] = true
					}
				}
			}
			ncomp++
		}
	}
	for i := 0; i < n; i++ {
		if index[i] < 0 {
			strong(i)
		}
	}
	return comp, cyclic
}

// tbOnCycleAvoiding reports whether block b lies on a CFG cycle that stays inside the
// blocks accepted by inside and avoids the blocks in cut.
func tbOnCycleAvoiding(b *ssa.BasicBlock, inside func(*ssa.BasicBlock) bool, cut map[*ssa.BasicBlock]bool) bool {
	if cut[b] {
		return false
	}
	seen := map[*ssa.BasicBlock]bool{}
	work := append([]*ssa.BasicBlock{}, b.Succs...)
	for len(work) > 0 {
		x := work[len(work)-1]
		work = work[:len(work)-1]
		if seen[x] || cut[x] || !inside(x) {
			continue
		}
		if x == b {
			return true
		}
		seen[x] = true
		work = append(work, x.Succs...)
	}
	return false
}

// tbExplicitPanic reports whether in is a panic written in the source (the SSA builder also
// synthesises position-less panics, e.g. for a blocking select that matched no case).
func tbExplicitPanic(in ssa.Instruction) bool {
	switch x := in.(type) {
	case *ssa.Panic:
		return x.Pos().IsValid()
	case ssa.CallInstruction:
		if b, ok := x.Common().Value.(*ssa.Builtin); ok && b.Name() == "panic" {
			return true
		}
	}
	return false
}

// tbNoReturnIn returns the first instruction of b that never returns (panic, Fatal, os.Exit).
func (p *Program) tbNoReturnIn(b *ssa.BasicBlock) ssa.Instruction {
	for _, in := range b.Instrs {
		if _, ok := in.(*ssa.Panic); ok {
			return in
		}
		if c, ok := in.(*ssa.Call); ok && p.IsNoReturnCall(c.Common()) {
			return in
		}
	}
	return nil
}

func tbJoin(xs []string) string { return strings.Join(xs, ", ") }

func tbSortedKeys(m map[string]bool) []string {
	var out []string
	for k := range m {
		out = append(out, k)
	}
	sort.Strings(out)
	return out
}
