package lint

import (
	"fmt"
	"sort"
	"strings"

	"golang.org/x/tools/go/ssa"
)

// lifeState is a state of the lifecycle product automaton (DESIGN §2.2 A9).
type lifeState struct {
	state int // 0 shut down, 1 running (any of Leader/Follower/PreCandidate/Candidate)
	open  int // 0 log closed, 1 log open
	conf  int // 0 no configuration (nil), 1 has a configuration
	flags int // bit i = value of the i-th boolean field of Raft that a lifecycle method assigns a constant to
}

// ruleLifecycle: C18 LIFECYCLE.
func ruleLifecycle() *Rule {
	const id = "LIFECYCLE"
	return &Rule{
		ID: id,
		Text: "The effect of each public lifecycle method (Start, Restart, Stop, Bootstrap) on (node state, log open/closed) is extracted from the code for every abstract pre-state; " +
			"starting from the state NewRaft leaves (Shutdown, log opened by restore), every call sequence is explored exhaustively over the finite product automaton. " +
			"Invariants: a running node (state ≠ Shutdown) has its log open; no lifecycle method calls a Log method other than Open/Close while the log is closed (the bundled log panics or fails on that).",
		Floor: 4,
		Run: func(p *Program) []Obligation {
			methods := []string{"(*Raft).Start", "(*Raft).Restart", "(*Raft).Stop", "(*Raft).Bootstrap"}
			restore := p.Func("(*Raft).restore")
			if restore == nil {
				return missing(id, "(*Raft).restore")
			}
			stateAtom := p.StateAtom()
			SDi := enumIdx(stateAtom, "Shutdown")
			const SD = 0
			runningMask := (uint32(1)<<uint(len(stateAtom.Vals)) - 1) &^ (1 << uint(SDi))
			// boolean fields of Raft that the lifecycle methods (or restore) assign constants to are part of the
			// abstract state: their value decides what the next lifecycle call does (e.g. "was stopped")
			var flagNames []string
			for _, m := range append([]string{"(*Raft).restore"}, methods...) {
				fn := p.Func(m)
				if fn == nil {
					continue
				}
				p.discover(fn, func(a *Analysis, f *Frame, in ssa.Instruction) {
					if s, name := raftFieldStore(in); s != nil {
						if _, ok := constBool(s.Val); ok {
							for _, x := range flagNames {
								if x == name {
									return
								}
							}
							flagNames = append(flagNames, name)
						}
					}
				})
			}
			sort.Strings(flagNames)
			if len(flagNames) > 4 {
				flagNames = flagNames[:4]
			}
			type useOfClosed struct{ what, pos string }
			// post computes the post-states of calling fn in pre-state s, and the Log uses on a closed log.
			post := func(fn *ssa.Function, s lifeState) ([]lifeState, []useOfClosed) {
				st := p.StateAtom()
				// Only Stop and start move a node into or out of Shutdown; the background activity that runs
				// while the mutex is released moves it among the running roles only. The rule therefore
				// keeps the atom across unlock windows and widens it among the running roles itself.
				st.Stable = true
				// nil-ness of the configuration: assigned by Bootstrap/start/restore, never reset to nil
				cf := CmpAtom("configuration?nil", "r.configuration", "nil")
				cf.Stable = true
				atoms := []*Atom{st, GhostAtom("log", "closed", "open"), cf}
				for _, fl := range flagNames {
					b := BoolAtom(fl, "r."+fl)
					b.Stable = true
					atoms = append(atoms, b)
				}
				sp := NewSpace(atoms...)
				a := NewAnalysis(p, sp)
				var uses []useOfClosed
				seen := map[string]bool{}
				a.Hook = func(a *Analysis, f *Frame, in ssa.Instruction, stt State) State {
					if iface, m, _ := invokeOf(in); iface == "Log" {
						if _, isDefer := in.(*ssa.Defer); isDefer && !a.AtRunDefers {
							return stt
						}
						if _, isGo := in.(*ssa.Go); isGo {
							return stt
						}
						switch m {
						case "Open":
							return sp.Assign(stt, 1, 1)
						case "Close":
							return sp.Assign(stt, 1, 0)
						default:
							if !sp.Filter(stt, 1, 1<<0).IsEmpty() {
								k := m + "@" + p.InstrPos(in)
								if !seen[k] {
									seen[k] = true
									uses = append(uses, useOfClosed{"Log." + m + " in " + chainKey(f), p.InstrPos(in)})
								}
							}
						}
					}
					if _, ok := a.isSectionEnd(in); ok {
						return sp.Map(stt, 0, func(pt, old int) uint32 {
							if old == SDi {
								return 1 << uint(SDi)
							}
							return runningMask
						})
					}
					if _, ok := exitPoint(in); ok && f.Parent == nil {
						a.Observe("EXIT", f, in, stt)
					}
					return stt
				}
				pre := uint32(1) << uint(SDi)
				if s.state == 1 {
					pre = runningMask
				}
				entry := sp.Filter(sp.Filter(sp.Top(), 0, pre), 1, 1<<uint(s.open))
				if s.conf == 0 {
					entry = sp.Filter(entry, 2, 1<<EQ)
				} else {
					entry = sp.Filter(entry, 2, 1<<LT|1<<GT)
				}
				for i := range flagNames {
					entry = sp.Filter(entry, 3+i, 1<<uint((s.flags>>uint(i))&1))
				}
				a.RunFrame(NewRootFrame(fn), entry)
				var outs []lifeState
				got := map[lifeState]bool{}
				for _, o := range a.SortedObs() {
					for pt := 0; pt < sp.Size; pt++ {
						if o.State.Has(pt) {
							run := 1
							if sp.Val(pt, 0) == SDi {
								run = 0
							}
							cfv := 1
							if sp.Val(pt, 2) == EQ {
								cfv = 0
							}
							fl := 0
							for i := range flagNames {
								fl |= sp.Val(pt, 3+i) << uint(i)
							}
							ls := lifeState{run, sp.Val(pt, 1), cfv, fl}
							if !got[ls] {
								got[ls] = true
								outs = append(outs, ls)
							}
						}
					}
				}
				sort.Slice(outs, func(i, j int) bool {
					if outs[i].state != outs[j].state {
						return outs[i].state < outs[j].state
					}
					if outs[i].open != outs[j].open {
						return outs[i].open < outs[j].open
					}
					if outs[i].conf != outs[j].conf {
						return outs[i].conf < outs[j].conf
					}
					return outs[i].flags < outs[j].flags
				})
				return outs, uses
			}
			name := func(s lifeState) string {
				fl := ""
				for i, n := range flagNames {
					fl += fmt.Sprintf(", %s=%v", n, (s.flags>>uint(i))&1 == 1)
				}
				return fmt.Sprintf("(%s, log %s, %s%s)", []string{"shut down", "running"}[s.state], []string{"closed", "open"}[s.open], []string{"no configuration", "configured"}[s.conf], fl)
			}
			// initial state: NewRaft sets state := Shutdown and calls restore() on the new node
			var out []Obligation
			init0, _ := post(restore, lifeState{SD, 0, 0, 0})
			var init []lifeState
			okInit := len(init0) > 0
			for _, s := range init0 {
				if s.state != SD || s.open != 1 {
					okInit = false
				}
				init = append(init, s)
			}
			nr := p.Func("NewRaft")
			initOb := Obligation{Rule: id, Construct: "initial state left by NewRaft", Pos: p.Pos(nr.Pos())}
			callsRestore := false
			for _, b := range nr.Blocks {
				for _, in := range b.Instrs {
					if c, ok := in.(*ssa.Call); ok && c.Common().StaticCallee() == restore {
						callsRestore = true
					}
				}
			}
			if !callsRestore || !okInit {
				initOb.Verdict = Undecided
				initOb.Detail = fmt.Sprintf("NewRaft calls restore: %v; restore from (Shutdown, closed) gives %d state(s)", callsRestore, len(init))
				return append(out, initOb)
			}
			var initNames []string
			for _, s := range init {
				initNames = append(initNames, name(s))
			}
			initOb.Verdict, initOb.Detail = Discharged, "NewRaft calls restore(), which opens the log: "+strings.Join(initNames, " or ")
			out = append(out, initOb)

			// exhaustive exploration
			type edge struct {
				from lifeState
				m    string
				to   lifeState
			}
			reach := map[lifeState][]string{}
			var work []lifeState
			for _, s := range init {
				reach[s] = []string{"NewRaft"}
				work = append(work, s)
			}
			var edges []edge
			badReported := map[string]bool{}
			nTrans := 0
			for len(work) > 0 {
				s := work[0]
				work = work[1:]
				for _, m := range methods {
					fn := p.Func(m)
					if fn == nil {
						continue
					}
					tos, uses := post(fn, s)
					nTrans++
					for _, u := range uses {
						key := "use of a closed log: " + u.what + " when " + m + " is called in " + name(s)
						if badReported[key] {
							continue
						}
						badReported[key] = true
						out = append(out, Obligation{Rule: id, Construct: key, Pos: u.pos, Verdict: Violated,
							Detail: "reachable by the call sequence " + strings.Join(append(append([]string{}, reach[s]...), strings.TrimPrefix(m, "(*Raft).")), "; ") + ": the bundled log indexes an empty slice (panic) or fails when it is used closed",
						})
					}
					for _, t := range tos {
						edges = append(edges, edge{s, m, t})
						bad := t.state != SD && t.open == 0
						if _, ok := reach[t]; !ok {
							reach[t] = append(append([]string{}, reach[s]...), strings.TrimPrefix(m, "(*Raft)."))
							if !bad {
								// a state that violates the invariant is reported once, where it is entered; what
								// happens after it is not explored
								work = append(work, t)
							}
						}
						if bad {
							key := "running node with closed log after " + m + " from " + name(s)
							if !badReported[key] {
								badReported[key] = true
								out = append(out, Obligation{Rule: id, Construct: key, Pos: p.Pos(fn.Pos()), Verdict: Violated,
									Detail: "the call sequence " + strings.Join(append(append([]string{}, reach[s]...), strings.TrimPrefix(m, "(*Raft).")), "; ") +
										" leaves the node " + name(t) + ": its loops and handlers use a closed log (index out of range / fatal exit)"})
							}
						}
					}
				}
			}
			var states []string
			for s := range reach {
				states = append(states, name(s)+" via "+strings.Join(reach[s], "; "))
			}
			sort.Strings(states)
			sum := Obligation{Rule: id, Construct: "exhaustive exploration of lifecycle call sequences", Pos: p.Pos(nr.Pos()), Verdict: Discharged,
				Detail: fmt.Sprintf("%d reachable abstract state(s), %d (state, method) transition(s) extracted from the code", len(reach), nTrans), Facts: states}
			for _, e := range edges {
				sum.Facts = append(sum.Facts, name(e.from)+" --"+strings.TrimPrefix(e.m, "(*Raft).")+"--> "+name(e.to))
			}
			sum.Facts = uniq(sum.Facts)
			out = append(out, sum)
			// per method obligations so that the floor counts something meaningful
			for _, m := range methods {
				ob := Obligation{Rule: id, Construct: "effects of " + m + " extracted", Verdict: Discharged, Detail: "transfer function over (state, log) computed from the method's code"}
				if fn := p.Func(m); fn == nil {
					ob.Verdict, ob.Detail = AnchorLost, "method not found"
				} else {
					ob.Pos = p.Pos(fn.Pos())
				}
				out = append(out, ob)
			}
			return out
		},
	}
}

func uniq(in []string) []string {
	seen := map[string]bool{}
	var out []string
	for _, s := range in {
		if !seen[s] {
			seen[s] = true
			out = append(out, s)
		}
	}
	return out
}

// ruleHeartbeat: C15 HEARTBEAT-ALL and TICKER-RANDOM.
func ruleHeartbeat() *Rule {
	const id = "HEARTBEAT"
	return &Rule{
		ID: id,
		Text: "(HEARTBEAT-ALL) sendAppendEntriesToPeers spawns a sender for every member other than this node (range over configuration.Members, only test id ≠ self); heartbeatLoop calls it on every tick unless the node is a follower or shut down; " +
			"(TICKER-RANDOM) electionTicker draws a fresh random timeout in [T, 2T) on every iteration.",
		Floor: 3,
		Run: func(p *Program) []Obligation {
			var out []Obligation
			sp := p.Func("(*Raft).sendAppendEntriesToPeers")
			sender := p.Func("(*Raft).sendAppendEntries")
			if sp == nil || sender == nil {
				return missing(id, "(*Raft).sendAppendEntriesToPeers")
			}
			fr := NewRootFrame(sp)
			n := 0
			for _, b := range sp.Blocks {
				for _, in := range b.Instrs {
					g, ok := in.(*ssa.Go)
					if !ok || g.Common().StaticCallee() != sender {
						continue
					}
					n++
					ob := Obligation{Rule: id, Construct: "HEARTBEAT-ALL go sendAppendEntries" + ordSuffix(n) + " in (*Raft).sendAppendEntriesToPeers", Pos: p.InstrPos(in)}
					// id argument = key of a range over r.configuration.Members
					okRange := false
					if ex, ok := g.Common().Args[1].(*ssa.Extract); ok && ex.Index == 1 {
						if nx, ok := ex.Tuple.(*ssa.Next); ok {
							if rg, ok := nx.Iter.(*ssa.Range); ok && p.Canon(fr, rg.X).S == "r.configuration.Members" {
								okRange = true
							}
						}
					}
					// conditions between the loop head and the go: only id != r.id
					var conds []string
					for _, bb := range sp.Blocks {
						if iff, ok := bb.Instrs[len(bb.Instrs)-1].(*ssa.If); ok && bb.Dominates(b) && bb != b {
							if ex, ok := iff.Cond.(*ssa.Extract); ok && ex.Index == 0 {
								continue // the range's own "more elements" test
							}
							s := p.Canon(fr, iff.Cond).S
							if strings.Contains(s, "isSingleServerCluster") || strings.Contains(s, "len(r.configuration.Members)") {
								continue
							}
							// a branch both of whose arms come back to the go statement decides nothing about it
							both := true
							for _, sc := range bb.Succs {
								if sc != b && !blockReaches(sc, b) {
									both = false
								}
							}
							if both {
								if _, inLoop := g.Common().Args[1].(*ssa.Extract); !inLoop || !blockReaches(b, bb) {
									continue
								}
							}
							conds = append(conds, s)
						}
					}
					extra := []string{}
					for _, c := range conds {
						if !(strings.Contains(c, "r.id") && (strings.Contains(c, "!=") || strings.Contains(c, "=="))) {
							extra = append(extra, c)
						}
					}
					switch {
					case !okRange:
						ob.Verdict, ob.Detail = Violated, "senders are not spawned from a range over r.configuration.Members: some member (e.g. a non-voter that must catch up) never receives entries or heartbeats"
					case len(extra) > 0:
						ob.Verdict, ob.Detail = Violated, "a member is skipped under an additional condition: "+strings.Join(extra, "; ")
					default:
						ob.Verdict, ob.Detail = Discharged, "one sender per member other than this node"
					}
					out = append(out, ob)
				}
			}
			if n == 0 {
				out = append(out, missing(id, "go sendAppendEntries in sendAppendEntriesToPeers")...)
			}
			// heartbeatLoop
			hb := p.Func("(*Raft).heartbeatLoop")
			if hb == nil {
				out = append(out, missing(id, "(*Raft).heartbeatLoop")...)
			} else {
				stateAtom := p.StateAtom()
				spc := NewSpace(stateAtom)
				a := NewAnalysis(p, spc)
				a.NoInline = func(c *ssa.Function) bool { return c == sp }
				called := false
				a.Hook = func(a *Analysis, f *Frame, in ssa.Instruction, st State) State {
					if c, ok := in.(*ssa.Call); ok && c.Common().StaticCallee() == sp && f.Parent == nil {
						called = true
						a.Observe("HEARTBEAT-ALL call sendAppendEntriesToPeers in (*Raft).heartbeatLoop", f, in, st)
					}
					return st
				}
				a.Run(hb, nil)
				L := enumIdx(stateAtom, "Leader")
				for _, o := range a.SortedObs() {
					ob := Obligation{Rule: id, Construct: o.Key, Pos: o.Pos}
					if o.State.Has(0) || !spc.Filter(o.State, 0, 1<<uint(L)).IsEmpty() {
						ob.Verdict, ob.Detail = Discharged, "reached whenever the node is leader: "+strings.Join(spc.Project(o.State, 0), " | ")
					} else {
						ob.Verdict, ob.Detail = Violated, "the heartbeat is never sent by a leader"
					}
					out = append(out, ob)
				}
				if !called {
					out = append(out, Obligation{Rule: id, Construct: "HEARTBEAT-ALL call sendAppendEntriesToPeers in (*Raft).heartbeatLoop", Pos: p.Pos(hb.Pos()), Verdict: Violated,
						Detail: "heartbeatLoop never sends: followers time out and depose a healthy leader; an idle cluster never learns the commit index"})
				}
				// the loop sleeps heartbeatInterval
				sl := Obligation{Rule: id, Construct: "HEARTBEAT period in (*Raft).heartbeatLoop", Pos: p.Pos(hb.Pos())}
				fr := NewRootFrame(hb)
				for _, b := range hb.Blocks {
					for _, in := range b.Instrs {
						if c, ok := in.(*ssa.Call); ok {
							if callee := c.Common().StaticCallee(); callee != nil && callee.Pkg != nil && callee.Pkg.Pkg.Path() == "time" && callee.Name() == "Sleep" {
								if p.Canon(fr, c.Common().Args[0]).S == "r.options.heartbeatInterval" {
									sl.Verdict, sl.Detail = Discharged, "time.Sleep(r.options.heartbeatInterval) per iteration"
								}
							}
						}
					}
				}
				if sl.Verdict == "" {
					sl.Verdict, sl.Detail = Undecided, "no time.Sleep(r.options.heartbeatInterval) in the loop"
				}
				out = append(out, sl)
			}
			// electionTicker
			et := p.Func("(*Raft).electionTicker")
			if et == nil {
				return append(out, missing(id, "(*Raft).electionTicker")...)
			}
			fr2 := NewRootFrame(et)
			ob := Obligation{Rule: id, Construct: "TICKER-RANDOM timeout drawn per iteration in (*Raft).electionTicker", Pos: p.Pos(et.Pos())}
			for _, b := range et.Blocks {
				for _, in := range b.Instrs {
					c, ok := in.(*ssa.Call)
					if !ok {
						continue
					}
					callee := c.Common().StaticCallee()
					if callee == nil || callee.Name() != "RandomTimeout" {
						continue
					}
					lo, hi := p.Canon(fr2, c.Common().Args[0]).S, p.Canon(fr2, c.Common().Args[1]).S
					inLoop := false
					for _, s := range b.Succs {
						_ = s
					}
					// the call's block is part of a cycle
					inLoop = blockInCycle(b)
					switch {
					case !inLoop:
						ob.Verdict, ob.Detail = Violated, "the election timeout is drawn once, outside the loop: nodes that collide once collide forever (no leader is elected)"
					case lo == "r.options.electionTimeout" && (hi == "(2 * r.options.electionTimeout)" || hi == "(r.options.electionTimeout * 2)"):
						ob.Verdict, ob.Detail = Discharged, "RandomTimeout(T, 2T) on every iteration"
					default:
						ob.Verdict, ob.Detail = Undecided, "RandomTimeout("+lo+", "+hi+")"
					}
					ob.Pos = p.InstrPos(in)
				}
			}
			if ob.Verdict == "" {
				ob.Verdict, ob.Detail = Violated, "electionTicker does not randomise its timeout"
			}
			return append(out, ob)
		},
	}
}

// blockInCycle reports whether b can reach itself.
func blockInCycle(b *ssa.BasicBlock) bool {
	seen := map[*ssa.BasicBlock]bool{}
	var walk func(x *ssa.BasicBlock) bool
	walk = func(x *ssa.BasicBlock) bool {
		for _, s := range x.Succs {
			if s == b {
				return true
			}
			if !seen[s] {
				seen[s] = true
				if walk(s) {
					return true
				}
			}
		}
		return false
	}
	return walk(b)
}

// ruleFollowerLookup: C18 FOLLOWER-LOOKUP.
func ruleFollowerLookup() *Rule {
	const id = "FOLLOWER-LOOKUP"
	return &Rule{
		ID: id,
		Text: "r.followers holds an entry exactly for the members of the configuration in force (nextConfiguration deletes the entry of a removed node). " +
			"Every lookup r.followers[k] whose result is dereferenced is made while k is known to be a member in the same critical section (isMember(k) tested after the last unlock), " +
			"or its result is tested against nil: a lookup for a peer that was removed while the mutex was released yields nil and the dereference panics on a library goroutine.",
		Floor: 2,
		Run: func(p *Program) []Obligation {
			followers := p.Field("Raft.followers")
			if followers == nil {
				return missing(id, "Raft.followers")
			}
			var out []Obligation
			for _, root := range p.Roots() {
				var keys []string
				p.discover(root, func(a *Analysis, f *Frame, in ssa.Instruction) {
					if lk, ok := in.(*ssa.Lookup); ok && !lk.CommaOk && p.Canon(f, lk.X).S == "r.followers" {
						k := p.Canon(f, lk.Index).S
						for _, x := range keys {
							if x == k {
								return
							}
						}
						keys = append(keys, k)
					}
				})
				if len(keys) == 0 {
					continue
				}
				var atoms []*Atom
				idx := map[string]int{}
				for _, k := range keys {
					idx[k] = len(atoms)
					atoms = append(atoms, BoolAtom("isMember("+k+")", "r.configuration.Members["+k+"]#1"))
				}
				sp := NewSpace(atoms...)
				a := NewAnalysis(p, sp)
				a.Hook = func(a *Analysis, f *Frame, in ssa.Instruction, st State) State {
					lk, ok := in.(*ssa.Lookup)
					if !ok || lk.CommaOk || p.Canon(f, lk.X).S != "r.followers" {
						return st
					}
					// only lookups whose result is dereferenced without a nil test
					deref, nilTested := false, false
					for _, r := range *lk.Referrers() {
						switch x := r.(type) {
						case *ssa.FieldAddr:
							deref = true
						case *ssa.BinOp:
							if c, ok := x.Y.(*ssa.Const); ok && c.Value == nil {
								nilTested = true
							}
						}
					}
					if !deref || nilTested {
						return st
					}
					n := instrOrdinal(in, func(x ssa.Instruction) bool {
						l2, ok := x.(*ssa.Lookup)
						return ok && !l2.CommaOk
					})
					a.Observe("lookup r.followers["+p.Canon(f, lk.Index).S+"]"+ordSuffix(n)+" in "+chainKey(f), f, in, st).Extra["key"] = p.Canon(f, lk.Index).S
					return st
				}
				a.Run(root, nil)
				out = append(out, evalObs(a, id, a.SortedObs(), func(o *Observation, pt int) bool { return sp.Val(pt, idx[o.Extra["key"]]) == 1 }, nil,
					"the peer is a member of the configuration in force when its follower entry is fetched for use")...)
			}
			return dedupe(out)
		},
	}
}
