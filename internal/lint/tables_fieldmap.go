package lint

import (
	"fmt"
	"go/types"
	"sort"
	"strings"

	"golang.org/x/tools/go/ssa"
)

// Field-map engine shared by CONV-FIELDS and CODEC-PAIR.
//
// A "direction" is one function that fills a struct of type Target from a struct of type
// Source (makeProtoX: domain -> pb, makeX: pb -> domain, encodeX, decodeX). Every store
// through a field address of Target is collected from the SSA form and its value is followed
// back to a field of Source (directly, through an accessor such as GetTerm, through a numeric
// conversion, or through a nested one-argument converter). Composite literals, field-by-field
// assignment, any field order and any local names give the same SSA stores.

type tbStoreInfo struct {
	Target *types.Var
	Store  *ssa.Store
	Base   ssa.Value // the pointer whose field is written
	Src    *tbSrc    // non-nil: Target := f(Source.Src.Field)
	Const  bool      // value is a constant
	Why    string    // neither: why the value was not understood
}

type tbDirection struct {
	Fn             *ssa.Function
	Target, Source *types.Named
	Stores         []*tbStoreInfo
	Problems       []string // reasons why an absent store proves nothing
	bySrc          map[*types.Var][]*tbStoreInfo
	byTarget       map[*types.Var][]*tbStoreInfo
}

func (d *tbDirection) understood() bool { return len(d.Problems) == 0 }

// bases returns the distinct struct pointers that are filled.
func (d *tbDirection) bases() []ssa.Value {
	var out []ssa.Value
	seen := map[ssa.Value]bool{}
	for _, s := range d.Stores {
		if !seen[s.Base] {
			seen[s.Base] = true
			out = append(out, s.Base)
		}
	}
	return out
}

// srcBases returns the distinct struct values that are read.
func (d *tbDirection) srcBases() []ssa.Value {
	var out []ssa.Value
	seen := map[ssa.Value]bool{}
	for _, s := range d.Stores {
		if s.Src != nil && !seen[s.Src.Base] {
			seen[s.Src.Base] = true
			out = append(out, s.Src.Base)
		}
	}
	return out
}

// tbAnalyseDirection extracts the field map of fn. srcOK vets the struct value a field is read
// from (e.g. "derives from the parameter"); a rejected read is recorded as not understood.
func tbAnalyseDirection(fn *ssa.Function, target, source *types.Named, srcOK func(base ssa.Value) (bool, string)) *tbDirection {
	d := &tbDirection{Fn: fn, Target: target, Source: source, bySrc: map[*types.Var][]*tbStoreInfo{}, byTarget: map[*types.Var][]*tbStoreInfo{}}
	for _, b := range fn.Blocks {
		for _, in := range b.Instrs {
			st, ok := in.(*ssa.Store)
			if !ok {
				continue
			}
			fa, ok := st.Addr.(*ssa.FieldAddr)
			if !ok {
				continue
			}
			if n := tbPtrElemNamed(fa.X.Type()); n == nil || n.Obj() != target.Obj() {
				continue
			}
			si := &tbStoreInfo{Target: fieldOf(fa.X.Type(), fa.Field), Store: st, Base: fa.X}
			if _, isConst := st.Val.(*ssa.Const); isConst {
				si.Const = true
			} else if src, why := tbTrace(st.Val); src == nil {
				si.Why = why
			} else if src.Owner == nil || src.Owner.Obj() != source.Obj() {
				si.Why = "value is read from " + tbTypeName(src.Base.Type()) + ", not from " + tbTypeName(source)
			} else if ok, why := srcOK(src.Base); !ok {
				si.Why = why
			} else {
				si.Src = src
			}
			d.Stores = append(d.Stores, si)
		}
	}
	if len(d.Stores) == 0 {
		d.Problems = append(d.Problems, "no store into a field of "+tbTypeName(target)+" found in "+FuncName(fn))
	}
	// Stores that do not happen on every path before the struct is used as a whole: the field's
	// value is chosen by control flow, which the field map cannot express.
	for _, s := range d.Stores {
		al, ok := s.Base.(*ssa.Alloc)
		if !ok {
			continue
		}
		for _, r := range *al.Referrers() {
			escapes := false
			switch x := r.(type) {
			case *ssa.Return, *ssa.MakeInterface, *ssa.UnOp:
				escapes = true
			case *ssa.Store:
				escapes = x.Val == ssa.Value(al)
			case ssa.CallInstruction:
				escapes = true
			}
			if escapes && !tbPrecedes(s.Store, r) {
				s.Src, s.Const = nil, false
				s.Why = "the assignment does not precede every use of the struct (conditional or late assignment: the value is chosen by control flow)"
				break
			}
		}
	}
	for _, s := range d.Stores {
		d.byTarget[s.Target] = append(d.byTarget[s.Target], s)
		if s.Src != nil {
			d.bySrc[s.Src.Field] = append(d.bySrc[s.Src.Field], s)
		}
		if !s.Const && s.Src == nil {
			d.Problems = append(d.Problems, fmt.Sprintf("store into %s in %s not understood: %s", tbFieldLabel(target, s.Target), FuncName(fn), s.Why))
		}
	}
	// Writes that could set fields without a visible field store.
	for _, base := range d.bases() {
		al, ok := base.(*ssa.Alloc)
		if !ok {
			continue
		}
		for _, r := range *al.Referrers() {
			switch x := r.(type) {
			case *ssa.Store:
				if x.Addr == ssa.Value(al) {
					d.Problems = append(d.Problems, "the whole "+tbTypeName(target)+" is overwritten by a struct assignment in "+FuncName(fn))
				}
			case ssa.CallInstruction:
				for _, a := range x.Common().Args {
					if a == ssa.Value(al) {
						d.Problems = append(d.Problems, "the "+tbTypeName(target)+" being filled is passed to a call in "+FuncName(fn)+", which may set fields")
					}
				}
			}
		}
	}
	d.Problems = tbDedupe(d.Problems)
	return d
}

func tbDedupe(xs []string) []string {
	seen := map[string]bool{}
	var out []string
	for _, x := range xs {
		if !seen[x] {
			seen[x] = true
			out = append(out, x)
		}
	}
	return out
}

// tbPairSpec describes one encode/decode pair.
type tbPairSpec struct {
	Rule     string
	Kind     string // "converter pair" or "codec pair"
	Enc, Dec *ssa.Function
	Domain   *types.Named
	PB       *types.Named
	Except   map[string]string // domain field -> reason it is deliberately not carried
	ExceptPB map[string]string // pb field -> reason
	EncSrcOK func(ssa.Value) (bool, string)
	DecSrcOK func(ssa.Value) (bool, string)
	Inverse  map[*ssa.Function]*ssa.Function // nested converter -> its inverse
}

func (s *tbPairSpec) name() string { return FuncName(s.Enc) + "/" + FuncName(s.Dec) }

type tbPairResult struct {
	Obligations []Obligation
	Enc, Dec    *tbDirection
}

func tbTargets(ss []*tbStoreInfo, owner *types.Named) string {
	m := map[string]bool{}
	for _, s := range ss {
		m[tbFieldLabel(owner, s.Target)] = true
	}
	return tbJoin(tbSortedKeys(m))
}

// tbEvalPair turns the two field maps into one obligation per domain field and per pb field.
func (p *Program) tbEvalPair(s *tbPairSpec) *tbPairResult {
	enc := tbAnalyseDirection(s.Enc, s.PB, s.Domain, s.EncSrcOK)
	dec := tbAnalyseDirection(s.Dec, s.Domain, s.PB, s.DecSrcOK)
	res := &tbPairResult{Enc: enc, Dec: dec}
	encName, decName := FuncName(s.Enc), FuncName(s.Dec)
	dst := tbStructOf(s.Domain)
	pst := tbStructOf(s.PB)

	for i := 0; i < dst.NumFields(); i++ {
		f := dst.Field(i)
		label := tbFieldLabel(s.Domain, f)
		ob := Obligation{Rule: s.Rule, Construct: "field " + label + " in " + s.Kind + " " + s.name(), Pos: p.Pos(s.Enc.Pos())}
		encStores := enc.bySrc[f]
		var decMapped, decOther []*tbStoreInfo
		for _, d := range dec.byTarget[f] {
			if d.Src != nil {
				decMapped = append(decMapped, d)
			} else {
				decOther = append(decOther, d)
			}
		}
		if len(encStores) > 0 {
			ob.Pos = p.InstrPos(encStores[0].Store)
		}
		if reason, ok := s.Except[f.Name()]; ok && len(encStores) == 0 && len(decMapped) == 0 {
			if enc.understood() && dec.understood() {
				ob.Verdict = Discharged
				ob.Detail = "frozen exception: " + reason + " (confirmed: " + encName + " does not copy it, " + decName + " does not restore it)"
			} else {
				ob.Verdict = Undecided
				ob.Detail = "frozen exception (" + reason + "), but the pair is not fully understood: " + strings.Join(append(append([]string{}, enc.Problems...), dec.Problems...), "; ")
			}
			res.Obligations = append(res.Obligations, ob)
			continue
		}
		var viol, undec []string
		if len(encStores) == 0 {
			if enc.understood() {
				viol = append(viol, fmt.Sprintf("%s is not copied into any field of %s by %s: it is lost on encoding", label, tbTypeName(s.PB), encName))
			} else {
				undec = append(undec, fmt.Sprintf("no copy of %s found in %s, but that function is not fully understood (%s)", label, encName, strings.Join(enc.Problems, "; ")))
			}
		}
		if len(decMapped) == 0 {
			switch {
			case len(decOther) > 0 && decOther[0].Const:
				viol = append(viol, fmt.Sprintf("%s sets %s from a constant, not from the decoded message", decName, label))
			case len(decOther) > 0:
				undec = append(undec, fmt.Sprintf("%s sets %s from a value that is not understood: %s", decName, label, decOther[0].Why))
			case dec.understood():
				viol = append(viol, fmt.Sprintf("%s is never restored by %s: it is lost on decoding", label, decName))
			default:
				undec = append(undec, fmt.Sprintf("no restore of %s found in %s, but that function is not fully understood (%s)", label, decName, strings.Join(dec.Problems, "; ")))
			}
		}
		for _, es := range encStores {
			g := es.Target
			glabel := tbFieldLabel(s.PB, g)
			ob.Facts = append(ob.Facts, fmt.Sprintf("%s: %s := %s (%s%s)", encName, glabel, label, es.Src.Via, tbWrapsText(es.Src.Wraps)))
			readers := dec.bySrc[g]
			if len(readers) == 0 && dec.understood() && len(decMapped) > 0 {
				viol = append(viol, fmt.Sprintf("%s writes %s into %s, but %s never reads %s", encName, label, glabel, decName, glabel))
			}
			for _, r := range readers {
				if r.Target != f {
					viol = append(viol, fmt.Sprintf("%s writes %s into %s, but %s reads %s back into %s: the round trip is not the identity",
						encName, label, glabel, decName, glabel, tbFieldLabel(s.Domain, r.Target)))
					continue
				}
				v, u := tbWrapsInverse(es.Src.Wraps, r.Src.Wraps, s.Inverse)
				if v != "" {
					viol = append(viol, label+": "+v)
				}
				if u != "" {
					undec = append(undec, label+": "+u)
				}
			}
			for _, o := range enc.byTarget[g] {
				if o.Src != nil && o.Src.Field != f {
					viol = append(viol, fmt.Sprintf("%s writes both %s and %s into %s: two domain fields share one message field",
						encName, label, tbFieldLabel(s.Domain, o.Src.Field), glabel))
				}
			}
		}
		for _, ds := range decMapped {
			g := ds.Src.Field
			glabel := tbFieldLabel(s.PB, g)
			ob.Facts = append(ob.Facts, fmt.Sprintf("%s: %s := %s (%s%s)", decName, label, glabel, ds.Src.Via, tbWrapsText(ds.Src.Wraps)))
			var writers []*tbStoreInfo
			for _, w := range enc.byTarget[g] {
				if w.Src != nil {
					writers = append(writers, w)
				}
			}
			if len(writers) == 0 && enc.understood() && len(encStores) > 0 {
				viol = append(viol, fmt.Sprintf("%s restores %s from %s, which %s never sets from a domain field", decName, label, glabel, encName))
			}
			for _, w := range writers {
				if w.Src.Field != f {
					viol = append(viol, fmt.Sprintf("%s restores %s from %s, but %s fills %s from %s: the round trip is not the identity",
						decName, label, glabel, encName, glabel, tbFieldLabel(s.Domain, w.Src.Field)))
				}
			}
		}
		viol, undec = tbDedupe(viol), tbDedupe(undec)
		switch {
		case len(viol) > 0:
			ob.Verdict = Violated
			ob.Detail = strings.Join(viol, "; ")
		case len(undec) > 0:
			ob.Verdict = Undecided
			ob.Detail = strings.Join(undec, "; ")
		default:
			ob.Verdict = Discharged
			ob.Detail = fmt.Sprintf("%s -> %s -> %s is the identity", label, tbTargets(encStores, s.PB), label)
		}
		res.Obligations = append(res.Obligations, ob)
	}

	for i := 0; i < pst.NumFields(); i++ {
		g := pst.Field(i)
		if !g.Exported() {
			continue // protobuf runtime internals: state, sizeCache, unknownFields
		}
		glabel := tbFieldLabel(s.PB, g)
		ob := Obligation{Rule: s.Rule, Construct: "message field " + glabel + " in " + s.Kind + " " + s.name(), Pos: p.Pos(s.Enc.Pos())}
		setters := enc.byTarget[g]
		readers := dec.bySrc[g]
		if len(setters) > 0 {
			ob.Pos = p.InstrPos(setters[0].Store)
		}
		if reason, ok := s.ExceptPB[g.Name()]; ok && len(setters) == 0 && len(readers) == 0 {
			if enc.understood() && dec.understood() {
				ob.Verdict = Discharged
				ob.Detail = "frozen exception: " + reason
			} else {
				ob.Verdict = Undecided
				ob.Detail = "frozen exception (" + reason + "), but the pair is not fully understood: " + strings.Join(append(append([]string{}, enc.Problems...), dec.Problems...), "; ")
			}
			res.Obligations = append(res.Obligations, ob)
			continue
		}
		var viol, undec []string
		mapped := false
		for _, st := range setters {
			switch {
			case st.Src != nil:
				mapped = true
			case st.Const:
				viol = append(viol, fmt.Sprintf("%s sets %s from a constant", encName, glabel))
			default:
				undec = append(undec, fmt.Sprintf("%s sets %s from a value that is not understood: %s", encName, glabel, st.Why))
			}
		}
		if mapped {
			viol = nil // a constant store next to a real one is only an initialisation
		}
		if len(setters) == 0 {
			if enc.understood() {
				viol = append(viol, fmt.Sprintf("%s is never set by %s (always the zero value)", glabel, encName))
			} else {
				undec = append(undec, fmt.Sprintf("no store into %s found in %s, but that function is not fully understood (%s)", glabel, encName, strings.Join(enc.Problems, "; ")))
			}
		}
		if len(readers) == 0 {
			if dec.understood() {
				viol = append(viol, fmt.Sprintf("%s is never read by %s", glabel, decName))
			} else {
				undec = append(undec, fmt.Sprintf("no read of %s found in %s, but that function is not fully understood (%s)", glabel, decName, strings.Join(dec.Problems, "; ")))
			}
		}
		switch {
		case len(viol) > 0:
			ob.Verdict = Violated
			ob.Detail = strings.Join(tbDedupe(viol), "; ")
		case len(undec) > 0:
			ob.Verdict = Undecided
			ob.Detail = strings.Join(tbDedupe(undec), "; ")
		default:
			ob.Verdict = Discharged
			var from []string
			for _, st := range setters {
				if st.Src != nil {
					from = append(from, tbFieldLabel(s.Domain, st.Src.Field))
				}
			}
			sort.Strings(from)
			ob.Detail = fmt.Sprintf("set by %s from %s, read by %s into %s", encName, tbJoin(tbDedupe(from)), decName, tbTargets(readers, s.Domain))
		}
		res.Obligations = append(res.Obligations, ob)
	}
	return res
}

func tbWrapsText(ws []tbWrap) string {
	if len(ws) == 0 {
		return ""
	}
	var parts []string
	for _, w := range ws {
		parts = append(parts, w.String())
	}
	return ", via " + strings.Join(parts, " of ")
}

// tbWrapsInverse checks that the transformations applied on decoding undo those applied on
// encoding. It returns a violation text or an undecided text (both empty: inverse).
func tbWrapsInverse(fw, bw []tbWrap, inverse map[*ssa.Function]*ssa.Function) (viol, undec string) {
	if len(fw) != len(bw) {
		return "", fmt.Sprintf("encoding applies [%s] and decoding applies [%s]: cannot be matched as inverses", tbWrapList(fw), tbWrapList(bw))
	}
	sizes := types.StdSizes{WordSize: 8, MaxAlign: 8}
	for i := range fw {
		f, b := fw[i], bw[len(bw)-1-i]
		switch {
		case f.Fn != nil && b.Fn != nil:
			inv, ok := inverse[f.Fn]
			if !ok {
				return "", "nested converter " + tbFuncName(f.Fn) + " is not in the converter table"
			}
			if inv != b.Fn {
				return fmt.Sprintf("encoded with %s but decoded with %s (the inverse is %s)", tbFuncName(f.Fn), tbFuncName(b.Fn), tbFuncName(inv)), ""
			}
		case f.Fn == nil && b.Fn == nil:
			if !types.Identical(f.From, b.To) || !types.Identical(f.To, b.From) {
				return fmt.Sprintf("encoding converts %s -> %s but decoding converts %s -> %s", tbTypeName(f.From), tbTypeName(f.To), tbTypeName(b.From), tbTypeName(b.To)), ""
			}
			fb, ok1 := f.From.Underlying().(*types.Basic)
			tb, ok2 := f.To.Underlying().(*types.Basic)
			if ok1 && ok2 && fb.Info()&types.IsInteger != 0 && tb.Info()&types.IsInteger != 0 {
				if sizes.Sizeof(tb) < sizes.Sizeof(fb) {
					return fmt.Sprintf("conversion %s -> %s narrows the value (%d -> %d bytes)", tbTypeName(f.From), tbTypeName(f.To), sizes.Sizeof(fb), sizes.Sizeof(tb)), ""
				}
			} else if ok1 && ok2 && (fb.Info()&types.IsNumeric != 0 || tb.Info()&types.IsNumeric != 0) {
				return "", fmt.Sprintf("conversion %s -> %s is not between integer types", tbTypeName(f.From), tbTypeName(f.To))
			}
		default:
			return "", fmt.Sprintf("encoding applies [%s] and decoding applies [%s]: cannot be matched as inverses", tbWrapList(fw), tbWrapList(bw))
		}
	}
	return "", ""
}

func tbWrapList(ws []tbWrap) string {
	var parts []string
	for _, w := range ws {
		parts = append(parts, w.String())
	}
	return strings.Join(parts, ", ")
}
