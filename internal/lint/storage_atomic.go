package lint

// The write-temp / sync / close / rename protocol (TMP-RENAME, STATE-ATOMIC) and the
// "remove the temporary on failure" check shared with SNAP-ATOMIC.

import (
	"fmt"
	"go/token"
	"go/types"
	"strconv"
	"strings"

	"golang.org/x/tools/go/ssa"
)

type atomicSpec struct {
	rule       string
	root       string     // function that creates the temporary file
	dirField   *types.Var // directory the temporary must be created in
	oldField   *types.Var // field holding the file being replaced (nil: no open handle on it)
	pubField   *types.Var // in-memory field that may change only after the rename (nil: none)
	targetBase string     // base name of the rename target inside dirField
	what       string     // "log" / "state"
}

func isTempFile(fr *sframe, v ssa.Value) (*ssa.Call, *sframe) {
	c, cf := callOf(fr, v, 0)
	if c != nil && calleeName(c.Common()) == "os.CreateTemp" {
		return c, cf
	}
	return nil, nil
}

// nameOfFile: v is (*os.File).Name(x); returns x and the frame it lives in.
func nameOfFile(fr *sframe, v ssa.Value) (ssa.Value, *sframe) {
	c, cf := callOf(fr, v, -1)
	if c == nil || calleeName(c.Common()) != "(*os.File).Name" {
		return nil, nil
	}
	return c.Common().Args[0], cf
}

func checkAtomicReplace(p *Program, obs *obSet, sp atomicSpec) {
	fn := p.Func(sp.root)
	if fn == nil {
		obs.lost(sp.root)
		return
	}
	targetNeverUnlinked(p, obs, sp, fn)
	var sites flowSites
	renameFrame := map[int]*sframe{}
	cleanupDone := map[*ssa.Function]bool{}
	s := &flowSpec{p: p, root: fn, noInline: map[string]bool{}}
	s.inlineVeto = func(fr *sframe, c *ssa.Call) bool { return passesFileAsWriter(c) }
	var root *sframe
	seenCreate, seenRename := false, false

	known := func(v *flowVisit, st, flag string) (flowSite, bool, bool) {
		x, ok := stGet(st, flag)
		if !ok {
			return flowSite{}, false, false
		}
		site := sites.at(x)
		return site, true, v.ErrNil(site.fr, site.call)
	}
	// renamed reports whether the rename is known to have succeeded as seen from frame pf.
	renamed := func(v *flowVisit, pf *sframe) (bool, string, []*ssa.Call) {
		x, ok := stGet(v.St, "R")
		if !ok {
			return false, "no os.Rename of the temporary file on this path", nil
		}
		site := sites.at(x)
		if !v.ErrNil(site.fr, site.call) {
			return false, "the result of os.Rename is not known to be nil on this path", []*ssa.Call{site.call}
		}
		j, _ := strconv.Atoi(x)
		for q := renameFrame[j]; q != nil && q.site != nil; q = q.parent {
			if pf.within(q) {
				continue
			}
			c, isCall := q.site.(*ssa.Call)
			if !isCall || !v.ErrNil(q.parent, c) {
				return false, "the result of " + FuncName(q.fn) + " is not known to be nil on this path", []*ssa.Call{c}
			}
		}
		return true, "", nil
	}

	s.instr = func(v *flowVisit, in ssa.Instruction) (string, bool) {
		if root == nil {
			root = v.Fr.root()
		}
		st := v.St
		chain := frameChain(v.Fr, in.Parent())
		if c := callNamed(in, "os.CreateTemp"); c != nil {
			seenCreate = true
			key := "temporary file created in the " + sp.what + " directory with a tmp prefix in " + chain
			a := c.Common().Args
			pat, isConst := constStringOf(a[1])
			switch {
			case !fieldLoad(v.Fr, a[0], sp.dirField):
				obs.fail(key, p.InstrPos(c), "os.CreateTemp is not given the "+sp.what+" directory ("+sp.dirField.Name()+")", v.Path(), "directory: "+describe(v.Fr, a[0]))
			case !isConst:
				obs.undecided(key, p.InstrPos(c), "the name pattern of os.CreateTemp is not a constant")
			case !strings.HasPrefix(pat, "tmp"):
				obs.fail(key, p.InstrPos(c), fmt.Sprintf("the name pattern %q does not start with \"tmp\", so fileutil.RemoveTmpFiles will not collect the file after a crash", pat), v.Path())
			default:
				obs.ok(key, p.InstrPos(c), "os.CreateTemp("+sp.dirField.Name()+", "+strconv.Quote(pat)+")")
			}
			return stAdd(st, fmt.Sprintf("T@%d", sites.id(v.Fr, c))), false
		}
		if kind, f, call := fileEvent(in); kind != "" {
			if tc, _ := isTempFile(v.Fr, f); tc != nil {
				switch kind {
				case "write", "truncate":
					if stHas(st, "TC") || hasFlag(st, "TC") || hasFlag(st, "R") {
						v.Note("%s: %s", p.InstrPos(call), instrLabel(call))
						obs.fail("temporary file written only before Sync/Close/rename in "+chain, p.InstrPos(call),
							"the temporary file is written after it was closed or renamed", v.Path())
					}
					return stAdd(stDel(st, "TS"), "TD", "TW"), false
				case "sync":
					if hasFlag(st, "TC") || hasFlag(st, "TCX") {
						return st, false // Sync of a closed file fails at run time: not a sync
					}
					return stAdd(stDel(st, "TD", "TS"), fmt.Sprintf("TS@%d", sites.id(v.Fr, call))), false
				case "close":
					if !hasFlag(st, "TS") || stHas(st, "TD") {
						return stAdd(st, "TCX"), false // closed with unsynced data
					}
					return stAdd(stDel(st, "TC"), fmt.Sprintf("TC@%d", sites.id(v.Fr, call))), false
				}
				return st, false
			}
			if sp.oldField != nil && fieldLoad(v.Fr, f, sp.oldField) && !hasFlag(st, "R") {
				switch kind {
				case "write", "truncate":
					return stDel(st, "FS"), false
				case "sync":
					return stAdd(stDel(st, "FS"), fmt.Sprintf("FS@%d", sites.id(v.Fr, call))), false
				case "close":
					if !hasFlag(st, "FS") {
						return stAdd(st, "FCX"), false
					}
					return stAdd(stDel(st, "FC"), fmt.Sprintf("FC@%d", sites.id(v.Fr, call))), false
				}
			}
			return st, false
		}
		if c := callNamed(in, "os.Rename"); c != nil {
			src, sf := nameOfFile(v.Fr, c.Common().Args[0])
			if src == nil {
				return st, false
			}
			if tc, _ := isTempFile(sf, src); tc == nil {
				return st, false
			}
			seenRename = true
			j := sites.id(v.Fr, c)
			renameFrame[j] = v.Fr
			pos := p.InstrPos(c)
			v.Note("%s: os.Rename", pos)
			need := func(key, flag, what string, alsoClean bool) {
				site, present, good := known(v, st, flag)
				switch {
				case !present && stHas(st, flag+"X"):
					obs.fail(key, pos, "the file is closed before it was synced ("+what+" must follow a Sync of the same file)", v.Path())
				case !present:
					obs.fail(key, pos, "os.Rename is reached on a path with no "+what+" before it", v.Path())
				case alsoClean && stHas(st, "TD"):
					obs.fail(key, pos, "the temporary file is written again after its last Sync and before os.Rename", v.Path())
				case !good:
					obs.failErr(key, pos, "os.Rename is reached although the result of "+siteKey(site.fr, site.call)+" is not known to be nil", v.Path(), []*ssa.Call{site.call})
				default:
					obs.ok(key, pos, what+" with a nil result precedes os.Rename on every path", "by: "+siteKey(site.fr, site.call))
				}
			}
			need("temporary file Sync before os.Rename in "+chain, "TS", "(*os.File).Sync of the temporary file", true)
			need("temporary file Close before os.Rename in "+chain, "TC", "(*os.File).Close of the temporary file", false)
			if sp.oldField != nil {
				need("replaced "+sp.what+" file Sync before os.Rename in "+chain, "FS", "(*os.File).Sync of the file being replaced", false)
				need("replaced "+sp.what+" file Close before os.Rename in "+chain, "FC", "(*os.File).Close of the file being replaced", false)
			}
			if stHas(st, "TW") {
				obs.ok("temporary file written only before Sync/Close/rename in "+chain, pos, "all writes to the temporary file precede its Sync")
			}
			// target
			tkey := "os.Rename target is the " + sp.what + " file in " + chain
			dst := c.Common().Args[1]
			okTarget, how := false, ""
			if sp.oldField != nil {
				if x, xf := nameOfFile(v.Fr, dst); x != nil && fieldLoad(xf, x, sp.oldField) {
					okTarget, how = true, "Name() of "+sp.oldField.Name()
				}
			}
			if es, ef := joinElems(v.Fr, dst); !okTarget && len(es) == 2 && fieldLoad(ef, es[0], sp.dirField) {
				if base, isConst := constStringOf(resolve(ef, es[1])); isConst && base == sp.targetBase {
					okTarget, how = true, "filepath.Join("+sp.dirField.Name()+", "+strconv.Quote(base)+")"
				}
			}
			if okTarget {
				obs.ok(tkey, pos, "target: "+how)
			} else {
				obs.fail(tkey, pos, "the temporary file is renamed to something other than "+sp.targetBase+" in "+sp.dirField.Name(), v.Path(), "target: "+describe(v.Fr, dst))
			}
			if rf := in.Parent(); !cleanupDone[rf] {
				cleanupDone[rf] = true
				checkTempCleanup(p, obs, "temporary file removed on failure in "+FuncName(rf), rf, c, func(x ssa.Value) bool {
					n, _ := nameOfFile(nil, x)
					return n != nil && resolve(nil, n) == resolve(nil, mustNameArg(c.Common().Args[0]))
				})
			}
			return stAdd(stDel(st, "R"), fmt.Sprintf("R@%d", j)), false
		}
		if store, fld := storeField(in); store != nil && fld != nil {
			if fld == sp.oldField && hasFlag(st, "R") {
				if c, _ := callOf(v.Fr, store.Val, 0); c != nil {
					switch calleeName(c.Common()) {
					case "os.OpenFile", "os.Open", "os.Create":
						return stAdd(st, "O"), false
					}
				}
				return st, false
			}
			if sp.pubField != nil && fld == sp.pubField && hasFlag(st, "T") {
				key := "in-memory " + fld.Name() + " replaced only after the rename succeeded in " + chain
				if ok, why, cs := renamed(v, v.Fr); ok {
					obs.ok(key, p.InstrPos(in), "the store is reached only on paths where os.Rename (and the helper performing it) returned nil")
				} else {
					v.Note("%s: store to %s", p.InstrPos(in), fld.Name())
					obs.failErr(key, p.InstrPos(in), "the in-memory "+fld.Name()+" is replaced although "+why, v.Path(), cs)
				}
				return st, false
			}
		}
		if ret, ok := in.(*ssa.Return); ok && v.Fr == root {
			succ, knownRet := successReturn(ret)
			if !knownRet || !succ || !hasFlag(st, "T") {
				return st, true
			}
			key := "nil-error return only after the rename succeeded in " + sp.root
			if ok, why, cs := renamed(v, v.Fr); ok {
				obs.ok(key, p.InstrPos(in), "every nil-error return after the temporary file was created follows a successful os.Rename")
			} else {
				v.Note("%s: return nil", p.InstrPos(in))
				obs.failErr(key, p.InstrPos(in), "success is returned although "+why, v.Path(), cs)
			}
			if sp.oldField != nil {
				key := sp.what + " file reopened after os.Rename before the nil-error return in " + sp.root
				if stHas(st, "O") {
					obs.ok(key, p.InstrPos(in), "a freshly opened file is stored in "+sp.oldField.Name()+" after the rename")
				} else if hasFlag(st, "R") {
					v.Note("%s: return nil", p.InstrPos(in))
					obs.fail(key, p.InstrPos(in), "success is returned with "+sp.oldField.Name()+" still referring to the closed, replaced file", v.Path())
				}
			}
			return st, true
		}
		return st, false
	}
	s.RunFromEntry("")
	if s.Overflow {
		obs.undecided("temp/rename protocol in "+sp.root, p.Pos(fn.Pos()), "path exploration exceeded its bound")
		return
	}
	if in := s.DeferredMatch(func(in ssa.Instruction) bool {
		if callNamed(in, "os.Rename") != nil {
			return true
		}
		if _, fld := storeField(in); fld != nil && (fld == sp.pubField || fld == sp.oldField) {
			return true
		}
		k, _, _ := fileEvent(in)
		return k == "write" || k == "truncate" || k == "sync" || k == "close"
	}); in != nil {
		obs.undecided("temp/rename protocol in "+sp.root, p.InstrPos(in), "a deferred function, or a helper beyond the inlining depth, takes part in the protocol (writes, syncs, closes, renames or publishes); the rule does not order those")
	}
	if !seenCreate {
		obs.lost("os.CreateTemp reachable from " + sp.root)
	}
	if !seenRename {
		obs.lost("os.Rename of the temporary file reachable from " + sp.root)
	}
}

func mustNameArg(v ssa.Value) ssa.Value {
	n, _ := nameOfFile(nil, v)
	return n
}

// hasFlag reports whether the state has a "name@…" flag or the bare flag.
func hasFlag(st, name string) bool {
	if stHas(st, name) {
		return true
	}
	_, ok := stGet(st, name)
	return ok
}

// checkTempCleanup verifies, in the function fn that performs the rename:
//
//   - a deferred closure removes the temporary (os.Remove / os.RemoveAll of a path accepted by
//     isTarget), at most guarded by captured booleans;
//   - if the removal is guarded by a captured flag being false, that flag is set to true in fn
//     only after the rename succeeded;
//   - the defer is registered before the first step of the replace protocol (Sync, Close,
//     os.Rename): a failing return after such a step has passed the defer. Failures while the
//     temporary is still being written are not covered: the pinned code leaves the file to
//     fileutil.RemoveTmpFiles at the next start, and every caller treats the failure as fatal.
func checkTempCleanup(p *Program, obs *obSet, key string, fn *ssa.Function, rename *ssa.Call, isTarget func(path ssa.Value) bool) {
	pos := p.InstrPos(rename)
	type found struct {
		def    *ssa.Defer
		remove *ssa.Call
		guards map[ssa.Value]bool // cell -> required truth of the captured flag for the removal to run
	}
	var hits []found
	for _, b := range fn.Blocks {
		for _, in := range b.Instrs {
			d, ok := in.(*ssa.Defer)
			if !ok {
				continue
			}
			var k *ssa.Function
			switch x := d.Call.Value.(type) {
			case *ssa.MakeClosure:
				k = x.Fn.(*ssa.Function)
			case *ssa.Function:
				k = x
			}
			if k == nil || len(k.Blocks) == 0 {
				continue
			}
			ks := &flowSpec{p: p, root: k, keepCond: func(fr *sframe, c ssa.Value) bool { return cellOf(c) != nil }}
			ks.instr = func(v *flowVisit, in ssa.Instruction) (string, bool) {
				c := callNamed(in, "os.Remove", "os.RemoveAll")
				if c == nil || !isTarget(c.Common().Args[0]) {
					return v.St, false
				}
				h := found{def: d, remove: c, guards: map[ssa.Value]bool{}}
				v.Conds(func(fr *sframe, cond ssa.Value, truth bool) {
					if cell := cellOf(cond); cell != nil {
						h.guards[cell] = truth
					}
				})
				hits = append(hits, h)
				return v.St, false
			}
			ks.RunFromEntry("")
		}
	}
	if len(hits) == 0 {
		obs.fail(key, pos, "no deferred function of "+FuncName(fn)+" removes the temporary when the function fails", nil)
		return
	}
	h := hits[0]
	if strings.Contains(key, "temporary directory") && calleeName(h.remove.Common()) == "os.Remove" {
		obs.fail(key, p.InstrPos(h.remove), "the temporary DIRECTORY is removed with os.Remove, which fails on a non-empty directory (it holds the data and metadata files): the partial snapshot is left behind", nil)
		return
	}
	var facts []string
	facts = append(facts, "removal: "+siteKey(nil, h.remove))
	// success flags: cells that must be false for the removal to happen and that fn sets to true
	var flags []ssa.Value
	for cell, truth := range h.guards {
		al, ok := cell.(*ssa.Alloc)
		if !ok {
			continue
		}
		setsTrue := false
		for _, r := range *al.Referrers() {
			if st, ok := r.(*ssa.Store); ok && st.Addr == ssa.Value(al) {
				if b, isConst := constBool(st.Val); isConst && b {
					setsTrue = true
				}
			}
		}
		if !truth && setsTrue {
			flags = append(flags, cell)
			facts = append(facts, "guard: removal runs only while the captured success flag is false")
		} else if truth {
			facts = append(facts, "guard: removal also requires "+describe(nil, singleStoreOr(al)))
		}
	}
	breach := false
	fs := &flowSpec{p: p, root: fn, keepCond: func(fr *sframe, c ssa.Value) bool { return cellOf(c) != nil }}
	tempIsLocal := false
	for _, b := range fn.Blocks {
		for _, in := range b.Instrs {
			if callNamed(in, "os.CreateTemp", "os.MkdirTemp") != nil {
				tempIsLocal = true
			}
		}
	}
	initial := "T"
	if tempIsLocal {
		initial = ""
	}
	fs.instr = func(v *flowVisit, in ssa.Instruction) (string, bool) {
		st := v.St
		if in == ssa.Instruction(h.def) {
			return stAdd(st, "D"), false
		}
		if in == ssa.Instruction(rename) {
			return stAdd(st, "R", "P"), false
		}
		if k, _, _ := fileEvent(in); k == "sync" || k == "close" {
			st = stAdd(st, "P")
		}
		if c, ok := in.(*ssa.Call); ok && tempIsLocal {
			switch calleeName(c.Common()) {
			case "os.CreateTemp", "os.MkdirTemp":
				return stAdd(st, "T"), false
			}
		}
		if store, ok := in.(*ssa.Store); ok {
			for _, cell := range flags {
				if store.Addr != cell {
					continue
				}
				b, isConst := constBool(store.Val)
				switch {
				case !isConst:
					obs.undecided(key, p.InstrPos(in), "the success flag is assigned a non-constant value")
					breach = true
				case b && !(stHas(st, "R") && v.ErrNil(v.Fr, rename)) && !guardedOut(v, rename):
					v.Note("%s: success flag set", p.InstrPos(in))
					obs.fail(key, p.InstrPos(in), "the success flag that disables the removal of the temporary is set on a path where os.Rename has not succeeded", v.Path(), facts...)
					breach = true
				}
			}
		}
		if ret, ok := in.(*ssa.Return); ok && v.Fr.parent == nil {
			if succ, known := successReturn(ret); known && succ {
				return st, true // nothing to clean up after a success
			}
			if stHas(st, "T") && stHas(st, "P") && !stHas(st, "D") && !createFailed(v, fn) {
				v.Note("%s: return", p.InstrPos(in))
				obs.fail(key, p.InstrPos(in), "the function can fail after a step of the replace protocol (Sync, Close, rename) and before the cleanup is deferred", v.Path(), facts...)
				breach = true
			}
			return st, true
		}
		return st, false
	}
	fs.RunFromEntry(initial)
	if fs.Overflow {
		obs.undecided(key, pos, "path exploration exceeded its bound")
		return
	}
	if !breach {
		obs.ok(key, pos, "a deferred function removes the temporary unless the rename succeeded", facts...)
	}
}

// guardedOut: the rename is skipped on this path because its guard was false (SNAP-ATOMIC:
// a file that is not in a temporary directory is closed without a rename); then "success" may
// be set without the rename.
func guardedOut(v *flowVisit, rename *ssa.Call) bool {
	out := false
	v.Conds(func(fr *sframe, cond ssa.Value, truth bool) {
		if truth {
			return
		}
		// the false edge of the branch that controls the rename's block
		for _, r := range *condReferrers(cond) {
			iff, ok := r.(*ssa.If)
			if !ok {
				continue
			}
			if blockDominates(iff.Block().Succs[0], rename.Block()) && !blockDominates(iff.Block().Succs[1], rename.Block()) {
				out = true
			}
		}
	})
	return out
}

func condReferrers(v ssa.Value) *[]ssa.Instruction {
	if r := v.Referrers(); r != nil {
		return r
	}
	return &[]ssa.Instruction{}
}

func blockDominates(a, b *ssa.BasicBlock) bool {
	return a == b || a.Dominates(b)
}

// createFailed: the creation of the temporary failed on this path (so there is nothing to remove).
func createFailed(v *flowVisit, fn *ssa.Function) bool {
	for _, b := range fn.Blocks {
		for _, in := range b.Instrs {
			if c := callNamed(in, "os.CreateTemp", "os.MkdirTemp"); c != nil && v.ErrNon(v.Fr, c) {
				return true
			}
		}
	}
	return false
}

func singleStoreOr(al *ssa.Alloc) ssa.Value {
	if v := singleStore(al); v != nil {
		return v
	}
	return al
}

// ---------------------------------------------------------------------------------------------
// rules

func ruleTmpRename() *Rule {
	return &Rule{
		ID: "TMP-RENAME",
		Text: "(*persistentLog).Compact and DiscardEntries, through (*persistentLog).rename: the temporary file is created by os.CreateTemp in logDir with a \"tmp\" prefix; " +
			"every write to it precedes its Sync; Sync then Close of the temporary and Sync then Close of the old log file, each with a nil result, precede os.Rename(tmp.Name(), log file) on every path; " +
			"the log file is reopened afterwards; persistentLog.entries is replaced, and nil returned, only after the rename (and rename()) succeeded; a deferred function removes the temporary unless the rename succeeded.",
		Floor: 12,
		Run: func(p *Program) []Obligation {
			obs := newObSet("TMP-RENAME")
			dir, old, pub := p.Field("persistentLog.logDir"), p.Field("persistentLog.file"), p.Field("persistentLog.entries")
			if dir == nil || old == nil || pub == nil {
				return missing("TMP-RENAME", "persistentLog.logDir / file / entries")
			}
			for _, root := range []string{"(*persistentLog).Compact", "(*persistentLog).DiscardEntries"} {
				checkAtomicReplace(p, obs, atomicSpec{rule: "TMP-RENAME", root: root, dirField: dir, oldField: old, pubField: pub, targetBase: "log.bin", what: "log"})
			}
			return obs.list()
		},
	}
}

func ruleStateAtomic() *Rule {
	return &Rule{
		ID: "STATE-ATOMIC",
		Text: "(*persistentStateStorage).SetState: os.CreateTemp in stateDir with a \"tmp\" prefix; the state is written to the temporary; (*os.File).Sync and then (*os.File).Close of it, " +
			"each with a nil result, precede os.Rename(tmp.Name(), stateDir/state.bin) on every path; nil is returned only after the rename succeeded; a deferred function removes the temporary unless the rename succeeded.",
		Floor: 5,
		Run: func(p *Program) []Obligation {
			obs := newObSet("STATE-ATOMIC")
			dir := p.Field("persistentStateStorage.stateDir")
			if dir == nil {
				return missing("STATE-ATOMIC", "persistentStateStorage.stateDir")
			}
			base := "state.bin"
			if c, ok := p.RaftPkg.Types.Scope().Lookup("stateBase").(*types.Const); ok {
				if s, err := strconv.Unquote(c.Val().ExactString()); err == nil {
					base = s
				}
			}
			checkAtomicReplace(p, obs, atomicSpec{rule: "STATE-ATOMIC", root: "(*persistentStateStorage).SetState", dirField: dir, targetBase: base, what: "state"})
			encodedFromParams(p, obs, "(*persistentStateStorage).SetState", "encodePersistentState", map[string]string{"term": "term", "votedFor": "votedFor"})
			stateCacheCoherent(p, obs)
			return obs.list()
		},
	}
}

// stateCacheCoherent: State() answers from persistentStateStorage.state whenever that field is set and reads the file
// only when it is not. What SetState wrote is therefore what State() returns only if every successful SetState leaves
// the field describing its own arguments (or clears it). restore() reads State() on every Start/Restart of the same
// node object: a stale cache takes the node's term and vote back to what the storage object loaded first.
func stateCacheCoherent(p *Program, obs *obSet) {
	const setName, getName = "(*persistentStateStorage).SetState", "(*persistentStateStorage).State"
	key := "a successful " + setName + " leaves the cached state equal to what it wrote"
	set, get := p.Func(setName), p.Func(getName)
	fld := p.Field("persistentStateStorage.state")
	if set == nil || get == nil {
		obs.lost(setName + " / " + getName)
		return
	}
	if fld == nil {
		obs.ok(key, p.Pos(set.Pos()), "the storage keeps no cached state")
		return
	}
	reads := false
	for _, b := range get.Blocks {
		for _, in := range b.Instrs {
			if u, ok := in.(*ssa.UnOp); ok && u.Op == token.MUL {
				if fa, ok := u.X.(*ssa.FieldAddr); ok && fieldOf(fa.X.Type(), fa.Field) == fld {
					reads = true
				}
			}
		}
	}
	if !reads {
		obs.ok(key, p.Pos(set.Pos()), "State() does not answer from the cached field")
		return
	}
	params := map[ssa.Value]string{}
	for _, par := range set.Params {
		params[par] = par.Name()
	}
	// stores to the cache in SetState and what they store
	type cst struct {
		st   *ssa.Store
		good bool
		why  string
	}
	var stores []cst
	for _, b := range set.Blocks {
		for _, in := range b.Instrs {
			st, f := storeField(in)
			if st == nil || f != fld {
				continue
			}
			c := cst{st: st}
			switch v := st.Val.(type) {
			case *ssa.Const:
				c.good = v.Value == nil // cleared: State() reads the file again
				c.why = "cleared"
			case *ssa.Alloc:
				got := map[string]string{}
				if refs := v.Referrers(); refs != nil {
					for _, r := range *refs {
						fa, ok := r.(*ssa.FieldAddr)
						if !ok || fa.Referrers() == nil {
							continue
						}
						name := fieldOf(fa.X.Type(), fa.Field).Name()
						for _, rr := range *fa.Referrers() {
							if fs, ok := rr.(*ssa.Store); ok && fs.Addr == ssa.Value(fa) {
								if n, ok := params[fs.Val]; ok && got[name] == "" {
									got[name] = n
								} else {
									got[name] = "?"
								}
							}
						}
					}
				}
				c.good = got["term"] == "term" && got["votedFor"] == "votedFor"
				c.why = fmt.Sprintf("term from %q, votedFor from %q", got["term"], got["votedFor"])
			default:
				c.why = "value " + st.Val.String() + " not recognised"
			}
			stores = append(stores, c)
		}
	}
	n := 0
	for _, b := range set.Blocks {
		ret, ok := b.Instrs[len(b.Instrs)-1].(*ssa.Return)
		if !ok {
			continue
		}
		if succ, known := successReturn(ret); !known || !succ {
			continue
		}
		n++
		var last *cst
		for i := range stores {
			if instrBlockDominates(stores[i].st, ret) && (last == nil || instrBlockDominates(last.st, stores[i].st)) {
				last = &stores[i]
			}
		}
		switch {
		case last == nil:
			obs.fail(key, p.InstrPos(ret), "SetState returns nil without having assigned the cached state, and State() answers from the cache once it is set: after the first State() of this storage object every later SetState reaches the disk only, "+
				"so a Stop/Restart of the same node (restore() reads State()) takes term and vote back to the values loaded first — the term decreases and a second vote can be cast in a term already voted in", nil)
			return
		case !last.good:
			obs.fail(key, p.InstrPos(last.st), "the cached state assigned before the successful return is not built from this call's term and votedFor ("+last.why+")", nil)
			return
		}
	}
	if n == 0 {
		obs.undecided(key, p.Pos(set.Pos()), "no successful return found")
		return
	}
	obs.ok(key, p.Pos(set.Pos()), "every successful return is dominated by a store of the arguments (or nil) into the cached state that State() answers from")
}

// targetNeverUnlinked: the whole point of write-temporary-then-rename is that the final name always names a complete
// file: the old one until the rename, the new one from it on. Removing (or truncating, or re-creating) the final name
// first opens a window in which a crash leaves NO file under it — and the constructors then delete the only copy, the
// temporary, as a leftover. In the function and the in-scope functions it calls, the only path handed to
// os.Remove/os.RemoveAll/os.Truncate/os.Create/os.WriteFile is the temporary's own Name().
func targetNeverUnlinked(p *Program, obs *obSet, sp atomicSpec, root *ssa.Function) {
	key := "the final name is never removed, truncated or re-created before the rename in " + sp.root
	var bad []string
	seen := map[*ssa.Function]bool{}
	n := 0
	var walk func(fn *ssa.Function, d int)
	walk = func(fn *ssa.Function, d int) {
		if fn == nil || seen[fn] || d > 3 || !p.InScope[fn] {
			return
		}
		seen[fn] = true
		for _, a := range fn.AnonFuncs {
			walk(a, d+1)
		}
		for _, b := range fn.Blocks {
			for _, in := range b.Instrs {
				ci, ok := in.(ssa.CallInstruction)
				if !ok {
					continue
				}
				cc := ci.Common()
				if g := cc.StaticCallee(); g != nil && p.InScope[g] {
					walk(g, d+1)
				}
				if mc, ok := cc.Value.(*ssa.MakeClosure); ok {
					walk(mc.Fn.(*ssa.Function), d+1)
				}
				name := calleeName(cc)
				switch name {
				case "os.Remove", "os.RemoveAll", "os.Truncate", "os.Create", "os.WriteFile":
				default:
					continue
				}
				n++
				arg := resolve(nil, cc.Args[0])
				okTmp := false
				if nc, ok := arg.(*ssa.Call); ok && calleeName(nc.Common()) == "(*os.File).Name" {
					recv := resolve(nil, nc.Common().Args[0])
					switch r := recv.(type) {
					case *ssa.Parameter, *ssa.FreeVar:
						okTmp = true // the temporary handed to a helper / captured by the cleanup closure
					case *ssa.Extract:
						if tc, ok := r.Tuple.(*ssa.Call); ok && (calleeName(tc.Common()) == "os.CreateTemp" || calleeName(tc.Common()) == "os.MkdirTemp") {
							okTmp = true
						}
					case *ssa.UnOp:
						// a captured / spilled local holding the CreateTemp result
						if _, isField := r.X.(*ssa.FieldAddr); !isField {
							okTmp = true
						}
					}
				}
				if !okTmp {
					bad = append(bad, name+"("+describe(nil, cc.Args[0])+") at "+p.InstrPos(in))
				}
			}
		}
	}
	walk(root, 0)
	if len(bad) > 0 {
		obs.fail(key, p.Pos(root.Pos()), "a path other than the temporary's own name is removed, truncated or re-created: "+strings.Join(bad, "; ")+
			" — if that is the final name, a crash between this call and the rename leaves no "+sp.what+" file at all, and the next start deletes the temporary (the only complete copy) as a leftover", nil)
		return
	}
	obs.ok(key, p.Pos(root.Pos()), fmt.Sprintf("%d removal/creation call(s), each on the temporary's own Name()", n))
}
