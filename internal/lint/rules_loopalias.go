package lint

import (
	"fmt"

	"golang.org/x/tools/go/ssa"
)

// ruleLoopAlias: C09 LOOP-ALIAS.
//
// restore() walks the log and leaves r.configuration pointing at the last configuration entry and
// r.committedConfiguration at the one before it. That only works if every iteration has its own Configuration object:
// with one variable declared outside the loop, the pointer stored by an earlier iteration sees whatever the last
// iteration decoded, and the node treats the last (possibly uncommitted) configuration as committed. The rule is the
// general shape: no function stores the address of a variable into a struct field inside a loop while the variable
// itself lives outside that loop and is overwritten by the loop.
func ruleLoopAlias() *Rule {
	const id = "LOOP-ALIAS"
	return &Rule{
		ID: id,
		Text: "No function stores &v into a field (of the node, of a record it keeps) inside a loop when v is declared outside that loop and assigned inside it: " +
			"every pointer stored by an earlier iteration would see the value of the last one (in restore(): the committed configuration would be the last configuration in the log).",
		Floor: 3,
		Run: func(p *Program) []Obligation {
			var out []Obligation
			candidates := 0
			for _, fn := range p.SortedFuncs() {
				for _, b := range fn.Blocks {
					for _, in := range b.Instrs {
						al, ok := in.(*ssa.Alloc)
						if !ok || !al.Heap || al.Referrers() == nil {
							continue
						}
						var escapes, writes []*ssa.Store
						for _, r := range *al.Referrers() {
							st, ok := r.(*ssa.Store)
							if !ok {
								continue
							}
							if st.Val == ssa.Value(al) {
								if _, toField := st.Addr.(*ssa.FieldAddr); toField {
									escapes = append(escapes, st)
								}
							}
							if st.Addr == ssa.Value(al) {
								writes = append(writes, st)
							}
						}
						if len(escapes) == 0 {
							continue
						}
						candidates++
						ob := Obligation{Rule: id, Construct: fmt.Sprintf("variable %s of %s whose address is kept in a field", allocName(al), FuncName(fn)), Pos: p.InstrPos(al), Verdict: Discharged,
							Detail: "the variable is created anew wherever its address is stored (not shared between iterations of a loop)"}
						for _, e := range escapes {
							eb := e.Block()
							if !blockReaches(eb, eb) {
								continue // not in a loop
							}
							if blockReaches(eb, al.Block()) && blockReaches(al.Block(), eb) {
								continue // the variable is created inside the same loop: one object per iteration
							}
							for _, w := range writes {
								wb := w.Block()
								if (wb == eb || (blockReaches(wb, eb) && blockReaches(eb, wb))) && !(blockReaches(wb, al.Block()) && blockReaches(al.Block(), wb)) {
									ob.Verdict = Violated
									ob.Pos = p.InstrPos(e)
									ob.Detail = fmt.Sprintf("&%s is stored into %s inside a loop, the variable is declared outside the loop (%s) and assigned inside it (%s): the pointers stored by earlier iterations all see the value of the last iteration",
										allocName(al), p.Canon(NewRootFrame(fn), e.Addr).S, p.InstrPos(al), p.InstrPos(w))
								}
							}
						}
						out = append(out, ob)
					}
				}
			}
			if candidates == 0 {
				out = append(out, Obligation{Rule: id, Construct: "variables whose address is kept in a field", Verdict: AnchorLost, Detail: "none found"})
			}
			return out
		},
	}
}

func allocName(al *ssa.Alloc) string {
	if al.Comment != "" {
		return al.Comment
	}
	return al.Name()
}
