package lint

// Shared helpers of the storage rules (rules_storage.go): obligation bookkeeping, file-event
// classification, small provenance matchers.

import (
	"fmt"
	"go/constant"
	"go/token"
	"go/types"
	"sort"
	"strings"

	"golang.org/x/tools/go/ssa"
)

// obSet accumulates the obligations of one rule. A construct that was reported as violated
// stays violated; undecided beats discharged.
type obSet struct {
	rule  string
	m     map[string]*Obligation
	count map[string]int
}

func newObSet(rule string) *obSet {
	return &obSet{rule: rule, m: map[string]*Obligation{}, count: map[string]int{}}
}

func rank(v string) int {
	switch v {
	case Violated:
		return 3
	case Undecided:
		return 2
	case Discharged:
		return 1
	}
	return 0
}

func (o *obSet) put(construct, pos, verdict, detail string, path []string, facts []string) {
	cur, ok := o.m[construct]
	if ok && rank(cur.Verdict) >= rank(verdict) {
		if verdict == Discharged && cur.Verdict == Discharged {
			o.count[construct]++
			for _, f := range facts {
				cur.Facts = appendUnique(cur.Facts, f)
			}
		}
		return
	}
	if verdict == Discharged {
		o.count[construct]++
	}
	ob := &Obligation{Rule: o.rule, Construct: construct, Pos: pos, Verdict: verdict, Detail: detail, Path: path, Facts: facts}
	if ok {
		// keep earlier evidence as facts
		for _, f := range cur.Facts {
			ob.Facts = appendUnique(ob.Facts, f)
		}
	}
	o.m[construct] = ob
}

func appendUnique(xs []string, x string) []string {
	for _, y := range xs {
		if y == x {
			return xs
		}
	}
	return append(xs, x)
}

func (o *obSet) ok(construct, pos, detail string, facts ...string) {
	o.put(construct, pos, Discharged, detail, nil, facts)
}

func (o *obSet) fail(construct, pos, detail string, path []string, facts ...string) {
	// the witness path goes into Facts (shown by -v, kept in the evidence samples and in the
	// replay file) rather than into Path, which only the replay file prints
	for _, s := range path {
		facts = append(facts, "path: "+s)
	}
	o.put(construct, pos, Violated, detail, nil, facts)
}

// failErr reports a breach that rests on "the error of one of these calls is not known to be
// nil here". When the analysis lost track of such an error (it is merged with other values
// before it is tested) the verdict is Undecided, not Violated.
func (o *obSet) failErr(construct, pos, detail string, path []string, calls []*ssa.Call, facts ...string) {
	for _, c := range calls {
		if errMerged(c) {
			o.undecided(construct, pos, "cannot follow the error of "+calleeName(c.Common())+": it is merged with other values before it is tested (otherwise: "+detail+")")
			return
		}
	}
	o.fail(construct, pos, detail, path, facts...)
}

func (o *obSet) undecided(construct, pos, detail string, facts ...string) {
	o.put(construct, pos, Undecided, detail, nil, facts)
}

func (o *obSet) lost(what string) {
	o.m[what] = &Obligation{Rule: o.rule, Construct: what, Verdict: AnchorLost, Detail: "anchor not found in the current source: " + what}
}

func (o *obSet) has(construct string) bool { _, ok := o.m[construct]; return ok }

func (o *obSet) list() []Obligation {
	keys := make([]string, 0, len(o.m))
	for k := range o.m {
		keys = append(keys, k)
	}
	sort.Strings(keys)
	out := make([]Obligation, 0, len(keys))
	for _, k := range keys {
		ob := *o.m[k]
		if ob.Verdict == Discharged && o.count[k] > 1 {
			ob.Detail += fmt.Sprintf(" (%d path states)", o.count[k])
		}
		out = append(out, ob)
	}
	return out
}

// siteKey names a call site without positions: callee + ordinal among the calls to the same
// callee in the function + function, prefixed by the inlining context when there is one.
func siteKey(fr *sframe, in ssa.Instruction) string {
	name := "instruction"
	if ci, ok := in.(ssa.CallInstruction); ok {
		name = calleeName(ci.Common())
		if name == "" {
			name = "dynamic call"
		}
		n := instrOrdinal(in, func(x ssa.Instruction) bool {
			cx, ok := x.(ssa.CallInstruction)
			return ok && calleeName(cx.Common()) == name
		})
		name += ordSuffix(n)
	} else if _, f := storeField(in); f != nil {
		fld := f
		n := instrOrdinal(in, func(x ssa.Instruction) bool { _, g := storeField(x); return g == fld })
		name = "store " + f.Name() + ordSuffix(n)
	}
	return name + " in " + frameChain(fr, in.Parent())
}

// frameChain renders "A > B" for an instruction of function fn reached through frame fr.
func frameChain(fr *sframe, fn *ssa.Function) string {
	if fr == nil {
		return FuncName(fn)
	}
	var parts []string
	for q := fr; q != nil; q = q.parent {
		s := FuncName(q.fn)
		if q.site != nil {
			callee := q.fn
			n := instrOrdinal(q.site.(ssa.Instruction), func(x ssa.Instruction) bool { return staticCallee(x) == callee })
			s += ordSuffix(n)
		}
		parts = append(parts, s)
	}
	for i, j := 0, len(parts)-1; i < j; i, j = i+1, j-1 {
		parts[i], parts[j] = parts[j], parts[i]
	}
	return strings.Join(parts, " > ")
}

// ---------------------------------------------------------------------------------------------
// file events

// fileEvent classifies a call with respect to an *os.File operand:
//
//	"sync", "close", "truncate", "seek", "name"  — the methods of *os.File;
//	"write" — a write method of *os.File, or the file handed to any callee as an interface
//	          with a Write method (summary: the callee writes to its writer argument).
//
// The file operand is returned unresolved, to be classified by the rule.
func fileEvent(in ssa.Instruction) (kind string, file ssa.Value, call *ssa.Call) {
	c, ok := in.(*ssa.Call)
	if !ok {
		return "", nil, nil
	}
	cc := c.Common()
	switch calleeName(cc) {
	case "(*os.File).Sync":
		return "sync", cc.Args[0], c
	case "(*os.File).Close":
		return "close", cc.Args[0], c
	case "(*os.File).Truncate":
		return "truncate", cc.Args[0], c
	case "(*os.File).Seek":
		return "seek", cc.Args[0], c
	case "(*os.File).Name":
		return "name", cc.Args[0], c
	case "(*os.File).Write", "(*os.File).WriteString", "(*os.File).WriteAt", "(*os.File).ReadFrom":
		return "write", cc.Args[0], c
	}
	for _, a := range allArgs(cc) {
		mi, ok := a.(*ssa.MakeInterface)
		if !ok || !isOSFile(mi.X.Type()) {
			continue
		}
		if it, ok := mi.Type().Underlying().(*types.Interface); ok && hasMethod(it, "Write") {
			return "write", mi.X, c
		}
	}
	return "", nil, nil
}

func isOSFile(t types.Type) bool {
	pt, ok := t.(*types.Pointer)
	if !ok {
		return false
	}
	n, ok := pt.Elem().(*types.Named)
	return ok && n.Obj().Pkg() != nil && n.Obj().Pkg().Path() == "os" && n.Obj().Name() == "File"
}

func hasMethod(it *types.Interface, name string) bool {
	for i := 0; i < it.NumMethods(); i++ {
		if it.Method(i).Name() == name {
			return true
		}
	}
	return false
}

// passesFileAsWriter reports whether the call hands an *os.File to its callee as a writer; such
// callees are summarised ("writes to the argument"), not inlined.
func passesFileAsWriter(c *ssa.Call) bool {
	k, _, _ := fileEvent(c)
	return k == "write"
}

// constIntOf returns the integer constant v denotes.
func constIntOf(v ssa.Value) (int64, bool) {
	c, ok := v.(*ssa.Const)
	if !ok || c.Value == nil || c.Value.Kind() != constant.Int {
		return 0, false
	}
	return constant.Int64Val(c.Value)
}

// stripConvert removes numeric conversions.
func stripConvert(v ssa.Value) ssa.Value {
	for {
		c, ok := v.(*ssa.Convert)
		if !ok {
			return v
		}
		v = c.X
	}
}

// joinElems returns the resolved elements of a filepath.Join call value, or nil.
func joinElems(fr *sframe, v ssa.Value) ([]ssa.Value, *sframe) {
	c, cf := callOf(fr, v, -1)
	if c == nil || calleeName(c.Common()) != "path/filepath.Join" || len(c.Common().Args) != 1 {
		return nil, nil
	}
	es := varargElems(c.Common().Args[0])
	if es == nil {
		return nil, nil
	}
	return es, cf
}

// successReturn reports whether ret (of a function whose last result is an error) returns a nil
// error. ok is false when the function has no error result or the value cannot be classified.
func successReturn(ret *ssa.Return) (success bool, ok bool) {
	fn := ret.Parent()
	res := fn.Signature.Results()
	if res.Len() == 0 || !isErrorType(res.At(res.Len()-1).Type()) {
		return false, false
	}
	rv := returnedValue(ret, res.Len()-1)
	if rv == nil {
		return false, false
	}
	if isNilConst(rv) {
		return true, true
	}
	if c, isCall := rv.(*ssa.Call); isCall && isErrorCtor(c.Common()) {
		return false, true
	}
	return false, false
}

// isLoadOf reports whether v is `*addr`.
func storageIsLoadOf(v ssa.Value, addr ssa.Value) bool {
	u, ok := v.(*ssa.UnOp)
	return ok && u.Op == token.MUL && u.X == addr
}

// funcsIn returns the in-scope functions (including anonymous ones) declared in files whose
// path relative to the repository satisfies match.
func (p *Program) funcsIn(match func(rel string) bool) []*ssa.Function {
	var out []*ssa.Function
	for _, fn := range p.SortedFuncs() {
		pos := fn.Pos()
		if !pos.IsValid() {
			if s := fn.Syntax(); s != nil {
				pos = s.Pos()
			}
		}
		if !pos.IsValid() {
			continue
		}
		rel := strings.TrimPrefix(p.Fset.Position(pos).Filename, p.RepoDir+"/")
		if match(rel) {
			out = append(out, fn)
		}
	}
	return out
}
