package lint

import (
	"golang.org/x/tools/go/ssa"
)

// ruleStartAtomic: START-ATOMIC (C18).
//
// start() either starts the node or leaves it stopped: once it has taken the node out of Shutdown (and spawned the
// loops), it cannot report failure any more — a caller told "could not start" would hold a node that runs (without a
// listener, if it was the transport that failed), and a second Start() does nothing because state != Shutdown.
//
// D56: transport.Run() was called, and its error returned, after state := Follower and the seven go statements.
func ruleStartAtomic() *Rule {
	const id = "START-ATOMIC"
	return &Rule{
		ID:    id,
		Text:  "In (*Raft).start no return of a non-nil error is reachable from the store that takes Raft.state out of Shutdown, nor from a go statement.",
		Floor: 1,
		Run: func(p *Program) []Obligation {
			const fname = "(*Raft).start"
			fn := p.Func(fname)
			stateFld := p.Field("Raft.state")
			if fn == nil || stateFld == nil {
				return missing(id, fname+" / Raft.state")
			}
			sd, _ := p.ConstVal("Shutdown")
			var points []ssa.Instruction
			for _, b := range fn.Blocks {
				for _, in := range b.Instrs {
					if s, f := storeField(in); s != nil && f == stateFld {
						if k, ok := s.Val.(*ssa.Const); ok {
							if v, ok := constInt(k); ok && v != sd {
								points = append(points, in)
							}
						}
					}
					if _, ok := in.(*ssa.Go); ok {
						points = append(points, in)
					}
				}
			}
			if len(points) == 0 {
				return missing(id, "a store that takes Raft.state out of Shutdown in "+fname)
			}
			ob := Obligation{Rule: id, Construct: "start() reports no failure after the node has left Shutdown", Pos: p.InstrPos(points[0])}
			bad := ""
			for _, b := range fn.Blocks {
				for _, in := range b.Instrs {
					ret, ok := in.(*ssa.Return)
					if !ok || returnedError(ret) == "nil" {
						continue
					}
					for _, pt := range points {
						if instrReaches(pt, ret) {
							bad = p.InstrPos(ret) + " (after " + p.InstrPos(pt) + ")"
						}
					}
				}
			}
			if bad == "" {
				ob.Verdict, ob.Detail = Discharged, "every return of an error precedes the store that takes the node out of Shutdown and every go statement"
			} else {
				ob.Verdict = Violated
				ob.Detail = "start() can return an error at " + bad + ": the caller is told the node could not be started while it runs (its loops spawned, state no longer Shutdown), " +
					"and a second Start() returns nil without doing anything — if it was the transport that failed, the node never listens"
			}
			return []Obligation{ob}
		},
	}
}
