package lint

import (
	"go/types"
	"sort"
	"strings"

	"golang.org/x/tools/go/ssa"
)

// rulePrevoteToken: C16 PREVOTE-TOKEN.
//
// The term is raised by a campaign only on the strength of a prevote that was won FOR THIS ATTEMPT. The Candidate
// role alone is not that evidence: a candidate whose election timed out (cut off after it had won its prevote) is
// still a Candidate at the next election timeout, and if that is enough to increment the term again it climbs without
// bound while isolated and deposes the healthy leader with its first reply after rejoining. Structure demanded:
//
//	TOKEN   there is a boolean field of Raft that is set to true in sendRequestVote, and only there, only in a
//	        prevote round that has reached a quorum;
//	SPEND   every increment of currentTerm reachable from the election loop happens with the token set (or in the
//	        single-voter cluster, which has nobody to ask), and the token is cleared before that critical section ends.
func rulePrevoteToken() *Rule {
	const id = "PREVOTE-TOKEN"
	return &Rule{
		ID: id,
		Text: "A campaign increments currentTerm only with a prevote-won token that is set (to true) only by a prevote round reaching a quorum in sendRequestVote and is cleared in the critical section that spends it " +
			"(or in the single-voter cluster): a candidate whose election timed out must win a prevote again before it raises its term again.",
		Floor: 1,
		Run: func(p *Program) []Obligation {
			loop := p.Func("(*Raft).electionLoop")
			reply := p.Func("(*Raft).sendRequestVote")
			curTerm := p.Field("Raft.currentTerm")
			if loop == nil || reply == nil || curTerm == nil {
				return missing(id, "(*Raft).electionLoop / (*Raft).sendRequestVote / Raft.currentTerm")
			}
			raft := p.NamedType("Raft")
			isRaftBool := func(fld *types.Var) bool {
				if fld == nil || raft == nil {
					return false
				}
				st, ok := raft.Underlying().(*types.Struct)
				if !ok {
					return false
				}
				for i := 0; i < st.NumFields(); i++ {
					if st.Field(i) == fld {
						b, ok := fld.Type().Underlying().(*types.Basic)
						return ok && b.Kind() == types.Bool
					}
				}
				return false
			}
			// ---- discovery of the token: bool fields of Raft set to true from the reply handler
			cands := map[*types.Var]bool{}
			p.discover(reply, func(a *Analysis, f *Frame, in ssa.Instruction) {
				if s, fld := storeField(in); s != nil && isRaftBool(fld) {
					if b, ok := constBool(s.Val); ok && b {
						cands[fld] = true
					}
				}
			})
			incPos := ""
			p.discover(loop, func(a *Analysis, f *Frame, in ssa.Instruction) {
				if s, fld := storeField(in); s != nil && fld == curTerm && incrementOf(p, f, s.Val, "r.currentTerm") == 1 {
					incPos = p.InstrPos(in)
				}
			})
			// ---- without any token: the design may be one in which a node that is Candidate when the election loop
			// wakes never raises its term there (it asks for prevotes again, and the real election is started where the
			// prevote is won). Decide that first: it needs no token.
			{
				stateAtom := p.StateAtom()
				sp := NewSpace(stateAtom, BoolAtom("singleVoterCluster", "r.isSingleServerCluster()"), GhostAtom("candidateAtWakeUp", "no", "yes", "unknown"))
				C := enumIdx(stateAtom, "Candidate")
				a := NewAnalysis(p, sp)
				a.Hook = func(a *Analysis, f *Frame, in ssa.Instruction, st State) State {
					if s, fld := storeField(in); s != nil && fld == curTerm && incrementOf(p, f, s.Val, "r.currentTerm") == 1 {
						a.Observe("inc "+chainKey(f), f, in, st)
					}
					return st
				}
				a.Post = func(a *Analysis, f *Frame, in ssa.Instruction, st State) State {
					if f.Parent == nil {
						if op, _ := isMutexOp(callCommonOf(in)); op == "Cond.Wait" || op == "Mutex.Lock" {
							// the role is whatever it is when the loop gets the mutex back
							st = a.KillShared(st)
							return sp.Map(st, 2, func(pt, _ int) uint32 {
								if sp.Val(pt, 0) == C {
									return 1 << 1
								}
								return 1 << 0
							})
						}
					}
					return st
				}
				a.RunFrame(NewRootFrame(loop), sp.Assign(sp.Top(), 2, 2))
				free := len(a.Obs) > 0
				for _, o := range a.SortedObs() {
					if !sp.Where(o.State, func(pt int) bool { return sp.Val(pt, 2) != 0 && sp.Val(pt, 1) != 1 }).IsEmpty() {
						free = false
					}
				}
				if free {
					return []Obligation{{Rule: id, Construct: "SPEND increments of currentTerm reachable from (*Raft).electionLoop", Pos: incPos, Verdict: Discharged,
						Detail: "a node that is Candidate when the election loop wakes never raises its term in that critical section (except as the single voter): a timed-out candidate cannot climb"}}
				}
			}
			if len(cands) == 0 {
				return []Obligation{{Rule: id, Construct: "TOKEN a prevote-won token exists (a boolean field of Raft set in (*Raft).sendRequestVote)", Pos: incPos, Verdict: Violated,
					Detail: "a node that is Candidate when the election loop wakes raises its term there, and nothing records that a prevote was won for the coming attempt: the Candidate role is all the loop can go by, and a candidate whose election timed out still has it, " +
						"so a candidate that is cut off increments its term on every election timeout without asking anybody and deposes the leader when it rejoins (prevote is bypassed)"}}
			}
			var names []*types.Var
			for f := range cands {
				names = append(names, f)
			}
			sort.Slice(names, func(i, j int) bool { return names[i].Name() < names[j].Name() })
			var out []Obligation
			var best []Obligation
			for _, tok := range names {
				tokTerm := "r." + tok.Name()
				var obs []Obligation
				// ---- TOKEN: where it is set
				for _, root := range p.Roots() {
					voc := p.discoverElection(reply)
					atoms := []*Atom{BoolAtom("prevoteRound", "p3")}
					qS := ""
					p.discover(reply, func(a *Analysis, f *Frame, in ssa.Instruction) {
						if c, ok := in.(*ssa.Call); ok && c.Common().StaticCallee() == p.Func("(*Raft).hasQuorum") && f.Parent == nil {
							qS = p.Canon(f, c).S
						}
					})
					_ = voc
					if qS != "" {
						atoms = append(atoms, BoolAtom("quorum", qS))
					}
					sp := NewSpace(atoms...)
					a := NewAnalysis(p, sp)
					a.Hook = func(a *Analysis, f *Frame, in ssa.Instruction, st State) State {
						if s, fld := storeField(in); s != nil && fld == tok {
							if b, ok := constBool(s.Val); ok && b {
								a.Observe("TOKEN store Raft."+tok.Name()+" := true in "+chainKey(f), f, in, st)
							}
						}
						return st
					}
					a.Run(root, nil)
					for _, o := range a.SortedObs() {
						if root != reply {
							obs = append(obs, Obligation{Rule: id, Construct: o.Key, Pos: o.Pos, Verdict: Violated,
								Detail: "the prevote-won token is set outside the reply handler of a vote request (entry point " + FuncName(root) + ")"})
							continue
						}
						obs = append(obs, evalObs(a, id, []*Observation{o}, func(_ *Observation, pt int) bool {
							return sp.Val(pt, 0) == 1 && (len(atoms) < 2 || sp.Val(pt, 1) == 1)
						}, nil, "the token is set only by a prevote round that has reached a quorum")...)
					}
				}
				// ---- SPEND: increments reachable from the election loop
				{
					sp := NewSpace(BoolAtom("token", tokTerm), BoolAtom("singleVoterCluster", "r.isSingleServerCluster()"), GhostAtom("raised", "no", "yes"), p.StateAtom())
					a := NewAnalysis(p, sp)
					a.Hook = func(a *Analysis, f *Frame, in ssa.Instruction, st State) State {
						if s, fld := storeField(in); s != nil && fld == curTerm && incrementOf(p, f, s.Val, "r.currentTerm") == 1 {
							a.Observe("SPEND increment of currentTerm in "+chainKey(f), f, in, st).Extra["kind"] = "inc"
						}
						// end of the critical section of the election loop: the next wait / unlock / return of the root
						if f.Parent == nil {
							end := false
							if op, _ := isMutexOp(callCommonOf(in)); op == "Mutex.Unlock" || op == "Cond.Wait" {
								if _, isDefer := in.(*ssa.Defer); !isDefer {
									end = true
								}
							}
							if _, ok := in.(*ssa.Return); ok {
								end = true
							}
							if end {
								if r := sp.Filter(st, 2, 1<<1); !r.IsEmpty() {
									a.Observe("SPEND token cleared when the critical section that raised the term ends in "+chainKey(f), f, in, r).Extra["kind"] = "end"
								}
							}
						}
						return st
					}
					a.Post = func(a *Analysis, f *Frame, in ssa.Instruction, st State) State {
						if s, fld := storeField(in); s != nil && fld == curTerm && incrementOf(p, f, s.Val, "r.currentTerm") == 1 {
							// (the single voter has nobody to ask and spends no token)
							return sp.Map(st, 2, func(pt, old int) uint32 {
								if sp.Val(pt, 1) == 1 {
									return 1 << uint(old)
								}
								return 1 << 1
							})
						}
						if f.Parent == nil {
							if op, _ := isMutexOp(callCommonOf(in)); op == "Mutex.Unlock" || op == "Cond.Wait" {
								return sp.Assign(st, 2, 0)
							}
						}
						return st
					}
					a.RunFrame(NewRootFrame(loop), sp.Assign(sp.Top(), 2, 0))
					found := false
					for _, o := range a.SortedObs() {
						if o.Extra["kind"] == "inc" {
							found = true
							obs = append(obs, evalObs(a, id, []*Observation{o}, func(_ *Observation, pt int) bool {
								return sp.Val(pt, 0) == 1 || sp.Val(pt, 1) == 1
							}, []int{0, 1}, "the term is raised only with the prevote-won token (or as the single voter)")...)
						} else {
							obs = append(obs, evalObs(a, id, []*Observation{o}, func(_ *Observation, pt int) bool {
								return sp.Val(pt, 0) == 0
							}, []int{0}, "one prevote pays for one increment: the token is cleared before the section ends")...)
						}
					}
					if !found {
						obs = append(obs, Obligation{Rule: id, Construct: "SPEND increment of currentTerm reachable from (*Raft).electionLoop", Verdict: AnchorLost, Detail: "no increment of currentTerm found"})
					}
				}
				bad := 0
				for _, o := range obs {
					if o.Verdict != Discharged {
						bad++
					}
				}
				if best == nil || bad < countBad(best) {
					best = obs
				}
			}
			out = append(out, best...)
			// dedupe by construct
			seen := map[string]bool{}
			var res []Obligation
			for _, o := range out {
				k := o.Construct + "|" + string(o.Verdict)
				if seen[k] {
					continue
				}
				seen[k] = true
				res = append(res, o)
			}
			_ = strings.TrimSpace
			return res
		},
	}
}

func countBad(obs []Obligation) int {
	n := 0
	for _, o := range obs {
		if o.Verdict != Discharged {
			n++
		}
	}
	return n
}
