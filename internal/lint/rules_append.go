package lint

import (
	"fmt"
	"strings"

	"golang.org/x/tools/go/ssa"
)

// returnedError classifies the error result of a Return: "nil", "non-nil" or "unknown".
// It understands the defer-spilled form (*res = X; rundefers; t = *res; return t).
func returnedError(ret *ssa.Return) string {
	if len(ret.Results) == 0 {
		return "nil"
	}
	v := ret.Results[len(ret.Results)-1]
	if c, ok := v.(*ssa.Const); ok {
		if c.Value == nil {
			return "nil"
		}
		return "unknown"
	}
	if u, ok := v.(*ssa.UnOp); ok {
		if al, ok := u.X.(*ssa.Alloc); ok {
			// last store to the alloc in this block before the return
			var last *ssa.Store
			for _, in := range ret.Block().Instrs {
				if s, ok := in.(*ssa.Store); ok && s.Addr == al {
					last = s
				}
			}
			if last != nil {
				if c, ok := last.Val.(*ssa.Const); ok && c.Value == nil {
					return "nil"
				}
				return "non-nil"
			}
		}
	}
	if _, ok := v.(*ssa.Call); ok {
		return "non-nil"
	}
	return "unknown"
}

// ruleAppendEntries: C06 AE-TERM, AE-PREV, AE-TRUNC, AE-APPEND and C15 BACKOFF (handler side).
func ruleAppendEntries() *Rule {
	const id = "AE-HANDLER"
	return &Rule{
		ID: id,
		Text: "In the AppendEntries handler: (AE-TERM) no write to node state, no log mutation and no Success with request.Term < currentTerm, and Success only with request.Term = currentTerm; " +
			"(AE-PREV) Success := true only if (lastIncludedIndex = prev ∧ lastIncludedTerm = prevTerm) ∨ (lastIncludedIndex < prev < NextIndex ∧ term(log[prev]) = prevTerm); " +
			"(AE-TRUNC) Log.Truncate only after Success, only at e.Index of a request entry e for which log[e.Index] conflicts with e (same index, different term); IsConflict means exactly that; " +
			"(AE-APPEND) the slice appended is nil or a suffix request.Entries[i:]; every path that accepts the request calls Log.AppendEntries before returning (ACK-AFTER-APPEND, follower); " +
			"(BACKOFF) every rejecting return past the term check sets response.Index.",
		Floor: 8,
		Run: func(p *Program) []Obligation {
			root := p.Func("(*Raft).AppendEntries")
			if root == nil {
				return missing(id, "(*Raft).AppendEntries")
			}
			successFld := p.Field("AppendEntriesResponse.Success")
			indexFld := p.Field("AppendEntriesResponse.Index")
			isConflict := p.Func("(*LogEntry).IsConflict")
			// discovery: conflict predicate calls
			var conflictS []string
			beyondEntry := "" // E in "r.log.LastIndex() < E.Index"
			var appendPhi *ssa.Phi
			p.discover(root, func(a *Analysis, f *Frame, in ssa.Instruction) {
				if x, y, ok := p.condPair(f, in); ok && f.Parent == nil {
					for _, pr := range [][2]string{{x, y}, {y, x}} {
						if pr[0] == "r.log.LastIndex()" && strings.HasPrefix(pr[1], "p0.Entries[") && strings.HasSuffix(pr[1], ".Index") {
							beyondEntry = pr[1]
						}
					}
				}
				if iface, m, c := invokeOf(in); iface == "Log" && m == "AppendEntries" && f.Parent == nil {
					appendPhi, _ = stripConv(c.Args[0]).(*ssa.Phi)
				}
				if c, ok := in.(*ssa.Call); ok && isConflict != nil && c.Common().StaticCallee() == isConflict {
					s := p.Canon(f, c).S
					for _, x := range conflictS {
						if x == s {
							return
						}
					}
					conflictS = append(conflictS, s)
				}
			})
			atoms := []*Atom{
				CmpAtom("reqTerm?curTerm", "p0.Term", "r.currentTerm"),
				CmpAtom("lastInclIdx?prev", "r.lastIncludedIndex", "p0.PrevLogIndex"),
				CmpAtom("nextIndex?prev", "r.log.NextIndex()", "p0.PrevLogIndex"),
				CmpAtom("lastInclTerm?prevTerm", "r.lastIncludedTerm", "p0.PrevLogTerm"),
				CmpAtom("term(log[prev])?prevTerm", "r.log.GetEntry(p0.PrevLogIndex)#0.Term", "p0.PrevLogTerm"),
				BoolAtom("success", "p1.Success"),
				GhostAtom("hintSet", "no", "yes"),
				GhostAtom("appended", "no", "yes"),
			}
			const (
				iT = iota
				iLI
				iNX
				iLT
				iPT
				iS
				iH
				iA
			)
			cBase := len(atoms)
			for k, c := range conflictS {
				if k >= 2 {
					break
				}
				atoms = append(atoms, BoolAtom(fmt.Sprintf("conflict%d", k+1), c))
			}
			iBeyond := -1
			if beyondEntry != "" {
				iBeyond = len(atoms)
				atoms = append(atoms, CmpAtom("lastIndex?entry.Index", "r.log.LastIndex()", beyondEntry))
			}
			iTrunc := len(atoms)
			atoms = append(atoms, GhostAtom("truncatedAt", "no", "entry.Index"))
			sp := NewSpace(atoms...)
			a := NewAnalysis(p, sp)
			// AE-APPEND (start of the suffix): on every edge that brings a suffix request.Entries[i:] to the append,
			// entry i lies beyond the end of the log, or the log was just truncated at its index
			var badSuffix []string
			a.EdgeHook = func(a *Analysis, f *Frame, from, to *ssa.BasicBlock, st State) {
				if appendPhi == nil || f.Parent != nil || to != appendPhi.Block() {
					return
				}
				for i, pb := range to.Preds {
					if pb != from {
						continue
					}
					if _, ok := stripConv(appendPhi.Edges[i]).(*ssa.Slice); !ok {
						continue
					}
					bad := sp.Where(st, func(pt int) bool {
						if sp.Val(pt, iTrunc) == 1 {
							return false
						}
						return iBeyond < 0 || sp.Val(pt, iBeyond) != LT
					})
					if !bad.IsEmpty() {
						badSuffix = append(badSuffix, "suffix chosen at "+p.InstrPos(from.Instrs[len(from.Instrs)-1])+" with {"+strings.Join(sp.Project(bad, iTrunc), " | ")+"} and the entry not known to lie beyond the log end")
					}
				}
			}
			a.Hook = func(a *Analysis, f *Frame, in ssa.Instruction, st State) State {
				if _, ok := in.(*ssa.Phi); ok && f.Parent == nil && in.Block() != nil && appendPhi != nil && in.Block() != appendPhi.Block() {
					// a new iteration of the entries loop: the truncation fact belongs to the previous entry
					st = sp.Assign(st, iTrunc, 0)
				}
				if s, name := raftFieldStore(in); s != nil {
					n := instrOrdinal(in, func(x ssa.Instruction) bool { _, nm := raftFieldStore(x); return nm == name })
					a.Observe("AE-TERM store Raft."+name+ordSuffix(n)+" in "+chainKey(f), f, in, st)
					return st
				}
				if s, fld := storeField(in); s != nil {
					switch fld {
					case successFld:
						if b, ok := constBool(s.Val); ok && b {
							a.Observe("AE-PREV store response.Success := true in "+chainKey(f), f, in, st)
						}
					case indexFld:
						return sp.Assign(st, iH, 1)
					}
					return st
				}
				if iface, m, c := invokeOf(in); iface == "Log" && ifaceMutators["Log"][m] {
					if _, isDefer := in.(*ssa.Defer); isDefer {
						return st
					}
					n := instrOrdinal(in, func(x ssa.Instruction) bool { i, mm, _ := invokeOf(x); return i == "Log" && mm == m })
					a.Observe("AE-TERM call Log."+m+ordSuffix(n)+" in "+chainKey(f), f, in, st)
					switch m {
					case "Truncate":
						o := a.Observe("AE-TRUNC call Log.Truncate"+ordSuffix(n)+" in "+chainKey(f), f, in, st)
						o.Extra["arg"] = p.Canon(f, c.Args[0]).S
						if beyondEntry == "" || o.Extra["arg"] == beyondEntry {
							return sp.Assign(st, iTrunc, 1)
						}
					case "AppendEntries":
						o := a.Observe("AE-APPEND call Log.AppendEntries"+ordSuffix(n)+" in "+chainKey(f), f, in, st)
						o.Extra["prov"] = suffixProvenance(p, f, c.Args[0])
						return sp.Assign(st, iA, 1)
					}
					return st
				}
				if ret, ok := exitPoint(in); ok && f.Parent == nil {
					kind := returnedError(ret)
					n := instrOrdinal(ret, func(x ssa.Instruction) bool { _, ok := x.(*ssa.Return); return ok })
					o := a.Observe(fmt.Sprintf("RETURN #%d of (*Raft).AppendEntries", n), f, in, st)
					o.Extra["err"] = kind
				}
				return st
			}
			entry := sp.Filter(sp.Filter(sp.Filter(sp.Top(), iH, 1), iA, 1), iTrunc, 1)
			a.RunFrame(NewRootFrame(root), entry)

			var out []Obligation
			nRet := 0
			var retBackoff, retAck []string
			retPos := ""
			for _, o := range a.SortedObs() {
				switch {
				case strings.HasPrefix(o.Key, "AE-TERM"):
					out = append(out, evalObs(a, id, []*Observation{o}, func(_ *Observation, pt int) bool { return sp.Val(pt, iT) != LT }, []int{iT},
						"no state change for a request with an out-of-date term")...)
				case strings.HasPrefix(o.Key, "AE-PREV"):
					out = append(out, evalObs(a, id, []*Observation{o}, func(_ *Observation, pt int) bool {
						if sp.Val(pt, iT) != EQ {
							return false
						}
						boundary := sp.Val(pt, iLI) == EQ && sp.Val(pt, iLT) == EQ
						inLog := sp.Val(pt, iLI) == LT && sp.Val(pt, iNX) == GT && sp.Val(pt, iPT) == EQ
						return boundary || inLog
					}, []int{iT, iLI, iNX, iLT, iPT}, "request accepted only if the previous entry matches (term equal, prev entry present with equal term)")...)
				case strings.HasPrefix(o.Key, "AE-TRUNC"):
					arg := o.Extra["arg"]
					// the conflict atom for this argument: r.log.GetEntry(<arg>)#0.IsConflict(<E>) with arg = <E>.Index
					ci := -1
					for k, c := range conflictS {
						if k >= 2 {
							break
						}
						e := strings.TrimSuffix(arg, ".Index")
						if strings.HasSuffix(arg, ".Index") && c == "r.log.GetEntry("+arg+")#0.IsConflict("+e+")" && strings.HasPrefix(e, "p0.Entries[") {
							ci = cBase + k
						}
					}
					if ci < 0 {
						out = append(out, Obligation{Rule: id, Construct: o.Key, Pos: o.Pos, Verdict: Violated,
							Detail: "Log.Truncate(" + arg + ") is not guarded by a conflict test between log[e.Index] and a request entry e: the log is truncated without a term conflict (a stale or shorter request can erase matching, possibly committed, entries)",
							Facts:  append([]string{"context: " + o.Chain}, conflictS...)})
						continue
					}
					out = append(out, evalObs(a, id, []*Observation{o}, func(_ *Observation, pt int) bool {
						return sp.Val(pt, ci) == 1 && sp.Val(pt, iS) == 1
					}, []int{iS, ci}, "truncate only at a conflicting request entry of an accepted request")...)
				case strings.HasPrefix(o.Key, "AE-APPEND"):
					ob := Obligation{Rule: id, Construct: o.Key, Pos: o.Pos, Facts: []string{"context: " + o.Chain, "provenance: " + o.Extra["prov"]}}
					bad := sp.Where(o.State, func(pt int) bool { return sp.Val(pt, iS) != 1 })
					switch {
					case strings.HasPrefix(o.Extra["prov"], "!"):
						ob.Verdict, ob.Detail = Violated, "appended slice is not nil or a suffix of request.Entries: "+o.Extra["prov"][1:]
					case !bad.IsEmpty():
						ob.Verdict, ob.Detail = Violated, "entries appended for a request that was not accepted"
					default:
						ob.Verdict, ob.Detail = Discharged, "appends nil or request.Entries[i:] of an accepted request"
					}
					out = append(out, ob)
				case strings.HasPrefix(o.Key, "RETURN"):
					nRet++
					retPos = o.Pos
					if o.Extra["err"] != "nil" {
						continue
					}
					// BACKOFF: nil-error return, not accepted, past the term check => hint set
					bo := sp.Where(o.State, func(pt int) bool {
						return sp.Val(pt, iS) == 0 && sp.Val(pt, iT) != LT && sp.Val(pt, iH) == 0
					})
					if !bo.IsEmpty() {
						retBackoff = append(retBackoff, o.Key+" ("+o.Pos+")")
					}
					ack := sp.Where(o.State, func(pt int) bool { return sp.Val(pt, iS) == 1 && sp.Val(pt, iA) == 0 })
					if !ack.IsEmpty() {
						retAck = append(retAck, o.Key+" ("+o.Pos+")")
					}
				}
			}
			bo := Obligation{Rule: id, Construct: "BACKOFF conflict hint on every rejection in (*Raft).AppendEntries", Pos: retPos}
			if len(retBackoff) > 0 {
				bo.Verdict = Violated
				bo.Detail = "a rejection past the term check can return without setting response.Index: the leader would set nextIndex to 0 and replication to this follower cannot make progress"
				bo.Facts = retBackoff
			} else {
				bo.Verdict, bo.Detail = Discharged, fmt.Sprintf("%d return(s) examined", nRet)
			}
			ack := Obligation{Rule: id, Construct: "ACK-AFTER-APPEND success implies appended in (*Raft).AppendEntries", Pos: retPos}
			if len(retAck) > 0 {
				ack.Verdict = Violated
				ack.Detail = "the handler can return Success = true without having called Log.AppendEntries: the leader counts entries that are not in this follower's persistent log"
				ack.Facts = retAck
			} else {
				ack.Verdict, ack.Detail = Discharged, "every accepting return is preceded by Log.AppendEntries (error fatal)"
			}
			sfx := Obligation{Rule: id, Construct: "AE-APPEND the appended suffix starts at the end of the log in (*Raft).AppendEntries", Pos: retPos}
			switch {
			case appendPhi == nil:
				sfx.Verdict, sfx.Detail = Undecided, "the argument of Log.AppendEntries is not a choice between nil and suffixes (phi)"
			case len(badSuffix) > 0:
				sfx.Verdict = Violated
				sfx.Detail = "a suffix request.Entries[i:] can be appended although entry i is neither beyond the end of the log nor at an index the log was just truncated at: entries already present are appended a second time (duplicate indices, log no longer a prefix of the leader's)"
				sfx.Facts = uniq(badSuffix)
			default:
				sfx.Verdict, sfx.Detail = Discharged, "every suffix starts beyond the log end (LastIndex() < entry.Index) or at the index just truncated"
			}
			out = append(out, bo, ack, sfx)
			out = append(out, conflictExact(p, id)...)
			return out
		},
	}
}

// suffixProvenance describes where the appended slice comes from. A leading "!" marks a
// provenance that is neither nil nor request.Entries[i:].
func suffixProvenance(p *Program, f *Frame, v ssa.Value) string {
	seen := map[ssa.Value]bool{}
	var leaves []string
	bad := false
	var walk func(x ssa.Value)
	walk = func(x ssa.Value) {
		x = stripConv(x)
		if seen[x] {
			return
		}
		seen[x] = true
		switch y := x.(type) {
		case *ssa.Phi:
			for i, e := range y.Edges {
				// nil may only arrive from the exhaustion of the loop over request.Entries (every entry was
				// already in the log); a break out of the loop without a suffix acknowledges entries that are
				// never appended
				if c, ok := stripConv(e).(*ssa.Const); ok && c.Value == nil && len(y.Edges) > 1 {
					pred := y.Block().Preds[i]
					if !endsWithEntriesLoopTest(p, f, pred) {
						bad = true
						leaves = append(leaves, "nil on a path that leaves the entries loop early ("+p.InstrPos(pred.Instrs[len(pred.Instrs)-1])+")")
						continue
					}
				}
				walk(e)
			}
		case *ssa.Const:
			if y.Value == nil {
				leaves = append(leaves, "nil")
			} else {
				bad = true
				leaves = append(leaves, y.String())
			}
		case *ssa.Slice:
			base := p.Canon(f, y.X).S
			if base == "p0.Entries" && y.High == nil && y.Max == nil {
				lo := "0"
				if y.Low != nil {
					lo = p.Canon(f, y.Low).S
				}
				leaves = append(leaves, "p0.Entries["+lo+":]")
			} else {
				bad = true
				leaves = append(leaves, p.Canon(f, y).S)
			}
		default:
			s := p.Canon(f, x).S
			if s == "p0.Entries" {
				leaves = append(leaves, s)
			} else {
				bad = true
				leaves = append(leaves, s)
			}
		}
	}
	walk(v)
	s := strings.Join(leaves, " | ")
	if bad {
		return "!" + s
	}
	return s
}

// endsWithEntriesLoopTest reports whether b ends with the loop test of a range over request.Entries
// (index < len(request.Entries)), i.e. an edge out of b is the exhaustion of that loop.
func endsWithEntriesLoopTest(p *Program, f *Frame, b *ssa.BasicBlock) bool {
	iff, ok := b.Instrs[len(b.Instrs)-1].(*ssa.If)
	if !ok {
		return false
	}
	bo, ok := iff.Cond.(*ssa.BinOp)
	if !ok {
		return false
	}
	return p.Canon(f, bo.X).S == "len(p0.Entries)" || p.Canon(f, bo.Y).S == "len(p0.Entries)"
}

// conflictExact checks that (*LogEntry).IsConflict(other) is true exactly when the indices are
// equal and the terms differ.
func conflictExact(p *Program, id string) []Obligation {
	fn := p.Func("(*LogEntry).IsConflict")
	if fn == nil {
		return missing(id, "(*LogEntry).IsConflict")
	}
	sp := NewSpace(CmpAtom("index", "recv.Index", "p0.Index"), CmpAtom("term", "recv.Term", "p0.Term"))
	a := NewAnalysis(p, sp)
	ex := a.analyze(NewRootFrame(fn), sp.Top())
	ob := Obligation{Rule: id, Construct: "AE-TRUNC meaning of (*LogEntry).IsConflict", Pos: p.Pos(fn.Pos())}
	if !ex.Split {
		ob.Verdict, ob.Detail = Undecided, "IsConflict does not return a single bool"
		return []Obligation{ob}
	}
	want := sp.Where(sp.Top(), func(pt int) bool { return sp.Val(pt, 0) == EQ && sp.Val(pt, 1) != EQ })
	notWant := sp.Where(sp.Top(), func(pt int) bool { return !(sp.Val(pt, 0) == EQ && sp.Val(pt, 1) != EQ) })
	switch {
	case !Subset(ex.True, want):
		ob.Verdict = Violated
		ob.Detail = "IsConflict can answer true for entries that do not conflict: " + strings.Join(sp.Project(Intersect(ex.True, notWant), 0, 1), " | ")
	case !Subset(ex.False, notWant):
		ob.Verdict = Violated
		ob.Detail = "IsConflict can answer false for entries with the same index and different terms (a conflicting suffix would be kept)"
	default:
		ob.Verdict, ob.Detail = Discharged, "true exactly for same index ∧ different term"
	}
	return []Obligation{ob}
}
