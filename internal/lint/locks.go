package lint

import (
	"fmt"
	"go/token"
	"go/types"
	"os"
	"sort"
	"strings"

	"golang.org/x/tools/go/ssa"
)

// A3 — lock-state dataflow (DESIGN §2.2).
//
// For one mutex field (Raft.mu, transport.mu, connectionManager.mu) the analysis computes, for every
// instruction of every in-scope function, the set of lock states the instruction can execute in.
// It is polyvariant in the entry state: a function is analysed once per entry state it is reached
// with (held, read-held, released, unshared), so a helper called under the lock from one place and
// without it from another is not smeared into "unknown" — each calling context keeps its verdict
// and the offending caller can be named.

// Lock state bits. A state is a set of them (join = union).
const (
	LkHeld     uint8 = 1 << iota // mutex held exclusively by the running goroutine
	LkRead                       // RWMutex held shared (RLock)
	LkReleased                   // mutex not held
	LkUnshared                   // the guarded object has not been published yet (constructor): satisfies every requirement
)

const lkAll = LkHeld | LkRead | LkReleased | LkUnshared

func lkString(b uint8) string {
	if b == 0 {
		return "unreachable"
	}
	var parts []string
	for _, x := range []struct {
		b uint8
		s string
	}{{LkHeld, "held"}, {LkRead, "read-held"}, {LkReleased, "released"}, {LkUnshared, "unshared"}} {
		if b&x.b != 0 {
			parts = append(parts, x.s)
		}
	}
	if len(parts) > 1 {
		if b&^(LkHeld|LkUnshared) == 0 {
			return "held or unshared"
		}
		return "unknown{" + strings.Join(parts, ",") + "}"
	}
	return parts[0]
}

// LState is the abstract state at a program point.
type LState struct {
	Bits uint8
	// Openers: ids (per context) of the release events (Unlock, or a call that returns with the mutex
	// released) since which no acquire happened. Non-zero only together with LkReleased.
	Openers uint64
	// Pristine: on every path from the function entry no instruction changed the lock state.
	Pristine bool
}

func (s LState) bottom() bool { return s.Bits == 0 }

func joinL(a, b LState) LState {
	if a.bottom() {
		return b
	}
	if b.bottom() {
		return a
	}
	return LState{Bits: a.Bits | b.Bits, Openers: a.Openers | b.Openers, Pristine: a.Pristine && b.Pristine}
}

// LockSpec identifies one mutex and the object it guards.
type LockSpec struct {
	Name  string       // "Raft.mu"
	Owner *types.Named // struct type declaring the mutex
	Mu    *types.Var
	RW    bool
	// Conds: fields of Owner of type *sync.Cond verified to be created by sync.NewCond(&owner.mu).
	Conds map[*types.Var]bool
	// CondProblems: cond fields that could not be verified, with the reason.
	CondProblems map[*types.Var]string
}

type lockCtxKey struct {
	Fn    *ssa.Function
	Entry uint8
}

// LockCall is a static call edge between two analysed contexts.
type LockCall struct {
	Caller   *LockCtx
	Instr    ssa.CallInstruction
	Callee   *LockCtx
	State    LState // caller state at the call (at execution time for deferred calls)
	Go       bool
	Deferred bool
}

// LockEvent is a breach of the locking discipline seen by the dataflow.
type LockEvent struct {
	Kind     string // double-lock | unlock-not-held | exit-mismatch | cond-wait-not-held | send-held | wg-wait-held | unbound-cond | conditional-defer
	Instr    ssa.Instruction
	State    LState
	Definite bool // the offending state is the only possible one
	What     string
}

// LockCtx is one function analysed from one entry state.
type LockCtx struct {
	goDepth   int // nesting of go statements under which the analysis of this context was started
	Fn        *ssa.Function
	Entry     uint8
	In        map[ssa.Instruction]LState // state before the instruction
	DeferExec map[*ssa.Defer]LState      // state in which a deferred call executes (at rundefers)
	Exit      LState                     // join over the returns
	Returns   map[*ssa.Return]LState
	Calls     []*LockCall
	CallersIn []*LockCall
	Events    []*LockEvent
	// Releases: instructions at which the mutex is (possibly) not held for a moment although it may be
	// held before and after: Unlock, Cond.Wait, calls whose callee contains a release.
	Releases []ssa.Instruction
	Acquires bool // the context (or a callee) acquires the mutex
	Touches  bool // the context (or a callee) performs any lock-state change
	Waits    []ssa.Instruction

	openerID  map[ssa.Instruction]int
	openers   []ssa.Instruction
	closed    uint64 // openers after which an acquire was seen: real unlock windows
	busy      bool
	recursive bool
}

// HasRelease reports whether the mutex may be released for a moment during the activation.
func (c *LockCtx) HasRelease() bool { return len(c.Releases) > 0 }

// StateAt is the state in which the instruction executes (for a defer: when it runs).
func (c *LockCtx) StateAt(in ssa.Instruction) LState {
	if d, ok := in.(*ssa.Defer); ok {
		return c.DeferExec[d]
	}
	return c.In[in]
}

// Window is one unlock window: the instructions between a release event and the next acquire.
type Window struct {
	Fn     *ssa.Function
	Opener ssa.Instruction
	Ord    int // ordinal among the windows of the function, by source position of the opener
	Instrs []ssa.Instruction
	Ctxs   []*LockCtx
}

// LockAnalysis is the result of A3 for one mutex.
type LockAnalysis struct {
	goDepth int
	P       *Program
	Spec    *LockSpec
	Ctx     map[lockCtxKey]*LockCtx
	Roots   map[*ssa.Function]string // why the function is a root
	Ctors   map[*ssa.Function]bool   // functions that allocate the guarded object (entered unshared)
	// Escaped: anonymous functions never called, deferred or spawned directly: their calling context is unknown.
	Escaped map[*ssa.Function]bool
	Notes   map[string]bool
	byFn    map[*ssa.Function][]*LockCtx
	windows map[*ssa.Function][]*Window
}

func (a *LockAnalysis) note(s string) { a.Notes[s] = true }

var lockCache = map[*Program]map[string]*LockAnalysis{}

// lockSpecFor builds the spec of "Type.field".
func (p *Program) lockSpecFor(name string) *LockSpec {
	mu := p.Field(name)
	if mu == nil {
		return nil
	}
	owner := p.NamedType(name[:strings.Index(name, ".")])
	rw := namedName(mu.Type()) == "RWMutex"
	if n := namedName(mu.Type()); n != "Mutex" && n != "RWMutex" {
		return nil
	}
	return &LockSpec{Name: name, Owner: owner, Mu: mu, RW: rw, Conds: map[*types.Var]bool{}, CondProblems: map[*types.Var]string{}}
}

// Locks runs (once) the lock-state analysis for the mutex "Type.field"; nil if the field does not exist.
func (p *Program) Locks(name string) *LockAnalysis {
	if m := lockCache[p]; m != nil {
		if a, ok := m[name]; ok {
			return a
		}
	} else {
		lockCache[p] = map[string]*LockAnalysis{}
	}
	spec := p.lockSpecFor(name)
	if spec == nil {
		lockCache[p][name] = nil
		return nil
	}
	a := &LockAnalysis{P: p, Spec: spec, Ctx: map[lockCtxKey]*LockCtx{}, Roots: map[*ssa.Function]string{},
		Ctors: map[*ssa.Function]bool{}, Escaped: map[*ssa.Function]bool{}, Notes: map[string]bool{},
		byFn: map[*ssa.Function][]*LockCtx{}, windows: map[*ssa.Function][]*Window{}}
	a.bindConds()
	a.run()
	lockCache[p][name] = a
	if v := os.Getenv("RAFTLINT_LOCKDUMP"); v != "" {
		a.dump(v)
	}
	return a
}

// ownerStruct reports whether t is (a pointer to) the struct guarded by the spec.
func (a *LockAnalysis) isOwnerPtr(t types.Type) bool {
	pt, ok := t.Underlying().(*types.Pointer)
	if !ok {
		return false
	}
	n, ok := pt.Elem().(*types.Named)
	return ok && n.Obj() == a.Spec.Owner.Obj()
}

func faField(fa *ssa.FieldAddr) *types.Var { return fieldOf(fa.X.Type(), fa.Field) }

// isMu reports whether v is the address of the spec's mutex field (any receiver expression).
func (a *LockAnalysis) isMu(v ssa.Value) bool {
	fa, ok := v.(*ssa.FieldAddr)
	return ok && faField(fa) == a.Spec.Mu
}

// objRoot resolves a pointer value to the variable it was read from: parameters spilled to a cell
// (captured by a closure) resolve to the parameter, captured variables to the free variable.
func objRoot(v ssa.Value) ssa.Value {
	for i := 0; i < 8; i++ {
		u, ok := v.(*ssa.UnOp)
		if !ok || u.Op != token.MUL {
			return v
		}
		switch x := u.X.(type) {
		case *ssa.Alloc:
			if s := singleStore(x); s != nil {
				v = s
				continue
			}
			return x
		case *ssa.FreeVar:
			return x
		default:
			return v
		}
	}
	return v
}

// bindConds verifies, for every *sync.Cond field of the owner, that each store to it stores
// sync.NewCond(&sameObject.mu).
func (a *LockAnalysis) bindConds() {
	st, ok := a.Spec.Owner.Underlying().(*types.Struct)
	if !ok {
		return
	}
	conds := map[*types.Var]bool{}
	for i := 0; i < st.NumFields(); i++ {
		f := st.Field(i)
		if pt, ok := f.Type().(*types.Pointer); ok {
			if n, ok := pt.Elem().(*types.Named); ok && n.Obj().Name() == "Cond" && n.Obj().Pkg() != nil && n.Obj().Pkg().Path() == "sync" {
				conds[f] = true
			}
		}
	}
	if len(conds) == 0 {
		return
	}
	stores := map[*types.Var]int{}
	a.P.eachInstr(func(fn *ssa.Function, in ssa.Instruction) {
		s, ok := in.(*ssa.Store)
		if !ok {
			return
		}
		fa, ok := s.Addr.(*ssa.FieldAddr)
		if !ok || !conds[faField(fa)] || !a.isOwnerPtr(fa.X.Type()) {
			return
		}
		f := faField(fa)
		stores[f]++
		bad := func(why string) {
			a.Spec.CondProblems[f] = why + " at " + a.P.InstrPos(in)
		}
		call, ok := s.Val.(*ssa.Call)
		if !ok {
			bad("stored value is not a call of sync.NewCond")
			return
		}
		callee := call.Common().StaticCallee()
		if callee == nil || callee.Pkg == nil || callee.Pkg.Pkg.Path() != "sync" || callee.Name() != "NewCond" {
			bad("stored value is not a call of sync.NewCond")
			return
		}
		arg := call.Common().Args[0]
		for {
			switch x := arg.(type) {
			case *ssa.MakeInterface:
				arg = x.X
				continue
			case *ssa.ChangeInterface:
				arg = x.X
				continue
			}
			break
		}
		mfa, ok := arg.(*ssa.FieldAddr)
		if !ok || faField(mfa) != a.Spec.Mu {
			bad("sync.NewCond is not given &" + a.Spec.Name)
			return
		}
		if objRoot(mfa.X) != objRoot(fa.X) {
			bad("sync.NewCond is given the mutex of a different object")
		}
	})
	for f := range conds {
		if stores[f] == 0 {
			a.Spec.CondProblems[f] = "never assigned"
			continue
		}
		if _, bad := a.Spec.CondProblems[f]; !bad {
			a.Spec.Conds[f] = true
		}
	}
}

// condField returns the owner's cond field whose value v is (a load of owner.cond).
func (a *LockAnalysis) condField(v ssa.Value) (*types.Var, bool) {
	u, ok := v.(*ssa.UnOp)
	if !ok || u.Op != token.MUL {
		return nil, false
	}
	fa, ok := u.X.(*ssa.FieldAddr)
	if !ok || !a.isOwnerPtr(fa.X.Type()) {
		return nil, false
	}
	return faField(fa), true
}

func isExportedFn(fn *ssa.Function) bool {
	if fn.Parent() != nil {
		return false
	}
	o, ok := fn.Object().(*types.Func)
	if !ok && fn.Origin() != nil {
		o, ok = fn.Origin().Object().(*types.Func)
	}
	return ok && o.Exported()
}

// run seeds the roots and analyses every in-scope function in every entry state it is reached with.
func (a *LockAnalysis) run() {
	p := a.P
	fns := p.SortedFuncs()
	for _, fn := range fns {
		for _, b := range fn.Blocks {
			for _, in := range b.Instrs {
				if al, ok := in.(*ssa.Alloc); ok && fn.Parent() == nil && a.isOwnerPtr(al.Type()) {
					a.Ctors[fn] = true
				}
			}
		}
	}
	for _, fn := range fns {
		switch {
		case isExportedFn(fn):
			a.Roots[fn] = "exported"
		case p.GoTargets[fn]:
			a.Roots[fn] = "go target"
		case len(p.Callers[fn]) == 0:
			a.Roots[fn] = "no in-scope caller"
			if fn.Parent() != nil {
				a.Escaped[fn] = true
				a.Roots[fn] = "closure value with no direct call"
			}
		}
	}
	for _, fn := range fns {
		if _, ok := a.Roots[fn]; !ok {
			continue
		}
		entry := LkReleased
		if a.Ctors[fn] {
			entry = LkUnshared
		}
		a.analyze(fn, entry)
	}
	// functions only reachable through a call cycle: analyse them released and say so
	for _, fn := range fns {
		if len(a.byFn[fn]) == 0 {
			a.note("function " + FuncName(fn) + " is reachable only through a call cycle; analysed as a root")
			a.Roots[fn] = "call cycle"
			a.analyze(fn, LkReleased)
		}
	}
	for _, cs := range a.byFn {
		sort.Slice(cs, func(i, j int) bool { return cs[i].Entry < cs[j].Entry })
	}
	a.buildWindows()
}

// Contexts returns the analysed contexts of fn (sorted by entry state).
func (a *LockAnalysis) Contexts(fn *ssa.Function) []*LockCtx { return a.byFn[fn] }

// AllContexts returns every context sorted by function name and entry state.
func (a *LockAnalysis) AllContexts() []*LockCtx {
	var out []*LockCtx
	for _, fn := range a.P.SortedFuncs() {
		out = append(out, a.byFn[fn]...)
	}
	return out
}

// MergedAt is the join of the instruction's state over all contexts of its function.
func (a *LockAnalysis) MergedAt(in ssa.Instruction) LState {
	var st LState
	for _, c := range a.byFn[in.Parent()] {
		st = joinL(st, c.StateAt(in))
	}
	return st
}

func (a *LockAnalysis) analyze(fn *ssa.Function, entry uint8) *LockCtx {
	key := lockCtxKey{fn, entry}
	if c := a.Ctx[key]; c != nil {
		if c.busy && a.goDepth > c.goDepth {
			// reached from a goroutine that was spawned (transitively) by the activation under analysis: a separate
			// activation that the spawner does not wait for, not recursion. Its own exit state is this context's.
			return c
		}
		if c.busy {
			c.recursive = true
			a.note("recursion through " + FuncName(fn) + ": its effect on " + a.Spec.Name + " is assumed balanced")
		}
		return c
	}
	c := &LockCtx{Fn: fn, Entry: entry, In: map[ssa.Instruction]LState{}, DeferExec: map[*ssa.Defer]LState{},
		Returns: map[*ssa.Return]LState{}, openerID: map[ssa.Instruction]int{}, busy: true, goDepth: a.goDepth}
	a.Ctx[key] = c
	a.byFn[fn] = append(a.byFn[fn], c)
	if len(fn.Blocks) == 0 {
		c.busy = false
		c.Exit = LState{Bits: entry, Pristine: true}
		return c
	}
	in := make([]LState, len(fn.Blocks))
	in[0] = LState{Bits: entry, Pristine: true}
	work := []int{0}
	queued := map[int]bool{0: true}
	for len(work) > 0 {
		sort.Ints(work)
		bi := work[0]
		work = work[1:]
		queued[bi] = false
		b := fn.Blocks[bi]
		st := a.flowBlock(c, b, in[bi], false)
		if st.bottom() {
			continue
		}
		for _, s := range b.Succs {
			n := joinL(in[s.Index], st)
			if n != in[s.Index] {
				in[s.Index] = n
				if !queued[s.Index] {
					queued[s.Index] = true
					work = append(work, s.Index)
				}
			}
		}
	}
	// recording pass over the fixpoint
	for _, b := range fn.Blocks {
		if in[b.Index].bottom() {
			continue
		}
		a.flowBlock(c, b, in[b.Index], true)
	}
	c.busy = false
	return c
}

func (c *LockCtx) opener(in ssa.Instruction) uint64 {
	id, ok := c.openerID[in]
	if !ok {
		id = len(c.openers)
		c.openerID[in] = id
		c.openers = append(c.openers, in)
	}
	if id >= 64 {
		return 1 << 63
	}
	return 1 << uint(id)
}

func (c *LockCtx) event(rec bool, kind string, in ssa.Instruction, st LState, definite bool, what string) {
	if !rec {
		return
	}
	c.Events = append(c.Events, &LockEvent{Kind: kind, Instr: in, State: st, Definite: definite, What: what})
}

func (c *LockCtx) release(rec bool, in ssa.Instruction) {
	if !rec {
		return
	}
	for _, x := range c.Releases {
		if x == in {
			return
		}
	}
	c.Releases = append(c.Releases, in)
}

// flowBlock pushes st through the block. With rec it also records states, events and call edges.
func (a *LockAnalysis) flowBlock(c *LockCtx, b *ssa.BasicBlock, st LState, rec bool) LState {
	for _, in := range b.Instrs {
		if st.bottom() {
			return st
		}
		if rec {
			c.In[in] = st
		}
		switch x := in.(type) {
		case *ssa.Call:
			st = a.flowCall(c, x, x.Common(), st, rec, false)
		case *ssa.Go:
			callee := staticCallee(x)
			if callee != nil && a.P.InScope[callee] {
				// a goroutine that spawns its own function is not recursion: the spawner does not wait for it
				var sub *LockCtx
				if busy := a.Ctx[lockCtxKey{callee, LkReleased}]; busy != nil && busy.busy {
					sub = busy
				} else {
					a.goDepth++
					sub = a.analyze(callee, LkReleased)
					a.goDepth--
				}
				if rec {
					e := &LockCall{Caller: c, Instr: x, Callee: sub, State: st, Go: true}
					c.Calls = append(c.Calls, e)
					sub.CallersIn = append(sub.CallersIn, e)
				}
			}
			if st.Bits&LkUnshared != 0 {
				// the object is handed to another goroutine: it is shared from here on
				st.Bits = st.Bits&^LkUnshared | LkReleased
				st.Pristine = false
			}
		case *ssa.RunDefers:
			ds, conditional := defersAt(c.Fn, x)
			for i := len(ds) - 1; i >= 0; i-- {
				if rec {
					c.DeferExec[ds[i]] = joinL(c.DeferExec[ds[i]], st)
				}
				st = a.flowCall(c, ds[i], ds[i].Common(), st, rec, true)
				if st.bottom() {
					return st
				}
			}
			for _, d := range conditional {
				if a.lockRelevant(d.Common()) {
					c.event(rec, "conditional-defer", d, st, false, "a deferred call that affects "+a.Spec.Name+" is registered on some paths only")
					st = LState{Bits: lkAll &^ LkRead}
					if a.Spec.RW {
						st.Bits = lkAll
					}
				}
			}
		case *ssa.Return:
			if rec {
				c.Returns[x] = st
			}
			c.Exit = joinL(c.Exit, st)
			// an anonymous function called or deferred in line is part of its parent's body: the parent's
			// own returns are checked for the combined effect
			inline := c.Fn.Parent() != nil && !a.IsRootCtx(c)
			if st.Bits != c.Entry && !inline {
				c.event(rec, "exit-mismatch", x, st, st.Bits&c.Entry == 0,
					fmt.Sprintf("returns with %s %s but was entered with it %s", a.Spec.Name, lkString(st.Bits), lkString(c.Entry)))
			}
		case *ssa.Panic:
			return LState{}
		}
	}
	return st
}

// defersAt returns the defers certainly registered when the rundefers executes (their block dominates,
// in registration order) and those possibly registered (reach it without dominating).
func defersAt(fn *ssa.Function, rd *ssa.RunDefers) (certain, conditional []*ssa.Defer) {
	for _, b := range fn.Blocks {
		for i, x := range b.Instrs {
			d, ok := x.(*ssa.Defer)
			if !ok {
				continue
			}
			if b == rd.Block() {
				before := false
				for _, y := range b.Instrs[i:] {
					if y == rd {
						before = true
					}
				}
				if before {
					certain = append(certain, d)
				} else if blockReaches(b, b) {
					conditional = append(conditional, d)
				}
				continue
			}
			if b.Dominates(rd.Block()) {
				certain = append(certain, d)
			} else if blockReaches(b, rd.Block()) {
				conditional = append(conditional, d)
			}
		}
	}
	// registration order = dominance order; blocks are numbered so that a dominator precedes
	sort.SliceStable(certain, func(i, j int) bool {
		bi, bj := certain[i].Block(), certain[j].Block()
		if bi == bj {
			return false
		}
		return bi.Dominates(bj)
	})
	return
}

// blockReaches reports whether to is reachable from a successor of from.
func blockReaches(from, to *ssa.BasicBlock) bool {
	seen := map[*ssa.BasicBlock]bool{}
	work := append([]*ssa.BasicBlock{}, from.Succs...)
	for len(work) > 0 {
		b := work[len(work)-1]
		work = work[:len(work)-1]
		if seen[b] {
			continue
		}
		seen[b] = true
		if b == to {
			return true
		}
		work = append(work, b.Succs...)
	}
	return false
}

// lockRelevant: the call is an operation on the mutex or an in-scope callee that changes its state.
func (a *LockAnalysis) lockRelevant(c *ssa.CallCommon) bool {
	if op, recv := isMutexOp(c); op != "" {
		return (strings.HasPrefix(op, "Mutex.") || strings.HasPrefix(op, "RWMutex.")) && a.isMu(recv)
	}
	var callee *ssa.Function
	switch v := c.Value.(type) {
	case *ssa.Function:
		callee = v
	case *ssa.MakeClosure:
		callee = v.Fn.(*ssa.Function)
	}
	if callee == nil || !a.P.InScope[callee] {
		return false
	}
	for _, e := range []uint8{LkHeld, LkReleased} {
		if sub := a.analyze(callee, e); sub.Touches {
			return true
		}
	}
	return false
}

// IsSend reports whether the call is one of the unbounded remote calls of the Transport interface.
func isTransportSend(c *ssa.CallCommon) bool {
	if !c.IsInvoke() || ifaceOf(c) != "Transport" {
		return false
	}
	// Shutdown blocks as well: it takes the transport's write lock, which every Send* of this node holds (shared) for
	// the whole of its unbounded RPC, and then waits for incoming handlers — which need the node mutex.
	return strings.HasPrefix(c.Method.Name(), "Send") || c.Method.Name() == "Shutdown"
}

func (a *LockAnalysis) flowCall(c *LockCtx, site ssa.CallInstruction, cc *ssa.CallCommon, st LState, rec, deferred bool) LState {
	in := site.(ssa.Instruction)
	if a.P.IsNoReturnCall(cc) {
		return LState{}
	}
	if op, recv := isMutexOp(cc); op != "" {
		switch op {
		case "Mutex.Lock", "RWMutex.Lock", "Mutex.Unlock", "RWMutex.Unlock", "RWMutex.RLock", "RWMutex.RUnlock":
			if !a.isMu(recv) {
				return st
			}
			return a.flowMutex(c, in, op[strings.Index(op, ".")+1:], st, rec)
		case "Cond.Wait":
			f, ok := a.condField(recv)
			if !ok {
				return st
			}
			if !a.Spec.Conds[f] {
				c.event(rec, "unbound-cond", in, st, false, "Wait on "+a.Spec.Owner.Obj().Name()+"."+f.Name()+" whose Locker is not verified to be &"+a.Spec.Name)
				return st
			}
			if st.Bits != LkHeld {
				c.event(rec, "cond-wait-not-held", in, st, st.Bits&LkHeld == 0, "(*sync.Cond).Wait with "+a.Spec.Name+" "+lkString(st.Bits))
			}
			c.release(rec, in)
			if rec {
				c.Waits = append(c.Waits, in)
			}
			return st
		case "WaitGroup.Wait":
			if st.Bits&(LkHeld|LkRead) != 0 {
				c.event(rec, "wg-wait-held", in, st, st.Bits&^(LkHeld|LkRead) == 0, "(*sync.WaitGroup).Wait with "+a.Spec.Name+" "+lkString(st.Bits))
			}
			return st
		}
		return st
	}
	if cc.IsInvoke() {
		return st
	}
	var callee *ssa.Function
	switch v := cc.Value.(type) {
	case *ssa.Function:
		callee = v
	case *ssa.MakeClosure:
		callee = v.Fn.(*ssa.Function)
	}
	if callee == nil || !a.P.InScope[callee] {
		return st
	}
	if a.Ctors[callee] {
		// a constructor allocates a fresh object: inside it the object is unshared whatever the caller
		// holds, and it does not change the caller's lock state
		sub := a.analyze(callee, LkUnshared)
		if rec {
			e := &LockCall{Caller: c, Instr: site, Callee: sub, State: st, Deferred: deferred}
			c.Calls = append(c.Calls, e)
			sub.CallersIn = append(sub.CallersIn, e)
		}
		return st
	}
	var out LState
	out.Pristine = st.Pristine
	id := uint64(0)
	for _, bit := range []uint8{LkHeld, LkRead, LkReleased, LkUnshared} {
		if st.Bits&bit == 0 {
			continue
		}
		sub := a.analyze(callee, bit)
		exit := sub.Exit
		if sub.busy {
			exit = LState{Bits: bit, Pristine: true}
		}
		if rec {
			e := &LockCall{Caller: c, Instr: site, Callee: sub, State: st, Deferred: deferred}
			c.Calls = append(c.Calls, e)
			sub.CallersIn = append(sub.CallersIn, e)
		}
		if sub.Touches {
			out.Pristine = false
			c.Touches = true
		}
		if sub.Acquires {
			c.Acquires = true
		}
		if sub.HasRelease() {
			c.release(rec, in)
		}
		out.Bits |= exit.Bits
		if exit.Bits&LkReleased != 0 {
			if bit == LkReleased && !sub.Acquires {
				out.Openers |= st.Openers
			} else {
				if id == 0 {
					id = c.opener(in)
				}
				out.Openers |= id
			}
		}
		if bit == LkReleased && sub.Acquires && rec {
			c.closed |= st.Openers
		}
	}
	return out
}

// flowMutex is the transfer of Lock / Unlock / RLock / RUnlock on the spec's mutex.
func (a *LockAnalysis) flowMutex(c *LockCtx, in ssa.Instruction, op string, st LState, rec bool) LState {
	out := LState{}
	name := a.Spec.Name
	if _, deferred := in.(*ssa.Defer); deferred {
		op = "deferred " + op
		defer func() { op = strings.TrimPrefix(op, "deferred ") }()
	}
	if st.Bits&LkUnshared != 0 {
		out.Bits |= LkUnshared // lock operations on an unpublished object change nothing
	}
	shared := st.Bits &^ LkUnshared
	if shared == 0 {
		out.Pristine = st.Pristine
		return out
	}
	c.Touches = true
	switch strings.TrimPrefix(op, "deferred ") {
	case "Lock", "RLock":
		c.Acquires = true
		want := LkHeld
		if strings.HasSuffix(op, "RLock") {
			want = LkRead
		}
		if shared&LkReleased != 0 {
			out.Bits |= want
			if rec {
				c.closed |= st.Openers
			}
		}
		if shared&LkHeld != 0 {
			// the goroutine blocks forever: no successor state from this part
			c.event(rec, "double-lock", in, st, shared == LkHeld, op+" of "+name+" while it is already held: sync mutexes are not reentrant (self-deadlock)")
		}
		if shared&LkRead != 0 {
			if !strings.HasSuffix(op, "RLock") {
				c.event(rec, "double-lock", in, st, shared == LkRead, "Lock of "+name+" while it is read-held by the same goroutine (self-deadlock)")
			} else {
				out.Bits |= want
			}
		}
	case "Unlock", "RUnlock":
		have := LkHeld
		if strings.HasSuffix(op, "RUnlock") {
			have = LkRead
		}
		if shared&have != 0 {
			out.Bits |= LkReleased
			out.Openers |= c.opener(in)
			c.release(rec, in)
		}
		if shared&^have != 0 {
			// the runtime aborts ("unlock of unlocked mutex"): no successor state from this part
			c.event(rec, "unlock-not-held", in, st, shared&have == 0, op+" of "+name+" while it is "+lkString(shared&^have)+" (fatal error: unlock of unlocked mutex)")
		}
	}
	return out
}

// buildWindows derives the unlock windows of every function from the recorded states.
func (a *LockAnalysis) buildWindows() {
	for fn, ctxs := range a.byFn {
		byOpener := map[ssa.Instruction]*Window{}
		for _, c := range ctxs {
			for id, op := range c.openers {
				if id >= 64 || c.closed&(1<<uint(id)) == 0 {
					continue
				}
				w := byOpener[op]
				if w == nil {
					w = &Window{Fn: fn, Opener: op}
					byOpener[op] = w
				}
				w.Ctxs = append(w.Ctxs, c)
				have := map[ssa.Instruction]bool{}
				for _, x := range w.Instrs {
					have[x] = true
				}
				for _, b := range fn.Blocks {
					for _, in := range b.Instrs {
						s, ok := c.In[in]
						if !ok || s.Openers&(1<<uint(id)) == 0 || s.Bits&LkReleased == 0 || have[in] {
							continue
						}
						w.Instrs = append(w.Instrs, in)
					}
				}
			}
		}
		var ws []*Window
		for _, w := range byOpener {
			ws = append(ws, w)
		}
		sort.Slice(ws, func(i, j int) bool { return instrBefore(ws[i].Opener, ws[j].Opener) })
		for i, w := range ws {
			w.Ord = i + 1
		}
		a.windows[fn] = ws
	}
}

func instrBefore(x, y ssa.Instruction) bool {
	if x.Pos().IsValid() && y.Pos().IsValid() && x.Pos() != y.Pos() {
		return x.Pos() < y.Pos()
	}
	if x.Block() != y.Block() {
		return x.Block().Index < y.Block().Index
	}
	for _, in := range x.Block().Instrs {
		if in == x {
			return true
		}
		if in == y {
			return false
		}
	}
	return false
}

// Windows returns the unlock windows of fn ordered by opener.
func (a *LockAnalysis) Windows(fn *ssa.Function) []*Window { return a.windows[fn] }

// WindowsOf returns the windows the instruction lies in.
func (a *LockAnalysis) WindowsOf(in ssa.Instruction) []*Window {
	var out []*Window
	for _, w := range a.windows[in.Parent()] {
		for _, x := range w.Instrs {
			if x == in {
				out = append(out, w)
				break
			}
		}
	}
	return out
}

// ---- path queries inside one function ----

// scanFrom visits every instruction that can execute after start (start itself only if it is reached
// again through a loop). visit returns false to stop exploring past the instruction. edgeOK (optional)
// filters control-flow edges.
func scanFrom(start ssa.Instruction, visit func(in ssa.Instruction) bool, edgeOK func(b *ssa.BasicBlock, k int) bool) {
	b := start.Block()
	idx := 0
	for i, in := range b.Instrs {
		if in == start {
			idx = i + 1
		}
	}
	type pt struct {
		b *ssa.BasicBlock
		i int
	}
	seenBlock := map[*ssa.BasicBlock]bool{}
	work := []pt{{b, idx}}
	for len(work) > 0 {
		p := work[len(work)-1]
		work = work[:len(work)-1]
		stopped := false
		for i := p.i; i < len(p.b.Instrs); i++ {
			if !visit(p.b.Instrs[i]) {
				stopped = true
				break
			}
		}
		if stopped {
			continue
		}
		for k, s := range p.b.Succs {
			if edgeOK != nil && !edgeOK(p.b, k) {
				continue
			}
			if !seenBlock[s] {
				seenBlock[s] = true
				work = append(work, pt{s, 0})
			}
		}
	}
}

// ReleaseBetween reports a release event (Unlock, Cond.Wait, call containing one) that lies on a path
// from `from` to `to` on which `from` is not executed again after the event.
func (c *LockCtx) ReleaseBetween(from, to ssa.Instruction) ssa.Instruction {
	rel := map[ssa.Instruction]bool{}
	for _, r := range c.Releases {
		rel[r] = true
	}
	var cands []ssa.Instruction
	scanFrom(from, func(in ssa.Instruction) bool {
		if rel[in] {
			cands = append(cands, in)
		}
		return in != from
	}, nil)
	sort.Slice(cands, func(i, j int) bool { return instrBefore(cands[i], cands[j]) })
	for _, e := range cands {
		if e == to {
			continue
		}
		found := false
		scanFrom(e, func(in ssa.Instruction) bool {
			if in == to {
				found = true
				return false
			}
			return in != from
		}, nil)
		if found {
			return e
		}
	}
	return nil
}

// instrDominates: x executes before y on every path to y.
func instrDominates(x, y ssa.Instruction) bool {
	if x.Block() == y.Block() {
		for _, in := range x.Block().Instrs {
			if in == x {
				return x != y
			}
			if in == y {
				return false
			}
		}
		return false
	}
	return x.Block().Dominates(y.Block())
}

// ---- reporting helpers ----

// CallerChain renders one chain of callers from a root to the context (shortest, deterministic).
func (a *LockAnalysis) CallerChain(c *LockCtx) []string {
	type node struct {
		c    *LockCtx
		prev *node
		via  *LockCall
	}
	seen := map[*LockCtx]bool{c: true}
	queue := []*node{{c: c}}
	for len(queue) > 0 {
		n := queue[0]
		queue = queue[1:]
		plain := 0
		for _, e := range n.c.CallersIn {
			if !e.Go {
				plain++
			}
		}
		if a.IsRootCtx(n.c) || plain == 0 {
			var out []string
			for q := n; q != nil; q = q.prev {
				s := FuncName(q.c.Fn) + " [entered " + lkString(q.c.Entry) + "]"
				if q.via != nil {
					s += " calls at " + a.P.InstrPos(q.via.Instr.(ssa.Instruction)) + " with " + a.Spec.Name + " " + lkString(q.via.State.Bits)
				}
				out = append(out, s)
			}
			return out
		}
		edges := append([]*LockCall{}, n.c.CallersIn...)
		sort.SliceStable(edges, func(i, j int) bool { return FuncName(edges[i].Caller.Fn) < FuncName(edges[j].Caller.Fn) })
		for _, e := range edges {
			if e.Go || seen[e.Caller] {
				continue
			}
			seen[e.Caller] = true
			queue = append(queue, &node{c: e.Caller, prev: n, via: e})
		}
	}
	return []string{FuncName(c.Fn) + " [entered " + lkString(c.Entry) + "]"}
}

// IsRootCtx reports whether the context is the one a root function is entered with from outside.
func (a *LockAnalysis) IsRootCtx(c *LockCtx) bool {
	if _, ok := a.Roots[c.Fn]; !ok {
		return false
	}
	if a.Ctors[c.Fn] {
		return c.Entry == LkUnshared
	}
	return c.Entry == LkReleased
}

// CallerNames lists the distinct functions that enter the context by a plain call.
func (c *LockCtx) CallerNames() []string {
	set := map[string]bool{}
	for _, e := range c.CallersIn {
		if !e.Go {
			set[FuncName(e.Caller.Fn)] = true
		}
	}
	var out []string
	for s := range set {
		out = append(out, s)
	}
	sort.Strings(out)
	return out
}

// dump prints the per-instruction lock state of the functions whose name contains pat (debugging aid).
func (a *LockAnalysis) dump(pat string) {
	for _, c := range a.AllContexts() {
		if pat != "all" && !strings.Contains(FuncName(c.Fn), pat) {
			continue
		}
		fmt.Fprintf(os.Stderr, "== %s %s entry=%s exit=%s releases=%d acquires=%v\n", a.Spec.Name, FuncName(c.Fn), lkString(c.Entry), lkString(c.Exit.Bits), len(c.Releases), c.Acquires)
		for _, b := range c.Fn.Blocks {
			for _, in := range b.Instrs {
				s, ok := c.In[in]
				if !ok {
					continue
				}
				if _, isCall := in.(ssa.CallInstruction); !isCall {
					if _, isRet := in.(*ssa.Return); !isRet {
						continue
					}
				}
				fmt.Fprintf(os.Stderr, "   %-18s %-28s open=%b  %s\n", a.P.InstrPos(in), lkString(s.Bits), s.Openers, in.String())
			}
		}
		for _, e := range c.Events {
			fmt.Fprintf(os.Stderr, "   EVENT %s at %s definite=%v: %s\n", e.Kind, a.P.InstrPos(e.Instr), e.Definite, e.What)
		}
	}
	for _, fn := range a.P.SortedFuncs() {
		for _, w := range a.windows[fn] {
			fmt.Fprintf(os.Stderr, "== window #%d in %s opened at %s: %d instrs\n", w.Ord, FuncName(fn), a.P.InstrPos(w.Opener), len(w.Instrs))
		}
	}
}
