package lint

import (
	"fmt"

	"golang.org/x/tools/go/ssa"
)

// ruleContactRefresh: C17/C16 CONTACT-REFRESH.
//
// The leader counts EVERY reply to an AppendEntries of its current term that does not carry a larger term towards
// the round's quorum — accepted or rejected for a log mismatch alike — and renews its lease on a quorum. The lease is
// sound only because each of those voters has promised not to help elect anybody else for an election timeout, and
// the promise is the refresh of lastContact (which RequestVote and the election loop test). So the handler must have
// refreshed lastContact on every path on which it returns a reply the sender will count: every error-free return
// whose reply does not tell the sender that it is stale (response.Term > request.Term).
func ruleContactRefresh() *Rule {
	const id = "CONTACT-REFRESH"
	return &Rule{
		ID: id,
		Text: "In the AppendEntries handler every error-free return either carries a term larger than the request's (the sender steps down and does not count the reply) " +
			"or happens after lastContact := time.Now() in this invocation — also when the request is rejected for a log mismatch: the sender counts such a reply towards the quorum that renews its lease, " +
			"and the refresh is the voter's promise not to vote for another leader for an election timeout.",
		Floor: 3,
		Run: func(p *Program) []Obligation {
			root := p.Func("(*Raft).AppendEntries")
			contact := p.Field("Raft.lastContact")
			if root == nil || contact == nil {
				return missing(id, "(*Raft).AppendEntries / Raft.lastContact")
			}
			sp := NewSpace(
				CmpAtom("respTerm?curTerm", "p1.Term", "r.currentTerm"),
				CmpAtom("reqTerm?curTerm", "p0.Term", "r.currentTerm"),
				CmpAtom("respTerm?reqTerm", "p1.Term", "p0.Term"),
				GhostAtom("contact", "not refreshed", "refreshed"),
			)
			a := NewAnalysis(p, sp)
			a.Post = func(a *Analysis, f *Frame, in ssa.Instruction, st State) State {
				if s, fld := storeField(in); s != nil && fld == contact {
					if v := p.Canon(f, s.Val); v.S == "time.Now()" {
						return sp.Assign(st, 3, 1)
					}
					return sp.Assign(st, 3, 0)
				}
				return st
			}
			a.Hook = func(a *Analysis, f *Frame, in ssa.Instruction, st State) State {
				if ret, ok := exitPoint(in); ok && f.Parent == nil && returnedError(ret) == "nil" {
					n := instrOrdinal(ret, func(x ssa.Instruction) bool { _, ok := x.(*ssa.Return); return ok })
					a.Observe(fmt.Sprintf("reply returned at return #%d of (*Raft).AppendEntries", n), f, in, st)
				}
				return st
			}
			a.RunFrame(NewRootFrame(root), sp.Assign(sp.Top(), 3, 0))
			out := evalObs(a, id, a.SortedObs(), func(o *Observation, pt int) bool {
				return sp.Val(pt, 2) == GT || sp.Val(pt, 3) == 1
			}, []int{2, 3}, "a reply the sender counts towards its lease quorum is returned only after lastContact was refreshed")
			if len(out) == 0 {
				return []Obligation{{Rule: id, Construct: "error-free returns of (*Raft).AppendEntries", Verdict: Undecided, Detail: "no error-free return found"}}
			}
			return out
		},
	}
}

// ruleHandlerDemote: C16/C02 HANDLER-DEMOTE.
//
// A node that accepts a message of a leader of its own or a later term is that leader's follower from then on. A
// (pre)candidate that keeps campaigning after it has recognised the leader of its term treats its next election
// timeout as "prevote already won" and raises its term without asking anybody — and its next reply deposes the
// healthy leader. So: when the AppendEntries handler returns a reply that does not tell the sender it is stale, and
// when the InstallSnapshot handler has got past its term checks (its first unlock, or a return before it), the node
// is not in the candidate or pre-candidate role.
func ruleHandlerDemote() *Rule {
	const id = "HANDLER-DEMOTE"
	return &Rule{
		ID: id,
		Text: "The AppendEntries handler never returns an error-free reply that the sender takes as current (response.Term ≤ request.Term) while the node is Candidate or PreCandidate; " +
			"the InstallSnapshot handler never gets past its term checks (to its first release of the mutex, or to an error-free non-stale return before it) in those roles: " +
			"recognising the leader of the term means becoming its follower.",
		Floor: 4,
		Run: func(p *Program) []Obligation {
			var out []Obligation
			for _, h := range []string{"(*Raft).AppendEntries", "(*Raft).InstallSnapshot"} {
				root := p.Func(h)
				if root == nil {
					out = append(out, missing(id, h)...)
					continue
				}
				stateAtom := p.StateAtom()
				sp := NewSpace(
					stateAtom,
					CmpAtom("respTerm?curTerm", "p1.Term", "r.currentTerm"),
					CmpAtom("reqTerm?curTerm", "p0.Term", "r.currentTerm"),
					CmpAtom("respTerm?reqTerm", "p1.Term", "p0.Term"),
					GhostAtom("window", "not passed", "passed"),
				)
				a := NewAnalysis(p, sp)
				h := h
				a.Hook = func(a *Analysis, f *Frame, in ssa.Instruction, st State) State {
					pre := sp.Filter(st, 4, 1<<0)
					if pre.IsEmpty() {
						return st
					}
					if ret, ok := exitPoint(in); ok && f.Parent == nil && returnedError(ret) == "nil" {
						n := instrOrdinal(ret, func(x ssa.Instruction) bool { _, ok := x.(*ssa.Return); return ok })
						a.Observe(fmt.Sprintf("reply returned at return #%d of %s", n, h), f, in, pre)
					}
					if op, _ := isMutexOp(callCommonOf(in)); (op == "Mutex.Unlock" || op == "Cond.Wait") && f.Parent == nil {
						if _, isDefer := in.(*ssa.Defer); !isDefer && !a.AtRunDefers {
							n := instrOrdinal(in, func(x ssa.Instruction) bool {
								o, _ := isMutexOp(callCommonOf(x))
								return o == "Mutex.Unlock" || o == "Cond.Wait"
							})
							a.Observe(fmt.Sprintf("first release of the mutex (%s #%d) in %s", op, n, h), f, in, pre)
						}
					}
					return st
				}
				a.Post = func(a *Analysis, f *Frame, in ssa.Instruction, st State) State {
					if op, _ := isMutexOp(callCommonOf(in)); op == "Mutex.Unlock" || op == "Cond.Wait" {
						if _, isDefer := in.(*ssa.Defer); !isDefer && !a.AtRunDefers {
							return sp.Assign(st, 4, 1)
						}
					}
					return st
				}
				a.RunFrame(NewRootFrame(root), sp.Assign(sp.Top(), 4, 0))
				cand, pre := enumIdx(stateAtom, "Candidate"), enumIdx(stateAtom, "PreCandidate")
				obs := evalObs(a, id, a.SortedObs(), func(o *Observation, pt int) bool {
					if sp.Val(pt, 3) == GT {
						return true // the reply tells the sender that it is stale
					}
					s := sp.Val(pt, 0)
					return s != cand && s != pre
				}, []int{0, 3}, "a node that recognises the leader of its term is no longer a (pre)candidate")
				if len(obs) == 0 {
					obs = []Obligation{{Rule: id, Construct: "error-free returns of " + h, Verdict: Undecided, Detail: "no observation point found"}}
				}
				out = append(out, obs...)
			}
			return out
		},
	}
}

// ruleApplyWait: C15 APPLY-WAIT.
//
// applyCond is signalled only when the commit index grows (an edge), so the apply loop may sleep on it only when it
// has established, in the same critical section, that nothing is left to apply (lastApplied ≥ commitIndex): a
// broadcast that fires while the loop is not waiting (before it first reaches the wait after Start, or while it
// holds the mutex) is otherwise lost, and what is committed is not applied until the commit index moves again — on
// an idle cluster, never. (The other four loops wait unconditionally too, but their conditions are re-signalled
// periodically or they hold the mutex across their whole body; only this one is edge-triggered.)
func ruleApplyWait() *Rule {
	const id = "APPLY-WAIT"
	return &Rule{
		ID: id,
		Text: "In applyLoop every Cond.Wait happens only with lastApplied ≥ commitIndex established in the same critical section (or after the node was seen shut down): " +
			"the loop never goes to sleep on an edge-triggered signal while committed entries are waiting to be applied.",
		Floor: 1,
		Run: func(p *Program) []Obligation {
			root := p.Func("(*Raft).applyLoop")
			if root == nil {
				return missing(id, "(*Raft).applyLoop")
			}
			stateAtom := p.StateAtom()
			sp := NewSpace(CmpAtom("lastApplied?commitIndex", "r.lastApplied", "r.commitIndex"), stateAtom)
			a := NewAnalysis(p, sp)
			a.Hook = func(a *Analysis, f *Frame, in ssa.Instruction, st State) State {
				if op, _ := isMutexOp(callCommonOf(in)); op == "Cond.Wait" && f.Parent == nil {
					n := instrOrdinal(in, func(x ssa.Instruction) bool { o, _ := isMutexOp(callCommonOf(x)); return o == "Cond.Wait" })
					a.Observe("Cond.Wait"+ordSuffix(n)+" in "+chainKey(f), f, in, st)
				}
				return st
			}
			a.Run(root, nil)
			sd := enumIdx(stateAtom, "Shutdown")
			out := evalObs(a, id, a.SortedObs(), func(_ *Observation, pt int) bool {
				return sp.Val(pt, 0) != LT || sp.Val(pt, 1) == sd
			}, []int{0}, "the apply loop sleeps only when nothing committed is left to apply")
			if len(out) == 0 {
				return []Obligation{{Rule: id, Construct: "Cond.Wait in (*Raft).applyLoop", Verdict: AnchorLost, Detail: "no wait found"}}
			}
			return out
		},
	}
}
