package lint

import (
	"fmt"
	"go/token"
	"strings"

	"golang.org/x/tools/go/ssa"
)

// ruleContactRefresh: C17/C16 CONTACT-REFRESH.
//
// The leader counts EVERY reply to an AppendEntries of its current term that does not carry a larger term towards
// the round's quorum — accepted or rejected for a log mismatch alike — and renews its lease on a quorum. The lease is
// sound only because each of those voters has promised not to help elect anybody else for an election timeout, and
// the promise is the refresh of lastContact (which RequestVote and the election loop test). So the handler must have
// refreshed lastContact on every path on which it returns a reply the sender will count: every error-free return
// whose reply does not tell the sender that it is stale (response.Term > request.Term).
func ruleContactRefresh() *Rule {
	const id = "CONTACT-REFRESH"
	return &Rule{
		ID: id,
		Text: "In the AppendEntries handler every error-free return either carries a term larger than the request's (the sender steps down and does not count the reply) " +
			"or happens after lastContact := time.Now() in this invocation — also when the request is rejected for a log mismatch: the sender counts such a reply towards the quorum that renews its lease, " +
			"and the refresh is the voter's promise not to vote for another leader for an election timeout.",
		Floor: 3,
		Run: func(p *Program) []Obligation {
			root := p.Func("(*Raft).AppendEntries")
			contact := p.Field("Raft.lastContact")
			if root == nil || contact == nil {
				return missing(id, "(*Raft).AppendEntries / Raft.lastContact")
			}
			sp := NewSpace(
				CmpAtom("respTerm?curTerm", "p1.Term", "r.currentTerm"),
				CmpAtom("reqTerm?curTerm", "p0.Term", "r.currentTerm"),
				CmpAtom("respTerm?reqTerm", "p1.Term", "p0.Term"),
				GhostAtom("contact", "not refreshed", "refreshed"),
			)
			a := NewAnalysis(p, sp)
			a.Post = func(a *Analysis, f *Frame, in ssa.Instruction, st State) State {
				if s, fld := storeField(in); s != nil && fld == contact {
					if v := p.Canon(f, s.Val); v.S == "time.Now()" {
						return sp.Assign(st, 3, 1)
					}
					return sp.Assign(st, 3, 0)
				}
				return st
			}
			a.Hook = func(a *Analysis, f *Frame, in ssa.Instruction, st State) State {
				if ret, ok := exitPoint(in); ok && f.Parent == nil && returnedError(ret) == "nil" {
					n := instrOrdinal(ret, func(x ssa.Instruction) bool { _, ok := x.(*ssa.Return); return ok })
					a.Observe(fmt.Sprintf("reply returned at return #%d of (*Raft).AppendEntries", n), f, in, st)
				}
				return st
			}
			a.RunFrame(NewRootFrame(root), sp.Assign(sp.Top(), 3, 0))
			out := evalObs(a, id, a.SortedObs(), func(o *Observation, pt int) bool {
				return sp.Val(pt, 2) == GT || sp.Val(pt, 3) == 1
			}, []int{2, 3}, "a reply the sender counts towards its lease quorum is returned only after lastContact was refreshed")
			if len(out) == 0 {
				return []Obligation{{Rule: id, Construct: "error-free returns of (*Raft).AppendEntries", Verdict: Undecided, Detail: "no error-free return found"}}
			}
			return append(out, electionContact(p, id)...)
		},
	}
}

// electionContact: the other half of the promise. A voter that has acknowledged a heartbeat does not vote for another
// node for an election timeout — and does not campaign itself: election() goes on to a (pre)candidacy or to a round of
// vote requests only over the edge on which an election timeout has passed since lastContact, whatever flags it holds.
func electionContact(p *Program, id string) []Obligation {
	fn := p.Func("(*Raft).election")
	contact := p.Field("Raft.lastContact")
	if fn == nil || contact == nil {
		return missing(id, "(*Raft).election / Raft.lastContact")
	}
	ob := Obligation{Rule: id, Construct: "ELECTION-CONTACT election() campaigns only an election timeout after the last contact", Pos: p.Pos(fn.Pos())}
	fr := NewRootFrame(fn)
	// the contact test: time.Since(r.lastContact) < r.options.electionTimeout (or the mirrored forms)
	var test *ssa.BasicBlock
	proceed := -1
	for _, b := range fn.Blocks {
		iff, ok := b.Instrs[len(b.Instrs)-1].(*ssa.If)
		if !ok {
			continue
		}
		bo, ok := iff.Cond.(*ssa.BinOp)
		if !ok {
			continue
		}
		x, y := p.Canon(fr, bo.X).S, p.Canon(fr, bo.Y).S
		since := func(s string) bool { return strings.Contains(s, "time.Since(") && strings.Contains(s, "lastContact") }
		timeout := func(s string) bool { return strings.Contains(s, "electionTimeout") }
		switch {
		case since(x) && timeout(y) && (bo.Op == token.LSS || bo.Op == token.LEQ):
			test, proceed = b, 1
		case since(x) && timeout(y) && (bo.Op == token.GEQ || bo.Op == token.GTR):
			test, proceed = b, 0
		case timeout(x) && since(y) && (bo.Op == token.GTR || bo.Op == token.GEQ):
			test, proceed = b, 1
		case timeout(x) && since(y) && (bo.Op == token.LSS || bo.Op == token.LEQ):
			test, proceed = b, 0
		}
	}
	if test == nil {
		ob.Verdict = Violated
		ob.Detail = "election() does not compare time.Since(r.lastContact) with the election timeout: a node that has just acknowledged the leader's heartbeat can campaign at once"
		return []Obligation{ob}
	}
	ob.Pos = p.InstrPos(test.Instrs[len(test.Instrs)-1])
	targets := map[string]bool{"(*Raft).becomePreCandidate": true, "(*Raft).becomeCandidate": true, "(*Raft).sendRequestVoteToPeers": true, "(*Raft).becomeLeader": true}
	// reachable from the entry without taking the "timeout has passed" edge of the test
	seen := map[*ssa.BasicBlock]bool{fn.Blocks[0]: true}
	work := []*ssa.BasicBlock{fn.Blocks[0]}
	bad := ""
	for len(work) > 0 && bad == "" {
		b := work[0]
		work = work[1:]
		for _, in := range b.Instrs {
			if c, ok := in.(*ssa.Call); ok && c.Common().StaticCallee() != nil && targets[FuncName(c.Common().StaticCallee())] {
				bad = FuncName(c.Common().StaticCallee()) + " at " + p.InstrPos(in)
			}
		}
		for i, sc := range b.Succs {
			if b == test && i == proceed {
				continue
			}
			if !seen[sc] {
				seen[sc] = true
				work = append(work, sc)
			}
		}
	}
	if bad != "" {
		ob.Verdict = Violated
		ob.Detail = "election() can reach " + bad + " without the edge on which an election timeout has passed since lastContact: a voter that acknowledged the leader's heartbeat a moment ago (and so helped to renew its lease) campaigns at once, " +
			"wins with a voter that is cut off from the leader, and commits a write while the old leader's lease — resting on that acknowledgement — is still valid"
	} else {
		ob.Verdict, ob.Detail = Discharged, "every (pre)candidacy and every round of vote requests started by election() lies behind the contact test"
	}
	return []Obligation{ob}
}

// ruleHandlerDemote: C16/C02 HANDLER-DEMOTE.
//
// A node that accepts a message of a leader of its own or a later term is that leader's follower from then on. A
// (pre)candidate that keeps campaigning after it has recognised the leader of its term treats its next election
// timeout as "prevote already won" and raises its term without asking anybody — and its next reply deposes the
// healthy leader. So: when the AppendEntries handler returns a reply that does not tell the sender it is stale, and
// when the InstallSnapshot handler has got past its term checks (its first unlock, or a return before it), the node
// is not in the candidate or pre-candidate role.
func ruleHandlerDemote() *Rule {
	const id = "HANDLER-DEMOTE"
	return &Rule{
		ID: id,
		Text: "The AppendEntries handler never returns an error-free reply that the sender takes as current (response.Term ≤ request.Term) while the node is Candidate or PreCandidate; " +
			"the InstallSnapshot handler never gets past its term checks (to its first release of the mutex, or to an error-free non-stale return before it) in those roles: " +
			"recognising the leader of the term means becoming its follower.",
		Floor: 4,
		Run: func(p *Program) []Obligation {
			var out []Obligation
			for _, h := range []string{"(*Raft).AppendEntries", "(*Raft).InstallSnapshot"} {
				root := p.Func(h)
				if root == nil {
					out = append(out, missing(id, h)...)
					continue
				}
				stateAtom := p.StateAtom()
				sp := NewSpace(
					stateAtom,
					CmpAtom("respTerm?curTerm", "p1.Term", "r.currentTerm"),
					CmpAtom("reqTerm?curTerm", "p0.Term", "r.currentTerm"),
					CmpAtom("respTerm?reqTerm", "p1.Term", "p0.Term"),
					GhostAtom("window", "not passed", "passed"),
				)
				a := NewAnalysis(p, sp)
				h := h
				a.Hook = func(a *Analysis, f *Frame, in ssa.Instruction, st State) State {
					pre := sp.Filter(st, 4, 1<<0)
					if pre.IsEmpty() {
						return st
					}
					if ret, ok := exitPoint(in); ok && f.Parent == nil && returnedError(ret) == "nil" {
						n := instrOrdinal(ret, func(x ssa.Instruction) bool { _, ok := x.(*ssa.Return); return ok })
						a.Observe(fmt.Sprintf("reply returned at return #%d of %s", n, h), f, in, pre)
					}
					if op, _ := isMutexOp(callCommonOf(in)); (op == "Mutex.Unlock" || op == "Cond.Wait") && f.Parent == nil {
						if _, isDefer := in.(*ssa.Defer); !isDefer && !a.AtRunDefers {
							n := instrOrdinal(in, func(x ssa.Instruction) bool {
								o, _ := isMutexOp(callCommonOf(x))
								return o == "Mutex.Unlock" || o == "Cond.Wait"
							})
							a.Observe(fmt.Sprintf("first release of the mutex (%s #%d) in %s", op, n, h), f, in, pre)
						}
					}
					return st
				}
				a.Post = func(a *Analysis, f *Frame, in ssa.Instruction, st State) State {
					if op, _ := isMutexOp(callCommonOf(in)); op == "Mutex.Unlock" || op == "Cond.Wait" {
						if _, isDefer := in.(*ssa.Defer); !isDefer && !a.AtRunDefers {
							return sp.Assign(st, 4, 1)
						}
					}
					return st
				}
				a.RunFrame(NewRootFrame(root), sp.Assign(sp.Top(), 4, 0))
				cand, pre := enumIdx(stateAtom, "Candidate"), enumIdx(stateAtom, "PreCandidate")
				obs := evalObs(a, id, a.SortedObs(), func(o *Observation, pt int) bool {
					if sp.Val(pt, 3) == GT {
						return true // the reply tells the sender that it is stale
					}
					s := sp.Val(pt, 0)
					return s != cand && s != pre
				}, []int{0, 3}, "a node that recognises the leader of its term is no longer a (pre)candidate")
				if len(obs) == 0 {
					obs = []Obligation{{Rule: id, Construct: "error-free returns of " + h, Verdict: Undecided, Detail: "no observation point found"}}
				}
				out = append(out, obs...)
			}
			return out
		},
	}
}

// ruleApplyWait: C15 APPLY-WAIT.
//
// applyCond is signalled only when the commit index grows (an edge), so the apply loop may sleep on it only when it
// has established, in the same critical section, that nothing is left to apply (lastApplied ≥ commitIndex): a
// broadcast that fires while the loop is not waiting (before it first reaches the wait after Start, or while it
// holds the mutex) is otherwise lost, and what is committed is not applied until the commit index moves again — on
// an idle cluster, never. (The other four loops wait unconditionally too, but their conditions are re-signalled
// periodically or they hold the mutex across their whole body; only this one is edge-triggered.)
func ruleApplyWait() *Rule {
	const id = "APPLY-WAIT"
	return &Rule{
		ID: id,
		Text: "In applyLoop every Cond.Wait happens only with lastApplied ≥ commitIndex established in the same critical section (or after the node was seen shut down): " +
			"the loop never goes to sleep on an edge-triggered signal while committed entries are waiting to be applied; " +
			"(WAKE) and never after advancing lastApplied without a Broadcast on applyCond since: the InstallSnapshot handler waits on that condition for lastApplied to reach the snapshot's last index.",
		Floor: 1,
		Run: func(p *Program) []Obligation {
			root := p.Func("(*Raft).applyLoop")
			if root == nil {
				return missing(id, "(*Raft).applyLoop")
			}
			stateAtom := p.StateAtom()
			// (WAKE) other code waits on the same condition for lastApplied to reach an index (the InstallSnapshot handler,
			// when the log already holds the snapshot's last entry); the commit-index signal wakes it BEFORE the entries are
			// applied, so the apply loop itself must signal after it has advanced lastApplied and before it sleeps again
			sp := NewSpace(CmpAtom("lastApplied?commitIndex", "r.lastApplied", "r.commitIndex"), stateAtom, GhostAtom("appliedSinceSignal", "no", "yes"))
			lastApplied := p.Field("Raft.lastApplied")
			applyCond := p.Field("Raft.applyCond")
			a := NewAnalysis(p, sp)
			a.Hook = func(a *Analysis, f *Frame, in ssa.Instruction, st State) State {
				if op, _ := isMutexOp(callCommonOf(in)); op == "Cond.Wait" && f.Parent == nil {
					n := instrOrdinal(in, func(x ssa.Instruction) bool { o, _ := isMutexOp(callCommonOf(x)); return o == "Cond.Wait" })
					a.Observe("Cond.Wait"+ordSuffix(n)+" in "+chainKey(f), f, in, st)
				}
				return st
			}
			a.Post = func(a *Analysis, f *Frame, in ssa.Instruction, st State) State {
				if s, fld := storeField(in); s != nil && fld == lastApplied {
					return sp.Assign(st, 2, 1)
				}
				if c, ok := in.(*ssa.Call); ok {
					if callee := c.Common().StaticCallee(); callee != nil && callee.Name() == "Broadcast" && len(c.Common().Args) == 1 {
						if u, ok := c.Common().Args[0].(*ssa.UnOp); ok {
							if fa, ok := u.X.(*ssa.FieldAddr); ok && fieldOf(fa.X.Type(), fa.Field) == applyCond {
								return sp.Assign(st, 2, 0)
							}
						}
					}
				}
				return st
			}
			a.RunFrame(NewRootFrame(root), sp.Assign(sp.Top(), 2, 0))
			sd := enumIdx(stateAtom, "Shutdown")
			out := evalObs(a, id, a.SortedObs(), func(_ *Observation, pt int) bool {
				return (sp.Val(pt, 0) != LT || sp.Val(pt, 1) == sd) && sp.Val(pt, 2) == 0
			}, []int{0, 2}, "the apply loop sleeps only when nothing committed is left to apply, and after it has signalled what it applied")
			if len(out) == 0 {
				return []Obligation{{Rule: id, Construct: "Cond.Wait in (*Raft).applyLoop", Verdict: AnchorLost, Detail: "no wait found"}}
			}
			return out
		},
	}
}

// ruleRestoreReconcile: C14 RESTORE-RECONCILE.
//
// InstallSnapshot publishes the received snapshot (Close) before it discards a log that does not match it; a kill in
// between leaves a visible snapshot next to a log that does not reach its last index (or holds another term there).
// restore() takes lastApplied/commitIndex/boundary from the snapshot; if it leaves such a log as it is, the node
// rejects AppendEntries after the boundary (log too short, hint below the boundary) AND the snapshot the leader then
// sends (nothing new), for ever. So whenever restore() has loaded a snapshot, it returns successfully only with the
// log in line with it: the log contains the snapshot's last entry with the snapshot's last term, or does not contain
// that index but reaches it (compacted there or beyond), or it was discarded to (index, term) of the snapshot.
func ruleRestoreReconcile() *Rule {
	const id = "RESTORE-RECONCILE"
	return &Rule{
		ID: id,
		Text: "restore() returns successfully after loading a snapshot labelled (I, T) only if Log.DiscardEntries(I, T) was executed, or the log holds an entry at I whose term is T, " +
			"or the log does not contain I but LastIndex() ≥ I: a log that an interrupted snapshot installation left behind is reconciled at start-up.",
		Floor: 1,
		Run: func(p *Program) []Obligation {
			fn := p.Func("(*Raft).restore")
			lii, lit := p.Field("Raft.lastIncludedIndex"), p.Field("Raft.lastIncludedTerm")
			if fn == nil || lii == nil || lit == nil {
				return missing(id, "(*Raft).restore")
			}
			mIdx, mTerm := "", ""
			p.discover(fn, func(a *Analysis, f *Frame, in ssa.Instruction) {
				if f.Parent != nil {
					return
				}
				if s, fld := storeField(in); s != nil && fld == lii {
					mIdx = ValueName(p.Canon(f, s.Val).S)
				} else if s != nil && fld == lit {
					mTerm = ValueName(p.Canon(f, s.Val).S)
				}
			})
			if mIdx == "" || mTerm == "" {
				return []Obligation{{Rule: id, Construct: "snapshot label adopted in (*Raft).restore", Pos: p.Pos(fn.Pos()), Verdict: AnchorLost, Detail: "restore() does not set the snapshot boundary"}}
			}
			entry := "r.log.GetEntry(" + mIdx + ")#0"
			sp := NewSpace(
				CmpAtom("logEnd?label", "r.log.LastIndex()", mIdx),
				BoolAtom("containsLabel", "r.log.Contains("+mIdx+")"),
				CmpAtom("entryAtLabel?nil", entry, "nil"),
				CmpAtom("termAtLabel?labelTerm", entry+".Term", mTerm),
				GhostAtom("discardedToLabel", "no", "yes"),
				GhostAtom("snapshotLoaded", "no", "yes"),
			)
			a := NewAnalysis(p, sp)
			a.Post = func(a *Analysis, f *Frame, in ssa.Instruction, st State) State {
				if s, fld := storeField(in); s != nil && fld == lii && f.Parent == nil {
					return sp.Assign(st, 5, 1)
				}
				if iface, m, c := invokeOf(in); iface == "Log" && m == "DiscardEntries" {
					if ValueName(p.Canon(f, c.Args[0]).S) == mIdx && ValueName(p.Canon(f, c.Args[1]).S) == mTerm {
						return sp.Assign(st, 4, 1)
					}
					return sp.Assign(st, 4, 0)
				}
				return st
			}
			a.Hook = func(a *Analysis, f *Frame, in ssa.Instruction, st State) State {
				if ret, ok := exitPoint(in); ok && f.Parent == nil && returnedError(ret) == "nil" {
					if loaded := sp.Filter(st, 5, 1<<1); !loaded.IsEmpty() {
						a.Observe("successful return of (*Raft).restore after a snapshot was loaded", f, in, loaded)
					}
				}
				return st
			}
			a.RunFrame(NewRootFrame(fn), sp.Assign(sp.Assign(sp.Top(), 4, 0), 5, 0))
			out := evalObs(a, id, a.SortedObs(), func(_ *Observation, pt int) bool {
				if sp.Val(pt, 4) == 1 {
					return true
				}
				// Contains(I) and GetEntry(I) != nil are two views of one fact: valuations in which they disagree do
				// not occur (the code tests one of them; the other atom is unconstrained)
				present := sp.Val(pt, 1) == 1
				if present != (sp.Val(pt, 2) == GT) {
					return true
				}
				if present {
					return sp.Val(pt, 3) == EQ
				}
				return sp.Val(pt, 0) != LT
			}, []int{0, 1, 3, 4}, "the log is in line with the snapshot that was loaded (or was discarded to its label)")
			if len(out) == 0 {
				return []Obligation{{Rule: id, Construct: "successful return of (*Raft).restore after a snapshot was loaded", Pos: p.Pos(fn.Pos()), Verdict: AnchorLost, Detail: "no such return found"}}
			}
			return out
		},
	}
}

// rulePartialReset: C10/C11 PARTIAL-RESET.
//
// A partially received snapshot (r.snapshot) belongs to the leader and term it is being received from. The handler
// itself only discards it when a LARGER label arrives (known finding D10), so what keeps the bytes of two different
// snapshots from being mixed in one file across a leader change is that every move to the follower role (which is what
// a new term or a new leader causes) drops the partial file, unconditionally — also when the node was not a leader.
func rulePartialReset() *Rule {
	const id = "PARTIAL-RESET"
	return &Rule{
		ID: id,
		Text: "Every activation of becomeFollower ends with r.snapshot == nil (the partially received snapshot is discarded on every term/leader change, whatever the role was): " +
			"a new leader's chunks must never extend the partial file of its predecessor's snapshot. takeSnapshot, once it has compacted the log to its new snapshot, returns with r.snapshot == nil as well.",
		Floor: 3,
		Run: func(p *Program) []Obligation {
			bf := p.Func("(*Raft).becomeFollower")
			if bf == nil {
				return missing(id, "(*Raft).becomeFollower")
			}
			var out []Obligation
			seen := map[string]bool{}
			for _, root := range p.Roots() {
				reach := false
				p.discover(root, func(a *Analysis, f *Frame, in ssa.Instruction) {
					if f.Fn == bf {
						reach = true
					}
				})
				if !reach {
					continue
				}
				sp := NewSpace(CmpAtom("partialSnapshot?nil", "r.snapshot", "nil"))
				a := NewAnalysis(p, sp)
				a.Hook = func(a *Analysis, f *Frame, in ssa.Instruction, st State) State {
					if _, ok := in.(*ssa.Return); ok && f.Fn == bf {
						a.Observe("end of becomeFollower in "+chainKey(f), f, in, st)
					}
					return st
				}
				a.Run(root, nil)
				for _, o := range a.SortedObs() {
					if seen[o.Key] {
						continue
					}
					seen[o.Key] = true
					out = append(out, evalObs(a, id, []*Observation{o}, func(_ *Observation, pt int) bool { return sp.Val(pt, 0) == EQ }, nil,
						"the partially received snapshot has been dropped")...)
				}
			}
			if len(out) == 0 {
				return missing(id, "a call of (*Raft).becomeFollower")
			}
			// ... and a local snapshot that has been published and adopted (the log compacted to it) leaves no partial file
			// of an incoming one either: the directory of the incoming snapshot was created BEFORE the local one was, so once
			// completed it would sort before it and SnapshotFile() would hand the installer the local, older snapshot.
			if ts := p.Func("(*Raft).takeSnapshot"); ts != nil {
				sp := NewSpace(CmpAtom("partialSnapshot?nil", "r.snapshot", "nil"), GhostAtom("compacted", "no", "yes"))
				a := NewAnalysis(p, sp)
				a.Hook = func(a *Analysis, f *Frame, in ssa.Instruction, st State) State {
					if iface, m, _ := invokeOf(in); iface == "Log" && m == "Compact" && f.Parent == nil {
						return sp.Assign(st, 1, 1)
					}
					if _, ok := in.(*ssa.Return); ok && f.Parent == nil {
						a.Observe("end of takeSnapshot after the log was compacted to the new snapshot", f, in, st)
					}
					return st
				}
				a.RunFrame(NewRootFrame(ts), sp.Filter(sp.Top(), 1, 1))
				out = append(out, evalObs(a, id, a.SortedObs(), func(_ *Observation, pt int) bool { return sp.Val(pt, 1) == 0 || sp.Val(pt, 0) == EQ }, nil,
					"once the log is compacted to a local snapshot, no partially received snapshot is kept")...)
			}
			return out
		},
	}
}
