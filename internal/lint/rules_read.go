package lint

import (
	"fmt"
	"strings"

	"golang.org/x/tools/go/ssa"
)

func (p *Program) opTypeVals() ([]int64, []string) {
	names := []string{"Replicated", "LinearizableReadOnly", "LeaseBasedReadOnly"}
	var vals []int64
	var labels []string
	for _, n := range names {
		if v, ok := p.ConstVal(n); ok {
			vals = append(vals, v)
			labels = append(labels, n)
		}
	}
	return vals, labels
}

// ruleConfirmCount: C05/C09/C17 CONFIRM-COUNT, VERIFY-ON-QUORUM, LEASE-RENEW.
func ruleConfirmCount() *Rule {
	const id = "CONFIRM-QUORUM"
	return &Rule{
		ID: id,
		Text: "(CONFIRM-COUNT) In sendAppendEntries the per-round confirmation counter is incremented only when, after the unlock window, state = Leader ∧ the responder is a member and a voter ∧ ¬(response.Term > currentTerm); " +
			"the counter is fresh per call of sendAppendEntriesToPeers and starts at 1 only if this node is a voter (on an edge taken when IsVoter[self] holds), at 0 otherwise. " +
			"(VERIFY-ON-QUORUM, LEASE-RENEW) pending reads are marked quorum-verified and the lease is renewed only from tryApplyReadOnlyOperations, and that is reached only with hasQuorum(counter) of a leader after the window, or in the single-voter cluster.",
		Floor: 4,
		Run: func(p *Program) []Obligation {
			root := p.Func("(*Raft).sendAppendEntries")
			hasQuorum := p.Func("(*Raft).hasQuorum")
			if root == nil || hasQuorum == nil {
				return missing(id, "(*Raft).sendAppendEntries")
			}
			var out []Obligation
			// discovery in sendAppendEntries: response.Term term, hasQuorum strings
			respTerm := ""
			reqTerm := ""
			var quorumS []string
			p.discover(root, func(a *Analysis, f *Frame, in ssa.Instruction) {
				if s, fld := storeField(in); s != nil && fld == p.Field("AppendEntriesRequest.Term") && f.Parent == nil {
					if loc := p.Canon(f, s.Addr).S; strings.HasPrefix(loc, "&") {
						reqTerm = loc[1:]
					}
				}
				if x, y, ok := p.condPair(f, in); ok && f.Parent == nil {
					// (the term of the REPLY; the request's own term is compared with currentTerm too)
					if y == "r.currentTerm" && strings.HasSuffix(x, ".Term") && !strings.HasPrefix(x, "r.") && x != reqTerm {
						respTerm = x
					} else if x == "r.currentTerm" && strings.HasSuffix(y, ".Term") && !strings.HasPrefix(y, "r.") && y != reqTerm {
						respTerm = y
					}
				}
				if c, ok := in.(*ssa.Call); ok && c.Common().StaticCallee() == hasQuorum {
					s := p.Canon(f, c).S
					for _, q := range quorumS {
						if q == s {
							return
						}
					}
					quorumS = append(quorumS, s)
				}
			})
			stateAtom := p.StateAtom()
			atoms := []*Atom{stateAtom,
				BoolAtom("responderIsMember", "r.configuration.Members[p0]#1"),
				BoolAtom("responderIsVoter", "r.configuration.IsVoter[p0]"),
				BoolAtom("singleVoterCluster", "r.isSingleServerCluster()"),
			}
			iStale := -1
			if respTerm != "" {
				iStale = len(atoms)
				atoms = append(atoms, CmpAtom("respTerm?curTerm", respTerm, "r.currentTerm"))
			}
			iReq := -1
			if reqTerm != "" {
				iReq = len(atoms)
				atoms = append(atoms, CmpAtom("curTerm?reqTerm", "r.currentTerm", reqTerm))
			}
			qBase := len(atoms)
			for k, q := range quorumS {
				if k >= 2 {
					break
				}
				atoms = append(atoms, BoolAtom(fmt.Sprintf("quorum%d", k+1), q))
			}
			verFld := p.Field("Operation.quorumVerified")
			renewFns := leaseRenewFns(p)
			tryFn := p.Func("(*Raft).tryApplyReadOnlyOperations")
			L := enumIdx(stateAtom, "Leader")
			run := func(root *ssa.Function) {
				sp := NewSpace(atoms...)
				a := NewAnalysis(p, sp)
				a.Hook = func(a *Analysis, f *Frame, in ssa.Instruction, st State) State {
					if s, ok := in.(*ssa.Store); ok && f.Parent == nil && f.Fn == p.Func("(*Raft).sendAppendEntries") {
						if par, ok := s.Addr.(*ssa.Parameter); ok {
							n := instrOrdinal(in, func(x ssa.Instruction) bool {
								sx, ok := x.(*ssa.Store)
								return ok && sx.Addr == par
							})
							a.Observe("increment of confirmation counter *"+par.Name()+ordSuffix(n)+" in "+chainKey(f), f, in, st).Extra["kind"] = "count"
						}
					}
					if c, ok := in.(*ssa.Call); ok {
						callee := c.Common().StaticCallee()
						if callee != nil && renewFns[callee] {
							o := a.Observe("call "+FuncName(callee)+" in "+chainKey(f), f, in, st)
							o.Extra["kind"] = "verify"
							o.Extra["fn"] = FuncName(f.Fn)
						}
					}
					// the marking itself, by its effect (whatever the helper is called)
					if s, fld := storeField(in); s != nil && fld != nil && fld == verFld {
						if b, ok := constBool(s.Val); ok && b {
							o := a.Observe("store Operation.quorumVerified := true in "+chainKey(f), f, in, st)
							o.Extra["kind"] = "verify"
							o.Extra["fn"] = "elsewhere"
							if strings.Contains(chainKey(f), "(*Raft).tryApplyReadOnlyOperations") {
								o.Extra["fn"] = "(*Raft).tryApplyReadOnlyOperations"
							}
						}
					}
					return st
				}
				a.Run(root, nil)
				for _, o := range a.SortedObs() {
					if o.Extra["kind"] == "verify" && o.Extra["fn"] != "(*Raft).tryApplyReadOnlyOperations" {
						out = append(out, Obligation{Rule: id, Construct: o.Key, Pos: o.Pos, Verdict: Violated,
							Detail: "reads are marked verified / the lease is renewed outside tryApplyReadOnlyOperations"})
						continue
					}
					out = append(out, evalObs(a, id, []*Observation{o}, func(o *Observation, pt int) bool {
						if o.Extra["kind"] == "count" {
							if sp.Val(pt, 0) != L || sp.Val(pt, 1) != 1 || sp.Val(pt, 2) != 1 {
								return false
							}
							// the reply must answer a request of the CURRENT term: a reply to a request sent
							// under an earlier leadership of this node confirms nothing about this one
							if iReq < 0 || sp.Val(pt, iReq) != EQ {
								return false
							}
							return iStale < 0 || sp.Val(pt, iStale) != GT
						}
						if sp.Val(pt, 3) == 1 {
							return true
						}
						if sp.Val(pt, 0) != L {
							return false
						}
						for i := qBase; i < len(atoms); i++ {
							if sp.Val(pt, i) == 1 {
								return true
							}
						}
						return false
					}, nil, map[string]string{"count": "a reply confirms leadership only if it answers a request of the current term, comes from a current voter and the node is still leader", "verify": "leadership confirmed (reads verified, lease renewed) only on a voter quorum of a leader, or as the single voter"}[o.Extra["kind"]])...)
				}
			}
			// every root from which tryApplyReadOnlyOperations or the counter increment is reachable
			for _, r := range p.Roots() {
				reach := r == root
				if !reach && tryFn != nil {
					p.discover(r, func(a *Analysis, f *Frame, in ssa.Instruction) {
						if f.Fn == tryFn {
							reach = true
						}
					})
				}
				if reach {
					run(r)
				}
			}
			out = append(out, freshCounterMode(p, id, "(*Raft).sendAppendEntriesToPeers", "(*Raft).sendAppendEntries", 2, true)...)
			out = append(out, counterNotForwarded(p, id, "(*Raft).sendAppendEntries", 2)...)
			out = append(out, spawnOnlyForOthers(p, id, "(*Raft).sendAppendEntriesToPeers", root)...)
			out = append(out, everyReplyCounts(p, id)...)
			return out
		},
	}
}

// ruleReadServe: C05 READ-SERVE (RS1-RS3), C17 LEASE-SERVE.
func ruleReadServe() *Rule {
	const id = "READ-SERVE"
	return &Rule{
		ID: id,
		Text: "(RS1) readOnlyLoop selects reads to serve only with state = Leader ∧ committedThisTerm(), passing r.lastApplied read in the same critical section; " +
			"(RS2) a pending read is selected only if readIndex ≤ applyIndex and, for a linearizable read, quorumVerified; it is removed from the pending table when selected; " +
			"(RS3) the operation handed to StateMachine.Apply in readOnlyLoop and the channel answered are a key/value pair of the selected map; " +
			"(LEASE-SERVE) at the unlock that opens each Apply window a lease-based read is served only with lease.isValid(), otherwise it is answered with an error.",
		Floor: 4,
		Run: func(p *Program) []Obligation {
			root := p.Func("(*Raft).readOnlyLoop")
			sel := p.Func("(*operationManager).appliableReadOnlyOperations")
			if root == nil || sel == nil {
				return missing(id, "(*Raft).readOnlyLoop / appliableReadOnlyOperations")
			}
			var out []Obligation
			// RS1 + LEASE-SERVE in readOnlyLoop
			opType := ""
			p.discover(root, func(a *Analysis, f *Frame, in ssa.Instruction) {
				if x, _, ok := p.condPair(f, in); ok && f.Parent == nil && strings.HasSuffix(x, ".OperationType") {
					opType = x
				}
			})
			stateAtom := p.StateAtom()
			atoms := []*Atom{stateAtom, BoolAtom("committedThisTerm", "r.committedThisTerm()"), BoolAtom("leaseValid", "r.operationManager.leaderLease.isValid()")}
			iOp := -1
			var opAtom *Atom
			if opType != "" {
				v, l := p.opTypeVals()
				opAtom = EnumAtom("opType", opType, v, l)
				iOp = len(atoms)
				atoms = append(atoms, opAtom)
			}
			iLatch := len(atoms)
			atoms = append(atoms, GhostAtom("leaseOkAtLastUnlock", "no", "yes"))
			sp := NewSpace(atoms...)
			a := NewAnalysis(p, sp)
			a.NoInline = func(callee *ssa.Function) bool { return callee == sel }
			nApply := 0
			leaseIdx := -1
			if opAtom != nil {
				leaseIdx = enumIdx(opAtom, "LeaseBasedReadOnly")
			}
			a.Hook = func(a *Analysis, f *Frame, in ssa.Instruction, st State) State {
				if c, ok := in.(*ssa.Call); ok && c.Common().StaticCallee() == sel && f.Parent == nil {
					o := a.Observe("RS1 call appliableReadOnlyOperations in "+chainKey(f), f, in, st)
					o.Extra["arg"] = p.Canon(f, c.Common().Args[1]).S
				}
				if ci, ok := in.(ssa.CallInstruction); ok {
					if _, isDefer := in.(*ssa.Defer); isDefer && !a.AtRunDefers {
						return st
					}
					if op, recv := isMutexOp(ci.Common()); op == "Mutex.Unlock" && isNodeMutex(recv) {
						// per concrete state: was serving allowed when the mutex was released?
						return sp.Map(st, iLatch, func(pt, old int) uint32 {
							if iOp >= 0 && (sp.Val(pt, iOp) != leaseIdx || sp.Val(pt, 2) == 1) {
								return 1 << 1
							}
							return 1 << 0
						})
					}
				}
				if iface, m, _ := invokeOf(in); iface == "StateMachine" && m == "Apply" {
					nApply++
					n := instrOrdinal(in, func(x ssa.Instruction) bool { i, mm, _ := invokeOf(x); return i == "StateMachine" && mm == "Apply" })
					a.Observe("LEASE-SERVE call StateMachine.Apply"+ordSuffix(n)+" in "+chainKey(f), f, in, st)
				}
				return st
			}
			a.RunFrame(NewRootFrame(root), sp.Filter(sp.Top(), iLatch, 1))
			L := enumIdx(stateAtom, "Leader")
			for _, o := range a.SortedObs() {
				if strings.HasPrefix(o.Key, "RS1") {
					obs := evalObs(a, id, []*Observation{o}, func(_ *Observation, pt int) bool { return sp.Val(pt, 0) == L && sp.Val(pt, 1) == 1 }, []int{0, 1},
						"reads are selected only by a leader that has committed an entry of its term")
					if o.Extra["arg"] != "r.lastApplied" {
						obs[0].Verdict = Violated
						obs[0].Detail = "the apply index handed to the selection is " + o.Extra["arg"] + ", must be r.lastApplied read in the same critical section"
					}
					out = append(out, obs...)
					continue
				}
				if iOp < 0 {
					out = append(out, Obligation{Rule: id, Construct: o.Key, Pos: o.Pos, Verdict: Violated,
						Detail: "no test of the operation type guards the serve: a lease-based read is served without looking at the lease"})
					continue
				}
				out = append(out, evalObs(a, id, []*Observation{o}, func(_ *Observation, pt int) bool { return sp.Val(pt, iLatch) == 1 }, []int{iLatch},
					"a lease-based read is applied only if the lease was valid when the mutex was released for it")...)
			}
			if nApply == 0 {
				out = append(out, missing(id, "unlock window containing StateMachine.Apply in (*Raft).readOnlyLoop")...)
			}
			out = append(out, readSelect(p, id, sel)...)
			out = append(out, readServeProvenance(p, id, root, sel)...)
			return out
		},
	}
}

// readSelect: RS2 inside appliableReadOnlyOperations.
func readSelect(p *Program, id string, sel *ssa.Function) []Obligation {
	// discover the range variable's field terms
	var typ, verified, readIdx string
	p.discover(sel, func(a *Analysis, f *Frame, in ssa.Instruction) {
		if x, y, ok := p.condPair(f, in); ok {
			for _, s := range []string{x, y} {
				switch {
				case strings.HasSuffix(s, ".OperationType"):
					typ = s
				case strings.HasSuffix(s, ".readIndex"):
					readIdx = s
				}
			}
		}
		if iff, ok := in.(*ssa.If); ok {
			s := strings.TrimPrefix(p.Canon(f, iff.Cond).S, "!")
			if strings.HasSuffix(s, ".quorumVerified") {
				verified = s
			}
		}
	})
	key := "RS2 selection of a pending read in (*operationManager).appliableReadOnlyOperations"
	if typ == "" || readIdx == "" {
		return []Obligation{{Rule: id, Construct: key, Pos: p.Pos(sel.Pos()), Verdict: Violated,
			Detail: "the selection does not test the operation type and/or readIndex ≤ applyIndex"}}
	}
	v, l := p.opTypeVals()
	opAtom := EnumAtom("opType", typ, v, l)
	atoms := []*Atom{opAtom, CmpAtom("readIndex?applyIndex", readIdx, "p0")}
	iV := -1
	if verified != "" {
		iV = len(atoms)
		atoms = append(atoms, BoolAtom("quorumVerified", verified))
	}
	deleted := GhostAtom("removedFromPending", "no", "yes")
	iDel := len(atoms)
	atoms = append(atoms, deleted)
	sp := NewSpace(atoms...)
	a := NewAnalysis(p, sp)
	pendingFld := p.Field("operationManager.pendingReadOnly")
	nSel := 0
	a.Hook = func(a *Analysis, f *Frame, in ssa.Instruction, st State) State {
		if mu, ok := in.(*ssa.MapUpdate); ok {
			// insertion into the result map (a map made in this function)
			if _, ok := mu.Map.(*ssa.MakeMap); ok {
				nSel++
				a.Observe(key, f, in, st)
			}
		}
		if c, ok := in.(*ssa.Call); ok {
			if b, ok := c.Common().Value.(*ssa.Builtin); ok && b.Name() == "delete" {
				if t := p.Canon(f, c.Common().Args[0]); pendingFld != nil && t.Fields[pendingFld] {
					return sp.Assign(st, iDel, 1)
				}
			}
		}
		if _, ok := in.(*ssa.Next); ok {
			// next iteration: a new operation
			return sp.Assign(st, iDel, 0)
		}
		return st
	}
	entry := sp.Filter(sp.Top(), iDel, 1)
	a.RunFrame(NewRootFrame(sel), entry)
	lin, lease := enumIdx(opAtom, "LinearizableReadOnly"), enumIdx(opAtom, "LeaseBasedReadOnly")
	out := evalObs(a, id, a.SortedObs(), func(_ *Observation, pt int) bool {
		t := sp.Val(pt, 0)
		if t != lin && t != lease {
			return false
		}
		if sp.Val(pt, 1) == GT {
			return false
		}
		if t == lin && (iV < 0 || sp.Val(pt, iV) != 1) {
			return false
		}
		return true
	}, nil, "a read is selected only if readIndex ≤ applyIndex and, when linearizable, quorum-verified")
	if nSel == 0 {
		return missing(id, "insertion into the selected map in appliableReadOnlyOperations")
	}
	// removal from the pending table: after the insertion, before the next iteration
	del := Obligation{Rule: id, Construct: "RS2 selected read removed from pending table in (*operationManager).appliableReadOnlyOperations", Pos: p.Pos(sel.Pos())}
	hasDelete := false
	for _, b := range sel.Blocks {
		for _, in := range b.Instrs {
			if c, ok := in.(*ssa.Call); ok {
				if bi, ok := c.Common().Value.(*ssa.Builtin); ok && bi.Name() == "delete" {
					// same block as an insertion
					for _, y := range b.Instrs {
						if mu, ok := y.(*ssa.MapUpdate); ok {
							if _, ok := mu.Map.(*ssa.MakeMap); ok {
								hasDelete = true
							}
						}
					}
				}
			}
		}
	}
	if hasDelete {
		del.Verdict, del.Detail = Discharged, "delete(pendingReadOnly, op) accompanies the selection"
	} else {
		del.Verdict, del.Detail = Violated, "a selected read stays in the pending table: it would be served again (and answered twice) by a later pass"
	}
	return append(out, del)
}

// readServeProvenance: RS3 the operation applied and the channel answered come from the selected map.
func readServeProvenance(p *Program, id string, root, sel *ssa.Function) []Obligation {
	var out []Obligation
	n := 0
	for _, b := range root.Blocks {
		for _, in := range b.Instrs {
			iface, m, c := invokeOf(in)
			if iface != "StateMachine" || m != "Apply" {
				continue
			}
			n++
			ob := Obligation{Rule: id, Construct: "RS3 operation handed to StateMachine.Apply" + ordSuffix(n) + " in (*Raft).readOnlyLoop", Pos: p.InstrPos(in)}
			arg := c.Args[0]
			ex, ok := arg.(*ssa.Extract)
			var rng *ssa.Range
			if ok && ex.Index == 1 {
				if nx, ok := ex.Tuple.(*ssa.Next); ok {
					rng, _ = nx.Iter.(*ssa.Range)
				}
			}
			if rng == nil {
				ob.Verdict, ob.Detail = Violated, "the operation applied is not a key of the map selected by appliableReadOnlyOperations"
				out = append(out, ob)
				continue
			}
			call, ok := rng.X.(*ssa.Call)
			if !ok || call.Common().StaticCallee() != sel {
				ob.Verdict, ob.Detail = Violated, "the loop that serves reads does not range over the result of appliableReadOnlyOperations"
				out = append(out, ob)
				continue
			}
			ob.Verdict, ob.Detail = Discharged, "key of the selected map"
			out = append(out, ob)
		}
	}
	if n == 0 {
		return missing(id, "StateMachine.Apply in (*Raft).readOnlyLoop")
	}
	return out
}

// ruleReadIndex: C05/C17 READ-INDEX.
func ruleReadIndex() *Rule {
	const id = "READ-INDEX"
	return &Rule{
		ID: id,
		Text: "The value recorded in Operation.readIndex when a read-only operation is registered is r.commitIndex only on paths where committedThisTerm() holds; " +
			"otherwise it must be at least the end of the log (r.log.LastIndex() / NextIndex()-1), which covers every entry a previous leader may have acknowledged. The registration happens with state = Leader.",
		Floor: 1,
		Run: func(p *Program) []Obligation {
			fld := p.Field("Operation.readIndex")
			root := p.Func("(*Raft).submitReadOnlyOperation")
			if fld == nil || root == nil {
				return missing(id, "Operation.readIndex / (*Raft).submitReadOnlyOperation")
			}
			stateAtom := p.StateAtom()
			sp := NewSpace(stateAtom, BoolAtom("committedThisTerm", "r.committedThisTerm()"))
			a := NewAnalysis(p, sp)
			// leaves of the stored value: (leaf canonical, state in which the leaf is chosen)
			type leaf struct {
				s  string
				st State
			}
			var store *ssa.Store
			for _, b := range root.Blocks {
				for _, in := range b.Instrs {
					if s, f := storeField(in); s != nil && f == fld {
						store = s
					}
				}
			}
			if store == nil {
				return missing(id, "store to Operation.readIndex in (*Raft).submitReadOnlyOperation")
			}
			leaves := map[string]State{}
			val := stripConv(store.Val)
			phi, isPhi := val.(*ssa.Phi)
			a.EdgeHook = func(a *Analysis, f *Frame, from, to *ssa.BasicBlock, st State) {
				if !isPhi || f.Parent != nil || to != phi.Block() {
					return
				}
				for i, pb := range to.Preds {
					if pb == from {
						s := p.Canon(f, phi.Edges[i]).S
						leaves[s] = Union(leaves[s], st)
					}
				}
			}
			a.Hook = func(a *Analysis, f *Frame, in ssa.Instruction, st State) State {
				if in == ssa.Instruction(store) {
					a.Observe("store Operation.readIndex in "+chainKey(f), f, in, st)
					if !isPhi {
						s := p.Canon(f, store.Val).S
						leaves[s] = Union(leaves[s], st)
					}
				}
				return st
			}
			a.Run(root, nil)
			L := enumIdx(stateAtom, "Leader")
			var out []Obligation
			for _, o := range a.SortedObs() {
				ob := Obligation{Rule: id, Construct: o.Key, Pos: o.Pos}
				notLeader := sp.Where(o.State, func(pt int) bool { return sp.Val(pt, 0) != L })
				var bad []string
				for s, st := range leaves {
					ob.Facts = append(ob.Facts, "candidate value "+s+" chosen under "+strings.Join(sp.Project(st, 1), " | "))
					switch s {
					case "r.commitIndex":
						if !sp.Where(st, func(pt int) bool { return sp.Val(pt, 1) != 1 }).IsEmpty() {
							bad = append(bad, "r.commitIndex is recorded although no entry of the current term has been committed yet: the commit index of a new leader may lag behind entries its predecessor acknowledged, so the read can be served before they are applied")
						}
					case "r.log.LastIndex()", "(-1 + r.log.NextIndex())", "(r.log.NextIndex() - 1)":
					default:
						if strings.HasPrefix(s, "numeric.Max") || strings.HasPrefix(s, "max(") {
							continue
						}
						bad = append(bad, "read index "+s+" is neither the commit index of a leader that committed this term nor the end of the log")
					}
				}
				switch {
				case !notLeader.IsEmpty():
					ob.Verdict, ob.Detail = Violated, "read registered while the node may not be leader"
				case len(bad) > 0:
					ob.Verdict, ob.Detail = Violated, strings.Join(bad, "; ")
				default:
					ob.Verdict, ob.Detail = Discharged, "commit index only after a commit in this term, else the log end"
				}
				out = append(out, ob)
			}
			return out
		},
	}
}

// ruleLeaseBorn: C17 LEASE-RESET (a new lease is born expired; every leader entry installs a new manager).
func ruleLeaseBorn() *Rule {
	const id = "LEASE-RESET"
	return &Rule{
		ID: id,
		Text: "newLease sets expiration to time.Now() (born expired: it must be renewed by a quorum round before it is valid); newOperationManager builds its lease with newLease; " +
			"becomeLeader installs a fresh operationManager before anything is sent; a new lease is born expired and isValid() is time.Now().Before(expiration) (how a renewal computes the expiration is LEASE-DURATION's matter).",
		Floor: 3,
		Run: func(p *Program) []Obligation {
			var out []Obligation
			newLease := p.Func("newLease")
			expiration := p.Field("lease.expiration")
			if newLease == nil || expiration == nil {
				return missing(id, "newLease / lease.expiration")
			}
			fr := NewRootFrame(newLease)
			found := false
			for _, b := range newLease.Blocks {
				for _, in := range b.Instrs {
					if s, f := storeField(in); s != nil && f == expiration {
						found = true
						ob := Obligation{Rule: id, Construct: "initial expiration in newLease", Pos: p.InstrPos(in)}
						if v := p.Canon(fr, s.Val).S; v == "time.Now()" {
							ob.Verdict, ob.Detail = Discharged, "expiration := time.Now()"
						} else {
							ob.Verdict, ob.Detail = Violated, "a new lease starts with expiration "+v+": it may be valid before any quorum confirmed the leader"
						}
						out = append(out, ob)
					}
				}
			}
			if !found {
				out = append(out, Obligation{Rule: id, Construct: "initial expiration in newLease", Pos: p.Pos(newLease.Pos()), Verdict: Discharged, Detail: "expiration left at the zero time (expired)"})
			}
			// becomeLeader installs a fresh manager before the first send
			bl := p.Func("(*Raft).becomeLeader")
			om := p.Field("Raft.operationManager")
			nom := p.Func("newOperationManager")
			ob := Obligation{Rule: id, Construct: "fresh operationManager in (*Raft).becomeLeader", Pos: p.Pos(bl.Pos())}
			okStore := false
			if bl != nil {
				for _, b := range bl.Blocks {
					for _, in := range b.Instrs {
						if s, f := storeField(in); s != nil && f == om {
							if c, ok := s.Val.(*ssa.Call); ok && c.Common().StaticCallee() == nom && b == bl.Blocks[0] {
								okStore = true
							}
						}
					}
				}
			}
			if okStore {
				ob.Verdict, ob.Detail = Discharged, "operationManager := newOperationManager(...) in the entry block"
			} else {
				ob.Verdict, ob.Detail = Violated, "becomeLeader does not unconditionally install a fresh operationManager: a lease or pending table of an earlier leadership survives"
			}
			out = append(out, ob)
			// newOperationManager uses newLease
			ob2 := Obligation{Rule: id, Construct: "lease of a new operationManager", Pos: p.Pos(nom.Pos())}
			uses := false
			for _, b := range nom.Blocks {
				for _, in := range b.Instrs {
					if c, ok := in.(*ssa.Call); ok && c.Common().StaticCallee() == newLease {
						uses = true
					}
				}
			}
			if uses {
				ob2.Verdict, ob2.Detail = Discharged, "built by newLease"
			} else {
				ob2.Verdict, ob2.Detail = Violated, "newOperationManager does not build its lease with newLease"
			}
			out = append(out, ob2)
			return out
		},
	}
}

// spawnOnlyForOthers checks, with the interpreter, that every `go target(id, ...)` in spawner is reached only with
// id ≠ r.id: a node that sends a request to itself answers it itself and counts its own reply in the round, on top of
// the 1 the counter starts with.
func spawnOnlyForOthers(p *Program, rule, spawnerName string, target *ssa.Function) []Obligation {
	spawner := p.Func(spawnerName)
	if spawner == nil {
		return missing(rule, spawnerName)
	}
	fr := NewRootFrame(spawner)
	var keys []string
	for _, b := range spawner.Blocks {
		for _, in := range b.Instrs {
			if g, ok := in.(*ssa.Go); ok && g.Common().StaticCallee() == target {
				keys = append(keys, p.Canon(fr, g.Common().Args[1]).S)
			}
		}
	}
	if len(keys) == 0 {
		return missing(rule, "go "+FuncName(target)+" in "+spawnerName)
	}
	var atoms []*Atom
	idx := map[string]int{}
	for _, k := range keys {
		if _, ok := idx[k]; !ok {
			idx[k] = len(atoms)
			atoms = append(atoms, CmpAtom("id?self", k, "r.id"))
		}
	}
	sp := NewSpace(atoms...)
	a := NewAnalysis(p, sp)
	a.Hook = func(a *Analysis, f *Frame, in ssa.Instruction, st State) State {
		if g, ok := in.(*ssa.Go); ok && g.Common().StaticCallee() == target && f.Parent == nil {
			n := instrOrdinal(in, func(x ssa.Instruction) bool { gg, ok := x.(*ssa.Go); return ok && gg.Common().StaticCallee() == target })
			a.Observe("go "+FuncName(target)+ordSuffix(n)+" in "+spawnerName+" is spawned for other nodes only", f, in, st).Extra["key"] = p.Canon(f, g.Common().Args[1]).S
		}
		return st
	}
	a.Run(spawner, nil)
	return evalObs(a, rule, a.SortedObs(), func(o *Observation, pt int) bool { return sp.Val(pt, idx[o.Extra["key"]]) != EQ }, nil,
		"a request is never sent to the node itself (its own reply would be counted in the round)")
}
