package lint

import (
	"bufio"
	"encoding/json"
	"fmt"
	"os"
	"path/filepath"
	"regexp"
	"sort"
	"strings"
	"time"
)

// Verdicts of an obligation.
const (
	Discharged = "discharged"
	Violated   = "violated"
	Known      = "known-finding"
	Undecided  = "undecided"
	AnchorLost = "anchor-lost"
)

// Obligation is one instance of a rule on one construct of the program (DESIGN §2.3).
// Construct is semantic (function identity, role, ordinal) and never contains a line number.
type Obligation struct {
	Rule      string   `json:"rule"`
	Construct string   `json:"construct"`
	Pos       string   `json:"pos"`
	Verdict   string   `json:"verdict"`
	Detail    string   `json:"detail,omitempty"`
	Facts     []string `json:"facts,omitempty"`
	Path      []string `json:"path,omitempty"`
	// Signature identifies HOW a guard obligation is violated (the offending valuations projected on the
	// rule's atoms). A known finding may pin it, so that a different violation of the same construct is
	// still reported.
	Signature string `json:"signature,omitempty"`
}

// Rule is a named check.
type Rule struct {
	ID    string
	Text  string // the rule, in words
	Floor int    // minimum number of instances confirmed by hand on the pinned tree
	Run   func(p *Program) []Obligation
}

// RuleReport is the outcome of one rule.
type RuleReport struct {
	Rule        string       `json:"rule"`
	Text        string       `json:"text"`
	Instances   int          `json:"instances"`
	Floor       int          `json:"floor"`
	Discharged  int          `json:"discharged"`
	Violated    int          `json:"violated"`
	Known       int          `json:"known"`
	Undecided   int          `json:"undecided"`
	Obligations []Obligation `json:"obligations"`
}

// Finding is a line of KNOWN_FINDINGS.txt.
type Finding struct {
	Props     map[string]bool
	Rule      string
	Construct string
	Signature string // optional
	What      string
}

var findingRe = regexp.MustCompile(`^finding:\s+property=(\S+)\s+rule=(\S+)\s+construct="([^"]*)"(?:\s+signature="([^"]*)")?\s+::\s*(.*)$`)

// LoadFindings parses the committed known-findings file. "fixed:" lines suppress nothing.
func LoadFindings(path string) ([]Finding, error) {
	f, err := os.Open(path)
	if err != nil {
		if os.IsNotExist(err) {
			return nil, nil
		}
		return nil, err
	}
	defer f.Close()
	var out []Finding
	sc := bufio.NewScanner(f)
	sc.Buffer(make([]byte, 1<<20), 1<<20)
	for sc.Scan() {
		line := strings.TrimSpace(sc.Text())
		if !strings.HasPrefix(line, "finding:") {
			continue
		}
		m := findingRe.FindStringSubmatch(line)
		if m == nil {
			return nil, fmt.Errorf("malformed finding line: %s", line)
		}
		fd := Finding{Props: map[string]bool{}, Rule: m[2], Construct: m[3], Signature: m[4], What: m[5]}
		for _, p := range strings.Split(m[1], ",") {
			fd.Props[p] = true
		}
		out = append(out, fd)
	}
	return out, sc.Err()
}

// PropertyReport is everything one check run produced.
type PropertyReport struct {
	Property  string
	Tier      string
	Rules     []*RuleReport
	Extra     map[string]interface{}
	ExitCode  int
	Lines     []string // stdout lines (VIOLATION / KNOWN-FINDING / UNDECIDED / ANCHOR-LOST)
	NotesText []string
}

// RunRules evaluates the rules, applies the known-findings table and computes the exit code.
func RunRules(p *Program, property string, rules []*Rule, findings []Finding, reportDir string) *PropertyReport {
	rep := &PropertyReport{Property: property, Extra: map[string]interface{}{}}
	violations, undecided := 0, 0
	usedFinding := map[int]bool{}
	for _, r := range rules {
		obs := dedupe(safeRun(p, r))
		rr := &RuleReport{Rule: r.ID, Text: r.Text, Floor: r.Floor}
		sort.SliceStable(obs, func(i, j int) bool { return obs[i].Construct < obs[j].Construct })
		for i := range obs {
			o := &obs[i]
			if o.Rule == "" {
				o.Rule = r.ID
			}
			if o.Verdict == Violated {
				for k, fd := range findings {
					if fd.Rule == o.Rule && fd.Construct == o.Construct && (fd.Props[property] || property == "*") {
						if fd.Signature != "" && fd.Signature != o.Signature {
							o.Detail = strings.TrimSpace(o.Detail + " [a finding is recorded for this construct, but it is violated in a DIFFERENT way now: recorded {" + fd.Signature + "}, found {" + o.Signature + "}]")
							continue
						}
						o.Verdict = Known
						o.Detail = strings.TrimSpace(o.Detail + " [known finding: " + fd.What + "]")
						usedFinding[k] = true
						break
					}
				}
			}
			switch o.Verdict {
			case Discharged:
				rr.Discharged++
			case Violated:
				rr.Violated++
			case Known:
				rr.Known++
			default:
				rr.Undecided++
			}
			if o.Verdict != AnchorLost {
				rr.Instances++
			}
		}
		if rr.Instances < r.Floor && rr.Undecided == 0 {
			obs = append(obs, Obligation{Rule: r.ID, Construct: "coverage floor", Verdict: AnchorLost,
				Detail: fmt.Sprintf("rule matched %d instance(s), floor is %d: the rule did not find its subject", rr.Instances, r.Floor)})
			rr.Undecided++
		}
		rr.Obligations = obs
		rep.Rules = append(rep.Rules, rr)
		n := 0
		for _, o := range obs {
			switch o.Verdict {
			case Violated:
				violations++
				n++
				path := ""
				if reportDir != "" {
					dir := filepath.Join(reportDir, property)
					_ = os.MkdirAll(dir, 0o755)
					path = filepath.Join(dir, fmt.Sprintf("%s-%d.txt", r.ID, n))
					_ = os.WriteFile(path, []byte(renderObligation(property, r, o)), 0o644)
				}
				rep.Lines = append(rep.Lines, fmt.Sprintf("VIOLATION property=%s replay=%s", property, path))
				rep.Lines = append(rep.Lines, fmt.Sprintf("  rule=%s construct=%q at %s: %s", o.Rule, o.Construct, o.Pos, o.Detail))
			case Known:
				rep.Lines = append(rep.Lines, fmt.Sprintf("KNOWN-FINDING: property=%s rule=%s construct=%q at %s: %s", property, o.Rule, o.Construct, o.Pos, o.Detail))
			case Undecided:
				undecided++
				rep.Lines = append(rep.Lines, fmt.Sprintf("UNDECIDED property=%s rule=%s construct=%q at %s: %s", property, o.Rule, o.Construct, o.Pos, o.Detail))
			case AnchorLost:
				undecided++
				rep.Lines = append(rep.Lines, fmt.Sprintf("ANCHOR-LOST property=%s rule=%s construct=%q: %s", property, o.Rule, o.Construct, o.Detail))
			}
		}
	}
	switch {
	case violations > 0:
		rep.ExitCode = 1
	case undecided > 0:
		rep.ExitCode = 2
	}
	return rep
}

// dedupe merges obligations with the same construct key (the same construct reached from several
// analysis roots); the worst verdict wins.
func dedupe(obs []Obligation) []Obligation {
	rank := map[string]int{Discharged: 0, Known: 1, AnchorLost: 2, Undecided: 3, Violated: 4}
	idx := map[string]int{}
	var out []Obligation
	for _, o := range obs {
		k := o.Rule + "|" + o.Construct
		if i, ok := idx[k]; ok {
			if rank[o.Verdict] > rank[out[i].Verdict] {
				out[i] = o
			}
			continue
		}
		idx[k] = len(out)
		out = append(out, o)
	}
	return out
}

func safeRun(p *Program, r *Rule) (obs []Obligation) {
	defer func() {
		if e := recover(); e != nil {
			obs = append(obs, Obligation{Rule: r.ID, Construct: "checker", Verdict: Undecided, Detail: fmt.Sprintf("rule panicked: %v", e)})
		}
	}()
	return r.Run(p)
}

func renderObligation(property string, r *Rule, o Obligation) string {
	var b strings.Builder
	fmt.Fprintf(&b, "property:  %s\nrule:      %s\nrule text: %s\nconstruct: %s\nposition:  %s\nverdict:   %s\ndetail:    %s\n", property, r.ID, r.Text, o.Construct, o.Pos, o.Verdict, o.Detail)
	if len(o.Facts) > 0 {
		b.WriteString("facts:\n")
		for _, f := range o.Facts {
			b.WriteString("  " + f + "\n")
		}
	}
	if len(o.Path) > 0 {
		b.WriteString("path:\n")
		for _, f := range o.Path {
			b.WriteString("  " + f + "\n")
		}
	}
	return b.String()
}

// Evidence is /verif/evidence/<id>.json (EVIDENCE.schema.json, level "other").
type Evidence struct {
	PropertyID  string                 `json:"property_id"`
	Tier        string                 `json:"tier"`
	Seed        int                    `json:"seed"`
	Level       string                 `json:"level"`
	Coverage    map[string]interface{} `json:"coverage"`
	Assumptions []string               `json:"assumptions"`
	WallS       float64                `json:"wall_s"`
	Violations  int                    `json:"violations"`
}

// WriteEvidence renders the evidence file from the report.
func WriteEvidence(path string, p *Program, rep *PropertyReport, spec *PropertySpec, seed int, start time.Time) error {
	total, disch, viol, known, und := 0, 0, 0, 0, 0
	var samples []interface{}
	distinct := map[string]bool{}
	var rules []interface{}
	for _, rr := range rep.Rules {
		total += len(rr.Obligations)
		disch += rr.Discharged
		viol += rr.Violated
		known += rr.Known
		und += rr.Undecided
		for _, o := range rr.Obligations {
			distinct[o.Rule+"|"+o.Construct] = true
		}
		// keep every obligation as a sample, trimmed
		for _, o := range rr.Obligations {
			s := map[string]interface{}{"rule": o.Rule, "construct": o.Construct, "pos": o.Pos, "verdict": o.Verdict}
			if o.Detail != "" {
				s["detail"] = o.Detail
			}
			if len(o.Facts) > 0 {
				f := o.Facts
				if len(f) > 12 {
					f = append(append([]string{}, f[:12]...), fmt.Sprintf("... %d more", len(o.Facts)-12))
				}
				s["facts"] = f
			}
			samples = append(samples, s)
		}
		rules = append(rules, map[string]interface{}{
			"rule": rr.Rule, "text": rr.Text, "instances": rr.Instances, "floor": rr.Floor,
			"discharged": rr.Discharged, "violated": rr.Violated, "known_findings": rr.Known, "undecided": rr.Undecided,
		})
	}
	funcs, blocks, instrs := 0, 0, 0
	for fn := range p.InScope {
		funcs++
		blocks += len(fn.Blocks)
		for _, b := range fn.Blocks {
			instrs += len(b.Instrs)
		}
	}
	cov := map[string]interface{}{
		"explanation":           spec.Explanation,
		"decided_clause":        spec.Decided,
		"not_decided":           spec.NotDecided,
		"obligations":           total,
		"discharged":            disch,
		"violated":              viol,
		"known_findings":        known,
		"undecided":             und,
		"evaluations":           total,
		"distinct_nontrivial":   len(distinct),
		"rule":                  "one evaluation = one obligation (rule instance on a concrete construct of the current /repo source, in one calling context); distinct = distinct (rule, construct) keys; every obligation is non-trivial in that it names a construct found in the source on this run",
		"samples":               samples,
		"rules":                 rules,
		"exhaustive":            true,
		"packages_analysed":     len(p.Pkgs),
		"functions_analysed":    funcs,
		"functions_excluded":    p.Excluded,
		"excluded_files":        p.ExcludedFiles,
		"exclusion_criterion":   "functions declared in a file that imports package testing (test scaffolding compiled into the package)",
		"dead_unexported":       p.DeadDeclared,
		"dead_criterion":        "unexported declared methods that no non-test code of the module references and whose receiver type is never converted to an interface: callable from *_test.go only, not analysed",
		"blocks_analysed":       blocks,
		"instructions_analysed": instrs,
		"no_return_functions":   p.NoReturnFuncs(),
		"checker_cmd":           "bin/raftlint -property " + rep.Property + " -tier " + rep.Tier,
		"repo_dir":              p.RepoDir,
		"exit_code":             rep.ExitCode,
	}
	for k, v := range rep.Extra {
		cov[k] = v
	}
	ev := Evidence{
		PropertyID:  rep.Property,
		Tier:        rep.Tier,
		Seed:        seed,
		Level:       "other",
		Coverage:    cov,
		Assumptions: append([]string{}, spec.Assumptions...),
		WallS:       time.Since(start).Seconds(),
		Violations:  viol,
	}
	ev.Assumptions = append(ev.Assumptions, commonAssumptions...)
	data, err := json.MarshalIndent(ev, "", " ")
	if err != nil {
		return err
	}
	if err := os.MkdirAll(filepath.Dir(path), 0o755); err != nil {
		return err
	}
	return os.WriteFile(path, data, 0o644)
}

var commonAssumptions = []string{
	"go/types, go/ssa and x/tools v0.29.0 model the program faithfully",
	"logging.(*Logger).Fatal/Fatalf do not return (verified structurally: they end in os.Exit) — assumes the configured log level is at most Fatal",
	"user-supplied implementations of Log/StateStorage/SnapshotStorage/Transport/StateMachine are outside the analysis; the bundled ones are inside",
	"the step from the local structural rules to the global behavioural property is Raft's published safety argument (trusted, not re-proved)",
	"no use of package unsafe or reflection to write protocol state (field-based aliasing)",
}

// PropertySpec describes what a property's check decides.
type PropertySpec struct {
	ID          string
	Rules       []string
	Thorough    []string // additional rule ids evaluated in the thorough tier (rules of properties this one is stated in terms of)
	Explanation string
	Decided     string
	NotDecided  string
	Assumptions []string
}
