package lint

// SNAP-ORDER, RESTORE-COVER (C14) and CHUNK-BOUND (C15/C19): the storage-facing parts of raft.go.

import (
	"fmt"
	"go/token"
	"go/types"

	"golang.org/x/tools/go/ssa"
)

// invokeNamed returns the call when in is a plain call (not go/defer) of the named interface
// method ("Log.Compact").
func invokeNamed(in ssa.Instruction, names ...string) *ssa.Call {
	c, ok := in.(*ssa.Call)
	if !ok || !c.Common().IsInvoke() {
		return nil
	}
	n := calleeName(c.Common())
	for _, x := range names {
		if n == x {
			return c
		}
	}
	return nil
}

func ruleSnapOrder() *Rule {
	return &Rule{
		ID: "SNAP-ORDER",
		Text: "In (*Raft).takeSnapshot and (*Raft).InstallSnapshot, on every path: SnapshotFile.Close of the snapshot being written (the result of SnapshotStorage.NewSnapshotFile, or Raft.snapshot) with a nil result " +
			"(its failure ends in a no-return call) precedes every store to Raft.lastIncludedIndex / Raft.lastIncludedTerm, and both stores precede every Log.Compact / Log.DiscardEntries.",
		Floor: 4,
		Run: func(p *Program) []Obligation {
			obs := newObSet("SNAP-ORDER")
			for _, name := range []string{"(*Raft).takeSnapshot", "(*Raft).InstallSnapshot"} {
				snapOrder(p, obs, name)
			}
			return obs.list()
		},
	}
}

func snapOrder(p *Program, obs *obSet, fname string) {
	fn := p.Func(fname)
	lii, lit, snapFld := p.Field("Raft.lastIncludedIndex"), p.Field("Raft.lastIncludedTerm"), p.Field("Raft.snapshot")
	if fn == nil || lii == nil || lit == nil || snapFld == nil {
		obs.lost(fname + " / Raft.lastIncludedIndex / lastIncludedTerm / snapshot")
		return
	}
	var sites flowSites
	trims, closes := 0, 0
	s := &flowSpec{p: p, root: fn}
	written := func(fr *sframe, v ssa.Value) bool {
		if fieldLoad(fr, v, snapFld) {
			return true
		}
		c, _ := callOf(fr, v, 0)
		return c != nil && calleeName(c.Common()) == "SnapshotStorage.NewSnapshotFile"
	}
	closed := func(v *flowVisit) (bool, string, []*ssa.Call) {
		x, ok := stGet(v.St, "C")
		if !ok {
			return false, "no SnapshotFile.Close of the snapshot being written precedes it on this path", nil
		}
		site := sites.at(x)
		if !v.ErrNil(site.fr, site.call) {
			return false, "the result of " + siteKey(site.fr, site.call) + " is not known to be nil on this path", []*ssa.Call{site.call}
		}
		return true, "", nil
	}
	s.instr = func(v *flowVisit, in ssa.Instruction) (string, bool) {
		st := v.St
		if c := invokeNamed(in, "SnapshotStorage.NewSnapshotFile"); c != nil {
			return stDel(st, "C", "I", "T"), false
		}
		if c := invokeNamed(in, "SnapshotFile.Close"); c != nil && written(v.Fr, c.Common().Value) {
			closes++
			return stAdd(stDel(st, "C"), fmt.Sprintf("C@%d", sites.id(v.Fr, c))), false
		}
		if store, fld := storeField(in); store != nil && (fld == lii || fld == lit) {
			key := "snapshot closed before " + siteKey(v.Fr, in)
			if ok, why, cs := closed(v); ok {
				obs.ok(key, p.InstrPos(in), "the store is reached only after a successful Close of the snapshot being written")
			} else {
				v.Note("%s: store to Raft.%s", p.InstrPos(in), fld.Name())
				obs.failErr(key, p.InstrPos(in), "Raft."+fld.Name()+" is advanced although "+why+": after a crash the node would claim a snapshot that is not on disk", v.Path(), cs)
			}
			if fld == lii {
				return stAdd(st, "I"), false
			}
			return stAdd(st, "T"), false
		}
		if c := invokeNamed(in, "Log.Compact", "Log.DiscardEntries"); c != nil {
			trims++
			key := "snapshot closed and lastIncludedIndex/Term stored before " + siteKey(v.Fr, c)
			v.Note("%s: %s", p.InstrPos(c), instrLabel(c))
			ok, why, cs := closed(v)
			switch {
			case !ok:
				obs.failErr(key, p.InstrPos(c), "the log is trimmed although "+why+": a crash leaves a trimmed log with no snapshot", v.Path(), cs)
			case !stHas(st, "I"):
				obs.fail(key, p.InstrPos(c), "the log is trimmed on a path with no store to Raft.lastIncludedIndex after the snapshot was closed", v.Path())
			case !stHas(st, "T"):
				obs.fail(key, p.InstrPos(c), "the log is trimmed on a path with no store to Raft.lastIncludedTerm after the snapshot was closed", v.Path())
			default:
				obs.ok(key, p.InstrPos(c), "Close (nil result), store lastIncludedIndex, store lastIncludedTerm precede the trim on every path")
			}
			return st, false
		}
		return st, false
	}
	s.RunFromEntry("")
	if s.Overflow {
		obs.undecided("snapshot/trim order in "+fname, p.Pos(fn.Pos()), "path exploration exceeded its bound")
		return
	}
	if in := s.DeferredMatch(func(in ssa.Instruction) bool {
		if _, fld := storeField(in); fld == lii || fld == lit {
			return true
		}
		if c := invokeNamed(in, "SnapshotFile.Close"); c != nil && written(nil, c.Common().Value) {
			return true
		}
		return invokeNamed(in, "Log.Compact", "Log.DiscardEntries") != nil
	}); in != nil {
		obs.undecided("snapshot/trim order in "+fname, p.InstrPos(in), "a deferred function, or a helper beyond the inlining depth, closes the snapshot being written, advances lastIncludedIndex/Term or trims the log; the rule does not order those")
	}
	if trims == 0 {
		obs.lost("Log.Compact / Log.DiscardEntries reachable from " + fname)
	}
	if closes == 0 {
		obs.lost("SnapshotFile.Close of the snapshot being written in " + fname)
	}
}

// ---------------------------------------------------------------------------------------------
// RESTORE-COVER

func ruleRestoreCover() *Rule {
	return &Rule{
		ID: "RESTORE-COVER",
		Text: "(*Raft).restore calls Log.Open, Log.Replay, StateStorage.State and SnapshotStorage.SnapshotFile (each failure returns an error) before returning nil; stores Raft.currentTerm and Raft.votedFor from results #0/#1 of State(); " +
			"when a snapshot exists, passes it to StateMachine.Restore and stores Raft.lastIncludedIndex, commitIndex, lastApplied from its Metadata().LastIncludedIndex and Raft.lastIncludedTerm from Metadata().LastIncludedTerm; NewRaft calls restore() on the node before returning it.",
		Floor: 12,
		Run: func(p *Program) []Obligation {
			obs := newObSet("RESTORE-COVER")
			restoreCover(p, obs)
			newRaftRestores(p, obs)
			return obs.list()
		},
	}
}

func restoreCover(p *Program, obs *obSet) {
	const fname = "(*Raft).restore"
	fn := p.Func(fname)
	if fn == nil {
		obs.lost(fname)
		return
	}
	type fieldRule struct {
		spec string
		meta string // SnapshotMetadata field, or "" for State() results
		idx  int    // State() result index
	}
	rules := []fieldRule{
		{"Raft.currentTerm", "", 0},
		{"Raft.votedFor", "", 1},
		{"Raft.lastIncludedIndex", "LastIncludedIndex", 0},
		{"Raft.lastIncludedTerm", "LastIncludedTerm", 0},
		{"Raft.commitIndex", "LastIncludedIndex", 0},
		{"Raft.lastApplied", "LastIncludedIndex", 0},
	}
	byField := map[*types.Var]fieldRule{}
	for _, r := range rules {
		f := p.Field(r.spec)
		if f == nil {
			obs.lost(r.spec)
			return
		}
		byField[f] = r
	}
	calls := []string{"Log.Open", "Log.Replay", "StateStorage.State", "SnapshotStorage.SnapshotFile"}
	var sites flowSites
	var root *sframe
	returns := 0
	s := &flowSpec{p: p, root: fn, keepCond: func(fr *sframe, c ssa.Value) bool {
		b, ok := c.(*ssa.BinOp)
		return ok && (isNilConst(b.X) || isNilConst(b.Y))
	}}
	// snapshotOf: v is result #0 of SnapshotStorage.SnapshotFile()
	snapshotOf := func(fr *sframe, v ssa.Value) *ssa.Call {
		c, _ := callOf(fr, v, 0)
		if c != nil && calleeName(c.Common()) == "SnapshotStorage.SnapshotFile" {
			return c
		}
		return nil
	}
	// metaField: v is field F of Metadata() of the snapshot
	metaField := func(fr *sframe, v ssa.Value) string {
		rf, rv := resolveIn(fr, v)
		var base ssa.Value
		var fld *types.Var
		switch x := rv.(type) {
		case *ssa.UnOp:
			fa, ok := x.X.(*ssa.FieldAddr)
			if !ok {
				return ""
			}
			fld = fieldOf(fa.X.Type(), fa.Field)
			if al, ok := fa.X.(*ssa.Alloc); ok {
				base = singleStore(al)
			}
		case *ssa.Field:
			base = x.X
			if st, ok := x.X.Type().Underlying().(*types.Struct); ok {
				fld = st.Field(x.Field)
			}
		}
		if base == nil || fld == nil {
			return ""
		}
		c, cf := callOf(rf, base, -1)
		if c == nil || calleeName(c.Common()) != "SnapshotFile.Metadata" || snapshotOf(cf, c.Common().Value) == nil {
			return ""
		}
		return fld.Name()
	}
	s.instr = func(v *flowVisit, in ssa.Instruction) (string, bool) {
		if root == nil {
			root = v.Fr.root()
		}
		st := v.St
		if c := invokeNamed(in, calls...); c != nil {
			n := calleeName(c.Common())
			return stAdd(stDel(st, "call:"+n), fmt.Sprintf("call:%s@%d", n, sites.id(v.Fr, c))), false
		}
		if c := invokeNamed(in, "StateMachine.Restore"); c != nil && len(c.Common().Args) == 1 && snapshotOf(v.Fr, c.Common().Args[0]) != nil {
			return stAdd(st, fmt.Sprintf("fsm@%d", sites.id(v.Fr, c))), false
		}
		if store, fld := storeField(in); store != nil {
			r, ok := byField[fld]
			if !ok {
				return st, false
			}
			key := "provenance of " + siteKey(v.Fr, in)
			if r.meta == "" {
				c, _ := callOf(v.Fr, store.Val, r.idx)
				ex, isEx := resolve(v.Fr, store.Val).(*ssa.Extract)
				if c != nil && calleeName(c.Common()) == "StateStorage.State" && isEx && ex.Index == r.idx {
					obs.ok(key, p.InstrPos(in), fmt.Sprintf("%s := result #%d of StateStorage.State()", r.spec, r.idx))
					return stAdd(st, "set:"+r.spec), false
				}
				obs.fail(key, p.InstrPos(in), fmt.Sprintf("%s is restored from something other than result #%d of StateStorage.State()", r.spec, r.idx), v.Path(), "value: "+describe(v.Fr, store.Val))
				return st, false
			}
			got := metaField(v.Fr, store.Val)
			switch got {
			case r.meta:
				obs.ok(key, p.InstrPos(in), r.spec+" := Metadata()."+r.meta+" of the file returned by SnapshotStorage.SnapshotFile()")
				return stAdd(st, "set:"+r.spec), false
			case "":
				// restore also runs a configuration loop etc.; other stores of these fields are not expected
				obs.fail(key, p.InstrPos(in), r.spec+" is assigned something other than Metadata()."+r.meta+" of the restored snapshot", v.Path(), "value: "+describe(v.Fr, store.Val))
			default:
				obs.fail(key, p.InstrPos(in), r.spec+" is assigned Metadata()."+got+" instead of Metadata()."+r.meta, v.Path())
			}
			return st, false
		}
		ret, ok := in.(*ssa.Return)
		if !ok || v.Fr != root {
			return st, false
		}
		succ, known := successReturn(ret)
		if !known || !succ {
			return st, true
		}
		returns++
		pos := p.InstrPos(in)
		v.Note("%s: return nil", pos)
		for _, n := range calls {
			key := n + " succeeded before the nil return of " + fname
			x, has := stGet(st, "call:"+n)
			switch {
			case !has:
				obs.fail(key, pos, "nil is returned on a path that has not called "+n, v.Path())
			case !v.ErrNil(sites.at(x).fr, sites.at(x).call):
				obs.failErr(key, pos, "nil is returned although the result of "+n+" is not known to be nil", v.Path(), []*ssa.Call{sites.at(x).call})
			default:
				obs.ok(key, pos, n+" is called and its error known nil on every path to the nil return")
			}
		}
		for _, r := range rules[:2] {
			key := r.spec + " restored before the nil return of " + fname
			if stHas(st, "set:"+r.spec) {
				obs.ok(key, pos, "stored on every path to the nil return")
			} else {
				obs.fail(key, pos, "nil is returned on a path that has not restored "+r.spec+" from the state storage", v.Path())
			}
		}
		// is there a snapshot on this path?
		haveSnap, noSnap := false, false
		v.Conds(func(fr *sframe, cond ssa.Value, truth bool) {
			b, ok := cond.(*ssa.BinOp)
			if !ok {
				return
			}
			x, y := b.X, b.Y
			if isNilConst(x) {
				x, y = y, x
			}
			if !isNilConst(y) || snapshotOf(fr, x) == nil {
				return
			}
			if b.Op != token.EQL && b.Op != token.NEQ {
				return
			}
			isNil := (b.Op == token.EQL) == truth
			if isNil {
				noSnap = true
			} else {
				haveSnap = true
			}
		})
		if noSnap && !haveSnap {
			return st, true
		}
		keyF := "StateMachine.Restore with the most recent snapshot before the nil return of " + fname
		if x, has := stGet(st, "fsm"); has && v.ErrNil(sites.at(x).fr, sites.at(x).call) {
			obs.ok(keyF, pos, "when SnapshotFile() returned a file it is passed to StateMachine.Restore and the error known nil")
		} else {
			obs.fail(keyF, pos, "a snapshot exists on this path but nil is returned without a successful StateMachine.Restore of it", v.Path())
		}
		for _, r := range rules[2:] {
			key := r.spec + " restored from the snapshot metadata before the nil return of " + fname
			if stHas(st, "set:"+r.spec) {
				obs.ok(key, pos, "stored on every path to the nil return on which a snapshot exists")
			} else {
				obs.fail(key, pos, "a snapshot exists on this path but nil is returned without restoring "+r.spec+" from its metadata", v.Path())
			}
		}
		return st, true
	}
	s.RunFromEntry("")
	if s.Overflow {
		obs.undecided("recovery steps in "+fname, p.Pos(fn.Pos()), "path exploration exceeded its bound")
		return
	}
	if returns == 0 {
		obs.undecided("recovery steps in "+fname, p.Pos(fn.Pos()), "no nil return found")
	}
	// failure edges
	for _, b := range fn.Blocks {
		for _, in := range b.Instrs {
			if c := invokeNamed(in, calls...); c != nil {
				out := errorPathsReturn(p, fn, c, nil, nil)
				reportErrOutcome(p, obs, "failure of "+siteKey(nil, c)+" returns an error", c, out, "a nil return")
			}
		}
	}
}

func newRaftRestores(p *Program, obs *obSet) {
	const fname = "NewRaft"
	fn := p.Func(fname)
	if fn == nil {
		obs.lost(fname)
		return
	}
	key := "restore() on the node before it is returned by " + fname
	var sites flowSites
	var root *sframe
	returns := 0
	s := &flowSpec{p: p, root: fn, noInline: map[string]bool{"(*Raft).restore": true}}
	s.instr = func(v *flowVisit, in ssa.Instruction) (string, bool) {
		if root == nil {
			root = v.Fr.root()
		}
		if c := callNamed(in, "(*Raft).restore"); c != nil {
			return stAdd(v.St, fmt.Sprintf("R@%d", sites.id(v.Fr, c))), false
		}
		ret, ok := in.(*ssa.Return)
		if !ok || v.Fr != root || len(ret.Results) == 0 || isNilConst(ret.Results[0]) {
			return v.St, ok && v.Fr == root
		}
		returns++
		node := resolve(v.Fr, ret.Results[0])
		good := false
		for _, f := range stFlags(v.St, "R") {
			site := sites.at(f[0])
			if resolve(site.fr, site.call.Common().Args[0]) == node && v.ErrNil(site.fr, site.call) {
				good = true
			}
		}
		if good {
			obs.ok(key, p.InstrPos(in), "every return of a non-nil node passes restore() on that node with a nil result")
		} else {
			v.Note("%s: return of the node", p.InstrPos(in))
			obs.fail(key, p.InstrPos(in), "a node is returned on a path that has not passed a successful restore() on it: it would start from empty state", v.Path())
		}
		return v.St, true
	}
	s.RunFromEntry("")
	if s.Overflow {
		obs.undecided(key, p.Pos(fn.Pos()), "path exploration exceeded its bound")
		return
	}
	if returns == 0 {
		obs.undecided(key, p.Pos(fn.Pos()), "no return of a non-nil node found")
	}
}

// ---------------------------------------------------------------------------------------------
// CHUNK-BOUND

const grpcDefaultRecvLimit = 4 * 1024 * 1024
const chunkHeadroom = 1024

func ruleChunkBound() *Rule {
	return &Rule{
		ID: "CHUNK-BOUND",
		Text: "In (*Raft).sendInstallSnapshot the bytes stored into InstallSnapshotRequest.Bytes come from a read bounded by snapshotChunkSize — io.CopyN(dst, src, snapshotChunkSize), io.Copy from io.LimitReader(src, snapshotChunkSize), " +
			"or a buffer made with that size — and snapshotChunkSize is below gRPC's default 4 MiB receive limit minus 1 KiB of headroom. io.Copy of the whole remainder is a violation.",
		Floor: 2,
		Run: func(p *Program) []Obligation {
			obs := newObSet("CHUNK-BOUND")
			const fname = "(*Raft).sendInstallSnapshot"
			fn := p.Func(fname)
			bytesFld := p.Field("InstallSnapshotRequest.Bytes")
			chunk, okc := p.ConstVal("snapshotChunkSize")
			if fn == nil || bytesFld == nil || !okc {
				return missing("CHUNK-BOUND", fname+" / InstallSnapshotRequest.Bytes / snapshotChunkSize")
			}
			kConst := "snapshotChunkSize below the gRPC default receive limit"
			constPos := "?"
			if o := p.RaftPkg.Types.Scope().Lookup("snapshotChunkSize"); o != nil {
				constPos = p.Pos(o.Pos())
			}
			if chunk > 0 && chunk <= grpcDefaultRecvLimit-chunkHeadroom {
				obs.ok(kConst, constPos, fmt.Sprintf("snapshotChunkSize = %d ≤ %d", chunk, grpcDefaultRecvLimit-chunkHeadroom))
			} else {
				obs.fail(kConst, constPos, fmt.Sprintf("snapshotChunkSize = %d exceeds %d (4 MiB default receive limit minus 1 KiB headroom): every chunk would be rejected with ResourceExhausted", chunk, grpcDefaultRecvLimit-chunkHeadroom), nil)
			}
			bounded := func(v ssa.Value) (int64, bool) {
				k, ok := constIntOf(stripConvert(resolve(nil, v)))
				return k, ok
			}
			n := 0
			for _, b := range fn.Blocks {
				for _, in := range b.Instrs {
					store, fld := storeField(in)
					if store == nil || fld != bytesFld {
						continue
					}
					n++
					key := "bytes of " + siteKey(nil, in) + " come from a read bounded by snapshotChunkSize"
					pos := p.InstrPos(in)
					val := resolve(nil, store.Val)
					if c, _ := callOf(nil, val, -1); c != nil && calleeName(c.Common()) == "(*bytes.Buffer).Bytes" {
						buf := resolve(nil, c.Common().Args[0])
						// the request is sent with the node mutex released, and another invocation for the same follower can run
						// meanwhile (every heartbeat round spawns one): the bytes must live in memory private to this invocation
						kPriv := "chunk bytes of " + siteKey(nil, in) + " live in memory private to this invocation"
						if al, ok := buf.(*ssa.Alloc); ok && al.Parent() == fn {
							obs.ok(kPriv, pos, "the buffer is a variable of this invocation")
						} else {
							obs.fail(kPriv, pos, "request.Bytes aliases a buffer that outlives this invocation ("+describe(nil, c.Common().Args[0])+"): the request is serialised after the mutex is released, "+
								"and a later invocation for the same follower resets and refills the buffer meanwhile, so a request arrives with its own offset and another chunk's bytes", nil)
						}
						fills := 0
						for _, bb := range fn.Blocks {
							for _, x := range bb.Instrs {
								w, ok := x.(*ssa.Call)
								if !ok || w == c {
									continue
								}
								args := w.Common().Args
								name := calleeName(w.Common())
								isDst := func(i int) bool { return i < len(args) && resolve(nil, args[i]) == buf }
								limited := func(src ssa.Value) (int64, bool) {
									lr, _ := callOf(nil, src, -1)
									if lr != nil && calleeName(lr.Common()) == "io.LimitReader" {
										return bounded(lr.Common().Args[1])
									}
									return 0, false
								}
								switch {
								case name == "io.CopyN" && isDst(0):
									fills++
									k, isConst := bounded(args[2])
									switch {
									case !isConst:
										obs.undecided(key, pos, "the byte count of io.CopyN is not a constant", "count: "+describe(nil, args[2]))
									case k > chunk:
										obs.fail(key, pos, fmt.Sprintf("io.CopyN reads up to %d bytes, more than snapshotChunkSize = %d", k, chunk), nil)
									default:
										obs.ok(key, pos, fmt.Sprintf("io.CopyN(buffer, %s, %d)", describe(nil, args[1]), k))
									}
								case (name == "io.Copy" && isDst(0)) || (name == "(*bytes.Buffer).ReadFrom" && isDst(0)):
									fills++
									src := args[1]
									if k, ok := limited(src); ok && k <= chunk {
										obs.ok(key, pos, fmt.Sprintf("%s from io.LimitReader(…, %d)", name, k))
									} else if ok {
										obs.fail(key, pos, fmt.Sprintf("the io.LimitReader allows %d bytes, more than snapshotChunkSize = %d", k, chunk), nil)
									} else {
										obs.fail(key, pos, name+" copies the whole remainder of "+describe(nil, src)+" into one request: a snapshot larger than the 4 MiB gRPC receive limit can never be installed", nil,
											"copy at "+p.InstrPos(w))
									}
								case (name == "(*bytes.Buffer).Write" || name == "(*bytes.Buffer).WriteString") && isDst(0):
									fills++
									obs.undecided(key, pos, "the buffer is filled by "+name+"; the size of what is written is not tracked")
								}
							}
						}
						if fills == 0 {
							obs.undecided(key, pos, "no instruction filling the buffer was recognised")
						}
						continue
					}
					// a slice of a buffer made with a constant size
					root := val
					for {
						sl, ok := root.(*ssa.Slice)
						if !ok {
							break
						}
						root = resolve(nil, sl.X)
					}
					if mk, ok := root.(*ssa.MakeSlice); ok {
						if k, isConst := bounded(mk.Len); isConst && k <= chunk {
							obs.ok(key, pos, fmt.Sprintf("slice of a buffer made with %d bytes", k))
						} else if isConst {
							obs.fail(key, pos, fmt.Sprintf("the buffer has %d bytes, more than snapshotChunkSize = %d", k, chunk), nil)
						} else {
							obs.undecided(key, pos, "the buffer size is not a constant")
						}
						continue
					}
					if c, _ := callOf(nil, val, 0); c != nil && (calleeName(c.Common()) == "io.ReadAll" || calleeName(c.Common()) == "os.ReadFile") {
						if lr, _ := callOf(nil, c.Common().Args[0], -1); lr != nil && calleeName(lr.Common()) == "io.LimitReader" {
							if k, ok := bounded(lr.Common().Args[1]); ok && k <= chunk {
								obs.ok(key, pos, fmt.Sprintf("io.ReadAll(io.LimitReader(…, %d))", k))
								continue
							}
						}
						obs.fail(key, pos, calleeName(c.Common())+" reads the whole remainder into one request", nil)
						continue
					}
					obs.undecided(key, pos, "unrecognised source of the chunk bytes", "value: "+describe(nil, store.Val))
				}
			}
			if n == 0 {
				obs.lost("store to InstallSnapshotRequest.Bytes in " + fname)
			}
			return obs.list()
		},
	}
}
