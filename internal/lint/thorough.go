package lint

import (
	"bytes"
	"encoding/json"
	"fmt"
	"go/ast"
	"go/parser"
	"go/printer"
	"go/token"
	"math/rand"
	"os"
	"os/exec"
	"path/filepath"
	"regexp"
	"sort"
	"strings"
	"sync"
	"time"
)

// Thorough adds the thorough-tier work to a report (DESIGN §2.5):
//
//	(a) the rules of the properties this one is stated in terms of (done by the driver: spec.Thorough);
//	(b) the second build configuration (GOARCH=386): the analysed file set must not differ;
//	(c) a sensitivity sweep: syntactic variants of the CURRENT tree are derived inside the functions the
//	    property's obligations live in (relational operator changed, conjunct dropped, condition negated,
//	    statement deleted), each variant is type-checked and analysed in a separate process, and the sweep
//	    records which variants the property's rules notice. Nothing is executed. A variant that survives is
//	    not a violation (many are behaviour-preserving or affect liveness only); survivors are listed so
//	    that blind spots of the rules are visible.
func Thorough(p *Program, rep *PropertyReport, spec *PropertySpec, root string) {
	rep.Extra["second_build_configuration"] = secondConfig(p)
	if rep.ExitCode == 1 {
		rep.Extra["sensitivity_sweep"] = "skipped: the main analysis already reports a violation"
		return
	}
	seed := int64(1)
	if v := os.Getenv("VERIF_SEED"); v != "" {
		fmt.Sscan(v, &seed)
	}
	rep.Extra["sensitivity_sweep"] = sweep(p, rep, spec, seed)
	rep.Extra["seeded_changes"] = replaySeeds(p, rep, root)
}

// replaySeeds re-applies the independently written regressions kept under <verif>/seeded/<property>*/patch.diff to
// scratch copies of the CURRENT tree and records whether this property's quick rules report them. It validates the
// checker, not the library: a seed that is not reported is listed as a blind spot, never as a violation, and a patch
// that no longer applies to the current source is listed as such.
func replaySeeds(p *Program, rep *PropertyReport, root string) map[string]interface{} {
	res := map[string]interface{}{
		"what": "regressions written by context-free sub-agents against this property (seeded/<id>*/patch.diff, see DESIGN 9.7), applied with patch(1) to scratch copies of the current tree, type-checked and analysed by this property's quick rules in a separate process; nothing is executed",
	}
	dirs, _ := filepath.Glob(filepath.Join(root, "seeded", rep.Property+"*"))
	sort.Strings(dirs)
	exe, err := os.Executable()
	if err != nil {
		res["result"] = "cannot locate own executable"
		return res
	}
	var rows []map[string]string
	reported, applied := 0, 0
	for _, d := range dirs {
		patch := filepath.Join(d, "patch.diff")
		if _, err := os.Stat(patch); err != nil {
			continue
		}
		row := map[string]string{"seed": filepath.Base(d)}
		dir, err := os.MkdirTemp("", "raftlint-seed-")
		if err != nil {
			continue
		}
		func() {
			defer os.RemoveAll(dir)
			if err := copyTree(p.RepoDir, dir); err != nil {
				row["outcome"] = "copy failed"
				return
			}
			env := append(os.Environ(), "GOFLAGS=-mod=mod", "GOPROXY=off", "GOSUMDB=off", "GOWORK=off", "GOTOOLCHAIN=local")
			pc := exec.Command("patch", "-p1", "-s", "--no-backup-if-mismatch", "-i", patch)
			pc.Dir = dir
			if err := pc.Run(); err != nil {
				row["outcome"] = "patch no longer applies to the current source"
				return
			}
			build := exec.Command("go", "build", "./...")
			build.Dir = dir
			build.Env = env
			if err := build.Run(); err != nil {
				row["outcome"] = "does not compile on the current source"
				return
			}
			applied++
			cmd := exec.Command(exe, "-repo", dir, "-verif", root, "-no-evidence", "-property", rep.Property, "-tier", "quick", "-json")
			cmd.Env = env
			var out bytes.Buffer
			cmd.Stdout = &out
			err := cmd.Run()
			code := 0
			if ee, ok := err.(*exec.ExitError); ok {
				code = ee.ExitCode()
			} else if err != nil {
				code = 2
			}
			var obs []Obligation
			_ = json.Unmarshal(out.Bytes(), &obs)
			rules := map[string]bool{}
			for _, o := range obs {
				if o.Verdict == Violated {
					rules[o.Rule] = true
				}
			}
			var names []string
			for r := range rules {
				names = append(names, r)
			}
			sort.Strings(names)
			switch code {
			case 1:
				reported++
				row["outcome"] = "reported"
				row["rules"] = strings.Join(names, ", ")
			case 0:
				row["outcome"] = "NOT reported (blind spot of this property's quick rules)"
			default:
				row["outcome"] = "undecided (exit 2)"
			}
		}()
		rows = append(rows, row)
	}
	res["seeds"] = rows
	res["applied"] = applied
	res["reported"] = reported
	return res
}

// secondConfig compares the Go file sets of the module under the default GOARCH and under 386.
func secondConfig(p *Program) map[string]interface{} {
	list := func(arch string) (string, error) {
		cmd := exec.Command("go", "list", "-f", "{{.ImportPath}}: {{.GoFiles}}", "./...")
		cmd.Dir = p.RepoDir
		cmd.Env = append(os.Environ(), "GOFLAGS=-mod=mod", "GOPROXY=off", "GOSUMDB=off", "GOWORK=off", "GOTOOLCHAIN=local")
		if arch != "" {
			cmd.Env = append(cmd.Env, "GOARCH="+arch)
		}
		out, err := cmd.Output()
		return string(out), err
	}
	a, err1 := list("")
	b, err2 := list("386")
	res := map[string]interface{}{"configurations": []string{"default", "GOARCH=386"}}
	if err1 != nil || err2 != nil {
		res["result"] = fmt.Sprintf("could not list files: %v %v", err1, err2)
		return res
	}
	res["same_file_set"] = a == b
	res["packages"] = strings.Count(a, "\n")
	return res
}

type variant struct {
	File, Func, Op, Desc string
	Line                 int
	src                  []byte
}

type variantResult struct {
	Variant  string `json:"variant"`
	Outcome  string `json:"outcome"` // violation | undecided | survived | does-not-compile
	Reported string `json:"reported,omitempty"`
}

// sweep derives variants and analyses them.
func sweep(p *Program, rep *PropertyReport, spec *PropertySpec, seed int64) map[string]interface{} {
	start := time.Now()
	// functions the obligations live in: file -> set of lines
	lines := map[string]map[int]bool{}
	own := map[string]bool{}
	for _, r := range spec.Rules {
		base, _, _ := strings.Cut(r, "/")
		own[base] = true
	}
	for _, rr := range rep.Rules {
		if !own[rr.Rule] {
			continue // rules borrowed from related properties do not widen the sweep
		}
		for _, o := range rr.Obligations {
			i := strings.LastIndex(o.Pos, ":")
			if i < 0 {
				continue
			}
			var ln int
			fmt.Sscan(o.Pos[i+1:], &ln)
			f := o.Pos[:i]
			if lines[f] == nil {
				lines[f] = map[int]bool{}
			}
			lines[f][ln] = true
		}
	}
	// functions named in the obligations' constructs and contexts (helpers on the call chains) are swept too
	funcRe := regexp.MustCompile(`\(\*?[A-Za-z_][A-Za-z0-9_]*\)\.([A-Za-z_][A-Za-z0-9_]*)`)
	named := map[string]bool{}
	for _, rr := range rep.Rules {
		if !own[rr.Rule] {
			continue
		}
		for _, o := range rr.Obligations {
			for _, txt := range append([]string{o.Construct}, o.Facts...) {
				for _, m := range funcRe.FindAllStringSubmatch(txt, -1) {
					named[m[1]] = true
				}
			}
		}
	}
	for _, pk := range p.Pkgs {
		for i, f := range pk.Syntax {
			rel := strings.TrimPrefix(pk.CompiledGoFiles[i], p.RepoDir+"/")
			excluded := false
			for _, x := range p.ExcludedFiles {
				if x == rel {
					excluded = true
				}
			}
			if excluded || strings.HasSuffix(rel, ".pb.go") {
				continue
			}
			for _, d := range f.Decls {
				if fd, ok := d.(*ast.FuncDecl); ok && fd.Body != nil && named[fd.Name.Name] {
					if lines[rel] == nil {
						lines[rel] = map[int]bool{}
					}
					lines[rel][p.Fset.Position(fd.Body.Pos()).Line] = true
				}
			}
		}
	}
	var vars []variant
	var files []string
	for f := range lines {
		files = append(files, f)
	}
	sort.Strings(files)
	for _, f := range files {
		vars = append(vars, variantsOf(filepath.Join(p.RepoDir, f), f, lines[f])...)
	}
	total := len(vars)
	// deterministic sample
	max := 96
	if v := os.Getenv("VERIF_SWEEP_MAX"); v != "" {
		fmt.Sscan(v, &max)
	}
	rnd := rand.New(rand.NewSource(seed))
	rnd.Shuffle(len(vars), func(i, j int) { vars[i], vars[j] = vars[j], vars[i] })
	if len(vars) > max {
		vars = vars[:max]
	}
	sort.Slice(vars, func(i, j int) bool {
		if vars[i].File != vars[j].File {
			return vars[i].File < vars[j].File
		}
		if vars[i].Line != vars[j].Line {
			return vars[i].Line < vars[j].Line
		}
		return vars[i].Desc < vars[j].Desc
	})
	exe, _ := os.Executable()
	results := make([]variantResult, len(vars))
	var wg sync.WaitGroup
	par := 10
	if v := os.Getenv("VERIF_SWEEP_PAR"); v != "" {
		fmt.Sscan(v, &par)
	}
	sem := make(chan struct{}, par)
	for i := range vars {
		wg.Add(1)
		go func(i int) {
			defer wg.Done()
			sem <- struct{}{}
			defer func() { <-sem }()
			results[i] = runVariant(p, exe, rep.Property, vars[i])
		}(i)
	}
	wg.Wait()
	counts := map[string]int{}
	byOp := map[string]map[string]int{}
	var survivors, samples []interface{}
	for i, r := range results {
		counts[r.Outcome]++
		if byOp[vars[i].Op] == nil {
			byOp[vars[i].Op] = map[string]int{}
		}
		byOp[vars[i].Op][r.Outcome]++
		if r.Outcome == "survived" && len(survivors) < 120 {
			survivors = append(survivors, r.Variant)
		}
		if (r.Outcome == "violation" || r.Outcome == "undecided") && len(samples) < 25 {
			samples = append(samples, map[string]string{"variant": r.Variant, "outcome": r.Outcome, "reported": r.Reported})
		}
	}
	// full listing for triage (not evidence): reports/<id>/sweep.tsv
	if root := os.Getenv("VERIF_SWEEP_REPORT"); root != "" {
		var b strings.Builder
		for _, r := range results {
			fmt.Fprintf(&b, "%s\t%s\t%s\n", r.Outcome, r.Variant, r.Reported)
		}
		_ = os.MkdirAll(root, 0o755)
		_ = os.WriteFile(filepath.Join(root, rep.Property+".sweep.tsv"), []byte(b.String()), 0o644)
	}
	return map[string]interface{}{
		"what": "syntactic variants of the current /repo tree inside the functions this property's obligations live in; each variant type-checked (go build) and analysed by the same rules in a separate process; nothing is executed. " +
			"A surviving variant is not a violation: it is either behaviour-preserving, affects a clause this property's rules do not decide, or is a blind spot — survivors are listed for inspection.",
		"operators":             []string{"relop: relational operator weakened/flipped", "dropconj: one operand of && / || dropped", "negate: if condition negated", "delstmt: call/assignment/inc-dec statement deleted"},
		"variants_possible":     total,
		"variants_analysed":     len(vars),
		"noticed_as_violation":  counts["violation"],
		"noticed_as_undecided":  counts["undecided"],
		"survived":              counts["survived"],
		"did_not_compile":       counts["does-not-compile"],
		"by_operator":           byOp,
		"survivors":             survivors,
		"noticed_samples":       samples,
		"seed":                  seed,
		"wall_s":                time.Since(start).Seconds(),
		"variants_distinct_key": "file:line:operator:description",
	}
}

func runVariant(p *Program, exe, property string, v variant) variantResult {
	res := variantResult{Variant: fmt.Sprintf("%s:%d %s [%s] in %s", v.File, v.Line, v.Desc, v.Op, v.Func)}
	dir, err := os.MkdirTemp("", "raftlint-sweep-")
	if err != nil {
		res.Outcome = "does-not-compile"
		return res
	}
	defer os.RemoveAll(dir)
	if err := copyTree(p.RepoDir, dir); err != nil {
		res.Outcome = "does-not-compile"
		return res
	}
	if err := os.WriteFile(filepath.Join(dir, v.File), v.src, 0o644); err != nil {
		res.Outcome = "does-not-compile"
		return res
	}
	env := append(os.Environ(), "GOFLAGS=-mod=mod", "GOPROXY=off", "GOSUMDB=off", "GOWORK=off", "GOTOOLCHAIN=local")
	build := exec.Command("go", "build", "./...")
	build.Dir = dir
	build.Env = env
	if err := build.Run(); err != nil {
		res.Outcome = "does-not-compile"
		return res
	}
	cmd := exec.Command(exe, "-repo", dir, "-no-evidence", "-property", property, "-tier", "quick", "-json")
	cmd.Env = env
	var out bytes.Buffer
	cmd.Stdout = &out
	err = cmd.Run()
	code := 0
	if ee, ok := err.(*exec.ExitError); ok {
		code = ee.ExitCode()
	} else if err != nil {
		code = 2
	}
	var obs []Obligation
	_ = json.Unmarshal(out.Bytes(), &obs)
	for _, o := range obs {
		if o.Verdict == Violated || o.Verdict == Undecided || o.Verdict == AnchorLost {
			res.Reported = o.Rule + ": " + o.Construct
			break
		}
	}
	switch code {
	case 0:
		res.Outcome = "survived"
	case 1:
		res.Outcome = "violation"
	default:
		res.Outcome = "undecided"
	}
	return res
}

func copyTree(src, dst string) error {
	return filepath.Walk(src, func(path string, info os.FileInfo, err error) error {
		if err != nil {
			return err
		}
		rel, _ := filepath.Rel(src, path)
		if rel == "." {
			return nil
		}
		if info.IsDir() {
			if info.Name() == ".git" || info.Name() == "assets" {
				return filepath.SkipDir
			}
			return os.MkdirAll(filepath.Join(dst, rel), 0o755)
		}
		if strings.HasSuffix(rel, "_test.go") || !info.Mode().IsRegular() {
			return nil
		}
		data, err := os.ReadFile(path)
		if err != nil {
			return err
		}
		return os.WriteFile(filepath.Join(dst, rel), data, 0o644)
	})
}

// variantsOf generates one-edit variants of the functions of file that contain one of the lines.
func variantsOf(path, rel string, want map[int]bool) []variant {
	src, err := os.ReadFile(path)
	if err != nil {
		return nil
	}
	var out []variant
	// enumerate edit sites on a first parse; re-parse for every edit so that edits do not accumulate
	fset := token.NewFileSet()
	file, err := parser.ParseFile(fset, path, src, parser.ParseComments)
	if err != nil {
		return nil
	}
	type site struct {
		fn   string
		idx  int // ordinal of the node in a deterministic walk of the function
		op   string
		alt  int
		line int
		desc string
	}
	var sites []site
	for _, d := range file.Decls {
		fd, ok := d.(*ast.FuncDecl)
		if !ok || fd.Body == nil {
			continue
		}
		lo, hi := fset.Position(fd.Pos()).Line, fset.Position(fd.End()).Line
		hit := false
		for l := range want {
			if l >= lo && l <= hi {
				hit = true
			}
		}
		if !hit {
			continue
		}
		name := fd.Name.Name
		idx := 0
		ast.Inspect(fd.Body, func(n ast.Node) bool {
			if n == nil {
				return false
			}
			if isLoggingCall(n) {
				return false
			}
			idx++
			line := fset.Position(n.Pos()).Line
			switch x := n.(type) {
			case *ast.BinaryExpr:
				switch x.Op {
				case token.LSS, token.LEQ, token.GTR, token.GEQ, token.EQL, token.NEQ:
					if isNilCompare(x) {
						return true
					}
					sites = append(sites, site{name, idx, "relop", 0, line, exprString(fset, x) + " : " + x.Op.String() + " -> " + relAlt(x.Op).String()})
				case token.LAND, token.LOR:
					sites = append(sites, site{name, idx, "dropconj", 0, line, "keep only left operand of " + exprString(fset, x)})
					sites = append(sites, site{name, idx, "dropconj", 1, line, "keep only right operand of " + exprString(fset, x)})
				}
			case *ast.IfStmt:
				if !isErrCheck(x.Cond) {
					sites = append(sites, site{name, idx, "negate", 0, line, "negate condition " + exprString(fset, x.Cond)})
				}
			case *ast.ExprStmt:
				if _, ok := x.X.(*ast.CallExpr); ok {
					sites = append(sites, site{name, idx, "delstmt", 0, line, "delete " + exprString(fset, x.X)})
				}
			case *ast.AssignStmt:
				if x.Tok == token.ASSIGN || x.Tok == token.ADD_ASSIGN {
					sites = append(sites, site{name, idx, "delstmt", 0, line, "delete " + stmtString(fset, x)})
				}
			case *ast.IncDecStmt:
				sites = append(sites, site{name, idx, "delstmt", 0, line, "delete " + stmtString(fset, x)})
			}
			return true
		})
	}
	for _, s := range sites {
		fs := token.NewFileSet()
		f2, err := parser.ParseFile(fs, path, src, parser.ParseComments)
		if err != nil {
			continue
		}
		applied := false
		for _, d := range f2.Decls {
			fd, ok := d.(*ast.FuncDecl)
			if !ok || fd.Body == nil || fd.Name.Name != s.fn {
				continue
			}
			idx := 0
			var parentStack []ast.Node
			ast.Inspect(fd.Body, func(n ast.Node) bool {
				if n == nil {
					parentStack = parentStack[:len(parentStack)-1]
					return false
				}
				if isLoggingCall(n) {
					return false
				}
				idx++
				if idx == s.idx && !applied {
					applied = applyEdit(n, parentStack, s.op, s.alt)
				}
				parentStack = append(parentStack, n)
				return true
			})
			break
		}
		if !applied {
			continue
		}
		var buf bytes.Buffer
		if err := (&printer.Config{Mode: printer.UseSpaces | printer.TabIndent, Tabwidth: 8}).Fprint(&buf, fs, f2); err != nil {
			continue
		}
		out = append(out, variant{File: rel, Func: s.fn, Op: s.op, Desc: s.desc, Line: s.line, src: buf.Bytes()})
	}
	return out
}

func relAlt(op token.Token) token.Token {
	switch op {
	case token.LSS:
		return token.LEQ
	case token.LEQ:
		return token.LSS
	case token.GTR:
		return token.GEQ
	case token.GEQ:
		return token.GTR
	case token.EQL:
		return token.NEQ
	}
	return token.EQL
}

func applyEdit(n ast.Node, parents []ast.Node, op string, alt int) bool {
	switch op {
	case "relop":
		x, ok := n.(*ast.BinaryExpr)
		if !ok {
			return false
		}
		x.Op = relAlt(x.Op)
		return true
	case "dropconj":
		x, ok := n.(*ast.BinaryExpr)
		if !ok {
			return false
		}
		keep := x.X
		if alt == 1 {
			keep = x.Y
		}
		// turn "a && b" into "keep && keep" is ugly; replace in parent instead
		return replaceExpr(parents, x, keep)
	case "negate":
		x, ok := n.(*ast.IfStmt)
		if !ok {
			return false
		}
		x.Cond = &ast.UnaryExpr{Op: token.NOT, X: &ast.ParenExpr{X: x.Cond}}
		return true
	case "delstmt":
		st, ok := n.(ast.Stmt)
		if !ok {
			return false
		}
		return deleteStmt(parents, st)
	}
	return false
}

func replaceExpr(parents []ast.Node, old, repl ast.Expr) bool {
	if len(parents) == 0 {
		return false
	}
	switch p := parents[len(parents)-1].(type) {
	case *ast.BinaryExpr:
		if p.X == old {
			p.X = repl
			return true
		}
		if p.Y == old {
			p.Y = repl
			return true
		}
	case *ast.ParenExpr:
		if p.X == old {
			p.X = repl
			return true
		}
	case *ast.UnaryExpr:
		if p.X == old {
			p.X = repl
			return true
		}
	case *ast.IfStmt:
		if p.Cond == old {
			p.Cond = repl
			return true
		}
	case *ast.ForStmt:
		if p.Cond == old {
			p.Cond = repl
			return true
		}
	case *ast.ReturnStmt:
		for i, r := range p.Results {
			if r == old {
				p.Results[i] = repl
				return true
			}
		}
	case *ast.AssignStmt:
		for i, r := range p.Rhs {
			if r == old {
				p.Rhs[i] = repl
				return true
			}
		}
	case *ast.CallExpr:
		for i, r := range p.Args {
			if r == old {
				p.Args[i] = repl
				return true
			}
		}
	}
	return false
}

func deleteStmt(parents []ast.Node, st ast.Stmt) bool {
	if len(parents) == 0 {
		return false
	}
	var list *[]ast.Stmt
	switch p := parents[len(parents)-1].(type) {
	case *ast.BlockStmt:
		list = &p.List
	case *ast.CaseClause:
		list = &p.Body
	case *ast.CommClause:
		list = &p.Body
	}
	if list == nil {
		return false
	}
	for i, s := range *list {
		if s == st {
			*list = append(append([]ast.Stmt{}, (*list)[:i]...), (*list)[i+1:]...)
			return true
		}
	}
	return false
}

func isLoggingCall(n ast.Node) bool {
	var call *ast.CallExpr
	switch x := n.(type) {
	case *ast.ExprStmt:
		call, _ = x.X.(*ast.CallExpr)
	case *ast.CallExpr:
		call = x
	}
	if call == nil {
		return false
	}
	sel, ok := call.Fun.(*ast.SelectorExpr)
	if !ok {
		return false
	}
	inner, ok := sel.X.(*ast.SelectorExpr)
	if !ok || inner.Sel.Name != "logger" {
		return false
	}
	switch sel.Sel.Name {
	case "Debug", "Debugf", "Info", "Infof", "Warn", "Warnf", "Error", "Errorf":
		return true
	}
	return false
}

func isNilCompare(x *ast.BinaryExpr) bool {
	for _, e := range []ast.Expr{x.X, x.Y} {
		if id, ok := e.(*ast.Ident); ok && id.Name == "nil" {
			return true
		}
	}
	return false
}

func isErrCheck(e ast.Expr) bool {
	b, ok := e.(*ast.BinaryExpr)
	if !ok {
		return false
	}
	if !isNilCompare(b) {
		return false
	}
	for _, x := range []ast.Expr{b.X, b.Y} {
		if id, ok := x.(*ast.Ident); ok && strings.HasPrefix(strings.ToLower(id.Name), "err") {
			return true
		}
	}
	return false
}

func exprString(fset *token.FileSet, e ast.Expr) string {
	var buf bytes.Buffer
	_ = printer.Fprint(&buf, fset, e)
	s := strings.Join(strings.Fields(buf.String()), " ")
	if len(s) > 90 {
		s = s[:90] + "…"
	}
	return s
}

func stmtString(fset *token.FileSet, s ast.Stmt) string {
	var buf bytes.Buffer
	_ = printer.Fprint(&buf, fset, s)
	t := strings.Join(strings.Fields(buf.String()), " ")
	if len(t) > 90 {
		t = t[:90] + "…"
	}
	return t
}
