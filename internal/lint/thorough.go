package lint

// Thorough adds the thorough-tier work to a report (sensitivity sweep etc.).
func Thorough(p *Program, rep *PropertyReport, spec *PropertySpec, root string) {
}
