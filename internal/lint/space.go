package lint

import (
	"fmt"
	"math/bits"
	"sort"
	"strings"
)

// AtomKind distinguishes the vocabulary of a guard rule.
type AtomKind int

const (
	Cmp   AtomKind = iota // three-valued ordering between two terms: 0 '<', 1 '=', 2 '>'
	Bool                  // truth value of a term: 0 false, 1 true
	Enum                  // value of a term among N constants (index in Vals), last index = "other"
	Ghost                 // rule-defined typestate with N values, changed only by the rule's hook
)

// Atom is one observable of a rule.
type Atom struct {
	Kind     AtomKind
	Name     string
	A, B     string  // canonical term strings (B only for Cmp)
	Vals     []int64 // Enum: the constants, in order; a final implicit value "other"
	N        int
	History  bool // records the outcome of a test when it was made; never widened by stores/calls/windows
	Stable   bool // not invalidated by unlock windows: the rule that declares it widens it itself at section ends
	Closed   bool // Enum: the term only ever holds the listed constants (justified by a separate writer check); "other" is infeasible
	Labels   []string
	skipKill bool  // transient: the current store shifts this atom instead of forgetting it
	dep      *Term // union of the dependencies of every program term matched to A or B so far
}

const (
	LT = 0
	EQ = 1
	GT = 2
)

// CmpAtom declares an ordering atom between two canonical terms.
func CmpAtom(name, a, b string) *Atom {
	return &Atom{Kind: Cmp, Name: name, A: a, B: b, N: 3, Labels: []string{"<", "=", ">"}}
}

// BoolAtom declares a boolean atom on a canonical term.
func BoolAtom(name, a string) *Atom {
	return &Atom{Kind: Bool, Name: name, A: a, N: 2, Labels: []string{"F", "T"}}
}

// EnumAtom declares an atom over the listed constant values of a term; the extra last value is "other".
func EnumAtom(name, a string, vals []int64, labels []string) *Atom {
	l := append(append([]string{}, labels...), "other")
	return &Atom{Kind: Enum, Name: name, A: a, Vals: vals, N: len(vals) + 1, Labels: l}
}

// GhostAtom declares a rule-owned typestate atom.
func GhostAtom(name string, labels ...string) *Atom {
	return &Atom{Kind: Ghost, Name: name, N: len(labels), Labels: labels, History: true}
}

// Hist marks the atom as a history atom and returns it.
func (a *Atom) Hist() *Atom { a.History = true; return a }

// Space is the product of the atoms' value sets; a State is a set of points of the space.
type Space struct {
	Atoms      []*Atom
	stride     []int
	Size       int
	consistent State
}

// State is a bitset over the space. A nil State is the empty set (unreachable).
type State []uint64

func NewSpace(atoms ...*Atom) *Space {
	sp := &Space{Atoms: atoms}
	sz := 1
	for _, a := range atoms {
		sp.stride = append(sp.stride, sz)
		sz *= a.N
		a.dep = newTerm("")
		if sz > 1<<24 {
			panic("guard space too large")
		}
	}
	sp.Size = sz
	sp.consistent = sp.computeConsistent()
	for i, a := range atoms {
		if a.Kind == Enum && a.Closed {
			all := uint32(1)<<uint(a.N) - 1
			sp.consistent = sp.Filter(sp.consistent, i, all&^(1<<uint(a.N-1)))
		}
	}
	return sp
}

func (sp *Space) words() int { return (sp.Size + 63) / 64 }

// Index returns the position of the named atom.
func (sp *Space) Index(name string) int {
	for i, a := range sp.Atoms {
		if a.Name == name {
			return i
		}
	}
	panic("no atom " + name)
}

func (sp *Space) val(point, atom int) int { return (point / sp.stride[atom]) % sp.Atoms[atom].N }

// Top is the set of all (order-consistent) points.
func (sp *Space) Top() State {
	s := make(State, sp.words())
	copy(s, sp.consistent)
	return s
}

func (sp *Space) full() State {
	s := make(State, sp.words())
	for i := 0; i < sp.Size; i++ {
		s[i/64] |= 1 << (i % 64)
	}
	return s
}

// computeConsistent removes points that contradict transitivity of the ordering between
// terms shared by several Cmp atoms.
func (sp *Space) computeConsistent() State {
	full := sp.full()
	// collect cmp atoms
	type edge struct {
		a, b string
		idx  int
	}
	var es []edge
	for i, a := range sp.Atoms {
		if a.Kind == Cmp && !a.History {
			es = append(es, edge{a.A, a.B, i})
		}
	}
	if len(es) < 2 {
		return full
	}
	terms := map[string]int{}
	for _, e := range es {
		if _, ok := terms[e.a]; !ok {
			terms[e.a] = len(terms)
		}
		if _, ok := terms[e.b]; !ok {
			terms[e.b] = len(terms)
		}
	}
	n := len(terms)
	if n > 6 {
		return full
	}
	// for each point check satisfiable by some weak ordering: brute force assignments of ranks 0..n-1
	ranks := make([]int, n)
	var sat func(k int, point int) bool
	sat = func(k int, point int) bool {
		if k == n {
			for _, e := range es {
				ra, rb := ranks[terms[e.a]], ranks[terms[e.b]]
				want := sp.val(point, e.idx)
				got := EQ
				if ra < rb {
					got = LT
				} else if ra > rb {
					got = GT
				}
				if got != want {
					return false
				}
			}
			return true
		}
		for r := 0; r < n; r++ {
			ranks[k] = r
			if sat(k+1, point) {
				return true
			}
		}
		return false
	}
	out := make(State, sp.words())
	for pt := 0; pt < sp.Size; pt++ {
		if sat(0, pt) {
			out[pt/64] |= 1 << (pt % 64)
		}
	}
	return out
}

func (s State) IsEmpty() bool {
	for _, w := range s {
		if w != 0 {
			return false
		}
	}
	return true
}

func (s State) Has(i int) bool { return s != nil && s[i/64]&(1<<(i%64)) != 0 }

func (s State) Count() int {
	n := 0
	for _, w := range s {
		n += bits.OnesCount64(w)
	}
	return n
}

func (s State) Clone() State {
	if s == nil {
		return nil
	}
	o := make(State, len(s))
	copy(o, s)
	return o
}

// Union returns a ∪ b (either may be nil).
func Union(a, b State) State {
	if a == nil {
		return b.Clone()
	}
	if b == nil {
		return a.Clone()
	}
	o := make(State, len(a))
	for i := range a {
		o[i] = a[i] | b[i]
	}
	return o
}

func Intersect(a, b State) State {
	if a == nil || b == nil {
		return nil
	}
	o := make(State, len(a))
	for i := range a {
		o[i] = a[i] & b[i]
	}
	return o
}

func Equal(a, b State) bool {
	if a == nil {
		return b == nil || b.IsEmpty()
	}
	if b == nil {
		return a.IsEmpty()
	}
	for i := range a {
		if a[i] != b[i] {
			return false
		}
	}
	return true
}

// Subset reports a ⊆ b.
func Subset(a, b State) bool {
	if a == nil {
		return true
	}
	if b == nil {
		return a.IsEmpty()
	}
	for i := range a {
		if a[i]&^b[i] != 0 {
			return false
		}
	}
	return true
}

// Filter keeps the points whose value for atom is in mask (bit v set = value v allowed).
func (sp *Space) Filter(s State, atom int, mask uint32) State {
	if s == nil {
		return nil
	}
	o := make(State, len(s))
	for pt := 0; pt < sp.Size; pt++ {
		if s.Has(pt) && mask&(1<<uint(sp.val(pt, atom))) != 0 {
			o[pt/64] |= 1 << (pt % 64)
		}
	}
	return o
}

// Widen forgets the value of atom.
func (sp *Space) Widen(s State, atom int) State {
	return Intersect(sp.widenRaw(s, atom), sp.consistent)
}

// WidenAll forgets the values of all the given atoms AT ONCE. Forgetting coupled atoms one after the other is not the
// same: the consistency closure (mirror atoms, transitivity over shared terms) would re-derive each forgotten atom
// from the ones that are still to be forgotten.
func (sp *Space) WidenAll(s State, atoms []int) State {
	if len(atoms) == 0 {
		return s
	}
	for _, a := range atoms {
		s = sp.widenRaw(s, a)
	}
	return Intersect(s, sp.consistent)
}

func (sp *Space) widenRaw(s State, atom int) State {
	if s == nil {
		return nil
	}
	o := make(State, len(s))
	n := sp.Atoms[atom].N
	st := sp.stride[atom]
	for pt := 0; pt < sp.Size; pt++ {
		if !s.Has(pt) {
			continue
		}
		base := pt - sp.val(pt, atom)*st
		for v := 0; v < n; v++ {
			q := base + v*st
			o[q/64] |= 1 << (q % 64)
		}
	}
	return o
}

// Assign sets atom to val in every point.
func (sp *Space) Assign(s State, atom int, val int) State {
	if s == nil {
		return nil
	}
	o := make(State, len(s))
	st := sp.stride[atom]
	for pt := 0; pt < sp.Size; pt++ {
		if !s.Has(pt) {
			continue
		}
		q := pt - sp.val(pt, atom)*st + val*st
		o[q/64] |= 1 << (q % 64)
	}
	return Intersect(o, sp.consistent)
}

// Map applies f to the value of atom pointwise (f returns a mask of possible new values).
func (sp *Space) Map(s State, atom int, f func(point int, old int) uint32) State {
	if s == nil {
		return nil
	}
	o := make(State, len(s))
	st := sp.stride[atom]
	n := sp.Atoms[atom].N
	for pt := 0; pt < sp.Size; pt++ {
		if !s.Has(pt) {
			continue
		}
		old := sp.val(pt, atom)
		m := f(pt, old)
		for v := 0; v < n; v++ {
			if m&(1<<uint(v)) != 0 {
				q := pt - old*st + v*st
				o[q/64] |= 1 << (q % 64)
			}
		}
	}
	return o
}

// Val returns the value of atom at point.
func (sp *Space) Val(point, atom int) int { return sp.val(point, atom) }

// Where returns the subset of s satisfying pred.
func (sp *Space) Where(s State, pred func(point int) bool) State {
	if s == nil {
		return nil
	}
	o := make(State, len(s))
	for pt := 0; pt < sp.Size; pt++ {
		if s.Has(pt) && pred(pt) {
			o[pt/64] |= 1 << (pt % 64)
		}
	}
	return o
}

// Describe renders one point.
func (sp *Space) Describe(pt int) string {
	var parts []string
	for i, a := range sp.Atoms {
		parts = append(parts, fmt.Sprintf("%s:%s", a.Name, a.Labels[sp.val(pt, i)]))
	}
	return strings.Join(parts, " ")
}

// DescribeSet renders up to max points of a state (sorted).
func (sp *Space) DescribeSet(s State, max int) []string {
	var out []string
	for pt := 0; pt < sp.Size && len(out) < max; pt++ {
		if s.Has(pt) {
			out = append(out, sp.Describe(pt))
		}
	}
	sort.Strings(out)
	return out
}

// Project renders the distinct value tuples of the given atoms present in s.
func (sp *Space) Project(s State, atoms ...int) []string {
	seen := map[string]bool{}
	for pt := 0; pt < sp.Size; pt++ {
		if !s.Has(pt) {
			continue
		}
		var parts []string
		for _, a := range atoms {
			parts = append(parts, fmt.Sprintf("%s:%s", sp.Atoms[a].Name, sp.Atoms[a].Labels[sp.val(pt, a)]))
		}
		seen[strings.Join(parts, " ")] = true
	}
	var out []string
	for k := range seen {
		out = append(out, k)
	}
	sort.Strings(out)
	return out
}

// Summary renders, per atom, the set of values present in s (a non-relational view for traces).
func (sp *Space) Summary(s State) string {
	var parts []string
	for i, a := range sp.Atoms {
		seen := make([]bool, a.N)
		for pt := 0; pt < sp.Size; pt++ {
			if s.Has(pt) {
				seen[sp.val(pt, i)] = true
			}
		}
		var vs []string
		for v, ok := range seen {
			if ok {
				vs = append(vs, a.Labels[v])
			}
		}
		parts = append(parts, a.Name+"∈{"+strings.Join(vs, ",")+"}")
	}
	return strings.Join(parts, " ")
}
