package lint

import (
	"fmt"

	"golang.org/x/tools/go/ssa"
)

// ruleVoteYield: VOTE-YIELD (C16).
//
// A node that grants its REAL vote to another candidate gives up its own campaign: when the RequestVote handler returns
// after having stored the vote, the node is neither PreCandidate nor Candidate. Otherwise a prevote it had won just
// before (state Candidate, prevoteWon, term not yet incremented) stays valid: the election loop, put off by the contact
// the vote refreshed, later increments the term without asking anybody again, and a node that is cut off by then comes
// back with a higher term and deposes a leader that never lost contact with its majority.
//
// D48: the handler left the state alone.
func ruleVoteYield() *Rule {
	const id = "VOTE-YIELD"
	return &Rule{
		ID:    id,
		Text:  "Every error-free return of (*Raft).RequestVote that follows a store of a vote for the requester (Raft.votedFor := a value that is not a constant) is reached only with state ∉ {PreCandidate, Candidate}.",
		Floor: 1,
		Run: func(p *Program) []Obligation {
			const h = "(*Raft).RequestVote"
			root := p.Func(h)
			voted := p.Field("Raft.votedFor")
			if root == nil || voted == nil {
				return missing(id, h+" / Raft.votedFor")
			}
			stateAtom := p.StateAtom()
			sp := NewSpace(stateAtom, GhostAtom("votedInThisCall", "no", "yes"))
			a := NewAnalysis(p, sp)
			a.Hook = func(a *Analysis, f *Frame, in ssa.Instruction, st State) State {
				if s, fld := storeField(in); s != nil && fld == voted && f.Parent == nil {
					if _, isConst := s.Val.(*ssa.Const); !isConst {
						return sp.Assign(st, 1, 1)
					}
				}
				if ret, ok := exitPoint(in); ok && f.Parent == nil && returnedError(ret) == "nil" {
					pre := sp.Filter(st, 1, 1<<1)
					if !pre.IsEmpty() {
						n := instrOrdinal(ret, func(x ssa.Instruction) bool { _, ok := x.(*ssa.Return); return ok })
						a.Observe(fmt.Sprintf("return #%d of %s after a vote was stored", n, h), f, in, pre)
					}
				}
				return st
			}
			a.RunFrame(NewRootFrame(root), sp.Assign(sp.Top(), 1, 0))
			cand, pre := enumIdx(stateAtom, "Candidate"), enumIdx(stateAtom, "PreCandidate")
			obs := evalObs(a, id, a.SortedObs(), func(o *Observation, pt int) bool {
				s := sp.Val(pt, 0)
				return s != cand && s != pre
			}, []int{0}, "a node that has just voted for another candidate is no longer a (pre)candidate (a prevote it had won is void)")
			if len(obs) == 0 {
				return missing(id, "an error-free return of "+h+" after a store to Raft.votedFor")
			}
			return obs
		},
	}
}
