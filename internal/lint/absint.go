package lint

import (
	"fmt"
	"go/constant"
	"go/token"
	"go/types"
	"os"
	"sort"
	"strings"

	"golang.org/x/tools/go/ssa"
)

// Analysis is one run of the guard-fact interpreter (DESIGN §2.2 A4): a forward dataflow over
// SSA whose abstract state is the set of joint valuations of the rule's atoms, with
// context-sensitive inlining of in-module callees.
type Analysis struct {
	P     *Program
	Space *Space
	// Hook is called before the transfer of every instruction, in every frame. It may record
	// observations (a.Observe) and may return a changed state (ghost atoms).
	Hook func(a *Analysis, f *Frame, in ssa.Instruction, st State) State
	// PostCall is called after the transfer of a call instruction (ghost updates that
	// depend on the call having happened).
	PostCall func(a *Analysis, f *Frame, in ssa.CallInstruction, st State) State
	// Post is called after the transfer of every non-control instruction (facts a rule
	// establishes itself, e.g. about a freshly created object).
	Post func(a *Analysis, f *Frame, in ssa.Instruction, st State) State
	// EdgeHook is called for every control-flow edge with the state flowing along it (after
	// branch filtering, before phi kills are visible to the successor).
	EdgeHook func(a *Analysis, f *Frame, from, to *ssa.BasicBlock, st State)
	// EnterFrame is called when a callee is about to be inlined; returning false treats
	// the call as opaque (killing what it may write).
	NoInline func(callee *ssa.Function) bool

	// AtRunDefers is true while Hook is invoked for a deferred call that is being run at a
	// RunDefers instruction (the hook also sees the Defer instruction itself, earlier, with this false).
	AtRunDefers bool

	MaxDepth int
	Obs      map[string]*Observation
	Notes    map[string]bool
	curFrame *Frame
	// runDefersAt is the RunDefers instruction whose deferred calls are being executed (nil otherwise)
	runDefersAt ssa.Instruction
	memo        map[string]*exitState
	active      map[*ssa.Function]int
	steps       int
	// Frames counts the activations analysed (for evidence).
	Frames int
}

// Observation accumulates what a rule saw at one effect in one context.
type Observation struct {
	Key   string
	State State // union of the abstract states in which the effect was reached
	Pos   string
	Chain string
	Instr ssa.Instruction
	Frame *Frame
	Extra map[string]string
}

func NewAnalysis(p *Program, sp *Space) *Analysis {
	return &Analysis{P: p, Space: sp, MaxDepth: 8, Obs: map[string]*Observation{}, Notes: map[string]bool{},
		memo: map[string]*exitState{}, active: map[*ssa.Function]int{}}
}

// Observe records that the effect identified by key is reached in state st.
func (a *Analysis) Observe(key string, f *Frame, in ssa.Instruction, st State) *Observation {
	o := a.Obs[key]
	if o == nil {
		o = &Observation{Key: key, Pos: a.P.InstrPos(in), Chain: f.Chain(a.P), Instr: in, Frame: f, Extra: map[string]string{}}
		a.Obs[key] = o
	}
	o.State = Union(o.State, st)
	return o
}

// SortedObs returns observations sorted by key.
func (a *Analysis) SortedObs() []*Observation {
	var keys []string
	for k := range a.Obs {
		keys = append(keys, k)
	}
	sort.Strings(keys)
	var out []*Observation
	for _, k := range keys {
		out = append(out, a.Obs[k])
	}
	return out
}

func (a *Analysis) note(s string) { a.Notes[s] = true }

// Run analyses root from the given entry state (Top if nil) and returns the state at its returns.
func (a *Analysis) Run(root *ssa.Function, entry State) State {
	if entry == nil {
		entry = a.Space.Top()
	}
	fr := NewRootFrame(root)
	return a.analyze(fr, entry).All
}

// exitState is the state at the returns of an activation; for functions with a single
// boolean result it is also split by the returned value.
type exitState struct {
	All, True, False State
	Split            bool
}

// RunFrame analyses an explicit root frame (custom bindings).
func (a *Analysis) RunFrame(fr *Frame, entry State) State {
	if entry == nil {
		entry = a.Space.Top()
	}
	return a.analyze(fr, entry).All
}

var traceFn = os.Getenv("RAFTLINT_TRACE")

func trunc(s string, n int) string {
	if len(s) > n {
		return s[:n]
	}
	return s
}

func stateKey(s State) string {
	var b strings.Builder
	for _, w := range s {
		fmt.Fprintf(&b, "%x.", w)
	}
	return b.String()
}

func (a *Analysis) frameKey(f *Frame) string {
	var parts []string
	for q := f; q != nil; q = q.Parent {
		s := FuncName(q.Fn)
		if q.Site != nil {
			s += "@" + fmt.Sprint(q.Site.Pos()) + q.bindKey
		}
		parts = append(parts, s)
	}
	return strings.Join(parts, "<")
}

// analyze runs the fixpoint over one activation and returns the join of the states at its returns.
func (a *Analysis) analyze(f *Frame, entry State) *exitState {
	if entry.IsEmpty() {
		return &exitState{}
	}
	key := a.frameKey(f) + "|" + stateKey(entry)
	if out, ok := a.memo[key]; ok {
		return out
	}
	a.Frames++
	fn := f.Fn
	a.active[fn]++
	defer func() { a.active[fn]-- }()

	in := make([]State, len(fn.Blocks))
	in[0] = entry
	edgeIn := map[[2]int]State{}
	exit := &exitState{}
	if res := fn.Signature.Results(); res.Len() == 1 {
		if b, ok := res.At(0).Type().Underlying().(*types.Basic); ok && b.Kind() == types.Bool {
			exit.Split = true
		}
	}
	work := []int{0}
	inWork := map[int]bool{0: true}
	for len(work) > 0 {
		// pick the lowest block index for determinism
		sort.Ints(work)
		bi := work[0]
		work = work[1:]
		inWork[bi] = false
		b := fn.Blocks[bi]
		st := in[bi].Clone()
		if st.IsEmpty() {
			continue
		}
		push := func(succ *ssa.BasicBlock, s State) {
			if s.IsEmpty() {
				return
			}
			// phi nodes redefine registers: atoms mentioning them are forgotten, except orderings of the register
			// itself whose new value is known relative to the old state (initial value, increment)
			for _, pin := range succ.Instrs {
				phi, ok := pin.(*ssa.Phi)
				if !ok {
					break
				}
				s = a.phiTransfer(f, b, succ, phi, s)
			}
			if a.EdgeHook != nil {
				a.EdgeHook(a, f, b, succ, s)
			}
			ek := [2]int{b.Index, succ.Index}
			oldEdge := edgeIn[ek]
			edgeIn[ek] = Union(oldEdge, s)
			// the successor is (re)visited when its in-state grows, and also when the state of this EDGE grows while the
			// in-state does not: a condition materialised as a phi is split per incoming edge, so which edges carry
			// which states matters even if their union is unchanged
			edgeGrew := !Equal(edgeIn[ek], oldEdge)
			n := Union(in[succ.Index], s)
			if !Equal(n, in[succ.Index]) || edgeGrew {
				in[succ.Index] = n
				if !inWork[succ.Index] {
					work = append(work, succ.Index)
					inWork[succ.Index] = true
				}
			}
		}
		// predicate calls whose split result is still valid (no intervening effect)
		var pred map[ssa.Value]*exitState
		for _, instr := range b.Instrs {
			a.steps++
			a.curFrame = f
			if st.IsEmpty() {
				break
			}
			if traceFn != "" && strings.Contains(FuncName(fn), traceFn) {
				fmt.Fprintf(os.Stderr, "TRACE %s b%d %-60s | %s\n", FuncName(fn), b.Index, trunc(instr.String(), 60), a.Space.Summary(st))
			}
			if a.Hook != nil {
				st = a.Hook(a, f, instr, st)
				if st.IsEmpty() {
					break
				}
			}
			switch instr := instr.(type) {
			case *ssa.If:
				ts, fs := a.splitByValue(f, b, instr, instr.Cond, st, pred, edgeIn)
				push(b.Succs[0], ts)
				push(b.Succs[1], fs)
			case *ssa.Jump:
				push(b.Succs[0], st)
			case *ssa.Return:
				exit.All = Union(exit.All, st)
				if exit.Split && len(instr.Results) == 1 {
					ts, fs := a.splitByValue(f, b, instr, instr.Results[0], st, pred, edgeIn)
					exit.True = Union(exit.True, ts)
					exit.False = Union(exit.False, fs)
				}
			case *ssa.Panic:
				st = nil
			case *ssa.Call:
				var ex *exitState
				st, ex = a.transferCall(f, instr, st)
				if ex != nil && ex.Split {
					pred = map[ssa.Value]*exitState{instr: ex}
				} else {
					pred = nil
				}
			case *ssa.UnOp, *ssa.FieldAddr, *ssa.BinOp, *ssa.Convert, *ssa.ChangeType, *ssa.Extract, *ssa.Field, *ssa.Lookup, *ssa.IndexAddr, *ssa.Index, *ssa.Phi, *ssa.Alloc, *ssa.MakeInterface, *ssa.Slice, *ssa.DebugRef:
				st = a.transfer(f, instr, st)
			default:
				pred = nil
				st = a.transfer(f, instr, st)
			}
			if a.Post != nil && !st.IsEmpty() {
				switch instr.(type) {
				case *ssa.If, *ssa.Jump, *ssa.Return, *ssa.Panic:
				default:
					n := a.Post(a, f, instr, st)
					if !Equal(n, st) {
						pred = nil
					}
					st = n
				}
			}
		}
	}
	a.memo[key] = exit
	return exit
}

// phiTransfer moves the state along the edge b -> succ across the phi: every atom that mentions the phi register is
// forgotten, except an ordering "phi ? T" (T not mentioning the phi) when the incoming value e is
//   - phi + k (k > 0): the ordering shifts as for an increment of a location;
//   - the term T itself: equality;
//   - a value X for which the space has the ordering "X ? T", and X has not changed since e was computed: copied.
func (a *Analysis) phiTransfer(f *Frame, b, succ *ssa.BasicBlock, phi *ssa.Phi, s State) State {
	sp := a.Space
	pi := -1
	for i, p := range succ.Preds {
		if p == b {
			pi = i
		}
	}
	if pi < 0 || pi >= len(phi.Edges) {
		return a.killReg(s, phi)
	}
	e := phi.Edges[pi]
	pt := a.P.Canon(f, phi)
	name := pt.S
	var kept []*Atom
	for i, at := range sp.Atoms {
		if at.Kind != Cmp || at.History || at.skipKill {
			continue
		}
		other, flipped := "", false
		switch {
		case at.A == name && !containsTerm(at.B, name):
			other = at.B
		case at.B == name && !containsTerm(at.A, name):
			other, flipped = at.A, true
		default:
			continue
		}
		// e = phi + k
		if bo, ok := e.(*ssa.BinOp); ok && bo.Op == token.ADD {
			var k int64
			if c, ok := bo.Y.(*ssa.Const); ok && bo.X == ssa.Value(phi) {
				k, _ = constInt(c)
			} else if c, ok := bo.X.(*ssa.Const); ok && bo.Y == ssa.Value(phi) {
				k, _ = constInt(c)
			}
			if k > 0 {
				lo, hi := LT, GT // the value below / above which the register moves away from
				if flipped {
					lo, hi = GT, LT
				}
				s = sp.Map(s, i, func(_ int, old int) uint32 {
					if old == lo {
						if k > 1 {
							return 1<<LT | 1<<EQ | 1<<GT
						}
						return 1<<uint(lo) | 1<<EQ
					}
					return 1 << uint(hi)
				})
				a.absorb(at, pt)
				kept = append(kept, at)
				continue
			}
		}
		et := a.P.Canon(f, e)
		if containsTerm(et.S, name) {
			continue
		}
		last := b.Instrs[len(b.Instrs)-1]
		if et.readsMemory() && !a.fresh(e, last, nil) {
			continue
		}
		if et.S == other {
			s = sp.Map(s, i, func(int, int) uint32 { return 1 << EQ })
			a.absorb(at, pt, et)
			kept = append(kept, at)
			continue
		}
		for j, src := range sp.Atoms {
			if j == i || src.Kind != Cmp || src.History {
				continue
			}
			same := src.A == et.S && src.B == other
			opp := src.B == et.S && src.A == other
			if !same && !opp {
				continue
			}
			flip := opp != flipped
			jj := j
			s = sp.Map(s, i, func(point int, _ int) uint32 {
				v := sp.Val(point, jj)
				if flip {
					v = 2 - v
				}
				return 1 << uint(v)
			})
			a.absorb(at, pt, src.dep)
			kept = append(kept, at)
			break
		}
	}
	for _, at := range kept {
		at.skipKill = true
	}
	s = a.killReg(s, phi)
	for _, at := range kept {
		at.skipKill = false
	}
	return Intersect(s, sp.consistent)
}

// splitByValue splits st by the boolean value v used by instruction user (an If or a Return) of
// block b. A value that is the phi of a short-circuit expression materialised in b is split per
// incoming edge; otherwise the value itself is recognised.
func (a *Analysis) splitByValue(f *Frame, b *ssa.BasicBlock, user ssa.Instruction, v ssa.Value, st State, pred map[ssa.Value]*exitState, edgeIn map[[2]int]State) (State, State) {
	neg := false
	c := v
	for {
		u, ok := c.(*ssa.UnOp)
		if !ok || u.Op != token.NOT {
			break
		}
		neg = !neg
		c = u.X
	}
	if phi, ok := c.(*ssa.Phi); ok && phi.Block() == b && onlyPhisBefore(b, user, phi) {
		var ts, fs State
		for i, pb := range b.Preds {
			es := Intersect(edgeIn[[2]int{pb.Index, b.Index}], st)
			t, fl := a.branchPred(f, phi.Edges[i], es, nil, user, pb)
			ts = Union(ts, t)
			fs = Union(fs, fl)
		}
		if neg {
			return fs, ts
		}
		return ts, fs
	}
	return a.branchPred(f, v, st, pred, user, nil)
}

// onlyPhisBefore reports whether everything before user in b is a phi, a debug reference or a
// negation of the phi (so that the per-edge states still describe the program at user).
func onlyPhisBefore(b *ssa.BasicBlock, user ssa.Instruction, phi *ssa.Phi) bool {
	for _, in := range b.Instrs {
		if in == user {
			return true
		}
		switch x := in.(type) {
		case *ssa.Phi, *ssa.DebugRef:
		case *ssa.UnOp:
			if x.Op != token.NOT {
				return false
			}
		default:
			return false
		}
	}
	return false
}

// branchPred splits st by cond, using the split exit state of an immediately preceding
// predicate call when cond is (a negation of) its result.
func (a *Analysis) branchPred(f *Frame, cond ssa.Value, st State, pred map[ssa.Value]*exitState, use ssa.Instruction, via *ssa.BasicBlock) (State, State) {
	neg := false
	c := cond
	for {
		u, ok := c.(*ssa.UnOp)
		if !ok || u.Op != token.NOT {
			break
		}
		neg = !neg
		c = u.X
	}
	if ex, ok := pred[c]; ok {
		ts, fs := Intersect(st, ex.True), Intersect(st, ex.False)
		if neg {
			ts, fs = fs, ts
		}
		// the call result may also be an atom of the rule itself (e.g. r.hasQuorum(n))
		lt, lf := a.branch(f, cond, st, use, via)
		return Intersect(ts, lt), Intersect(fs, lf)
	}
	return a.branch(f, cond, st, use, via)
}

// branch splits st by the condition.
func (a *Analysis) branch(f *Frame, cond ssa.Value, st State, use ssa.Instruction, via *ssa.BasicBlock) (State, State) {
	if c, ok := cond.(*ssa.Const); ok && c.Value != nil && c.Value.Kind() == constant.Bool {
		if constant.BoolVal(c.Value) {
			return st, nil
		}
		return nil, st
	}
	// a parameter bound to a constant by the calling context (start(false))
	switch a.P.Canon(f, cond).S {
	case "true":
		return st, nil
	case "false":
		return nil, st
	}
	atom, mask, ok := a.literal(f, cond)
	if ok && use != nil && !a.Space.Atoms[atom].History && !a.fresh(cond, use, via) {
		// the condition was computed from memory that may have been written since: it says nothing about the
		// current value of the atom's terms
		ok = false
		a.note("stale condition at " + a.P.InstrPos(use) + ": " + a.P.Canon(f, cond).S)
	}
	if traceFn != "" && strings.Contains(FuncName(f.Fn), traceFn) {
		fmt.Fprintf(os.Stderr, "TRACE   cond %s matched=%v\n", a.P.Canon(f, cond).S, ok)
	}
	if !ok {
		return a.impliedByMinMax(f, cond, st, use, via)
	}
	all := uint32(1)<<uint(a.Space.Atoms[atom].N) - 1
	return a.Space.Filter(st, atom, mask), a.Space.Filter(st, atom, all&^mask)
}

// minMaxArgs recognises v as Min(A, B) / Max(A, B) (internal/numeric or the builtins).
func minMaxArgs(v ssa.Value) (isMin bool, args []ssa.Value, ok bool) {
	for {
		c, isConv := v.(*ssa.Convert)
		if !isConv {
			break
		}
		v = c.X
	}
	call, isCall := v.(*ssa.Call)
	if !isCall || len(call.Common().Args) != 2 {
		return false, nil, false
	}
	name := ""
	if b, isB := call.Common().Value.(*ssa.Builtin); isB {
		name = b.Name()
	} else if callee := call.Common().StaticCallee(); callee != nil {
		pk := callee.Pkg
		if pk == nil && callee.Origin() != nil {
			pk = callee.Origin().Pkg
		}
		if pk != nil && pk.Pkg.Path() == ModulePath+"/internal/numeric" {
			name = strings.ToLower(callee.Name())
			if i := strings.IndexByte(name, '['); i >= 0 {
				name = name[:i]
			}
		}
	}
	switch name {
	case "min":
		return true, call.Common().Args, true
	case "max":
		return false, call.Common().Args, true
	}
	return false, nil, false
}

// impliedByMinMax handles the one-directional consequences of a comparison with Min/Max:
// X < Min(A,B) implies X < A and X < B (nothing follows from its negation), X > Max(A,B) implies X > A and X > B, and
// symmetrically for the negations of X >= Min(A,B) and X <= Max(A,B).
func (a *Analysis) impliedByMinMax(f *Frame, cond ssa.Value, st State, use ssa.Instruction, via *ssa.BasicBlock) (State, State) {
	neg := false
	for {
		u, ok := cond.(*ssa.UnOp)
		if !ok || u.Op != token.NOT {
			break
		}
		neg = !neg
		cond = u.X
	}
	b, ok := cond.(*ssa.BinOp)
	if !ok {
		return st, st
	}
	op := b.Op
	x, m := b.X, b.Y
	isMin, args, ok := minMaxArgs(m)
	if !ok {
		isMin, args, ok = minMaxArgs(x)
		if !ok {
			return st, st
		}
		x = m
		op = flipOp(op)
	}
	// which side of the branch carries the implication, and with which operator
	var onTrue bool
	var impl token.Token
	switch {
	case isMin && (op == token.LSS || op == token.LEQ):
		onTrue, impl = true, op
	case isMin && op == token.GEQ:
		onTrue, impl = false, token.LSS
	case isMin && op == token.GTR:
		onTrue, impl = false, token.LEQ
	case !isMin && (op == token.GTR || op == token.GEQ):
		onTrue, impl = true, op
	case !isMin && op == token.LEQ:
		onTrue, impl = false, token.GTR
	case !isMin && op == token.LSS:
		onTrue, impl = false, token.GEQ
	default:
		return st, st
	}
	if use != nil && !a.fresh(cond, use, via) {
		return st, st
	}
	xt := a.P.Canon(f, x)
	out := st
	for _, arg := range args {
		at := a.P.Canon(f, arg)
		for i, atom := range a.Space.Atoms {
			if atom.Kind != Cmp || atom.History {
				continue
			}
			var mask uint32
			if atom.A == xt.S && atom.B == at.S {
				mask, _ = cmpMask(impl)
			} else if atom.A == at.S && atom.B == xt.S {
				mask, _ = cmpMask(flipOp(impl))
			} else {
				continue
			}
			a.absorb(atom, xt, at)
			out = a.Space.Filter(out, i, mask)
		}
	}
	if onTrue != neg {
		return out, st
	}
	return st, out
}

// fresh reports whether every memory read that v is computed from happened "just before" use: in the same block
// (or, for a value arriving through a phi, at the end of the predecessor block via) with no instruction in between
// that may write memory. Only then does a comparison of v describe the CURRENT value of the terms it canonicalises to.
func (a *Analysis) fresh(v ssa.Value, use ssa.Instruction, via *ssa.BasicBlock) bool {
	var reads []ssa.Instruction
	// terms bound to parameters / captured variables of an inlined activation: they were evaluated by the caller
	// before the call, so whatever they read must not have changed since the activation was entered
	var entryDeps []*Term
	seen := map[ssa.Value]bool{}
	var walk func(x ssa.Value) bool
	walk = func(x ssa.Value) bool {
		if x == nil || seen[x] {
			return true
		}
		seen[x] = true
		switch y := x.(type) {
		case *ssa.Parameter, *ssa.FreeVar:
			if fr := a.curFrame; fr != nil && fr.Parent != nil && fr.Fn == use.Parent() {
				if bt := fr.Bind[y]; bt != nil && bt.readsMemory() {
					entryDeps = append(entryDeps, bt)
				}
			}
			return true
		case *ssa.Const, *ssa.Global, *ssa.Function, *ssa.Alloc, *ssa.Phi, *ssa.Builtin:
			return true
		case *ssa.UnOp:
			if y.Op == token.MUL {
				reads = append(reads, y)
				return walk(y.X)
			}
			return walk(y.X)
		case *ssa.BinOp:
			return walk(y.X) && walk(y.Y)
		case *ssa.Convert:
			return walk(y.X)
		case *ssa.ChangeType:
			return walk(y.X)
		case *ssa.MakeInterface:
			return walk(y.X)
		case *ssa.ChangeInterface:
			return walk(y.X)
		case *ssa.Field:
			return walk(y.X)
		case *ssa.FieldAddr:
			return walk(y.X)
		case *ssa.IndexAddr:
			return walk(y.X) && walk(y.Index)
		case *ssa.Index:
			return walk(y.X) && walk(y.Index)
		case *ssa.Extract:
			return walk(y.Tuple)
		case *ssa.Lookup:
			reads = append(reads, y)
			return walk(y.X) && walk(y.Index)
		case *ssa.Slice:
			return walk(y.X)
		case *ssa.Call:
			// the result of a call the analysis does not express as a term is just a register: it names an
			// immutable value, there is nothing that could have changed since
			if fr := a.curFrame; fr != nil && fr.Fn == y.Parent() && a.P.Canon(fr, y).Opaque {
				return true
			}
			reads = append(reads, y)
			for _, arg := range y.Common().Args {
				if !walk(arg) {
					return false
				}
			}
			if y.Common().IsInvoke() {
				return walk(y.Common().Value)
			}
			return true
		case *ssa.Next, *ssa.Range, *ssa.MakeMap, *ssa.MakeSlice, *ssa.MakeChan, *ssa.MakeClosure, *ssa.TypeAssert:
			return true
		}
		return true
	}
	walk(v)
	fr := a.curFrame
	for _, r := range reads {
		rv, ok := r.(ssa.Value)
		if !ok {
			continue
		}
		var dep *Term
		if fr != nil && fr.Fn == r.Parent() {
			dep = a.P.Canon(fr, rv)
		}
		if !a.unchangedBetween(r, use, via, dep) {
			if traceFn != "" {
				fmt.Fprintf(os.Stderr, "TRACE   stale read %s (%s) before %s\n", r.String(), a.P.InstrPos(r), a.P.InstrPos(use))
			}
			return false
		}
	}
	for _, dep := range entryDeps {
		if !a.unchangedBetween(nil, use, via, dep) {
			if traceFn != "" {
				fmt.Fprintf(os.Stderr, "TRACE   stale binding %s before %s\n", dep.S, a.P.InstrPos(use))
			}
			return false
		}
	}
	return true
}

// unchangedBetween reports whether, on every path from the read r to the use (or to the end of block via, for a
// value that arrives through a phi), no instruction may change what r read. dep is the canonical term of the read
// (nil = unknown: any writer counts).
func (a *Analysis) unchangedBetween(r, use ssa.Instruction, via *ssa.BasicBlock, dep *Term) bool {
	ub := use.Block()
	var rb *ssa.BasicBlock
	if r == nil {
		// from the entry of the function
		rb = use.Parent().Blocks[0]
	} else {
		rb = r.Block()
	}
	target := ub
	if via != nil {
		target = via
	}
	if rb != target && !rb.Dominates(target) {
		return false
	}
	// blocks on some path from rb to target
	fwd := map[*ssa.BasicBlock]bool{}
	var f func(b *ssa.BasicBlock)
	f = func(b *ssa.BasicBlock) {
		if fwd[b] {
			return
		}
		fwd[b] = true
		if b == target {
			return
		}
		for _, s := range b.Succs {
			f(s)
		}
	}
	f(rb)
	bwd := map[*ssa.BasicBlock]bool{}
	var g func(b *ssa.BasicBlock)
	g = func(b *ssa.BasicBlock) {
		if bwd[b] {
			return
		}
		bwd[b] = true
		if b == rb {
			return
		}
		for _, p := range b.Preds {
			g(p)
		}
	}
	g(target)
	// a cycle through the target that does not pass the read's block: what follows the use comes round again
	// before the value is read anew
	cyc := map[*ssa.BasicBlock]bool{}
	{
		after := map[*ssa.BasicBlock]bool{}
		var h func(b *ssa.BasicBlock)
		h = func(b *ssa.BasicBlock) {
			if after[b] || (b == rb && r != nil) {
				return
			}
			after[b] = true
			for _, s := range b.Succs {
				h(s)
			}
		}
		for _, s := range target.Succs {
			h(s)
		}
		if after[target] {
			// blocks reachable from the target (avoiding the read) that reach the target again
			back := map[*ssa.BasicBlock]bool{}
			var k func(b *ssa.BasicBlock)
			k = func(b *ssa.BasicBlock) {
				if back[b] || !after[b] {
					return
				}
				back[b] = true
				for _, p := range b.Preds {
					k(p)
				}
			}
			k(target)
			for b := range back {
				cyc[b] = true
			}
		}
	}
	for b := range cyc {
		if fwd[b] && bwd[b] && b != ub && b != rb {
			continue // scanned completely below
		}
		for _, in := range b.Instrs {
			if in == r || (b == ub && via == nil && in == use) {
				continue
			}
			if b == rb && r != nil {
				// only what follows the read in its own block can lie between (the block is entered once per read)
				break
			}
			if a.mayChange(in, dep) {
				return false
			}
		}
	}
	for b := range fwd {
		if !bwd[b] {
			continue
		}
		started := b != rb || r == nil
		for _, in := range b.Instrs {
			if r != nil && in == r {
				started = true
				continue
			}
			if b == ub && via == nil && in == use {
				break
			}
			if !started {
				continue
			}
			if a.mayChange(in, dep) {
				return false
			}
		}
	}
	if via != nil {
		// in the use block only phis / negations may precede the use
		for _, in := range ub.Instrs {
			if in == use {
				break
			}
			switch x := in.(type) {
			case *ssa.Phi, *ssa.DebugRef:
			case *ssa.UnOp:
				if x.Op != token.NOT {
					return false
				}
			default:
				return false
			}
		}
	}
	return true
}

// mayChange reports whether instruction in may change the memory the term dep reads (dep == nil: any memory).
func (a *Analysis) mayChange(in ssa.Instruction, dep *Term) bool {
	if dep == nil {
		return a.mayWrite(in)
	}
	fieldsHit := func(fs map[*types.Var]bool) bool {
		for fl := range fs {
			if dep.Fields[fl] {
				return true
			}
		}
		return false
	}
	switch x := in.(type) {
	case *ssa.Store:
		switch ad := x.Addr.(type) {
		case *ssa.FieldAddr:
			if al := rootAlloc(ad.X); al != nil && !al.Heap {
				return dep.Regs[al]
			}
			return dep.Fields[fieldOf(ad.X.Type(), ad.Field)]
		case *ssa.Alloc:
			return dep.Regs[ad]
		case *ssa.IndexAddr:
			if al := rootAlloc(ad.X); al != nil {
				return dep.Regs[al]
			}
			return dep.HasMap
		}
		for _, fl := range structFields(x.Addr.Type()) {
			if dep.Fields[fl] {
				return true
			}
		}
		return dep.Shared || dep.HasMap
	case *ssa.MapUpdate:
		return dep.HasMap
	case *ssa.Send:
		return false
	case *ssa.RunDefers:
		for _, b := range in.Parent().Blocks {
			for _, y := range b.Instrs {
				if d, ok := y.(*ssa.Defer); ok && a.callMayChange(d.Common(), dep, fieldsHit) {
					return true
				}
			}
		}
		return false
	case *ssa.Call:
		return a.callMayChange(x.Common(), dep, fieldsHit)
	}
	return false
}

func (a *Analysis) callMayChange(c *ssa.CallCommon, dep *Term, fieldsHit func(map[*types.Var]bool) bool) bool {
	if bi, ok := c.Value.(*ssa.Builtin); ok {
		switch bi.Name() {
		case "delete", "copy":
			return dep.HasMap
		}
		return false
	}
	if op, _ := isMutexOp(c); op != "" {
		switch op {
		case "Mutex.Unlock", "RWMutex.Unlock", "Cond.Wait":
			return dep.Shared
		}
		return false
	}
	if c.IsInvoke() {
		iface := ifaceOf(c)
		if iface == "" {
			return false
		}
		return ifaceMayMutate(iface, c.Method.Name()) && dep.Ifaces[iface]
	}
	var callee *ssa.Function
	switch v := c.Value.(type) {
	case *ssa.Function:
		callee = v
	case *ssa.MakeClosure:
		callee = v.Fn.(*ssa.Function)
	default:
		return true
	}
	if !a.P.InScope[callee] || a.P.IsNoReturnCall(c) {
		return false
	}
	if callee.Pkg != nil && callee.Pkg.Pkg.Path() == ModulePath+"/logging" {
		return false
	}
	eff := a.P.Effects(callee)
	if eff.Unknown {
		return true
	}
	if fieldsHit(eff.Fields) {
		return true
	}
	for i := range eff.Ifaces {
		if dep.Ifaces[i] {
			return true
		}
	}
	if eff.Maps && dep.HasMap {
		return true
	}
	return eff.Window && dep.Shared
}

// cleanBetween reports whether no instruction strictly after from and before to (nil = end of block) in block b
// may write memory the analysis cares about.
func (a *Analysis) cleanBetween(b *ssa.BasicBlock, from, to ssa.Instruction) bool {
	started := false
	for _, in := range b.Instrs {
		if in == to {
			return started || from == nil
		}
		if in == from {
			started = true
			continue
		}
		if !started {
			continue
		}
		if a.mayWrite(in) {
			return false
		}
	}
	return to == nil && started
}

// mayWrite is a conservative "this instruction can change memory or let other goroutines change it".
func (a *Analysis) mayWrite(in ssa.Instruction) bool {
	switch x := in.(type) {
	case *ssa.Store, *ssa.MapUpdate, *ssa.Send, *ssa.RunDefers:
		return true
	case *ssa.Call:
		c := x.Common()
		if bi, ok := c.Value.(*ssa.Builtin); ok {
			return bi.Name() == "delete" || bi.Name() == "copy" || bi.Name() == "append"
		}
		if op, _ := isMutexOp(c); op != "" {
			return op != "Mutex.Lock" && op != "RWMutex.Lock" && op != "RWMutex.RLock" && op != "Cond.Broadcast" && op != "Cond.Signal"
		}
		if c.IsInvoke() {
			iface := ifaceOf(c)
			if iface == "" {
				return false
			}
			return !ifaceObservers[iface][c.Method.Name()]
		}
		callee := c.StaticCallee()
		if callee == nil {
			return true
		}
		if !a.P.InScope[callee] {
			return false
		}
		if callee.Pkg != nil && callee.Pkg.Pkg.Path() == ModulePath+"/logging" {
			return false
		}
		if a.P.IsNoReturnCall(c) {
			return false
		}
		return !a.P.Purity(callee).Pure
	}
	return false
}

func flipOp(op token.Token) token.Token {
	switch op {
	case token.LSS:
		return token.GTR
	case token.LEQ:
		return token.GEQ
	case token.GTR:
		return token.LSS
	case token.GEQ:
		return token.LEQ
	}
	return op
}

func cmpMask(op token.Token) (uint32, bool) {
	switch op {
	case token.LSS:
		return 1 << LT, true
	case token.LEQ:
		return 1<<LT | 1<<EQ, true
	case token.EQL:
		return 1 << EQ, true
	case token.NEQ:
		return 1<<LT | 1<<GT, true
	case token.GEQ:
		return 1<<EQ | 1<<GT, true
	case token.GTR:
		return 1 << GT, true
	}
	return 0, false
}

func (a *Analysis) absorb(at *Atom, ts ...*Term) {
	for _, t := range ts {
		at.dep.absorb(t)
		// every atom about the same term depends on the same memory, whether or not a condition of the program has
		// been matched to it yet: the consistency closure can constrain it through the others (transitivity), and
		// then it must be forgotten together with them
		for _, other := range a.Space.Atoms {
			if other != at && t.S != "" && (other.A == t.S || other.B == t.S) {
				other.dep.absorb(t)
			}
		}
	}
}

// literal recognises cond as a constraint on one atom: the mask of atom values under which cond is true.
func (a *Analysis) literal(f *Frame, cond ssa.Value) (int, uint32, bool) {
	sp := a.Space
	switch c := cond.(type) {
	case *ssa.UnOp:
		if c.Op == token.NOT {
			at, m, ok := a.literal(f, c.X)
			if !ok {
				return 0, 0, false
			}
			all := uint32(1)<<uint(sp.Atoms[at].N) - 1
			return at, all &^ m, true
		}
	case *ssa.BinOp:
		if m, ok := cmpMask(c.Op); ok {
			x, y := a.P.Canon(f, c.X), a.P.Canon(f, c.Y)
			for i, at := range sp.Atoms {
				switch at.Kind {
				case Cmp:
					if at.A == x.S && at.B == y.S {
						a.absorb(at, x, y)
						return i, m, true
					}
					if at.A == y.S && at.B == x.S {
						a.absorb(at, x, y)
						fm, _ := cmpMask(flipOp(c.Op))
						return i, fm, true
					}
				case Enum:
					var cv *ssa.Const
					var other *Term
					if k, ok := c.Y.(*ssa.Const); ok && at.A == x.S {
						cv, other = k, x
					} else if k, ok := c.X.(*ssa.Const); ok && at.A == y.S {
						cv, other = k, y
					}
					if cv == nil || (c.Op != token.EQL && c.Op != token.NEQ) {
						continue
					}
					iv, ok := constInt(cv)
					if !ok {
						continue
					}
					a.absorb(at, other)
					idx := len(at.Vals)
					for k, v := range at.Vals {
						if v == iv {
							idx = k
						}
					}
					all := uint32(1)<<uint(at.N) - 1
					var mask uint32
					if idx == len(at.Vals) {
						// comparison with a constant outside the declared set: only "other" can equal it,
						// but "other" stands for several values, so equality is not decided by it.
						if c.Op == token.EQL {
							return i, 1 << uint(idx), true // true edge: must be "other"; false edge handled below
						}
						// != unknown constant: true for every declared value, undecided for other
						return 0, 0, false
					}
					mask = 1 << uint(idx)
					if c.Op == token.NEQ {
						mask = all &^ mask
					}
					return i, mask, true
				}
			}
		}
	}
	// generic boolean atom on the whole condition
	t := a.P.Canon(f, cond)
	for i, at := range sp.Atoms {
		if at.Kind == Bool && at.A == t.S {
			a.absorb(at, t)
			return i, 1 << 1, true
		}
		if at.Kind == Bool && "!"+at.A == t.S {
			a.absorb(at, t)
			return i, 1 << 0, true
		}
	}
	return 0, 0, false
}

func constInt(c *ssa.Const) (int64, bool) {
	if c.Value == nil {
		return 0, false
	}
	if c.Value.Kind() != constant.Int {
		return 0, false
	}
	v, ok := constant.Int64Val(c.Value)
	return v, ok
}

// ---- kills ----

func (a *Analysis) killWhere(st State, pred func(at *Atom) bool) State {
	var which []int
	for i, at := range a.Space.Atoms {
		if at.Kind == Ghost || at.History || at.skipKill {
			continue
		}
		if pred(at) {
			which = append(which, i)
		}
	}
	return a.Space.WidenAll(st, which)
}

func (a *Analysis) killReg(st State, v ssa.Value) State {
	var which []int
	for i, at := range a.Space.Atoms {
		if at.Kind == Ghost || at.skipKill {
			continue
		}
		if at.dep.Regs[v] {
			which = append(which, i)
		}
	}
	return a.Space.WidenAll(st, which)
}

// KillShared forgets every state atom that reads node-shared memory (an unlock window).
func (a *Analysis) KillShared(st State) State {
	return a.killWhere(st, func(at *Atom) bool { return at.dep.Shared && !at.Stable })
}

func (a *Analysis) killAll(st State) State {
	return a.killWhere(st, func(at *Atom) bool { return true })
}

func (a *Analysis) killField(st State, fld *types.Var) State {
	return a.killWhere(st, func(at *Atom) bool { return at.dep.Fields[fld] })
}

func (a *Analysis) killIface(st State, iface string) State {
	return a.killWhere(st, func(at *Atom) bool { return at.dep.Ifaces[iface] })
}

func (a *Analysis) killLoc(st State, loc string) State {
	if loc == "" {
		return st
	}
	return a.killWhere(st, func(at *Atom) bool {
		return containsTerm(at.A, loc) || containsTerm(at.B, loc)
	})
}

// containsTerm reports whether loc occurs in s as a whole sub-term (delimited).
func containsTerm(s, loc string) bool {
	if s == "" {
		return false
	}
	i := 0
	for {
		j := strings.Index(s[i:], loc)
		if j < 0 {
			return false
		}
		j += i
		end := j + len(loc)
		okL := j == 0 || !isIdentChar(s[j-1])
		okR := end == len(s) || !isIdentChar(s[end])
		if okL && okR {
			return true
		}
		i = j + 1
	}
}

func isIdentChar(c byte) bool {
	return c == '_' || c == '$' || c == '%' || (c >= '0' && c <= '9') || (c >= 'a' && c <= 'z') || (c >= 'A' && c <= 'Z')
}

// ---- transfer ----

func isMutexOp(c *ssa.CallCommon) (op string, recv ssa.Value) {
	callee := c.StaticCallee()
	if callee == nil || callee.Pkg == nil || callee.Pkg.Pkg.Path() != "sync" {
		return "", nil
	}
	r := callee.Signature.Recv()
	if r == nil {
		return "", nil
	}
	tn := namedName(r.Type())
	switch tn {
	case "Mutex", "RWMutex":
		switch callee.Name() {
		case "Lock", "Unlock", "RLock", "RUnlock":
			return tn + "." + callee.Name(), c.Args[0]
		}
	case "Cond":
		switch callee.Name() {
		case "Wait", "Broadcast", "Signal":
			return "Cond." + callee.Name(), c.Args[0]
		}
	case "WaitGroup":
		return "WaitGroup." + callee.Name(), c.Args[0]
	}
	return "", nil
}

// isNodeMutex reports whether v is the address of a field named "mu" of struct Raft.
func isNodeMutex(v ssa.Value) bool {
	fa, ok := v.(*ssa.FieldAddr)
	if !ok {
		return false
	}
	fld := fieldOf(fa.X.Type(), fa.Field)
	return fld.Name() == "mu" && isPtrToNamed(fa.X.Type(), "Raft")
}

func (a *Analysis) transfer(f *Frame, instr ssa.Instruction, st State) State {
	sp := a.Space
	if v, ok := instr.(ssa.Value); ok {
		if _, isPhi := instr.(*ssa.Phi); !isPhi { // a phi is redefined on the incoming edge (phiTransfer)
			st = a.killReg(st, v)
		}
	}
	switch in := instr.(type) {
	case *ssa.Store:
		return a.store(f, in, in.Addr, in.Val, st)
	case *ssa.MapUpdate:
		m := a.P.Canon(f, in.Map)
		return a.killMap(st, m)
	case *ssa.Call:
		st, _ = a.transferCall(f, in, st)
		return st
	case *ssa.Defer, *ssa.Go:
		return st
	case *ssa.RunDefers:
		// run, in reverse order, the defers whose block dominates this one
		var ds []*ssa.Defer
		for _, b := range f.Fn.Blocks {
			if !b.Dominates(in.Block()) {
				continue
			}
			for _, x := range b.Instrs {
				if d, ok := x.(*ssa.Defer); ok {
					if b == in.Block() {
						// only defers before the rundefers
						before := false
						for _, y := range b.Instrs {
							if y == d {
								before = true
								break
							}
							if y == in {
								break
							}
						}
						if !before {
							continue
						}
					}
					ds = append(ds, d)
				}
			}
		}
		for i := len(ds) - 1; i >= 0; i-- {
			if a.Hook != nil {
				a.AtRunDefers = true
				st = a.Hook(a, f, ds[i], st)
				a.AtRunDefers = false
				if st.IsEmpty() {
					return st
				}
			}
			a.runDefersAt = in
			st, _ = a.call(f, ds[i], ds[i].Common(), st)
			a.runDefersAt = nil
			if a.PostCall != nil && !st.IsEmpty() {
				st = a.PostCall(a, f, ds[i], st)
			}
		}
		return st
	case *ssa.Send:
		return st
	}
	_ = sp
	return st
}

func (a *Analysis) transferCall(f *Frame, in *ssa.Call, st State) (State, *exitState) {
	st = a.killReg(st, in)
	st, ex := a.call(f, in, in.Common(), st)
	if a.PostCall != nil && !st.IsEmpty() {
		n := a.PostCall(a, f, in, st)
		if !Equal(n, st) {
			ex = nil
		}
		st = n
	}
	return st, ex
}

func (a *Analysis) killMap(st State, m *Term) State {
	return a.killWhere(st, func(at *Atom) bool {
		if !at.dep.HasMap {
			return false
		}
		if len(m.Fields) == 0 {
			return true
		}
		for fl := range m.Fields {
			if at.dep.Fields[fl] {
				return true
			}
		}
		return false
	})
}

func (a *Analysis) store(f *Frame, instr ssa.Instruction, addr, val ssa.Value, st State) State {
	sp := a.Space
	at := a.P.Canon(f, addr)
	loc := at.S
	if strings.HasPrefix(loc, "&") {
		loc = loc[1:]
	} else {
		loc = "*" + loc
	}
	// loc := loc + k (k > 0): orderings that mention loc directly shift instead of being forgotten
	var shifted []*Atom
	if k := incrementOf(a.P, f, val, loc); k > 0 && (instr == nil || a.fresh(val, instr, nil)) {
		pre := st
		for i, atom := range sp.Atoms {
			if atom.Kind != Cmp || atom.History || atom.A == atom.B {
				continue
			}
			switch {
			case atom.A == loc && !containsTerm(atom.B, loc):
				pre = sp.Map(pre, i, func(pt, old int) uint32 {
					if old == LT {
						if k > 1 {
							return 1<<LT | 1<<EQ | 1<<GT
						}
						return 1<<LT | 1<<EQ
					}
					return 1 << GT
				})
				shifted = append(shifted, atom)
			case atom.B == loc && !containsTerm(atom.A, loc):
				pre = sp.Map(pre, i, func(pt, old int) uint32 {
					if old == GT {
						if k > 1 {
							return 1<<LT | 1<<EQ | 1<<GT
						}
						return 1<<GT | 1<<EQ
					}
					return 1 << LT
				})
				shifted = append(shifted, atom)
			}
		}
		st = Intersect(pre, sp.consistent)
		for _, atom := range shifted {
			atom.skipKill = true
		}
		defer func() {
			for _, atom := range shifted {
				atom.skipKill = false
			}
		}()
	}
	var fld *types.Var
	switch x := addr.(type) {
	case *ssa.FieldAddr:
		fld = fieldOf(x.X.Type(), x.Field)
		if al := rootAlloc(x.X); al != nil && !al.Heap {
			// field of a local struct that never escapes: it cannot alias node state, and only terms that
			// mention this very field path change (killLoc below)
			fld = nil
		} else {
			st = a.killField(st, fld)
		}
	case *ssa.Alloc:
		st = a.killReg(st, x)
	case *ssa.IndexAddr:
		if al := rootAlloc(x.X); al != nil {
			// element of a local array/slice variable (e.g. a varargs array): only terms that mention it
			st = a.killReg(st, al)
		} else {
			st = a.killMap(st, a.P.Canon(f, x.X))
		}
	default:
		// a store through a pointer value (*p = v): if the pointee is a struct every field of it is rewritten
		for _, fl := range structFields(addr.Type()) {
			st = a.killField(st, fl)
		}
	}
	st = a.killLoc(st, loc)
	// establish
	vt := a.P.Canon(f, val)
	if containsTerm(vt.S, loc) || (fld != nil && vt.Fields[fld]) {
		return st
	}
	if instr != nil && !a.fresh(val, instr, nil) {
		// the stored value was read from memory that may have changed since: nothing to establish
		return st
	}
	locTerm := derive(loc, at)
	locTerm.Shared = at.Shared || a.P.addrShared(f, addr)
	for i, atom := range sp.Atoms {
		switch atom.Kind {
		case Cmp:
			if atom.History {
				continue
			}
			if atom.A == loc && atom.B == vt.S {
				a.absorb(atom, locTerm, vt)
				st = sp.Assign(st, i, EQ)
			} else if atom.B == loc && atom.A == vt.S {
				a.absorb(atom, locTerm, vt)
				st = sp.Assign(st, i, EQ)
			} else if isFreshObject(val) && ((atom.A == loc && atom.B == "nil") || (atom.B == loc && atom.A == "nil")) {
				// the address of a freshly allocated object is not nil ("greater than nil" by convention)
				a.absorb(atom, locTerm)
				if atom.A == loc {
					st = sp.Assign(st, i, GT)
				} else {
					st = sp.Assign(st, i, LT)
				}
			} else if c, ok := val.(*ssa.Const); ok {
				// comparison of the location with another constant
				var other string
				flip := false
				if atom.A == loc {
					other = atom.B
				} else if atom.B == loc {
					other = atom.A
					flip = true
				} else {
					continue
				}
				if r, ok := compareConstStrings(constString(c), other); ok {
					if flip {
						r = 2 - r
					}
					a.absorb(atom, locTerm)
					st = sp.Assign(st, i, r)
				}
			}
		case Bool:
			if atom.History || atom.A != loc {
				continue
			}
			if c, ok := val.(*ssa.Const); ok && c.Value != nil && c.Value.Kind() == constant.Bool {
				a.absorb(atom, locTerm)
				v := 0
				if constant.BoolVal(c.Value) {
					v = 1
				}
				st = sp.Assign(st, i, v)
			}
		case Enum:
			if atom.History || atom.A != loc {
				continue
			}
			if c, ok := val.(*ssa.Const); ok {
				if iv, ok := constInt(c); ok {
					a.absorb(atom, locTerm)
					idx := len(atom.Vals)
					for k, v := range atom.Vals {
						if v == iv {
							idx = k
						}
					}
					st = sp.Assign(st, i, idx)
				}
			}
		}
	}
	return st
}

// incrementOf returns k if val is (load of loc) + k with a positive integer constant k, else 0.
func incrementOf(p *Program, f *Frame, val ssa.Value, loc string) int64 {
	b, ok := val.(*ssa.BinOp)
	if !ok || b.Op != token.ADD {
		return 0
	}
	pos := func(v ssa.Value) int64 {
		c, ok := v.(*ssa.Const)
		if !ok {
			return 0
		}
		k, ok := constInt(c)
		if !ok || k <= 0 {
			return 0
		}
		return k
	}
	if k := pos(b.Y); k > 0 && p.Canon(f, b.X).S == loc {
		return k
	}
	if k := pos(b.X); k > 0 && p.Canon(f, b.Y).S == loc {
		return k
	}
	return 0
}

// structFields returns the fields of S if t is *S for a struct type S (nil otherwise).
func structFields(t types.Type) []*types.Var {
	pt, ok := t.Underlying().(*types.Pointer)
	if !ok {
		return nil
	}
	st, ok := pt.Elem().Underlying().(*types.Struct)
	if !ok {
		return nil
	}
	var out []*types.Var
	for i := 0; i < st.NumFields(); i++ {
		out = append(out, st.Field(i))
	}
	return out
}

// isFreshObject reports whether v is the address of an object allocated by this instruction.
func isFreshObject(v ssa.Value) bool {
	switch v.(type) {
	case *ssa.Alloc, *ssa.MakeMap, *ssa.MakeChan, *ssa.MakeSlice, *ssa.MakeClosure:
		return true
	}
	return false
}

// rootAlloc returns the local allocation an address is derived from by field/index steps only.
func rootAlloc(v ssa.Value) *ssa.Alloc {
	for {
		switch x := v.(type) {
		case *ssa.Alloc:
			return x
		case *ssa.FieldAddr:
			v = x.X
		case *ssa.IndexAddr:
			v = x.X
		default:
			return nil
		}
	}
}

// compareConstStrings orders two canonical constants (both quoted strings or both integers).
func compareConstStrings(a, b string) (int, bool) {
	if a == "nil" && b == "nil" {
		return EQ, true
	}
	if strings.HasPrefix(a, `"`) && strings.HasPrefix(b, `"`) {
		switch {
		case a < b:
			return LT, true
		case a == b:
			return EQ, true
		}
		return GT, true
	}
	var x, y int64
	if _, err := fmt.Sscanf(a, "%d", &x); err != nil {
		return 0, false
	}
	if _, err := fmt.Sscanf(b, "%d", &y); err != nil {
		return 0, false
	}
	switch {
	case x < y:
		return LT, true
	case x == y:
		return EQ, true
	}
	return GT, true
}

func (a *Analysis) call(f *Frame, site ssa.CallInstruction, c *ssa.CallCommon, st State) (State, *exitState) {
	if a.P.IsNoReturnCall(c) {
		return nil, nil
	}
	if b, ok := c.Value.(*ssa.Builtin); ok {
		switch b.Name() {
		case "delete":
			return a.killMap(st, a.P.Canon(f, c.Args[0])), nil
		case "copy":
			return a.killMap(st, a.P.Canon(f, c.Args[0])), nil
		}
		return st, nil
	}
	if op, recv := isMutexOp(c); op != "" {
		switch op {
		case "Mutex.Unlock", "RWMutex.Unlock", "Cond.Wait":
			_ = recv
			return a.KillShared(st), nil
		}
		return st, nil
	}
	if c.IsInvoke() {
		iface := ifaceOf(c)
		if iface != "" {
			if ifaceMayMutate(iface, c.Method.Name()) {
				return a.killIface(st, iface), nil
			}
			return st, nil
		}
		// foreign interface (io.Writer, net.Addr, pb client ...): cannot touch module state
		return st, nil
	}
	var callee *ssa.Function
	var bindings []ssa.Value
	switch v := c.Value.(type) {
	case *ssa.Function:
		callee = v
	case *ssa.MakeClosure:
		callee = v.Fn.(*ssa.Function)
		bindings = v.Bindings
	default:
		// call through a function value: unknown target
		a.note("dynamic call at " + a.P.InstrPos(site))
		return a.killAll(st), nil
	}
	if !a.P.InScope[callee] {
		return st, nil
	}
	if callee.Pkg != nil && callee.Pkg.Pkg.Path() == ModulePath+"/logging" {
		return st, nil
	}
	if a.NoInline != nil && a.NoInline(callee) {
		return a.killByEffects(st, callee), nil
	}
	if f.Depth >= a.MaxDepth || a.active[callee] > 0 {
		a.note("inlining bound reached at " + a.P.InstrPos(site) + " calling " + FuncName(callee))
		return a.killByEffects(st, callee), nil
	}
	sub := &Frame{Fn: callee, Parent: f, Site: site, Bind: map[ssa.Value]*Term{}, cache: map[ssa.Value]*Term{}, Depth: f.Depth + 1}
	// an argument (or captured variable) denotes the value it had when it was evaluated; it is bound to its term
	// only if what the term reads cannot have changed between that evaluation and the call (for a deferred call:
	// the point where the defers run)
	at := ssa.Instruction(site)
	if a.runDefersAt != nil {
		at = a.runDefersAt
	}
	for i, par := range callee.Params {
		if i < len(c.Args) {
			t := a.P.Canon(f, c.Args[i])
			if t.readsMemory() && !a.fresh(c.Args[i], at, nil) {
				t = capturedCopy(t)
			}
			// ... and inside the callee the parameter keeps that name only if the memory is not written before
			// any of its uses there
			if t.readsMemory() && !isReferenceType(par.Type()) && len(callee.Blocks) > 0 && !a.P.stableAtUses(nil, par, t) {
				t = capturedCopy(t)
			}
			sub.Bind[par] = t
			sub.bindKey += "|" + t.S
		}
	}
	for i, fv := range callee.FreeVars {
		if i < len(bindings) {
			t := a.P.cellTerm(f, bindings[i])
			if al, ok := bindings[i].(*ssa.Alloc); ok && t.readsMemory() {
				if v := singleStore(al); v != nil && !a.fresh(v, at, nil) {
					t = capturedCopy(t)
				}
			}
			// inside the closure the captured value keeps its name only if the memory it was read from is not
			// written before any use of it there
			if t.readsMemory() && !strings.HasPrefix(t.S, "&@") {
				stable := true
				if refs := fv.Referrers(); refs != nil {
					for _, r := range *refs {
						if ld, ok := r.(*ssa.UnOp); ok && ld.Op == token.MUL && !isReferenceType(ld.Type()) && !a.P.stableAtUses(nil, ld, t) {
							stable = false
						}
					}
				}
				if !stable {
					t = capturedCopy(t)
				}
			}
			sub.Bind[fv] = t
			sub.bindKey += "|" + t.S
		}
	}
	a.curFrame = f
	ex := a.analyze(sub, st)
	a.curFrame = f
	return ex.All, ex
}

// capturedCopy names a value that was computed from memory which may have changed since: the name keeps the
// expression (so that rules can still recognise "the value that was read there"), marked with '@' so that it
// never matches an atom about the current contents of that memory, and it depends on no memory any more.
func capturedCopy(t *Term) *Term {
	s := t.S
	if strings.HasPrefix(s, "&") {
		s = "&@" + s[1:]
	} else {
		s = "@" + s
	}
	c := newTerm(s)
	for k := range t.Regs {
		c.Regs[k] = true
	}
	c.Volatile = t.Volatile
	return c
}

// ValueName strips the captured-value marks of a canonical term: two terms with the same ValueName denote the value
// of the same expression, possibly evaluated at different moments.
func ValueName(s string) string { return strings.ReplaceAll(s, "@", "") }

// cellTerm canonicalises the address of a captured variable. If the variable is assigned
// exactly once (the usual spill of a parameter), loads through it denote the stored value.
func (p *Program) cellTerm(f *Frame, cell ssa.Value) *Term {
	if al, ok := cell.(*ssa.Alloc); ok {
		if v := singleStore(al); v != nil {
			t := p.Canon(f, v)
			return derive("&"+t.S, t)
		}
	}
	return p.Canon(f, cell)
}

// singleStore returns the only value ever stored to the alloc, or nil.
func singleStore(al *ssa.Alloc) ssa.Value {
	refs := al.Referrers()
	if refs == nil {
		return nil
	}
	var val ssa.Value
	n := 0
	for _, r := range *refs {
		if s, ok := r.(*ssa.Store); ok && s.Addr == al {
			n++
			val = s.Val
		}
	}
	if n == 1 {
		return val
	}
	return nil
}

// killByEffects forgets what a non-inlined callee may write (transitively).
func (a *Analysis) killByEffects(st State, callee *ssa.Function) State {
	eff := a.P.Effects(callee)
	if eff.Unknown {
		return a.killAll(st)
	}
	st = a.killWhere(st, func(at *Atom) bool {
		for fl := range eff.Fields {
			if at.dep.Fields[fl] {
				return true
			}
		}
		for i := range eff.Ifaces {
			if at.dep.Ifaces[i] {
				return true
			}
		}
		if eff.Maps && at.dep.HasMap {
			return true
		}
		return false
	})
	if eff.Window {
		st = a.KillShared(st)
	}
	return st
}

// EffectSummary is the transitive may-write set of a function.
type EffectSummary struct {
	Fields  map[*types.Var]bool
	Ifaces  map[string]bool
	Maps    bool
	Window  bool
	Unknown bool
	busy    bool
}

// Effects computes the transitive may-write summary of fn.
func (p *Program) Effects(fn *ssa.Function) *EffectSummary {
	if p.effects == nil {
		p.effects = map[*ssa.Function]*EffectSummary{}
	}
	if e, ok := p.effects[fn]; ok {
		if e.busy {
			return &EffectSummary{Unknown: true, Fields: map[*types.Var]bool{}, Ifaces: map[string]bool{}}
		}
		return e
	}
	e := &EffectSummary{Fields: map[*types.Var]bool{}, Ifaces: map[string]bool{}, busy: true}
	p.effects[fn] = e
	for _, b := range fn.Blocks {
		for _, in := range b.Instrs {
			switch in := in.(type) {
			case *ssa.Store:
				if fa, ok := in.Addr.(*ssa.FieldAddr); ok {
					e.Fields[fieldOf(fa.X.Type(), fa.Field)] = true
				} else if _, ok := in.Addr.(*ssa.IndexAddr); ok {
					e.Maps = true
				}
			case *ssa.MapUpdate:
				e.Maps = true
			case ssa.CallInstruction:
				if _, ok := in.(*ssa.Go); ok {
					continue
				}
				c := in.Common()
				if bi, ok := c.Value.(*ssa.Builtin); ok {
					if bi.Name() == "delete" || bi.Name() == "copy" {
						e.Maps = true
					}
					continue
				}
				if op, _ := isMutexOp(c); op == "Mutex.Unlock" || op == "Cond.Wait" {
					e.Window = true
					continue
				}
				if c.IsInvoke() {
					iface := ifaceOf(c)
					if iface != "" && ifaceMayMutate(iface, c.Method.Name()) {
						e.Ifaces[iface] = true
					}
					continue
				}
				var callee *ssa.Function
				switch v := c.Value.(type) {
				case *ssa.Function:
					callee = v
				case *ssa.MakeClosure:
					callee = v.Fn.(*ssa.Function)
				default:
					e.Unknown = true
					continue
				}
				if !p.InScope[callee] {
					continue
				}
				sub := p.Effects(callee)
				for f := range sub.Fields {
					e.Fields[f] = true
				}
				for i := range sub.Ifaces {
					e.Ifaces[i] = true
				}
				e.Maps = e.Maps || sub.Maps
				e.Window = e.Window || sub.Window
				e.Unknown = e.Unknown || sub.Unknown
			}
		}
	}
	e.busy = false
	return e
}
