package lint

import (
	"fmt"
	"go/token"
	"go/types"

	"golang.org/x/tools/go/ssa"
)

// ruleAEBound: C15 AE-BOUND.
//
// sendAppendEntries collects the entries from the follower's next index onwards into one request. The bundled
// transport refuses a message above 4 MiB, the sender retries the same request on the next tick: unless the collection
// stops at a bound, a member that is more than 4 MiB of log behind (a new member, a member that was down) never
// receives anything again. The rule demands the structure of a bound, not a particular one: the collecting loop has an
// exit that is taken when an accumulator — a count of entries, or of bytes that includes the entries' data — passes a
// constant, and no entry after the first is collected without passing that test.
func ruleAEBound() *Rule {
	const id = "AE-BOUND"
	return &Rule{
		ID: id,
		Text: "In (*Raft).sendAppendEntries the loop that collects AppendEntriesRequest.Entries has an exit taken when an accumulator (entries, or bytes including len(entry.Data)) compared with a constant says the request is full; " +
			"every cycle of the loop through the append passes that test or a test that the request is still empty; a byte bound is at most gRPC's default 4 MiB receive limit minus 1 KiB.",
		Floor: 2,
		Run: func(p *Program) []Obligation {
			const fname = "(*Raft).sendAppendEntries"
			fn := p.Func(fname)
			fld := p.Field("AppendEntriesRequest.Entries")
			if fn == nil || fld == nil {
				return missing(id, fname+" / AppendEntriesRequest.Entries")
			}
			ob := Obligation{Rule: id, Construct: "entries collected into one AppendEntries request are bounded in " + fname, Pos: p.Pos(fn.Pos())}
			// the slice stored into the request
			var stored ssa.Value
			for _, b := range fn.Blocks {
				for _, in := range b.Instrs {
					if st, f := storeField(in); st != nil && f == fld {
						stored = st.Val
						ob.Pos = p.InstrPos(in)
					}
				}
			}
			if stored == nil {
				ob.Verdict, ob.Detail = AnchorLost, "no store to AppendEntriesRequest.Entries"
				return []Obligation{ob}
			}
			// phi web of the slice and the append calls in it
			web := map[ssa.Value]bool{}
			var appends []*ssa.Call
			var walk func(v ssa.Value)
			walk = func(v ssa.Value) {
				if web[v] {
					return
				}
				web[v] = true
				switch x := v.(type) {
				case *ssa.Phi:
					for _, e := range x.Edges {
						walk(e)
					}
				case *ssa.Call:
					if b, ok := x.Common().Value.(*ssa.Builtin); ok && b.Name() == "append" {
						appends = append(appends, x)
						walk(x.Common().Args[0])
					}
				case *ssa.Slice:
					walk(x.X)
				case *ssa.UnOp:
					// a slice variable spilled to memory (captured / address taken): follow its stores
					if x.Op == token.MUL {
						if al, ok := x.X.(*ssa.Alloc); ok && al.Referrers() != nil {
							for _, r := range *al.Referrers() {
								if st, ok := r.(*ssa.Store); ok && st.Addr == ssa.Value(al) {
									walk(st.Val)
								}
							}
						}
					}
				}
			}
			walk(stored)
			// the entries live in memory of this invocation: the request is serialised with the mutex released, and every
			// heartbeat round spawns another invocation for the same follower
			priv := Obligation{Rule: id, Construct: "entries of the request live in a slice private to this invocation of " + fname, Pos: ob.Pos, Verdict: Discharged,
				Detail: "the slice is made (or grown from nil) in this invocation"}
			for v := range web {
				shared := ""
				switch x := v.(type) {
				case *ssa.UnOp:
					if fa, ok := x.X.(*ssa.FieldAddr); ok {
						shared = "field " + fieldOf(fa.X.Type(), fa.Field).Name()
					}
				case *ssa.Parameter:
					shared = "parameter " + x.Name()
				case *ssa.Global:
					shared = "global " + x.Name()
				}
				if shared != "" {
					priv.Verdict = Violated
					priv.Detail = "the request's Entries share their backing array with " + shared + ", which outlives this invocation: the transport serialises the request with the mutex released while the next invocation for the same follower overwrites the array — " +
						"a data race, and a request whose entries are not the ones it was built with"
				}
			}
			var inLoop []*ssa.Call
			for _, a := range appends {
				if blockReaches(a.Block(), a.Block()) {
					inLoop = append(inLoop, a)
				}
			}
			if len(inLoop) == 0 {
				ob.Verdict, ob.Detail = Undecided, "the entries of the request are not collected by appending in a loop: the shape of the collection was not recognised"
				return []Obligation{ob, priv}
			}
			isLenOfWeb := func(v ssa.Value) bool {
				c, ok := stripConv(v).(*ssa.Call)
				if !ok {
					return false
				}
				b, ok := c.Common().Value.(*ssa.Builtin)
				return ok && b.Name() == "len" && web[c.Common().Args[0]]
			}
			// additive leaves of an integer expression
			var leaves func(v ssa.Value, out *[]ssa.Value, d int)
			leaves = func(v ssa.Value, out *[]ssa.Value, d int) {
				v = stripConv(v)
				if bo, ok := v.(*ssa.BinOp); ok && bo.Op == token.ADD && d < 8 {
					leaves(bo.X, out, d+1)
					leaves(bo.Y, out, d+1)
					return
				}
				*out = append(*out, v)
			}
			isLenOfData := func(v ssa.Value) bool {
				c, ok := v.(*ssa.Call)
				if !ok {
					return false
				}
				b, ok := c.Common().Value.(*ssa.Builtin)
				if !ok || b.Name() != "len" {
					return false
				}
				u, ok := c.Common().Args[0].(*ssa.UnOp)
				if !ok || u.Op != token.MUL {
					return false
				}
				fa, ok := u.X.(*ssa.FieldAddr)
				return ok && fieldOf(fa.X.Type(), fa.Field).Name() == "Data"
			}
			var problems []string
			for _, a := range inLoop {
				ab := a.Block()
				loop := map[*ssa.BasicBlock]bool{}
				for _, b := range fn.Blocks {
					if (b == ab || blockReaches(ab, b)) && (b == ab || blockReaches(b, ab)) {
						loop[b] = true
					}
				}
				// candidate exit tests
				type exitTest struct {
					blk   *ssa.BasicBlock
					stay  int // successor index that stays in the loop
					bound int64
					bytes bool
					acc   *ssa.Phi
				}
				var tests []exitTest
				for b := range loop {
					iff, ok := b.Instrs[len(b.Instrs)-1].(*ssa.If)
					if !ok {
						continue
					}
					bo, ok := iff.Cond.(*ssa.BinOp)
					if !ok {
						continue
					}
					switch bo.Op {
					case token.GTR, token.GEQ, token.LSS, token.LEQ:
					default:
						continue
					}
					x, c := bo.X, bo.Y
					k, isC := constIntOf(stripConv(c))
					if !isC {
						x, c = bo.Y, bo.X
						k, isC = constIntOf(stripConv(c))
					}
					if !isC {
						// index < min(end, start+K): the bound sits in the loop's own limit
						for _, pair := range [][2]ssa.Value{{bo.X, bo.Y}, {bo.Y, bo.X}} {
							ph, ok := stripConv(pair[0]).(*ssa.Phi)
							if !ok || !loop[ph.Block()] || web[ph] {
								continue
							}
							if kk, ok := minOfStartPlusConst(pair[1], ph, loop); ok {
								x, k, isC = ph, kk, true
							}
						}
					}
					if !isC {
						continue
					}
					var ls []ssa.Value
					leaves(x, &ls, 0)
					var acc *ssa.Phi
					countsEntries := false
					for _, l := range ls {
						if isLenOfWeb(l) {
							countsEntries = true // len(entries) itself is the accumulator: it grows with every append
						}
					}
					if countsEntries && k > 0 {
						stay := -1
						for i, s := range b.Succs {
							if loop[s] {
								if stay >= 0 {
									stay = -2
								} else {
									stay = i
								}
							}
						}
						if stay >= 0 {
							tests = append(tests, exitTest{blk: b, stay: stay, bound: k})
						}
						continue
					}
					for _, l := range ls {
						if ph, ok := l.(*ssa.Phi); ok && loop[ph.Block()] && !web[ph] {
							if _, isInt := ph.Type().Underlying().(*types.Basic); isInt {
								acc = ph
							}
						}
					}
					if acc == nil {
						continue
					}
					// the accumulator grows by a positive constant or by the entry's data
					grows, bytes := false, false
					for i, e := range acc.Edges {
						if !loop[acc.Block().Preds[i]] {
							continue
						}
						var es []ssa.Value
						leaves(e, &es, 0)
						hasAcc := false
						for _, l := range es {
							if l == ssa.Value(acc) {
								hasAcc = true
							}
						}
						if !hasAcc {
							continue
						}
						for _, l := range es {
							if kk, ok := constIntOf(l); ok && kk > 0 {
								grows = true
							}
							if isLenOfData(l) {
								grows, bytes = true, true
							}
						}
					}
					if !grows {
						continue
					}
					stay := -1
					for i, s := range b.Succs {
						if loop[s] {
							if stay >= 0 {
								stay = -2 // both stay: not an exit
							} else {
								stay = i
							}
						}
					}
					if stay < 0 {
						continue
					}
					tests = append(tests, exitTest{blk: b, stay: stay, bound: k, bytes: bytes, acc: acc})
				}
				if len(tests) == 0 {
					problems = append(problems, "the loop that appends at "+p.InstrPos(a)+" has no exit that depends on how much has been collected (an accumulator compared with a constant): everything from the follower's next index to the end of the log goes into one request")
					continue
				}
				isTest := map[*ssa.BasicBlock]bool{}
				for _, t := range tests {
					isTest[t.blk] = true
					if t.bytes && t.bound > grpcDefaultRecvLimit-chunkHeadroom {
						problems = append(problems, fmt.Sprintf("the byte bound %d at %s exceeds %d (4 MiB default receive limit minus 1 KiB headroom)", t.bound, p.InstrPos(t.blk.Instrs[len(t.blk.Instrs)-1]), grpcDefaultRecvLimit-chunkHeadroom))
					}
				}
				emptyEdge := func(b *ssa.BasicBlock) int {
					iff, ok := b.Instrs[len(b.Instrs)-1].(*ssa.If)
					if !ok {
						return -1
					}
					bo, ok := iff.Cond.(*ssa.BinOp)
					if !ok {
						return -1
					}
					if isLenOfWeb(bo.X) {
						if k, ok := constIntOf(bo.Y); ok {
							switch {
							case bo.Op == token.GTR && k == 0, bo.Op == token.NEQ && k == 0, bo.Op == token.GEQ && k == 1:
								return 1
							case bo.Op == token.EQL && k == 0, bo.Op == token.LSS && k == 1, bo.Op == token.LEQ && k == 0:
								return 0
							}
						}
					}
					return -1
				}
				// every cycle of the loop through the append passes a fullness test (before or after the append) or the
				// "still empty" edge: is the append block reachable from itself avoiding both?
				unguarded := false
				seen := map[*ssa.BasicBlock]bool{}
				var dfs func(b *ssa.BasicBlock)
				dfs = func(b *ssa.BasicBlock) {
					for i, s := range b.Succs {
						if !loop[s] || emptyEdge(b) == i {
							continue
						}
						if s == ab {
							unguarded = true
							return
						}
						if seen[s] || isTest[s] {
							continue
						}
						seen[s] = true
						dfs(s)
					}
				}
				if !isTest[ab] {
					dfs(ab)
				}
				if unguarded {
					problems = append(problems, "the loop can go round through the append at "+p.InstrPos(a)+" without passing the fullness test or a test that the request is still empty")
				}
				ob.Facts = append(ob.Facts, fmt.Sprintf("append at %s: %d fullness test(s), bound %d (%s)", p.InstrPos(a), len(tests), tests[0].bound, map[bool]string{true: "bytes", false: "entries"}[tests[0].bytes]))
			}
			if len(problems) > 0 {
				ob.Verdict = Violated
				ob.Detail = problems[0] + ": a request above the transport's message limit (4 MiB with the bundled gRPC transport) is refused and re-sent unchanged on every tick, so a member that far behind never catches up"
				ob.Facts = append(ob.Facts, problems...)
			} else {
				ob.Verdict, ob.Detail = Discharged, "the collecting loop leaves when the request is full, and no entry after the first is collected without that test"
			}
			return []Obligation{ob, priv}
		},
	}
}

// minOfStartPlusConst: v is min(..., start+K, ...) (numeric.Min or the builtin) where start is the value the loop
// variable ph enters the loop with and K a positive constant; returns K.
func minOfStartPlusConst(v ssa.Value, ph *ssa.Phi, loop map[*ssa.BasicBlock]bool) (int64, bool) {
	c, ok := stripConv(v).(*ssa.Call)
	if !ok {
		return 0, false
	}
	name := ""
	if b, ok := c.Common().Value.(*ssa.Builtin); ok {
		name = b.Name()
	} else if f := c.Common().StaticCallee(); f != nil {
		name = f.Name()
		if o := f.Origin(); o != nil {
			name = o.Name()
		}
	}
	if name != "min" && name != "Min" {
		return 0, false
	}
	var starts []ssa.Value
	for i, e := range ph.Edges {
		if !loop[ph.Block().Preds[i]] {
			starts = append(starts, stripConv(e))
		}
	}
	for _, a := range c.Common().Args {
		bo, ok := stripConv(a).(*ssa.BinOp)
		if !ok || bo.Op != token.ADD {
			continue
		}
		for _, pair := range [][2]ssa.Value{{bo.X, bo.Y}, {bo.Y, bo.X}} {
			k, isK := constIntOf(stripConv(pair[1]))
			if !isK || k <= 0 {
				continue
			}
			for _, s := range starts {
				if stripConv(pair[0]) == s {
					return k, true
				}
			}
		}
	}
	return 0, false
}
