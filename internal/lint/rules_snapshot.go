package lint

import (
	"fmt"
	"strings"

	"golang.org/x/tools/go/ssa"
)

// isIoCopyTo reports whether in is io.Copy/io.CopyN whose destination canonicalises to dst.
func isIoCopyTo(p *Program, f *Frame, in ssa.Instruction, dst string) bool {
	c, ok := in.(*ssa.Call)
	if !ok {
		return false
	}
	callee := c.Common().StaticCallee()
	if callee == nil || callee.Pkg == nil || callee.Pkg.Pkg.Path() != "io" || !strings.HasPrefix(callee.Name(), "Copy") {
		return false
	}
	return p.Canon(f, c.Common().Args[0]).S == dst
}

// ruleInstallSnapshot: C11 IS-TERM, IS-NEW, IS-OFFSET, CHUNK-LABEL, IS-TRIM; C10 RESTORE-LABEL (install side).
func ruleInstallSnapshot() *Rule {
	const id = "IS-HANDLER"
	return &Rule{
		ID: id,
		Text: "In the InstallSnapshot handler: (IS-TERM) nothing is written for request.Term < currentTerm; (IS-NEW) a snapshot file is created / a chunk written only if lastIncludedIndex < LII ∧ lastApplied < LII; " +
			"(IS-OFFSET) a chunk is written only at request.Offset = current size of the partial file; (CHUNK-LABEL) a chunk is written only into the partial file of its own snapshot (file label = request.LastIncludedIndex); " +
			"(IS-TRIM) Log.Compact(LII) only if log[LII] exists with term LIT (tested before waiting) and, re-tested after the wait, lastApplied ≥ LII ∧ ¬(lastIncludedIndex > LII) ∧ state ≠ Shutdown; " +
			"Log.DiscardEntries(LII, LIT) only on the other side of that test and after StateMachine.Restore; (RESTORE-LABEL) lastApplied and commitIndex := request.LastIncludedIndex only after Restore, state ≠ Shutdown.",
		Floor: 8,
		Run: func(p *Program) []Obligation {
			root := p.Func("(*Raft).InstallSnapshot")
			if root == nil {
				return missing(id, "(*Raft).InstallSnapshot")
			}
			// discovery: the seek result compared with request.Offset
			seek := ""
			p.discover(root, func(a *Analysis, f *Frame, in ssa.Instruction) {
				if x, y, ok := p.condPair(f, in); ok && f.Parent == nil {
					if x == "p0.Offset" {
						seek = y
					} else if y == "p0.Offset" {
						seek = x
					}
				}
			})
			stateAtom := p.StateAtom()
			const entry = "r.log.GetEntry(p0.LastIncludedIndex)#0"
			atoms := []*Atom{
				CmpAtom("reqTerm?curTerm", "p0.Term", "r.currentTerm"),
				CmpAtom("lastInclIdx?LII", "r.lastIncludedIndex", "p0.LastIncludedIndex"),
				CmpAtom("lastApplied?LII", "r.lastApplied", "p0.LastIncludedIndex"),
				CmpAtom("fileLabel?LII", "r.snapshot.Metadata().LastIncludedIndex", "p0.LastIncludedIndex"),
				CmpAtom("entryAtLII?nil", entry, "nil").Hist(),
				CmpAtom("term(log[LII])?LIT", entry+".Term", "p0.LastIncludedTerm").Hist(),
				stateAtom,
				GhostAtom("restored", "no", "yes"),
				GhostAtom("termWasNotStale", "no", "yes"),
				CmpAtom("partialFile?nil", "r.snapshot", "nil"),
			}
			const (
				iT = iota
				iN1
				iN2
				iLabel
				iNil
				iET
				iState
				iRestored
				iFresh
				iSnapNil
			)
			iOff := -1
			if seek != "" {
				iOff = len(atoms)
				atoms = append(atoms, CmpAtom("offset?fileSize", "p0.Offset", seek))
			}
			sp := NewSpace(atoms...)
			a := NewAnalysis(p, sp)
			snapFld := p.Field("Raft.snapshot")
			a.Hook = func(a *Analysis, f *Frame, in ssa.Instruction, st State) State {
				// latch: in every concrete state in which the request's term is not stale now, it was
				// not stale at some point of this invocation (survives the unlock window)
				st = sp.Map(st, iFresh, func(pt, old int) uint32 {
					if sp.Val(pt, iT) != LT {
						return 1 << 1
					}
					return 1 << uint(old)
				})
				if s, name := raftFieldStore(in); s != nil {
					n := instrOrdinal(in, func(x ssa.Instruction) bool { _, nm := raftFieldStore(x); return nm == name })
					o := a.Observe("IS-TERM store Raft."+name+ordSuffix(n)+" in "+chainKey(f), f, in, st)
					o.Extra["field"] = name
					o.Extra["value"] = p.Canon(f, s.Val).S
					return st
				}
				if iface, m, c := invokeOf(in); iface != "" {
					if _, isDefer := in.(*ssa.Defer); isDefer {
						return st
					}
					switch iface + "." + m {
					case "SnapshotStorage.NewSnapshotFile":
						o := a.Observe("IS-NEW call SnapshotStorage.NewSnapshotFile in "+chainKey(f), f, in, st)
						o.Extra["args"] = p.Canon(f, c.Args[0]).S + ", " + p.Canon(f, c.Args[1]).S + ", " + p.Canon(f, c.Args[2]).S
					case "Log.Compact":
						o := a.Observe("IS-TRIM call Log.Compact in "+chainKey(f), f, in, st)
						o.Extra["args"] = p.Canon(f, c.Args[0]).S
					case "Log.DiscardEntries":
						o := a.Observe("IS-TRIM call Log.DiscardEntries in "+chainKey(f), f, in, st)
						o.Extra["args"] = p.Canon(f, c.Args[0]).S + ", " + p.Canon(f, c.Args[1]).S
					case "StateMachine.Restore":
						return sp.Assign(st, iRestored, 1)
					}
					return st
				}
				if isIoCopyTo(p, f, in, "r.snapshot") {
					a.Observe("CHUNK write of request.Bytes into r.snapshot in "+chainKey(f), f, in, st)
				}
				return st
			}
			a.Post = func(a *Analysis, f *Frame, in ssa.Instruction, st State) State {
				// a file freshly created with the request's label carries that label
				if s, fld := storeField(in); s != nil && fld == snapFld {
					if ex, ok := s.Val.(*ssa.Extract); ok && ex.Index == 0 {
						if c, ok := ex.Tuple.(*ssa.Call); ok {
							if iface, m, cc := invokeOf(c); iface == "SnapshotStorage" && m == "NewSnapshotFile" && p.Canon(f, cc.Args[0]).S == "p0.LastIncludedIndex" {
								return sp.Assign(st, iLabel, EQ)
							}
						}
					}
				}
				return st
			}
			entrySt := sp.Filter(sp.Filter(sp.Top(), iRestored, 1), iFresh, 1)
			a.RunFrame(NewRootFrame(root), entrySt)

			var out []Obligation
			SD := enumIdx(stateAtom, "Shutdown")
			gate := func(pt int) bool { return sp.Val(pt, iNil) != EQ && sp.Val(pt, iET) == EQ }
			for _, o := range a.SortedObs() {
				switch {
				case strings.HasPrefix(o.Key, "IS-TERM"):
					obs := evalObs(a, id, []*Observation{o}, func(_ *Observation, pt int) bool { return sp.Val(pt, iFresh) == 1 }, []int{iFresh}, "no state change for a request whose term was out of date when it was examined")
					// RESTORE-LABEL for lastApplied / commitIndex
					if fld := o.Extra["field"]; fld == "lastApplied" || fld == "commitIndex" {
						lab := evalObs(a, id, []*Observation{o}, func(_ *Observation, pt int) bool {
							return sp.Val(pt, iRestored) == 1 && sp.Val(pt, iState) != SD
						}, []int{iRestored, iState}, "index moved to the snapshot label only after the state machine was restored from it, on a running node")
						lab[0].Construct = "RESTORE-LABEL " + strings.TrimPrefix(o.Key, "IS-TERM ")
						if o.Extra["value"] != "p0.LastIncludedIndex" {
							lab[0].Verdict = Violated
							lab[0].Detail = "Raft." + fld + " := " + o.Extra["value"] + ", must be request.LastIncludedIndex (the label of the snapshot that was restored)"
						}
						obs = append(obs, lab...)
					}
					if fld := o.Extra["field"]; fld == "lastIncludedIndex" || fld == "lastIncludedTerm" {
						want := map[string]string{"lastIncludedIndex": "p0.LastIncludedIndex", "lastIncludedTerm": "p0.LastIncludedTerm"}[fld]
						lab := Obligation{Rule: id, Construct: "RESTORE-LABEL " + strings.TrimPrefix(o.Key, "IS-TERM "), Pos: o.Pos}
						if o.Extra["value"] == want {
							lab.Verdict, lab.Detail = Discharged, "= "+want
						} else {
							lab.Verdict, lab.Detail = Violated, "Raft."+fld+" := "+o.Extra["value"]+", must be "+want
						}
						obs = append(obs, lab)
					}
					out = append(out, obs...)
				case strings.HasPrefix(o.Key, "IS-NEW"):
					obs := evalObs(a, id, []*Observation{o}, func(_ *Observation, pt int) bool {
						return sp.Val(pt, iFresh) == 1 && sp.Val(pt, iN1) == LT && sp.Val(pt, iN2) == LT
					}, []int{iFresh, iN1, iN2}, "a snapshot is received only if it is newer than the node's snapshot and applied state")
					if o.Extra["args"] != "p0.LastIncludedIndex, p0.LastIncludedTerm, p0.Configuration" {
						obs[0].Verdict = Violated
						obs[0].Detail = "the received snapshot file is labelled (" + o.Extra["args"] + "), must be the request's (LastIncludedIndex, LastIncludedTerm, Configuration)"
					}
					out = append(out, obs...)
				case strings.HasPrefix(o.Key, "CHUNK"):
					newer := evalObs(a, id, []*Observation{o}, func(_ *Observation, pt int) bool {
						return sp.Val(pt, iFresh) == 1 && sp.Val(pt, iN1) == LT && sp.Val(pt, iN2) == LT
					}, []int{iFresh, iN1, iN2}, "a chunk is written only for a snapshot newer than the node's state")
					newer[0].Construct = "IS-NEW " + o.Key
					out = append(out, newer...)
					off := Obligation{Rule: id, Construct: "IS-OFFSET " + o.Key, Pos: o.Pos}
					if iOff < 0 {
						off.Verdict, off.Detail = Violated, "no comparison of request.Offset with the partial file's size guards the write: duplicated or reordered chunks corrupt the file"
						out = append(out, off)
					} else {
						r := evalObs(a, id, []*Observation{o}, func(_ *Observation, pt int) bool { return sp.Val(pt, iOff) == EQ }, []int{iOff}, "a chunk is written only at the offset the partial file has reached")
						r[0].Construct = off.Construct
						out = append(out, r...)
					}
					lab := evalObs(a, id, []*Observation{o}, func(_ *Observation, pt int) bool { return sp.Val(pt, iLabel) == EQ }, []int{iLabel},
						"a chunk extends only the partial file of its own snapshot (file label = request.LastIncludedIndex)")
					lab[0].Construct = "CHUNK-LABEL " + o.Key
					out = append(out, lab...)
				case strings.HasPrefix(o.Key, "IS-TRIM call Log.Compact"):
					obs := evalObs(a, id, []*Observation{o}, func(_ *Observation, pt int) bool {
						return gate(pt) && sp.Val(pt, iN2) != LT && sp.Val(pt, iN1) != GT && sp.Val(pt, iState) != SD
					}, []int{iNil, iET, iN1, iN2, iState}, "the log suffix is kept only if log[LII] matches the snapshot, everything up to LII is applied and no newer snapshot was taken meanwhile")
					if o.Extra["args"] != "p0.LastIncludedIndex" {
						obs[0].Verdict, obs[0].Detail = Violated, "Log.Compact("+o.Extra["args"]+"), must compact at request.LastIncludedIndex"
					}
					out = append(out, obs...)
				case strings.HasPrefix(o.Key, "IS-TRIM call Log.DiscardEntries"):
					obs := evalObs(a, id, []*Observation{o}, func(_ *Observation, pt int) bool {
						return !gate(pt) && sp.Val(pt, iRestored) == 1 && sp.Val(pt, iState) != SD
					}, []int{iNil, iET, iRestored, iState}, "the whole log is discarded only when log[LII] does not match the snapshot, after the state machine was restored")
					if o.Extra["args"] != "p0.LastIncludedIndex, p0.LastIncludedTerm" {
						obs[0].Verdict, obs[0].Detail = Violated, "Log.DiscardEntries("+o.Extra["args"]+"), must restart the log at the snapshot label"
					}
					out = append(out, obs...)
				}
			}
			out = append(out, installCompleteness(p, id, root)...)
			return out
		},
	}
}

// installCompleteness: IS-DONE and IS-COMPLETE, a second pass over the handler with its own small vocabulary.
func installCompleteness(p *Program, id string, root *ssa.Function) []Obligation {
	stateAtom := p.StateAtom()
	names := []string{"published", "boundaryIdx", "boundaryTerm", "restored", "appliedMoved", "commitMoved", "confApplied", "logDiscarded"}
	atoms := []*Atom{stateAtom, BoolAtom("done", "p0.Done")}
	for _, n := range names {
		atoms = append(atoms, GhostAtom(n, "no", "yes"))
	}
	const entryAtLII = "r.log.GetEntry(p0.LastIncludedIndex)#0"
	atoms = append(atoms,
		GhostAtom("boundaryAheadOfLog", "no", "yes"), // the boundary was moved and the log has not been trimmed to it yet
		CmpAtom("entryAtLII?nil", entryAtLII, "nil").Hist(),
		CmpAtom("term(log[LII])?LIT", entryAtLII+".Term", "p0.LastIncludedTerm").Hist(),
	)
	const (
		iState = iota
		iDone
		iPub
		iBIdx
		iBTerm
		iRestored
		iAppl
		iComm
		iConf
		iDisc
		iAhead
		iNil
		iET
	)
	sp := NewSpace(atoms...)
	a := NewAnalysis(p, sp)
	applyConf := p.Func("(*Raft).applyConfiguration")
	nextConfFn := p.Func("(*Raft).nextConfiguration")
	a.Hook = func(a *Analysis, f *Frame, in ssa.Instruction, st State) State {
		if s, name := raftFieldStore(in); s != nil && f.Parent == nil {
			v := p.Canon(f, s.Val).S
			switch {
			case name == "lastIncludedIndex" && v == "p0.LastIncludedIndex":
				return sp.Assign(sp.Assign(st, iBIdx, 1), iAhead, 1)
			case name == "lastIncludedTerm" && v == "p0.LastIncludedTerm":
				return sp.Assign(st, iBTerm, 1)
			case name == "lastApplied" && v == "p0.LastIncludedIndex":
				return sp.Assign(st, iAppl, 1)
			case name == "commitIndex" && v == "p0.LastIncludedIndex":
				return sp.Assign(st, iComm, 1)
			}
			return st
		}
		// the snapshot's configuration is put in force: unconditionally, by nextConfiguration on a configuration decoded
		// from request.Configuration in the handler itself. Going through applyConfiguration is not enough since D7's
		// repair: it leaves a configuration with a greater index in force, and here that one came from the log that has
		// just been discarded.
		if c, ok := in.(*ssa.Call); ok && nextConfFn != nil && c.Common().StaticCallee() == nextConfFn && f.Parent == nil {
			if decodedFromRequestConfiguration(p, f, c.Common().Args[1]) {
				return sp.Assign(st, iConf, 1)
			}
		}
		if c, ok := in.(*ssa.Call); ok && applyConf != nil && c.Common().StaticCallee() == applyConf && f.Parent == nil {
			if p.Canon(f, c.Common().Args[1]).S == "p0.Configuration" && !callsGuardedByIndex(p, applyConf, nextConfFn) {
				return sp.Assign(st, iConf, 1)
			}
		}
		if iface, m, c := invokeOf(in); iface != "" && f.Parent == nil {
			if _, isDefer := in.(*ssa.Defer); isDefer {
				return st
			}
			switch iface + "." + m {
			case "Log.DiscardEntries":
				return sp.Assign(sp.Assign(st, iDisc, 1), iAhead, 0)
			case "Log.Compact":
				return sp.Assign(st, iAhead, 0)
			case "StateMachine.Restore":
				return sp.Assign(st, iRestored, 1)
			case "SnapshotFile.Close":
				if p.Canon(f, c.Value).S == "r.snapshot" {
					a.Observe("IS-DONE call SnapshotFile.Close on the received file in "+chainKey(f), f, in, st)
					return sp.Assign(st, iPub, 1)
				}
			}
		}
		if what, ok := a.isSectionEnd(in); ok && f.Parent == nil {
			if _, isDefer := in.(*ssa.Defer); !isDefer {
				n := instrOrdinal(in, func(x ssa.Instruction) bool { _, ok := a.isSectionEndStatic(x); return ok })
				a.Observe("WINDOW "+what+ordSuffix(n)+" in (*Raft).InstallSnapshot", f, in, st)
			}
		}
		if ret, ok := exitPoint(in); ok && f.Parent == nil && returnedError(ret) == "nil" {
			n := instrOrdinal(ret, func(x ssa.Instruction) bool { _, ok := x.(*ssa.Return); return ok })
			a.Observe(fmt.Sprintf("EXIT return #%d of (*Raft).InstallSnapshot", n), f, in, st)
		}
		return st
	}
	entry := sp.Top()
	for g := iPub; g <= iAhead; g++ {
		entry = sp.Filter(entry, g, 1)
	}
	a.RunFrame(NewRootFrame(root), entry)
	SD := enumIdx(stateAtom, "Shutdown")
	var out []Obligation
	var incomplete []string
	exitPos := ""
	nPub := 0
	for _, o := range a.SortedObs() {
		if strings.HasPrefix(o.Key, "WINDOW") {
			// BOUNDARY-ATOMIC: when the log does not match the snapshot at its boundary, moving the boundary and
			// resetting the log is one step: no other handler may run in between
			obs := evalObs(a, id, []*Observation{o}, func(_ *Observation, pt int) bool {
				matches := sp.Val(pt, iNil) != EQ && sp.Val(pt, iET) == EQ
				return sp.Val(pt, iAhead) == 0 || matches
			}, []int{iAhead, iNil, iET}, "the mutex is not released between moving the snapshot boundary and resetting a log that does not match the snapshot")
			obs[0].Construct = "BOUNDARY-ATOMIC " + strings.TrimPrefix(o.Key, "WINDOW ")
			if obs[0].Verdict == Violated {
				obs[0].Detail += ": another request handled in this window sees the new boundary with the old log — an AppendEntries at the boundary is accepted, its entries are appended and acknowledged, and the log is then discarded"
			}
			out = append(out, obs...)
			continue
		}
		if strings.HasPrefix(o.Key, "IS-DONE") {
			nPub++
			out = append(out, evalObs(a, id, []*Observation{o}, func(_ *Observation, pt int) bool { return sp.Val(pt, iDone) == 1 }, []int{iDone},
				"the received file is published (closed, renamed, installed) only with the chunk marked Done")...)
			continue
		}
		exitPos = o.Pos
		bad := sp.Where(o.State, func(pt int) bool {
			if sp.Val(pt, iPub) == 1 && sp.Val(pt, iState) != SD && (sp.Val(pt, iBIdx) == 0 || sp.Val(pt, iBTerm) == 0) {
				return true
			}
			if sp.Val(pt, iRestored) == 1 && sp.Val(pt, iState) != SD {
				return sp.Val(pt, iAppl) == 0 || sp.Val(pt, iComm) == 0 || sp.Val(pt, iConf) == 0 || sp.Val(pt, iDisc) == 0
			}
			return false
		})
		if !bad.IsEmpty() {
			incomplete = append(incomplete, o.Key+" ("+o.Pos+"): "+strings.Join(sp.Project(bad, iPub, iBIdx, iBTerm, iRestored, iAppl, iComm, iConf, iDisc), " | "))
		}
	}
	if nPub == 0 {
		out = append(out, Obligation{Rule: id, Construct: "IS-DONE call SnapshotFile.Close on the received file in (*Raft).InstallSnapshot", Verdict: Violated, Pos: exitPos,
			Detail: "the handler never publishes the received snapshot file (no SnapshotFile.Close on r.snapshot): a snapshot can never be installed"})
	}
	comp := Obligation{Rule: id, Construct: "IS-COMPLETE a published / restored snapshot is fully installed in (*Raft).InstallSnapshot", Pos: exitPos}
	if len(incomplete) > 0 {
		comp.Verdict = Violated
		comp.Detail = "the handler can return after publishing the received snapshot without moving lastIncludedIndex/Term to its label, or after restoring the state machine (on a running node) without moving lastApplied and commitIndex to the label, applying the snapshot's configuration and restarting the log at the label: the node's indices, configuration and log no longer describe its state machine"
		comp.Facts = incomplete
	} else {
		comp.Verdict, comp.Detail = Discharged, "boundary moved whenever the file is published; indices, configuration and log reset whenever the state machine is restored on a running node"
	}
	out = append(out, comp)
	out = append(out, offsetReply(p, id)...)
	return append(out, publishOwner(p, id)...)
}

// offsetReply: the sender resumes a transfer at whatever response.BytesWritten says (SNAP-HANDSHAKE). Once the handler
// has read the position of the partial file, every successful return — the offset-mismatch return above all — must
// carry a BytesWritten computed from that position; a reply that leaves it 0 sends the leader back to the start of the
// file, the follower refuses offset 0 again, and a member holding two or more chunks never gets the rest.
func offsetReply(p *Program, id string) []Obligation {
	fn := p.Func("(*Raft).InstallSnapshot")
	fld := p.Field("InstallSnapshotResponse.BytesWritten")
	if fn == nil || fld == nil {
		return missing(id, "(*Raft).InstallSnapshot / InstallSnapshotResponse.BytesWritten")
	}
	ob := Obligation{Rule: id, Construct: "IS-REPLY every reply sent after the partial file's position was read reports it in BytesWritten, in (*Raft).InstallSnapshot", Pos: p.Pos(fn.Pos())}
	// the position: result #0 of SnapshotFile.Seek(0, io.SeekCurrent) on r.snapshot
	var seek *ssa.Call
	for _, b := range fn.Blocks {
		for _, in := range b.Instrs {
			if iface, m, c := invokeOf(in); iface == "SnapshotFile" && m == "Seek" && len(c.Args) == 2 && isConstInt(c.Args[0], 0) && isConstInt(c.Args[1], 1) {
				if call, ok := in.(*ssa.Call); ok {
					seek = call
				}
			}
		}
	}
	if seek == nil {
		ob.Verdict, ob.Detail = AnchorLost, "no SnapshotFile.Seek(0, io.SeekCurrent) in the handler"
		return []Obligation{ob}
	}
	ob.Pos = p.InstrPos(seek)
	fromSeek := func(v ssa.Value) bool {
		var walk func(x ssa.Value, d int) bool
		walk = func(x ssa.Value, d int) bool {
			x = stripConv(x)
			switch y := x.(type) {
			case *ssa.Extract:
				return y.Tuple == ssa.Value(seek) && y.Index == 0
			case *ssa.BinOp:
				return d < 6 && (walk(y.X, d+1) || walk(y.Y, d+1))
			case *ssa.UnOp:
				// response.BytesWritten += n : a load of the field itself, set from the position earlier
				if fa, ok := y.X.(*ssa.FieldAddr); ok && fieldOf(fa.X.Type(), fa.Field) == fld {
					return true
				}
			}
			return false
		}
		return walk(v, 0)
	}
	reports := map[*ssa.BasicBlock]ssa.Instruction{}
	for _, b := range fn.Blocks {
		for _, in := range b.Instrs {
			if st, f := storeField(in); st != nil && f == fld && fromSeek(st.Val) {
				if _, dup := reports[b]; !dup {
					reports[b] = in
				}
			}
		}
	}
	bad := ""
	seen := map[*ssa.BasicBlock]bool{}
	var walk func(b *ssa.BasicBlock, from int)
	walk = func(b *ssa.BasicBlock, from int) {
		for i := from; i < len(b.Instrs); i++ {
			if r, ok := reports[b]; ok && b.Instrs[i] == r {
				return
			}
		}
		if ret, ok := b.Instrs[len(b.Instrs)-1].(*ssa.Return); ok {
			if len(ret.Results) > 0 && isNilConst(returnedValue(ret, len(ret.Results)-1)) {
				bad = p.InstrPos(ret)
			}
			return
		}
		for _, sc := range b.Succs {
			if !seen[sc] {
				seen[sc] = true
				walk(sc, 0)
			}
		}
	}
	start := 0
	for i, x := range seek.Block().Instrs {
		if x == ssa.Instruction(seek) {
			start = i + 1
		}
	}
	walk(seek.Block(), start)
	if bad != "" {
		ob.Verdict = Violated
		ob.Detail = "the handler can answer (return nil at " + bad + ") after reading the position of the partial file without having stored it in response.BytesWritten: the sender seeks to the value it is given (0), the follower refuses that offset again, " +
			"and a member that holds two or more chunks of a snapshot when one request is lost never receives the rest"
	} else {
		ob.Verdict, ob.Detail = Discharged, "every successful return after the position is read is preceded by a store of a value computed from it into response.BytesWritten"
	}
	return []Obligation{ob}
}

// publishOwner: SnapshotFile.Close on a file still in its temporary directory is the publish step (sync, rename into
// place). The file an installation is writing (Raft.snapshot) may therefore be closed only by the handler, where IS-DONE
// ties the Close to the last chunk; every other owner of the field abandons the file (Discard) or leaves it alone.
func publishOwner(p *Program, id string) []Obligation {
	fld := p.Field("Raft.snapshot")
	if fld == nil {
		return missing(id, "Raft.snapshot")
	}
	ob := Obligation{Rule: id, Construct: "PUBLISH-OWNER only (*Raft).InstallSnapshot closes the snapshot file an installation is writing", Verdict: Discharged}
	n := 0
	for _, fn := range p.SortedFuncs() {
		for _, b := range fn.Blocks {
			for _, in := range b.Instrs {
				iface, m, c := invokeOf(in)
				if iface != "SnapshotFile" || (m != "Close" && m != "Discard") {
					continue
				}
				u, ok := c.Value.(*ssa.UnOp)
				if !ok {
					continue
				}
				fa, ok := u.X.(*ssa.FieldAddr)
				if !ok || fieldOf(fa.X.Type(), fa.Field) != fld {
					continue
				}
				n++
				if m == "Close" && FuncName(fn) != "(*Raft).InstallSnapshot" {
					ob.Verdict = Violated
					ob.Pos = p.InstrPos(in)
					ob.Detail = FuncName(fn) + " closes r.snapshot: Close publishes the file (rename out of the temporary directory), so a partially received snapshot becomes the node's newest snapshot — a restart restores the state machine from a truncated file (or fails to start) and the log below its label is discarded"
				}
			}
		}
	}
	if ob.Verdict == Discharged {
		ob.Detail = fmt.Sprintf("%d Close/Discard call(s) on Raft.snapshot; every Close is in the handler", n)
		if n < 2 {
			ob.Verdict, ob.Detail = AnchorLost, "fewer than 2 Close/Discard calls on Raft.snapshot found"
		}
	}
	return []Obligation{ob}
}

// ruleSnapLabel: C10 SNAP-LABEL (takeSnapshot) and C11 SNAP-FALLBACK, C15 SNAP-HANDSHAKE, C04 MATCH-PROV (sender side).
func ruleSnapLabel() *Rule {
	const id = "SNAP-LABEL"
	return &Rule{
		ID: id,
		Text: "In takeSnapshot the snapshot file is labelled with Index/Term of log[lastApplied] and the encoding of committedConfiguration, all read in one critical section, " +
			"with lastApplied > lastIncludedIndex and committedConfiguration.Index ≤ lastApplied; the log is compacted at that label only if it is still newer than lastIncludedIndex after the unlocked Snapshot call.",
		Floor: 2,
		Run: func(p *Program) []Obligation {
			root := p.Func("(*Raft).snapshotLoop")
			if root == nil {
				return missing(id, "(*Raft).snapshotLoop")
			}
			const e = "r.log.GetEntry(r.lastApplied)#0"
			sp := NewSpace(
				CmpAtom("lastApplied?lastInclIdx", "r.lastApplied", "r.lastIncludedIndex"),
				CmpAtom("committedConf.Index?lastApplied", "r.committedConfiguration.Index", "r.lastApplied"),
				CmpAtom("committedConf?nil", "r.committedConfiguration", "nil"),
			)
			a := NewAnalysis(p, sp)
			a.Hook = func(a *Analysis, f *Frame, in ssa.Instruction, st State) State {
				if iface, m, c := invokeOf(in); iface == "SnapshotStorage" && m == "NewSnapshotFile" {
					o := a.Observe("call SnapshotStorage.NewSnapshotFile in "+chainKey(f), f, in, st)
					o.Extra["args"] = p.Canon(f, c.Args[0]).S + " | " + p.Canon(f, c.Args[1]).S + " | " + p.Canon(f, c.Args[2]).S
				}
				return st
			}
			a.Run(root, nil)
			var out []Obligation
			for _, o := range a.SortedObs() {
				obs := evalObs(a, id, []*Observation{o}, func(_ *Observation, pt int) bool {
					return sp.Val(pt, 0) == GT && sp.Val(pt, 1) != GT && sp.Val(pt, 2) != EQ
				}, nil, "a snapshot is taken only of new applied state and not across an uncommitted configuration")
				want := e + ".Index | " + e + ".Term | r.encodeConfiguration(r.committedConfiguration)"
				if o.Extra["args"] != want {
					obs[0].Verdict = Violated
					obs[0].Detail = "snapshot labelled (" + o.Extra["args"] + "), must be (index, term of log[lastApplied], encoding of committedConfiguration) read in the same critical section"
				}
				out = append(out, obs...)
			}
			if len(out) == 0 {
				out = append(out, missing(id, "SnapshotStorage.NewSnapshotFile reachable from (*Raft).snapshotLoop")...)
			}
			// compaction after the window: Compact(label) guarded by label > lastIncludedIndex, boundary := label
			out = append(out, takeSnapshotTrim(p, id, root)...)
			return out
		},
	}
}

func takeSnapshotTrim(p *Program, id string, root *ssa.Function) []Obligation {
	const e = "r.log.GetEntry(r.lastApplied)#0"
	// the label is saved in a local before the window; discover its register name through the compact call
	labelIdx := ""
	p.discover(root, func(a *Analysis, f *Frame, in ssa.Instruction) {
		if x, y, ok := p.condPair(f, in); ok && FuncName(f.Fn) == "(*Raft).takeSnapshot" {
			if y == "r.lastIncludedIndex" && strings.HasSuffix(x, ".Index") {
				labelIdx = x
			}
			if x == "r.lastIncludedIndex" && strings.HasSuffix(y, ".Index") {
				labelIdx = y
			}
		}
	})
	if labelIdx == "" {
		return []Obligation{{Rule: id, Construct: "call Log.Compact after the snapshot window in (*Raft).takeSnapshot", Verdict: Violated,
			Detail: "after the unlocked StateMachine.Snapshot call nothing compares the snapshot's label with lastIncludedIndex before trimming the log: a snapshot installed meanwhile is overwritten by an older boundary"}}
	}
	labelTerm := strings.TrimSuffix(labelIdx, ".Index") + ".Term"
	// the label is the entry captured before the window; the atom records the outcome of the one re-test of that
	// captured value against the boundary after the window (a history atom: the store follows in the same section)
	sp := NewSpace(CmpAtom("label?lastInclIdx", labelIdx, "r.lastIncludedIndex").Hist(), GhostAtom("boundarySet", "no", "yes"), GhostAtom("boundaryTermSet", "no", "yes"))
	a := NewAnalysis(p, sp)
	lii := p.Field("Raft.lastIncludedIndex")
	a.Hook = func(a *Analysis, f *Frame, in ssa.Instruction, st State) State {
		if s, fld := storeField(in); s != nil && fld == lii && FuncName(f.Fn) == "(*Raft).takeSnapshot" {
			o := a.Observe("store Raft.lastIncludedIndex in "+chainKey(f), f, in, st)
			o.Extra["value"] = p.Canon(f, s.Val).S
			return st
		}
		if iface, m, c := invokeOf(in); iface == "Log" && m == "Compact" {
			o := a.Observe("call Log.Compact after the snapshot window in "+chainKey(f), f, in, st)
			o.Extra["arg"] = p.Canon(f, c.Args[0]).S
		}
		return st
	}
	a.Post = func(a *Analysis, f *Frame, in ssa.Instruction, st State) State {
		// (the label is a value captured before the window: a helper that receives it sees it under its captured name)
		if s, fld := storeField(in); s != nil && fld == lii && ValueName(p.Canon(f, s.Val).S) == labelIdx {
			return sp.Assign(st, 1, 1)
		}
		if s, fld := storeField(in); s != nil && fld == p.Field("Raft.lastIncludedTerm") && ValueName(p.Canon(f, s.Val).S) == labelTerm {
			return sp.Assign(st, 2, 1)
		}
		return st
	}
	a.RunFrame(NewRootFrame(root), sp.Filter(sp.Filter(sp.Top(), 1, 1), 2, 1))
	var out []Obligation
	for _, o := range a.SortedObs() {
		if strings.HasPrefix(o.Key, "store") {
			obs := evalObs(a, id, []*Observation{o}, func(_ *Observation, pt int) bool { return sp.Val(pt, 0) == GT }, []int{0},
				"the snapshot boundary moves forward only (label > lastIncludedIndex re-tested after the window)")
			if ValueName(o.Extra["value"]) != labelIdx {
				obs[0].Verdict, obs[0].Detail = Violated, "lastIncludedIndex := "+o.Extra["value"]+", must be the label of the snapshot just written ("+labelIdx+")"
			}
			out = append(out, obs...)
			continue
		}
		obs := evalObs(a, id, []*Observation{o}, func(_ *Observation, pt int) bool { return sp.Val(pt, 1) == 1 && sp.Val(pt, 2) == 1 }, []int{1, 2},
			"the log is compacted only after the boundary (index and term) was moved to the new snapshot's label")
		if arg := o.Extra["arg"]; arg != "r.lastIncludedIndex" && ValueName(arg) != labelIdx {
			obs[0].Verdict, obs[0].Detail = Violated, "Log.Compact("+arg+"), must compact at the new snapshot's label"
		}
		out = append(out, obs...)
	}
	_ = e
	return out
}

// ruleSender: C11 SNAP-FALLBACK, C15 SNAP-HANDSHAKE + BACKOFF (sender), C04 MATCH-PROV.
func ruleSender() *Rule {
	const id = "SENDER"
	return &Rule{
		ID: id,
		Text: "In sendAppendEntries: (SNAP-FALLBACK) the log is read (GetEntry for the previous entry and for the entries sent) only at indices > lastIncludedIndex and < NextIndex(); " +
			"(MATCH-PROV) follower.matchIndex := request.PrevLogIndex + len(entries) of the request sent in this call, only with response.Success ∧ state = Leader ∧ member after the window; becomeLeader resets every matchIndex to 0; " +
			"(BACKOFF) on rejection nextIndex := max(response.Index, matchIndex+1); " +
			"(SNAP-HANDSHAKE) in sendInstallSnapshot matchIndex/nextIndex advance to the snapshot label only with Done ∧ response.BytesWritten = offset sent, otherwise the file is re-positioned to the follower's offset.",
		Floor: 6,
		Run: func(p *Program) []Obligation {
			root := p.Func("(*Raft).sendAppendEntries")
			if root == nil {
				return missing(id, "(*Raft).sendAppendEntries")
			}
			matchFld, nextFld := p.Field("follower.matchIndex"), p.Field("follower.nextIndex")
			succFld := p.Field("AppendEntriesResponse.Success")
			// discovery
			var getArgs []string
			success, reqPrev, entriesLen, respIndex := "", "", "", ""
			done, bytesW, offsetS := "", "", ""
			offsetSent, offsetSentPos := "", ""
			p.discover(root, func(a *Analysis, f *Frame, in ssa.Instruction) {
				if iface, m, c := invokeOf(in); iface == "Log" && m == "GetEntry" && f.Parent == nil {
					s := p.Canon(f, c.Args[0]).S
					for _, x := range getArgs {
						if x == s {
							return
						}
					}
					getArgs = append(getArgs, s)
				}
				switch x := in.(type) {
				case *ssa.Field:
					if fieldOf(x.X.Type(), x.Field) == succFld {
						success = p.Canon(f, x).S
					}
					if fieldOf(x.X.Type(), x.Field) == p.Field("AppendEntriesResponse.Index") {
						respIndex = p.Canon(f, x).S
					}
				case *ssa.UnOp:
					if fa, ok := x.X.(*ssa.FieldAddr); ok {
						switch fieldOf(fa.X.Type(), fa.Field) {
						case succFld:
							success = p.Canon(f, x).S
						case p.Field("AppendEntriesResponse.Index"):
							respIndex = p.Canon(f, x).S
						case p.Field("AppendEntriesRequest.PrevLogIndex"):
							reqPrev = p.Canon(f, x).S
						case p.Field("InstallSnapshotRequest.Done"):
							done = p.Canon(f, x).S
						}
					}
				case *ssa.If:
					if a, b, ok := p.condPair(f, in); ok && FuncName(f.Fn) == "(*Raft).sendInstallSnapshot" {
						if strings.HasSuffix(a, ".BytesWritten") {
							bytesW, offsetS = a, b
						} else if strings.HasSuffix(b, ".BytesWritten") {
							bytesW, offsetS = b, a
						}
					}
				}
				if s, fld := storeField(in); s != nil && fld == p.Field("InstallSnapshotRequest.Offset") && FuncName(f.Fn) == "(*Raft).sendInstallSnapshot" {
					offsetSent, offsetSentPos = p.Canon(f, s.Val).S, p.InstrPos(in)
				}
				if s, fld := storeField(in); s != nil && fld == p.Field("AppendEntriesRequest.Entries") && f.Parent == nil {
					entriesLen = "len(" + p.Canon(f, s.Val).S + ")"
				}
			})
			stateAtom := p.StateAtom()
			atoms := []*Atom{stateAtom, BoolAtom("responderIsMember", "r.configuration.Members[p0]#1"),
				// the collecting loop starts at the follower's nextIndex, which the snapshot fall-back has bounded from below
				CmpAtom("nextIndex?lastInclIdx", "r.followers[p0].nextIndex", "r.lastIncludedIndex")}
			iSucc, iDone, iBW := -1, -1, -1
			if success != "" {
				iSucc = len(atoms)
				atoms = append(atoms, BoolAtom("success", success))
			}
			if done != "" {
				iDone = len(atoms)
				atoms = append(atoms, BoolAtom("done", done))
			}
			if bytesW != "" {
				iBW = len(atoms)
				atoms = append(atoms, CmpAtom("bytesWritten?offset", bytesW, offsetS))
			}
			iReqT := -1
			if reqPrev != "" {
				iReqT = len(atoms)
				atoms = append(atoms, CmpAtom("curTerm?reqTerm", "r.currentTerm", strings.TrimSuffix(reqPrev, ".PrevLogIndex")+".Term"))
			}
			gBase := len(atoms)
			for _, g := range getArgs {
				atoms = append(atoms, CmpAtom("idx("+g+")?lastInclIdx", g, "r.lastIncludedIndex"), CmpAtom("idx("+g+")?nextIndex", g, "r.log.NextIndex()"))
			}
			sp := NewSpace(atoms...)
			a := NewAnalysis(p, sp)
			a.Hook = func(a *Analysis, f *Frame, in ssa.Instruction, st State) State {
				if iface, m, c := invokeOf(in); iface == "Log" && m == "GetEntry" && f.Parent == nil {
					s := p.Canon(f, c.Args[0]).S
					n := instrOrdinal(in, func(x ssa.Instruction) bool { i, mm, _ := invokeOf(x); return i == "Log" && mm == "GetEntry" })
					o := a.Observe("SNAP-FALLBACK call Log.GetEntry"+ordSuffix(n)+" in "+chainKey(f), f, in, st)
					o.Extra["arg"] = s
				}
				if s, fld := storeField(in); s != nil && (fld == matchFld || fld == nextFld) {
					name := "matchIndex"
					if fld == nextFld {
						name = "nextIndex"
					}
					n := instrOrdinal(in, func(x ssa.Instruction) bool { _, fl := storeField(x); return fl == fld })
					o := a.Observe("store follower."+name+ordSuffix(n)+" in "+chainKey(f), f, in, st)
					o.Extra["value"] = p.Canon(f, s.Val).S
					o.Extra["fn"] = FuncName(f.Fn)
					o.Extra["field"] = name
				}
				return st
			}
			a.Run(root, nil)
			L := enumIdx(stateAtom, "Leader")
			var out []Obligation
			for _, o := range a.SortedObs() {
				if strings.HasPrefix(o.Key, "SNAP-FALLBACK") {
					gi := -1
					for k, g := range getArgs {
						if g == o.Extra["arg"] {
							gi = gBase + 2*k
						}
					}
					out = append(out, evalObs(a, id, []*Observation{o}, func(_ *Observation, pt int) bool {
						return gi >= 0 && sp.Val(pt, gi) == GT && sp.Val(pt, gi+1) == LT
					}, []int{gi, gi + 1}, "the leader reads its log only above the snapshot boundary and below the log end (otherwise it must fall back to sending the snapshot)")...)
					continue
				}
				val, fn, field := o.Extra["value"], o.Extra["fn"], o.Extra["field"]
				switch {
				case fn == "(*Raft).sendAppendEntries" && field == "matchIndex":
					obs := evalObs(a, id, []*Observation{o}, func(_ *Observation, pt int) bool {
						return sp.Val(pt, 0) == L && sp.Val(pt, 1) == 1 && iSucc >= 0 && sp.Val(pt, iSucc) == 1 && iReqT >= 0 && sp.Val(pt, iReqT) == EQ
					}, nil, "matchIndex advances only on a successful reply to a request of the current term, from a member, on a still-leader")
					obs[0].Construct = "MATCH-PROV " + o.Key
					want1 := "(" + entriesLen + " + " + reqPrev + ")"
					want2 := "(" + reqPrev + " + " + entriesLen + ")"
					if reqPrev == "" || entriesLen == "" || (val != want1 && val != want2) {
						obs[0].Verdict = Violated
						obs[0].Detail = "matchIndex := " + val + ", must be request.PrevLogIndex + len(entries) of the request sent in this call (what the follower verified)"
					}
					out = append(out, obs...)
				case fn == "(*Raft).sendAppendEntries" && field == "nextIndex":
					ob := Obligation{Rule: id, Construct: "BACKOFF " + o.Key, Pos: o.Pos, Facts: []string{"value: " + val}}
					// on rejection: response.Index; on success: max(nextIndex, prev+len+1)
					succ := sp.Where(o.State, func(pt int) bool { return iSucc >= 0 && sp.Val(pt, iSucc) == 1 })
					rej := sp.Where(o.State, func(pt int) bool { return iSucc >= 0 && sp.Val(pt, iSucc) == 0 })
					switch {
					case !rej.IsEmpty() && succ.IsEmpty():
						// the follower's hint, but never at or below what the follower is known to hold: the answer may be a
						// late one (several requests are in flight at once), and a nextIndex <= matchIndex makes the leader
						// send the same size-bounded batch for ever — acknowledged each time, advancing nothing (D51)
						usesHint := respIndex != "" && strings.Contains(val, respIndex)
						bounded := strings.Contains(val, "Max") && strings.Contains(val, ".matchIndex") && (strings.Contains(val, "(1 + ") || strings.Contains(val, " + 1)"))
						switch {
						case usesHint && bounded:
							ob.Verdict, ob.Detail = Discharged, "on rejection nextIndex := max(response.Index, matchIndex+1): the follower's hint, never below what it is known to hold"
						case val == respIndex && respIndex != "":
							ob.Verdict, ob.Detail = Violated, "on rejection nextIndex := response.Index without a lower bound: a LATE rejection (its request overtaken by one that succeeded) moves nextIndex to or below matchIndex; "+
								"every later request then carries the same size-bounded batch, which the follower acknowledges without the leader advancing nextIndex (the success branch advances only beyond matchIndex): replication to that follower stalls for ever"
						default:
							ob.Verdict, ob.Detail = Violated, "on rejection nextIndex := "+val+", must be max(response.Index, matchIndex+1)"
						}
					case !succ.IsEmpty() && rej.IsEmpty():
						if strings.Contains(val, "Max") || strings.Contains(val, "max") || strings.Contains(val, reqPrev) {
							ob.Verdict, ob.Detail = Discharged, "on success nextIndex advances past the entries sent"
						} else {
							ob.Verdict, ob.Detail = Undecided, "on success nextIndex := "+val
						}
					default:
						ob.Verdict, ob.Detail = Undecided, "nextIndex written where the reply's outcome is not known"
					}
					out = append(out, ob)
				case fn == "(*Raft).sendInstallSnapshot":
					obs := evalObs(a, id, []*Observation{o}, func(_ *Observation, pt int) bool {
						return iDone >= 0 && sp.Val(pt, iDone) == 1 && iBW >= 0 && sp.Val(pt, iBW) == EQ
					}, nil, "the follower's indices advance to the snapshot label only after the last chunk was written at the expected offset")
					obs[0].Construct = "SNAP-HANDSHAKE " + o.Key
					out = append(out, obs...)
				case fn == "(*Raft).becomeLeader":
					ob := Obligation{Rule: id, Construct: "MATCH-PROV " + o.Key, Pos: o.Pos}
					if field == "matchIndex" && val != "0" {
						ob.Verdict, ob.Detail = Violated, "a new leader starts with matchIndex := "+val+" instead of 0: replicas are counted that it has not verified in its term"
					} else {
						ob.Verdict, ob.Detail = Discharged, "reset on leader entry: "+val
					}
					out = append(out, ob)
				default:
					out = append(out, Obligation{Rule: id, Construct: o.Key, Pos: o.Pos, Verdict: Undecided, Detail: "unexpected writer of follower." + field + " in " + fn})
				}
			}
			if len(getArgs) == 0 {
				out = append(out, missing(id, "Log.GetEntry in (*Raft).sendAppendEntries")...)
			}
			// the handler acknowledges a chunk it does not need (a snapshot it already has, a chunk already written) by echoing
			// request.Offset in BytesWritten: the sender recognises that acknowledgement only if it compares with the very value it sent
			{
				ob := Obligation{Rule: id, Construct: "SNAP-HANDSHAKE response.BytesWritten is compared with the offset sent in (*Raft).sendInstallSnapshot", Pos: offsetSentPos,
					Facts: []string{"request.Offset := " + offsetSent, "compared with: " + offsetS}}
				switch {
				case offsetSent == "" || bytesW == "":
					ob.Verdict, ob.Detail = AnchorLost, "no store to request.Offset or no comparison of response.BytesWritten in sendInstallSnapshot"
				case offsetSent == offsetS:
					ob.Verdict, ob.Detail = Discharged, "response.BytesWritten is compared with the value stored in request.Offset, which is what the handler echoes when it has nothing to write"
				default:
					ob.Verdict, ob.Detail = Violated, "response.BytesWritten is compared with "+offsetS+", not with the value sent as request.Offset ("+offsetSent+"): the handler's acknowledgement of a snapshot it does not need "+
						"(BytesWritten = request.Offset) is taken for a mismatch, the file is moved back and the same chunk is sent for ever, so the follower's nextIndex never advances"
				}
				out = append(out, ob)
			}
			out = append(out, fmtHandshakeSeek(p, id)...)
			out = append(out, leaderResetsMatch(p, id)...)
			return out
		},
	}
}

// fmtHandshakeSeek: on an offset mismatch the sender repositions the file to response.BytesWritten.
func fmtHandshakeSeek(p *Program, id string) []Obligation {
	fn := p.Func("(*Raft).sendInstallSnapshot")
	if fn == nil {
		return missing(id, "(*Raft).sendInstallSnapshot")
	}
	fr := NewRootFrame(fn)
	ob := Obligation{Rule: id, Construct: "SNAP-HANDSHAKE re-seek to the follower's offset in (*Raft).sendInstallSnapshot", Pos: p.Pos(fn.Pos())}
	for _, b := range fn.Blocks {
		for _, in := range b.Instrs {
			if iface, m, c := invokeOf(in); iface == "SnapshotFile" && m == "Seek" {
				if strings.HasSuffix(p.Canon(fr, c.Args[0]).S, ".BytesWritten") {
					ob.Verdict, ob.Detail, ob.Pos = Discharged, "Seek(response.BytesWritten, io.SeekStart) on mismatch", p.InstrPos(in)
					return []Obligation{ob}
				}
			}
		}
	}
	ob.Verdict = Violated
	ob.Detail = "on an offset mismatch the sender never repositions its file to the follower's offset: the transfer cannot recover from a lost or duplicated chunk"
	return []Obligation{ob}
}

var _ = fmt.Sprint

// leaderResetsMatch: becomeLeader sets matchIndex := 0 and nextIndex := LastIndex()+1 for every follower.
func leaderResetsMatch(p *Program, id string) []Obligation {
	fn := p.Func("(*Raft).becomeLeader")
	if fn == nil {
		return missing(id, "(*Raft).becomeLeader")
	}
	fr := NewRootFrame(fn)
	matchFld, nextFld := p.Field("follower.matchIndex"), p.Field("follower.nextIndex")
	res := map[string]string{}
	inRange := map[string]bool{}
	for _, b := range fn.Blocks {
		for _, in := range b.Instrs {
			s, fld := storeField(in)
			if s == nil || (fld != matchFld && fld != nextFld) {
				continue
			}
			name := "matchIndex"
			if fld == nextFld {
				name = "nextIndex"
			}
			res[name] = p.Canon(fr, s.Val).S
			// the follower written is the value of a range over r.followers
			if fa, ok := s.Addr.(*ssa.FieldAddr); ok {
				if ex, ok := fa.X.(*ssa.Extract); ok && ex.Index == 2 {
					if nx, ok := ex.Tuple.(*ssa.Next); ok {
						if rg, ok := nx.Iter.(*ssa.Range); ok && p.Canon(fr, rg.X).S == "r.followers" {
							inRange[name] = true
						}
					}
				}
			}
		}
	}
	var out []Obligation
	for _, name := range []string{"matchIndex", "nextIndex"} {
		ob := Obligation{Rule: id, Construct: "MATCH-PROV reset of follower." + name + " for every follower in (*Raft).becomeLeader", Pos: p.Pos(fn.Pos())}
		v, ok := res[name]
		switch {
		case !ok:
			ob.Verdict = Violated
			ob.Detail = "becomeLeader does not reset follower." + name + ": indices recorded under an earlier leadership of this node are reused (for matchIndex: replicas are counted toward commitment that were never verified in this term)"
		case !inRange[name]:
			ob.Verdict, ob.Detail = Violated, "the reset does not cover every follower (not inside a range over r.followers)"
		case name == "matchIndex" && v != "0":
			ob.Verdict, ob.Detail = Violated, "matchIndex reset to "+v+", must be 0"
		case name == "nextIndex" && v != "(1 + r.log.LastIndex())" && v != "r.log.NextIndex()":
			ob.Verdict, ob.Detail = Undecided, "nextIndex reset to "+v
		default:
			ob.Verdict, ob.Detail = Discharged, "reset to "+v+" for every follower"
		}
		out = append(out, ob)
	}
	return out
}

// decodedFromRequestConfiguration: v is &c where c was decoded (decodeConfiguration / DecodeConfiguration) from
// request.Configuration.
func decodedFromRequestConfiguration(p *Program, f *Frame, v ssa.Value) bool {
	al, ok := v.(*ssa.Alloc)
	if !ok || al.Referrers() == nil {
		return false
	}
	for _, r := range *al.Referrers() {
		st, ok := r.(*ssa.Store)
		if !ok || st.Addr != ssa.Value(al) {
			continue
		}
		src := st.Val
		if ex, ok := src.(*ssa.Extract); ok {
			src = ex.Tuple
		}
		c, ok := src.(*ssa.Call)
		if !ok || !strings.HasSuffix(strings.ToLower(calleeName(c.Common())), "decodeconfiguration") {
			continue
		}
		args := c.Common().Args
		if len(args) > 0 && p.Canon(f, args[len(args)-1]).S == "p0.Configuration" {
			return true
		}
	}
	return false
}

// callsGuardedByIndex: fn calls target only under a comparison of configuration indexes (it may skip the call).
func callsGuardedByIndex(p *Program, fn, target *ssa.Function) bool {
	if fn == nil || target == nil {
		return false
	}
	fr := NewRootFrame(fn)
	for _, b := range fn.Blocks {
		for _, in := range b.Instrs {
			c, ok := in.(*ssa.Call)
			if !ok || c.Common().StaticCallee() != target {
				continue
			}
			for _, bb := range fn.Blocks {
				iff, ok := bb.Instrs[len(bb.Instrs)-1].(*ssa.If)
				if !ok || bb == b || !blockReaches(bb, b) {
					continue
				}
				if bo, ok := iff.Cond.(*ssa.BinOp); ok {
					x, y := p.Canon(fr, bo.X).S, p.Canon(fr, bo.Y).S
					if (x == "r.configuration.Index" || y == "r.configuration.Index") && (!blockReaches(bb.Succs[0], b) && bb.Succs[0] != b || !blockReaches(bb.Succs[1], b) && bb.Succs[1] != b) {
						return true
					}
				}
			}
		}
	}
	return false
}
