package lint

import (
	"fmt"
	"go/token"
	"go/types"
	"sort"

	"golang.org/x/tools/go/ssa"
)

// ENUM-CAST: the log entry type crosses the wire and the disk by a plain numeric conversion.
//
// proto3 enums are open, so the value 2 (ConfigurationEntry), which raft.proto does not name,
// survives pb.LogEntry_LogEntryType(x) and LogEntryType(y). A switch- or map-based translation
// written against the two named protobuf constants would silently turn configuration entries
// into something else; that shape is recognised and reported.

func ruleEnumCast() *Rule {
	const id = "ENUM-CAST"
	return &Rule{
		ID: id,
		Text: "Every place where LogEntry.EntryType is copied between the domain struct and the protobuf struct (makeProtoEntries, makeEntries, encodeLogEntry, decodeLogEntry and any other such store) " +
			"uses a plain numeric conversion of the other side's EntryType field. A switch- or map-based translation that does not cover every declared LogEntryType constant is a violation; any other shape is undecided.",
		Floor: 4,
		Run: func(p *Program) []Obligation {
			enums := p.tbEnums()
			domEnum := tbEnumOfType(enums, typeOrNil(p.NamedType("LogEntryType")))
			pbEnum := tbEnumOfType(enums, typeOrNil(p.tbLookupNamed(tbProtoPkgPath, "LogEntry_LogEntryType")))
			domField := p.Field("LogEntry.EntryType")
			var pbField *types.Var
			if st := tbStructOf(p.tbLookupNamed(tbProtoPkgPath, "LogEntry")); st != nil {
				for i := 0; i < st.NumFields(); i++ {
					if st.Field(i).Name() == "EntryType" {
						pbField = st.Field(i)
					}
				}
			}
			if domEnum == nil || pbEnum == nil || domField == nil || pbField == nil {
				return missing(id, "LogEntryType / protobuf.LogEntry_LogEntryType / the two EntryType fields")
			}
			decodeFns := map[string]bool{"makeEntries": true, "decodeLogEntry": true}
			anchors := map[string]bool{"makeProtoEntries": false, "makeEntries": false, "encodeLogEntry": false, "decodeLogEntry": false}
			var out []Obligation
			for _, fn := range p.SortedFuncs() {
				name := FuncName(fn)
				// stores of the entry type in fn, per direction
				var stores [2][]*ssa.Store
				for _, b := range fn.Blocks {
					for _, in := range b.Instrs {
						st, f := storeField(in)
						if st == nil || (f != domField && f != pbField) {
							continue
						}
						if f == pbField {
							stores[0] = append(stores[0], st)
						} else if decodeFns[name] || tbMentionsType(st.Val, pbEnum.Type) {
							stores[1] = append(stores[1], st)
						}
						// other domain-side stores do not involve the protobuf enum (NewLogEntry, ...): see FATAL-IO
					}
				}
				for dirIdx, sts := range stores {
					if len(sts) == 0 {
						continue
					}
					forward := dirIdx == 0
					ec := &tbEnumCastSite{p: p, fn: fn, forward: forward, srcEnum: domEnum, dstEnum: pbEnum, srcField: domField}
					dir := "domain -> protobuf"
					if !forward {
						ec.srcEnum, ec.dstEnum, ec.srcField = pbEnum, domEnum, pbField
						dir = "protobuf -> domain"
					}
					ob := Obligation{Rule: id, Construct: "entry type cast (" + dir + ") in " + name, Pos: p.InstrPos(sts[0])}
					if len(sts) == 1 {
						ob.Verdict, ob.Detail = ec.classify(sts[0].Val)
					} else {
						// several assignments: the value is chosen by control flow
						var outs []ssa.Value
						for _, st := range sts {
							outs = append(outs, st.Val)
						}
						ob.Verdict, ob.Detail = ec.mapping(fn, outs, ec.isSrcRead, fmt.Sprintf("the %d assignments of the entry type in %s", len(sts), name))
					}
					out = append(out, ob)
					if _, ok := anchors[name]; ok {
						anchors[name] = true
					}
				}
			}
			var lost []string
			for n, seen := range anchors {
				if !seen {
					lost = append(lost, n)
				}
			}
			sort.Strings(lost)
			for _, n := range lost {
				out = append(out, missing(id, "store of the entry type in "+n)...)
			}
			return out
		},
	}
}

func typeOrNil(n *types.Named) types.Type {
	if n == nil {
		return nil
	}
	return n
}

// tbMentionsType reports whether the data dependencies of v include a value of type t.
func tbMentionsType(v ssa.Value, t types.Type) bool {
	seen := map[ssa.Value]bool{}
	var walk func(v ssa.Value, depth int) bool
	walk = func(v ssa.Value, depth int) bool {
		if v == nil || seen[v] || depth > 12 {
			return false
		}
		seen[v] = true
		if types.Identical(v.Type(), t) {
			return true
		}
		in, ok := v.(ssa.Instruction)
		if !ok {
			return false
		}
		var ops []*ssa.Value
		for _, op := range in.Operands(ops) {
			if *op != nil && walk(*op, depth+1) {
				return true
			}
		}
		return false
	}
	return walk(v, 0)
}

type tbEnumCastSite struct {
	p                *Program
	fn               *ssa.Function
	forward          bool
	srcEnum, dstEnum *tbEnum
	srcField         *types.Var
}

// isSrcRead reports whether v is a read of the source EntryType field (direct or by accessor).
func (ec *tbEnumCastSite) isSrcRead(v ssa.Value) bool {
	if f, _ := tbFieldLoad(v); f != nil {
		return f == ec.srcField
	}
	if c, ok := v.(*ssa.Call); ok {
		return tbGetterField(c.Common().StaticCallee()) == ec.srcField
	}
	return false
}

func (ec *tbEnumCastSite) classify(v ssa.Value) (string, string) {
	src, why := tbTrace(v)
	if src != nil {
		if src.Field != ec.srcField {
			return Undecided, "the entry type is filled from " + src.Field.Name() + ", not from the other side's EntryType field"
		}
		if len(src.Wraps) == 1 && src.Wraps[0].Fn == nil {
			w := src.Wraps[0]
			if types.Identical(w.From, ec.srcEnum.Type) && types.Identical(w.To, ec.dstEnum.Type) {
				return Discharged, fmt.Sprintf("plain numeric conversion %s(%s) of the %s: every value, named in raft.proto or not, is preserved", tbTypeName(w.To), tbTypeName(w.From), src.Via)
			}
		}
		if len(src.Wraps) == 1 && src.Wraps[0].Fn != nil {
			h := src.Wraps[0].Fn
			if len(h.Params) != 1 || len(h.Blocks) == 0 {
				return Undecided, "the entry type goes through " + tbFuncName(h) + ", which is not analysable"
			}
			var outs []ssa.Value
			for _, b := range h.Blocks {
				if ret, ok := b.Instrs[len(b.Instrs)-1].(*ssa.Return); ok && len(ret.Results) >= 1 {
					outs = append(outs, ret.Results[0])
				}
			}
			return ec.mapping(h, outs, func(x ssa.Value) bool { return x == ssa.Value(h.Params[0]) }, "helper "+tbFuncName(h))
		}
		return Undecided, "the entry type is transformed by [" + tbWrapList(src.Wraps) + "], not by a single numeric conversion"
	}
	switch x := v.(type) {
	case *ssa.Phi:
		return ec.mapping(ec.fn, []ssa.Value{x}, ec.isSrcRead, "control-flow mapping in "+FuncName(ec.fn))
	case *ssa.Lookup:
		return ec.mapLookup(x)
	case *ssa.Extract:
		if lk, ok := x.Tuple.(*ssa.Lookup); ok && x.Index == 0 {
			return ec.mapLookup(lk)
		}
	case *ssa.UnOp:
		if al, ok := x.X.(*ssa.Alloc); ok && x.Op == token.MUL {
			// a local variable assigned in the arms of a switch
			var outs []ssa.Value
			for _, r := range *al.Referrers() {
				if s, ok := r.(*ssa.Store); ok && s.Addr == ssa.Value(al) {
					outs = append(outs, s.Val)
				}
			}
			if len(outs) > 0 {
				return ec.mapping(ec.fn, outs, ec.isSrcRead, "control-flow mapping in "+FuncName(ec.fn))
			}
		}
	}
	return Undecided, "shape of the entry type value not recognised: " + why
}

// mapping judges a translation whose results are outs (constants, conversions of the tag, phis of
// those) and whose case analysis consists of the comparisons "tag == constant" found in fn.
func (ec *tbEnumCastSite) mapping(fn *ssa.Function, outs []ssa.Value, isTag func(ssa.Value) bool, what string) (string, string) {
	produced := map[int64]bool{}
	passthrough, unknown := false, ""
	seen := map[ssa.Value]bool{}
	var flatten func(v ssa.Value)
	flatten = func(v ssa.Value) {
		if seen[v] {
			return
		}
		seen[v] = true
		switch x := v.(type) {
		case *ssa.Phi:
			for _, e := range x.Edges {
				flatten(e)
			}
		case *ssa.Const:
			if c, ok := tbConstInt(x); ok {
				produced[c] = true
			} else {
				unknown = "a non-integer constant"
			}
		case *ssa.Convert:
			if isTag(x.X) {
				passthrough = true
			} else {
				unknown = "a conversion of something other than the source entry type"
			}
		case *ssa.ChangeType:
			flatten(x.X)
		default:
			unknown = fmt.Sprintf("a value of shape %T", v)
		}
	}
	for _, o := range outs {
		flatten(o)
	}
	compared := map[int64]bool{}
	for _, b := range fn.Blocks {
		for _, in := range b.Instrs {
			bo, ok := in.(*ssa.BinOp)
			if !ok || (bo.Op != token.EQL && bo.Op != token.NEQ) {
				continue
			}
			if c, ok := tbConstInt(bo.Y); ok && isTag(bo.X) {
				compared[c] = true
			} else if c, ok := tbConstInt(bo.X); ok && isTag(bo.Y) {
				compared[c] = true
			}
		}
	}
	if unknown != "" {
		return Undecided, what + " yields " + unknown
	}
	if passthrough && len(produced) == 0 && len(compared) == 0 {
		return Discharged, what + " is a plain numeric conversion"
	}
	if passthrough {
		return Undecided, what + " mixes explicit cases with a numeric conversion; the pairing of cases and results is not analysed"
	}
	if ec.forward {
		// pigeonhole: fewer distinct results than declared entry types cannot be injective
		if nsrc := len(ec.srcEnum.Values()); len(produced) < nsrc {
			detail := fmt.Sprintf("%s translates the entry type case by case and yields only %d distinct value(s) for the %d declared entry types", what, len(produced), nsrc)
			if miss := ec.srcEnum.Missing(compared); len(miss) > 0 {
				detail += "; there is no case for " + tbJoin(miss)
			}
			return Violated, detail + ": entries of different types become indistinguishable when encoded (raft.proto names fewer values than LogEntryType declares)"
		}
	} else if miss := ec.dstEnum.Missing(produced); len(miss) > 0 {
		return Violated, fmt.Sprintf("%s translates the entry type case by case and never yields %s: entries of that type cannot survive decoding", what, tbJoin(miss))
	}
	return Undecided, what + " is a case-by-case translation that could be a bijection, but it is not a plain numeric conversion; this rule does not pair cases with results"
}

// mapLookup judges m[tag] where m is a map built from constant keys and values.
func (ec *tbEnumCastSite) mapLookup(lk *ssa.Lookup) (string, string) {
	if _, ok := lk.X.Type().Underlying().(*types.Map); !ok {
		return Undecided, "the entry type is indexed out of a non-map value"
	}
	idx := lk.Index
	if cv, ok := idx.(*ssa.Convert); ok {
		idx = cv.X
	}
	if !ec.isSrcRead(idx) {
		return Undecided, "the map is not indexed by the other side's EntryType field"
	}
	var mk *ssa.MakeMap
	switch m := lk.X.(type) {
	case *ssa.MakeMap:
		mk = m
	case *ssa.UnOp:
		if g, ok := m.X.(*ssa.Global); ok && g.Pkg != nil {
			if init := g.Pkg.Func("init"); init != nil {
				for _, b := range init.Blocks {
					for _, in := range b.Instrs {
						if s, ok := in.(*ssa.Store); ok && s.Addr == ssa.Value(g) {
							mk, _ = s.Val.(*ssa.MakeMap)
						}
					}
				}
			}
		}
	}
	if mk == nil {
		return Undecided, "the translation map is not a map literal this rule can read"
	}
	keys, vals := map[int64]bool{}, map[int64]bool{}
	for _, r := range *mk.Referrers() {
		mu, ok := r.(*ssa.MapUpdate)
		if !ok {
			continue
		}
		k, ok1 := tbConstInt(mu.Key)
		v, ok2 := tbConstInt(mu.Value)
		if !ok1 || !ok2 {
			return Undecided, "the translation map has a non-constant entry"
		}
		keys[k], vals[v] = true, true
	}
	if ec.forward {
		miss := ec.srcEnum.Missing(keys)
		image := map[int64]bool{}
		for v := range vals {
			image[v] = true
		}
		if len(miss) > 0 {
			image[0] = true // a missing key yields the zero value
		}
		if len(image) < len(ec.srcEnum.Values()) {
			detail := fmt.Sprintf("the entry type is translated through a map that yields only %d distinct value(s) for the %d declared entry types", len(image), len(ec.srcEnum.Values()))
			if len(miss) > 0 {
				detail += "; there is no key for " + tbJoin(miss)
			}
			return Violated, detail + ": entries of different types become indistinguishable when encoded"
		}
	} else if miss := ec.dstEnum.Missing(vals); len(miss) > 0 {
		return Violated, "the entry type is translated through a map that never yields " + tbJoin(miss) + ": entries of that type cannot survive decoding"
	}
	return Undecided, "map-based translation could be a bijection, but it is not a plain numeric conversion; this rule does not pair keys with values"
}
