package lint

import (
	"go/token"
	"go/types"

	"golang.org/x/tools/go/ssa"
)

// ruleRestoreCommitted: RESTORE-COMMITTED.
//
// r.committedConfiguration is "the configuration of the last configuration entry this node has APPLIED" — that is how
// the apply loop maintains it, and three readers rely on it: pendingConfigurationChange() (the membership guard),
// takeSnapshot() (the configuration a snapshot is labelled with) and configurationBefore() (the fall-back after a
// truncation). restore() recomputes it from the log. Without a snapshot restore() does not touch lastApplied: a node
// stopped and started again in place (Stop(), Start() on the same object) keeps its state machine and its lastApplied,
// and nothing will apply the entries at or below lastApplied again. So what restore() leaves in committedConfiguration
// must depend on lastApplied (or commitIndex): a configuration entry at or below it IS committed and applied.
//
// D37: the pinned restore() took "the configuration before the last one in the log" whatever had been applied. After an
// in-place restart with two configuration entries, both applied, every later membership change was refused with
// ErrPendingConfiguration for ever and the next snapshot carried the configuration BEFORE the last committed one.
func ruleRestoreCommitted() *Rule {
	const id = "RESTORE-COMMITTED"
	return &Rule{
		ID: id,
		Text: "restore() leaves in r.committedConfiguration a configuration that accounts for what the node has applied: after the walk over the log's configuration entries " +
			"a store to r.committedConfiguration of (a copy of) the configuration in force is guarded by configuration.Index <= r.lastApplied (or r.commitIndex), equality included.",
		Floor: 2,
		Run: func(p *Program) []Obligation {
			const fname = "(*Raft).restore"
			fn := p.Func(fname)
			cfgFld, comFld := p.Field("Raft.configuration"), p.Field("Raft.committedConfiguration")
			laFld, ciFld := p.Field("Raft.lastApplied"), p.Field("Raft.commitIndex")
			idxFld := p.Field("Configuration.Index")
			if fn == nil || cfgFld == nil || comFld == nil || laFld == nil || ciFld == nil || idxFld == nil {
				return missing(id, fname+" / Raft.configuration, committedConfiguration, lastApplied, commitIndex / Configuration.Index")
			}
			loadOf := func(v ssa.Value, flds ...*types.Var) (*ssa.UnOp, *ssa.FieldAddr) {
				u, ok := v.(*ssa.UnOp)
				if !ok || u.Op != token.MUL {
					return nil, nil
				}
				fa, ok := u.X.(*ssa.FieldAddr)
				if !ok {
					return nil, nil
				}
				f := fieldOf(fa.X.Type(), fa.Field)
				for _, x := range flds {
					if f == x {
						return u, fa
					}
				}
				return nil, nil
			}
			key := "the configuration restore() leaves as committed accounts for what the node has applied, in " + fname
			ob := Obligation{Rule: id, Construct: key, Pos: p.Pos(fn.Pos())}
			// the walk: a store to r.configuration inside a cycle
			var walk *ssa.Store
			for _, b := range fn.Blocks {
				for _, in := range b.Instrs {
					if s, f := storeField(in); s != nil && f == cfgFld && blockReaches(b, b) {
						walk = s
					}
				}
			}
			if walk == nil {
				return missing(id, "store to r.configuration in the loop over the log, in "+fname)
			}
			// fromInForce: v is (a pointer to a copy of) the configuration in force
			var fromInForce func(v ssa.Value, depth int) bool
			fromInForce = func(v ssa.Value, depth int) bool {
				if depth > 4 {
					return false
				}
				if u, _ := loadOf(v, cfgFld); u != nil {
					return true
				}
				if v == walk.Val {
					return true
				}
				switch x := v.(type) {
				case *ssa.Alloc:
					for _, ref := range *x.Referrers() {
						if st, ok := ref.(*ssa.Store); ok && st.Addr == x && fromInForce(st.Val, depth+1) {
							return true
						}
					}
				case *ssa.Call:
					if f := x.Common().StaticCallee(); f != nil && FuncName(f) == "(*Configuration).Clone" && len(x.Common().Args) == 1 {
						return fromInForce(x.Common().Args[0], depth+1)
					}
				case *ssa.UnOp:
					if x.Op == token.MUL {
						return fromInForce(x.X, depth+1)
					}
				}
				return false
			}
			found, offByOne, unclassified := "", "", ""
			anyBound := false
			for _, b := range fn.Blocks {
				for _, in := range b.Instrs {
					if u, _ := loadOf(valueOfInstr(in), laFld, ciFld); u != nil {
						anyBound = true
					}
				}
				iff, ok := b.Instrs[len(b.Instrs)-1].(*ssa.If)
				if !ok {
					continue
				}
				bo, ok := iff.Cond.(*ssa.BinOp)
				if !ok {
					continue
				}
				xb, _ := loadOf(bo.X, laFld, ciFld)
				yb, _ := loadOf(bo.Y, laFld, ciFld)
				if xb == nil && yb == nil {
					continue
				}
				var idxSide ssa.Value
				op := bo.Op
				if xb != nil { // bound OP idx  ->  idx OP' bound
					idxSide = bo.Y
					switch op {
					case token.GEQ:
						op = token.LEQ
					case token.LEQ:
						op = token.GEQ
					case token.GTR:
						op = token.LSS
					case token.LSS:
						op = token.GTR
					}
				} else {
					idxSide = bo.X
				}
				iu, ifa := loadOf(idxSide, idxFld)
				if iu == nil || !fromInForce(ifa.X, 0) {
					unclassified = p.InstrPos(iff)
					continue
				}
				arm := -1
				switch op {
				case token.LEQ:
					arm = 0
				case token.GTR:
					arm = 1
				case token.LSS, token.GEQ:
					offByOne = p.InstrPos(iff)
					continue
				default:
					unclassified = p.InstrPos(iff)
					continue
				}
				t := b.Succs[arm]
				if len(t.Preds) != 1 || !blockReaches(walk.Block(), b) {
					unclassified = p.InstrPos(iff)
					continue
				}
				for _, bb := range fn.Blocks {
					if !t.Dominates(bb) {
						continue
					}
					for _, x := range bb.Instrs {
						if s, f := storeField(x); s != nil && f == comFld && fromInForce(s.Val, 0) {
							found = p.InstrPos(s) + " under the comparison at " + p.InstrPos(iff)
						}
					}
				}
			}
			switch {
			case found != "":
				ob.Verdict, ob.Detail = Discharged, "after the walk, r.committedConfiguration := (copy of) the configuration in force when its Index <= what the node has applied: "+found
			case offByOne != "":
				ob.Verdict, ob.Detail = Violated, "the comparison at "+offByOne+" excludes equality: a configuration entry AT lastApplied has been applied and will not be applied again, "+
					"yet restore() leaves the configuration before it as the committed one"
			case unclassified != "":
				ob.Verdict, ob.Detail = Undecided, "restore() compares with lastApplied/commitIndex at "+unclassified+" in a form this rule does not recognise"
			case anyBound:
				ob.Verdict, ob.Detail = Undecided, "restore() reads lastApplied/commitIndex but no store to r.committedConfiguration is guarded by a comparison with it"
			default:
				ob.Verdict = Violated
				ob.Detail = "what restore() leaves in r.committedConfiguration does not depend on r.lastApplied: it takes the configuration BEFORE the last one in the log whatever has been applied. " +
					"A node stopped and started again in place keeps lastApplied and its state machine, so a last configuration entry that was applied before the stop is never applied again: " +
					"pendingConfigurationChange() stays true (every membership change is refused) and takeSnapshot labels snapshots with a configuration older than the one committed at their index"
			}
			// (D46) the walk asks `r.configuration != nil` to decide whether a configuration precedes the entry it has
			// found: what it sees there must have been written by this very restore(), not left over from before
			ob2 := Obligation{Rule: id, Construct: "the walk of restore() starts from configurations written by this restore(), in " + fname, Pos: p.InstrPos(walk)}
			fresh := map[*types.Var]bool{}
			for _, b := range fn.Blocks {
				for _, in := range b.Instrs {
					if s, f := storeField(in); s != nil && (f == cfgFld || f == comFld) && s != walk && b != walk.Block() && b.Dominates(walk.Block()) && !blockReaches(b, b) {
						fresh[f] = true
					}
				}
			}
			if fresh[cfgFld] && fresh[comFld] {
				ob2.Verdict, ob2.Detail = Discharged, "r.configuration and r.committedConfiguration are both assigned on every path before the loop over the log"
			} else {
				ob2.Verdict = Violated
				ob2.Detail = "on some path the loop over the log starts with the r.configuration / r.committedConfiguration the node had in memory before restore() (NewRaft followed by Restart, or Stop followed by Start, run restore() on a node that has them): " +
					"the first configuration entry found is then taken to be preceded by a committed one, and pendingConfigurationChange() is false although that entry has not been applied"
			}
			return []Obligation{ob, ob2}
		},
	}
}

func valueOfInstr(in ssa.Instruction) ssa.Value {
	v, _ := in.(ssa.Value)
	return v
}
