package lint

import (
	"fmt"
	"go/ast"
	"go/constant"
	"go/token"
	"go/types"
	"sort"
	"strings"

	"golang.org/x/tools/go/ssa"
)

// ruleEnumEntry: C18 ENUM-ENTRY.
//
// PANIC-SITES shows that the explicit panics are unreachable for DECLARED values of the enumerations. A caller of the
// exported API can pass any integer. The rule follows every enumeration-typed parameter of an exported function
// through that function: its possible values (the declared constants, or "some other integer") are narrowed by the
// comparisons with constants on the way (a switch is a chain of them), and wherever the parameter is handed on — to a
// call, into a struct, to one of its own methods — "some other integer" must have been excluded. A predicate method
// (`t.isReadOnly()`) narrows nothing unless it is itself such a comparison.
func ruleEnumEntry() *Rule {
	const id = "ENUM-ENTRY"
	return &Rule{
		ID: id,
		Text: "In every exported function with a parameter of an enumeration type, the parameter is handed on (argument or receiver of a call, stored, converted into another enumeration) only on paths on which comparisons with declared constants " +
			"have excluded every undeclared value; formatting it into an error message is not handing it on.",
		Floor: 1,
		Run: func(p *Program) []Obligation {
			enums := p.tbEnums()
			var out []Obligation
			for _, fn := range p.SortedFuncs() {
				if fn.Parent() != nil || fn.Syntax() == nil {
					continue
				}
				fd, ok := fn.Syntax().(*ast.FuncDecl)
				if !ok || !ast.IsExported(fd.Name.Name) {
					continue
				}
				if fn.Pkg == nil || strings.Contains(fn.Pkg.Pkg.Path(), "/internal/") {
					continue // not importable by a user of the library
				}
				for i, par := range fn.Params {
					e := tbEnumOfType(enums, par.Type())
					if e == nil {
						continue
					}
					if i == 0 && fn.Signature.Recv() != nil {
						continue // a method of the enumeration itself: its callers are what the rule is about
					}
					out = append(out, enumEntryParam(p, id, fn, par, e))
				}
			}
			return out
		},
	}
}

func enumEntryParam(p *Program, id string, fn *ssa.Function, par *ssa.Parameter, e *tbEnum) Obligation {
	ob := Obligation{Rule: id, Construct: fmt.Sprintf("parameter %s (%s) of %s", par.Name(), e.Name(), FuncName(fn)), Pos: p.Pos(fn.Pos())}
	vals := e.Values()
	var declared []int64
	for v := range vals {
		declared = append(declared, v)
	}
	sort.Slice(declared, func(i, j int) bool { return declared[i] < declared[j] })
	const other = -1 << 62
	type set map[int64]bool
	full := func() set {
		s := set{other: true}
		for _, v := range declared {
			s[v] = true
		}
		return s
	}
	// the parameter and its copies (spilled to an Alloc, converted to its own type)
	isPar := func(v ssa.Value) bool {
		for {
			switch x := v.(type) {
			case *ssa.ChangeType:
				v = x.X
				continue
			case *ssa.UnOp:
				if x.Op == token.MUL {
					if al, ok := x.X.(*ssa.Alloc); ok && al.Referrers() != nil {
						n, src := 0, ssa.Value(nil)
						for _, r := range *al.Referrers() {
							if st, ok := r.(*ssa.Store); ok && st.Addr == ssa.Value(al) {
								n++
								src = st.Val
							}
						}
						if n == 1 && src == ssa.Value(par) {
							return true
						}
					}
				}
			}
			return v == ssa.Value(par)
		}
	}
	in := map[*ssa.BasicBlock]set{}
	if len(fn.Blocks) == 0 {
		ob.Verdict, ob.Detail = Undecided, "no body"
		return ob
	}
	in[fn.Blocks[0]] = full()
	work := []*ssa.BasicBlock{fn.Blocks[0]}
	for len(work) > 0 {
		b := work[0]
		work = work[1:]
		s := in[b]
		outs := make([]set, len(b.Succs))
		for i := range outs {
			outs[i] = s
		}
		if iff, ok := b.Instrs[len(b.Instrs)-1].(*ssa.If); ok {
			cond, neg := iff.Cond, false
			if u, ok := cond.(*ssa.UnOp); ok && u.Op == token.NOT {
				cond, neg = u.X, true
			}
			if c, ok := cond.(*ssa.Call); ok && len(c.Common().Args) == 1 && isPar(c.Common().Args[0]) && enumPredicate(c.Common().StaticCallee()) {
				yes, no := set{}, set{}
				for v := range s {
					reps := []int64{v}
					if v == other {
						reps = []int64{declared[0] - 1000, declared[len(declared)-1] + 1000}
					}
					for _, r := range reps {
						res, ok := evalEnumPredicate(c.Common().StaticCallee(), r)
						if !ok || res {
							yes[v] = true
						}
						if !ok || !res {
							no[v] = true
						}
					}
				}
				if neg {
					yes, no = no, yes
				}
				outs[0], outs[1] = yes, no
			}
			if bo, ok := iff.Cond.(*ssa.BinOp); ok && (bo.Op == token.EQL || bo.Op == token.NEQ) {
				var k int64
				found := false
				if isPar(bo.X) {
					k, found = tbConstInt(bo.Y)
				} else if isPar(bo.Y) {
					k, found = tbConstInt(bo.X)
				}
				if found {
					eq, ne := set{}, set{}
					for v := range s {
						if v == k {
							eq[v] = true
						} else {
							ne[v] = true
						}
					}
					if bo.Op == token.EQL {
						outs[0], outs[1] = eq, ne
					} else {
						outs[0], outs[1] = ne, eq
					}
				}
			}
		}
		for i, sc := range b.Succs {
			cur := in[sc]
			grew := false
			if cur == nil {
				cur = set{}
				in[sc] = cur
				grew = true
			}
			for v := range outs[i] {
				if !cur[v] {
					cur[v] = true
					grew = true
				}
			}
			if grew {
				work = append(work, sc)
			}
		}
	}
	// uses
	var bad []string
	uses := 0
	for _, b := range fn.Blocks {
		s := in[b]
		if s == nil {
			continue
		}
		for _, x := range b.Instrs {
			what := ""
			switch y := x.(type) {
			case *ssa.Call:
				if enumPredicate(y.Common().StaticCallee()) {
					continue // asking the value what it is hands it to nobody
				}
				for i, a := range y.Common().Args {
					if isPar(a) {
						if i == 0 && y.Common().StaticCallee() != nil && y.Common().StaticCallee().Signature.Recv() != nil {
							what = "receiver of " + calleeName(y.Common())
						} else {
							what = "argument of " + calleeName(y.Common())
						}
					}
				}
			case *ssa.Go:
				for _, a := range y.Common().Args {
					if isPar(a) {
						what = "argument of go " + calleeName(y.Common())
					}
				}
			case *ssa.Defer:
				for _, a := range y.Common().Args {
					if isPar(a) {
						what = "argument of defer " + calleeName(y.Common())
					}
				}
			case *ssa.Convert:
				if isPar(y.X) && tbEnumOfType(p.tbEnums(), y.Type()) != nil {
					what = "converted into " + tbTypeName(y.Type())
				}
			}
			if what == "" {
				continue
			}
			uses++
			if s[other] {
				bad = append(bad, fmt.Sprintf("%s at %s", what, p.InstrPos(x)))
			}
		}
	}
	switch {
	case len(bad) > 0:
		ob.Verdict = Violated
		ob.Detail = fmt.Sprintf("an undeclared value of %s (any other integer a caller passes) reaches: %s — nothing on the way compares the parameter with the declared constants %s; "+
			"the code behind it assumes a declared value (its String() panics otherwise, tables indexed by it miss)", e.Name(), strings.Join(bad, "; "), tbJoin(enumNames(e)))
	case uses == 0:
		ob.Verdict, ob.Detail = Discharged, "the parameter is only compared, never handed on"
	default:
		ob.Verdict, ob.Detail = Discharged, fmt.Sprintf("%d use(s), each reached only with a declared value", uses)
	}
	return ob
}

func enumNames(e *tbEnum) []string {
	var out []string
	for _, c := range e.Consts {
		out = append(out, c.Name())
	}
	return out
}

// enumPredicate: a method of an enumeration (or a function of one enumeration-typed argument) that returns a bool and
// does nothing but compare its argument with constants.
func enumPredicate(fn *ssa.Function) bool {
	if fn == nil || len(fn.Params) != 1 || fn.Signature.Results().Len() != 1 || len(fn.Blocks) == 0 {
		return false
	}
	if b, ok := fn.Signature.Results().At(0).Type().Underlying().(*types.Basic); !ok || b.Kind() != types.Bool {
		return false
	}
	for _, b := range fn.Blocks {
		for _, in := range b.Instrs {
			switch in.(type) {
			case *ssa.BinOp, *ssa.UnOp, *ssa.If, *ssa.Jump, *ssa.Phi, *ssa.Return, *ssa.DebugRef, *ssa.ChangeType, *ssa.Convert:
			default:
				return false
			}
		}
	}
	return true
}

// evalEnumPredicate interprets an enumPredicate for one concrete argument.
func evalEnumPredicate(fn *ssa.Function, arg int64) (bool, bool) {
	env := map[ssa.Value]interface{}{fn.Params[0]: arg}
	val := func(v ssa.Value) (interface{}, bool) {
		if c, ok := v.(*ssa.Const); ok {
			if c.Value == nil {
				return nil, false
			}
			switch c.Value.Kind() {
			case constant.Int:
				i, ok := constant.Int64Val(c.Value)
				return i, ok
			case constant.Bool:
				return constant.BoolVal(c.Value), true
			}
			return nil, false
		}
		x, ok := env[v]
		return x, ok
	}
	b, prev := fn.Blocks[0], (*ssa.BasicBlock)(nil)
	for steps := 0; steps < 200; steps++ {
		for _, in := range b.Instrs {
			switch x := in.(type) {
			case *ssa.Phi:
				for i, pr := range b.Preds {
					if pr == prev {
						if v, ok := val(x.Edges[i]); ok {
							env[x] = v
						}
					}
				}
			case *ssa.ChangeType:
				if v, ok := val(x.X); ok {
					env[x] = v
				}
			case *ssa.Convert:
				if v, ok := val(x.X); ok {
					env[x] = v
				}
			case *ssa.UnOp:
				if v, ok := val(x.X); ok {
					if bv, isB := v.(bool); isB && x.Op == token.NOT {
						env[x] = !bv
					}
				}
			case *ssa.BinOp:
				l, ok1 := val(x.X)
				r, ok2 := val(x.Y)
				if !ok1 || !ok2 {
					continue
				}
				li, lok := l.(int64)
				ri, rok := r.(int64)
				if lok && rok {
					switch x.Op {
					case token.EQL:
						env[x] = li == ri
					case token.NEQ:
						env[x] = li != ri
					case token.LSS:
						env[x] = li < ri
					case token.LEQ:
						env[x] = li <= ri
					case token.GTR:
						env[x] = li > ri
					case token.GEQ:
						env[x] = li >= ri
					}
				}
				lb, lok := l.(bool)
				rb, rok := r.(bool)
				if lok && rok {
					switch x.Op {
					case token.AND:
						env[x] = lb && rb
					case token.OR:
						env[x] = lb || rb
					case token.EQL:
						env[x] = lb == rb
					case token.NEQ:
						env[x] = lb != rb
					}
				}
			case *ssa.If:
				c, ok := val(x.Cond)
				cb, isB := c.(bool)
				if !ok || !isB {
					return false, false
				}
				prev = b
				if cb {
					b = b.Succs[0]
				} else {
					b = b.Succs[1]
				}
			case *ssa.Jump:
				prev = b
				b = b.Succs[0]
			case *ssa.Return:
				r, ok := val(x.Results[0])
				rb, isB := r.(bool)
				return rb, ok && isB
			}
		}
	}
	return false, false
}
