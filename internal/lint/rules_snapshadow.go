package lint

import (
	"go/token"
	"strings"

	"golang.org/x/tools/go/ssa"
)

// ruleSnapShadow: C14/C10 SNAP-SHADOW.
//
// takeSnapshot creates its file with the mutex held, then releases the mutex while the state machine writes into it
// and while the file is published (Close). A received snapshot with a greater index can be installed in that window;
// takeSnapshot notices afterwards and returns — but its own, overtaken snapshot is already on disk. That is harmless
// only because SnapshotFile() orders directories by a key taken at CREATION: the overtaken snapshot was created first
// and sorts first. If the key is taken when the file is closed, the overtaken snapshot sorts LAST, a restart restores
// from it, and the log — discarded up to the installed snapshot — does not connect to it: the node can never be
// created over that directory again. So: either the ordering key is fixed at creation and takeSnapshot creates the
// file with the mutex held, or takeSnapshot publishes the file with the mutex held.
func ruleSnapShadow() *Rule {
	const id = "SNAP-SHADOW"
	return &Rule{
		ID: id,
		Text: "takeSnapshot publishes its snapshot (SnapshotFile.Close) with Raft.mu released; the ordering key of a snapshot directory is therefore fixed when the file is CREATED, and takeSnapshot creates it (SnapshotStorage.NewSnapshotFile) with Raft.mu held — " +
			"or else the Close itself is made with Raft.mu held. (The reverse overlap, an installation that started before the local snapshot, is known finding D23 of SNAP-PICK.)",
		Floor: 1,
		Run: func(p *Program) []Obligation {
			ts := p.Func("(*Raft).takeSnapshot")
			a := p.Locks(nodeMutex)
			if ts == nil || a == nil {
				return missing(id, "(*Raft).takeSnapshot / Raft.mu")
			}
			ob := Obligation{Rule: id, Construct: "an overtaken local snapshot never becomes the most recent one on disk, in (*Raft).takeSnapshot", Pos: p.Pos(ts.Pos())}
			// where is the ordering key taken? (SNAP-PICK's key clause: discharged = at Close, known/violated = at creation)
			tmp := newObSet("SNAP-PICK")
			snapPickKey(p, tmp)
			atClose, decided := false, false
			for _, o := range tmp.list() {
				if strings.HasPrefix(o.Construct, "ordering key of a published snapshot directory") {
					decided = o.Verdict == Discharged || o.Verdict == Violated
					atClose = o.Verdict == Discharged
				}
			}
			if !decided {
				ob.Verdict, ob.Detail = Undecided, "where the ordering key of a snapshot directory is taken was not recognised"
				return []Obligation{ob}
			}
			var create, closeCall ssa.Instruction
			for _, b := range ts.Blocks {
				for _, in := range b.Instrs {
					iface, m, _ := invokeOf(in)
					if iface == "SnapshotStorage" && m == "NewSnapshotFile" {
						create = in
					}
					if iface == "SnapshotFile" && m == "Close" {
						closeCall = in
					}
				}
			}
			if create == nil || closeCall == nil {
				ob.Verdict, ob.Detail = AnchorLost, "NewSnapshotFile / SnapshotFile.Close not found in takeSnapshot"
				return []Obligation{ob}
			}
			held := func(in ssa.Instruction) bool { return a.MergedAt(in).Bits == LkHeld }
			switch {
			case held(closeCall):
				ob.Verdict, ob.Detail = Discharged, "the snapshot is published with "+nodeMutex+" held"
			case atClose:
				ob.Verdict = Violated
				ob.Pos = p.InstrPos(closeCall)
				ob.Detail = "the snapshot is published (Close) with " + nodeMutex + " released, and the ordering key of its directory is taken at that moment: a snapshot that was overtaken by an installation during the window sorts AFTER the installed one, " +
					"a restart restores the state machine from it, and the log (discarded up to the installed snapshot) does not connect to it — NewRaft over the directory fails for ever"
			case held(create):
				ob.Verdict, ob.Detail = Discharged, "published with the mutex released, but the ordering key is fixed at creation, and the file is created with "+nodeMutex+" held: an overtaken snapshot sorts before the one that overtook it"
			default:
				ob.Verdict, ob.Detail = Violated, "the snapshot file is neither created nor published with "+nodeMutex+" held"
			}
			return []Obligation{ob}
		},
	}
}

// ruleBoundaryMono: BOUNDARY-MONO.
//
// takeSnapshot reads its label, releases the mutex for the state machine, and comes back to a node on which a received
// snapshot with a greater index may have been installed. It must then leave the boundary alone: moving
// lastIncludedIndex BACK and compacting a log that already starts beyond the label ends in a fatal error (or in a
// boundary that no longer describes the log). The test that prevents it compares the LABEL — not lastApplied, which has
// moved on with the installation — with the boundary.
func ruleBoundaryMono() *Rule {
	const id = "BOUNDARY-MONO"
	return &Rule{
		ID:    id,
		Text:  "In takeSnapshot every store to Raft.lastIncludedIndex writes a value V on a path on which, in the same critical section, V > r.lastIncludedIndex has been established (the arm of a comparison of that very value with the boundary).",
		Floor: 2,
		Run: func(p *Program) []Obligation {
			fn := p.Func("(*Raft).takeSnapshot")
			fld := p.Field("Raft.lastIncludedIndex")
			if fn == nil || fld == nil {
				return missing(id, "(*Raft).takeSnapshot / Raft.lastIncludedIndex")
			}
			fr := NewRootFrame(fn)
			var out []Obligation
			// the stores, in takeSnapshot itself or in a helper it calls: judged at the instruction of takeSnapshot they happen at
			type site struct {
				at  ssa.Instruction // in takeSnapshot
				val string
				pos string
				key string
			}
			var sites []site
			seenSite := map[string]bool{}
			p.discover(fn, func(a *Analysis, f *Frame, in ssa.Instruction) {
				st, fl := storeField(in)
				if st == nil || fl != fld {
					return
				}
				at := in
				for q := f; q.Parent != nil; q = q.Parent {
					at = q.Site
				}
				k := chainKey(f) + "|" + p.InstrPos(in)
				if seenSite[k] {
					return
				}
				seenSite[k] = true
				sites = append(sites, site{at: at, val: strings.TrimPrefix(p.Canon(f, st.Val).S, "@"), pos: p.InstrPos(in), key: chainKey(f)})
			})
			for _, sx := range sites {
				b := sx.at.Block()
				{
					ob := Obligation{Rule: id, Construct: "store Raft.lastIncludedIndex in " + sx.key, Pos: sx.pos}
					v := sx.val
					guarded := false
					for _, bb := range fn.Blocks {
						iff, ok := bb.Instrs[len(bb.Instrs)-1].(*ssa.If)
						if !ok {
							continue
						}
						bo, ok := iff.Cond.(*ssa.BinOp)
						if !ok {
							continue
						}
						x := strings.TrimPrefix(p.Canon(fr, bo.X).S, "@")
						y := strings.TrimPrefix(p.Canon(fr, bo.Y).S, "@")
						arm := -1 // successor on which V > boundary
						switch {
						case x == v && y == "r.lastIncludedIndex" && (bo.Op == token.LEQ):
							arm = 1
						case x == v && y == "r.lastIncludedIndex" && (bo.Op == token.GTR):
							arm = 0
						case y == v && x == "r.lastIncludedIndex" && (bo.Op == token.GEQ):
							arm = 1
						case y == v && x == "r.lastIncludedIndex" && (bo.Op == token.LSS):
							arm = 0
						}
						if arm < 0 {
							continue
						}
						// the comparison is made after the last acquisition of the mutex before the store, and its arm dominates the store
						if len(bb.Succs[arm].Preds) == 1 && bb.Succs[arm].Dominates(b) && !lockBetween(bb, b) {
							guarded = true
						}
					}
					if guarded {
						ob.Verdict, ob.Detail = Discharged, "stored only where "+v+" > r.lastIncludedIndex was established in the same critical section"
					} else {
						ob.Verdict = Violated
						ob.Detail = "the boundary is set to " + v + " without a comparison of that value with r.lastIncludedIndex since the mutex was re-acquired: a snapshot with a greater index installed while the state machine was writing this one is overtaken BACKWARDS — " +
							"lastIncludedIndex decreases and Log.Compact is asked for an index the log no longer holds (fatal)"
					}
					out = append(out, ob)
				}
			}
			if len(out) == 0 {
				return missing(id, "a store to Raft.lastIncludedIndex in takeSnapshot")
			}
			// (D52) the same for PUBLISHING the file: a local snapshot that an installation has overtaken while the state
			// machine was writing it must not be closed (renamed into place) at all — its directory, created later than
			// the installed one, would be picked as the most recent snapshot although the log no longer connects to it
			var label string
			var closes []ssa.Instruction
			for _, b := range fn.Blocks {
				for _, in := range b.Instrs {
					if iface, m, c := invokeOf(in); iface == "SnapshotStorage" && m == "NewSnapshotFile" && len(c.Args) > 0 {
						label = strings.TrimPrefix(p.Canon(fr, c.Args[0]).S, "@")
					}
					if iface, m, _ := invokeOf(in); iface == "SnapshotFile" && m == "Close" {
						closes = append(closes, in)
					}
				}
			}
			if label == "" || len(closes) == 0 {
				return append(out, missing(id, "SnapshotStorage.NewSnapshotFile / SnapshotFile.Close in takeSnapshot")...)
			}
			for i, cl := range closes {
				ob := Obligation{Rule: id, Construct: "publication (Close) of the local snapshot in (*Raft).takeSnapshot" + ordSuffix(i+1), Pos: p.InstrPos(cl)}
				guarded := false
				for _, bb := range fn.Blocks {
					iff, ok := bb.Instrs[len(bb.Instrs)-1].(*ssa.If)
					if !ok {
						continue
					}
					bo, ok := iff.Cond.(*ssa.BinOp)
					if !ok {
						continue
					}
					x := strings.TrimPrefix(p.Canon(fr, bo.X).S, "@")
					y := strings.TrimPrefix(p.Canon(fr, bo.Y).S, "@")
					arm := -1
					switch {
					case x == label && y == "r.lastIncludedIndex" && bo.Op == token.LEQ:
						arm = 1
					case x == label && y == "r.lastIncludedIndex" && bo.Op == token.GTR:
						arm = 0
					case y == label && x == "r.lastIncludedIndex" && bo.Op == token.GEQ:
						arm = 1
					case y == label && x == "r.lastIncludedIndex" && bo.Op == token.LSS:
						arm = 0
					}
					if arm < 0 {
						continue
					}
					if len(bb.Succs[arm].Preds) == 1 && bb.Succs[arm].Dominates(cl.Block()) && !lockBetween(bb, cl.Block()) {
						guarded = true
					}
				}
				if guarded {
					ob.Verdict, ob.Detail = Discharged, "the file is published only where "+label+" > r.lastIncludedIndex was established in the same critical section"
				} else {
					ob.Verdict = Violated
					ob.Detail = "the local snapshot is published without a comparison of its label (" + label + ") with r.lastIncludedIndex since the mutex was re-acquired: when a snapshot with a greater index was installed while the state machine was writing this one, " +
						"the obsolete file is renamed into place all the same; created later, it sorts after the installed one, SnapshotFile() returns it, and restore() cannot connect the compacted log to it — the node cannot be started again"
				}
				out = append(out, ob)
			}
			return out
		},
	}
}

// lockBetween: is the node mutex (re-)acquired in a block strictly between from and to (from dominates to)?
func lockBetween(from, to *ssa.BasicBlock) bool {
	fn := from.Parent()
	for _, b := range fn.Blocks {
		if b == from || !from.Dominates(b) || !(b == to || blockReaches(b, to)) {
			continue
		}
		for _, in := range b.Instrs {
			if ci, ok := in.(*ssa.Call); ok {
				if op, recv := isMutexOp(ci.Common()); op == "Mutex.Lock" && isNodeMutex(recv) {
					// an acquisition in `to` itself counts only if it precedes nothing we care about; be conservative
					return true
				}
			}
		}
	}
	return false
}
