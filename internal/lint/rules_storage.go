package lint

// Storage-layer rules: C12 (LOG-WSP, TMP-RENAME, TMP-CLEAN/NEWLOG-CLEAN, REPLAY-TAIL, ERR-DISC),
// C13 (STATE-ATOMIC, SNAP-ATOMIC, SNAP-PICK, WALK-RM), C14 (SNAP-ORDER, RESTORE-COVER),
// C15/C19 (CHUNK-BOUND), C11 (COMPACT-KEEP). See DESIGN.md §4.
//
// All of them are instances of the ordering/typestate engine in storage_flow.go plus small
// provenance matchers; none matches source text, local names or line numbers.

import (
	"fmt"
	"strconv"
	"strings"

	"golang.org/x/tools/go/ssa"
)

// rulesStorage returns the storage rules. STORAGE-ALL is a debugging aggregate (one load, all
// storage rules) used by selftest/storage/run.sh; it belongs to no property.
func rulesStorage() []*Rule {
	rs := []*Rule{
		ruleLogWSP(),
		ruleTmpRename(),
		ruleTmpClean(),
		ruleNewLogClean(),
		ruleReplayTail(),
		ruleErrDisc(),
		ruleStateAtomic(),
		ruleSnapAtomic(),
		ruleSnapPick(),
		ruleWalkRm(),
		ruleSnapOrder(),
		ruleRestoreCover(),
		ruleChunkBound(),
		ruleCompactKeep(),
	}
	// STORAGE-ALL is a debugging aggregate used only by selftest/storage/run.py; `-rule all` skips it.
	return append(rs, ruleStorageAll(rs))
}

// ruleStorageAll runs every storage rule in one process and applies each rule's floor itself.
func ruleStorageAll(rs []*Rule) *Rule {
	return &Rule{
		ID:    "STORAGE-ALL",
		Text:  "debugging aggregate: all storage rules of rules_storage.go in one run",
		Floor: 1,
		Run: func(p *Program) []Obligation {
			var out []Obligation
			for _, r := range rs {
				obs := safeRun(p, r)
				n, und := 0, 0
				for i := range obs {
					if obs[i].Rule == "" {
						obs[i].Rule = r.ID
					}
					if obs[i].Verdict != AnchorLost {
						n++
					}
					if obs[i].Verdict == Undecided || obs[i].Verdict == AnchorLost {
						und++
					}
				}
				if n < r.Floor && und == 0 {
					obs = append(obs, Obligation{Rule: r.ID, Construct: "coverage floor of " + r.ID, Verdict: AnchorLost,
						Detail: fmt.Sprintf("rule matched %d instance(s), floor is %d", n, r.Floor)})
				}
				out = append(out, obs...)
			}
			return out
		},
	}
}

// ---------------------------------------------------------------------------------------------
// LOG-WSP

func ruleLogWSP() *Rule {
	return &Rule{
		ID: "LOG-WSP",
		Text: "In (*persistentLog).AppendEntries, Truncate and Replay every write to the log file (record write, file truncation) is followed, " +
			"on every path to the publish point (store to persistentLog.entries, or a nil-error return), by (*os.File).Sync on the log file whose result is known nil there; " +
			"the error of every such write is known nil at the publish point; in AppendEntries each record's Offset is assigned from Seek(0, io.SeekCurrent) on the log file immediately before the record is written.",
		Floor: 5,
		Run: func(p *Program) []Obligation {
			obs := newObSet("LOG-WSP")
			fileFld, entriesFld, offFld := p.Field("persistentLog.file"), p.Field("persistentLog.entries"), p.Field("LogEntry.Offset")
			if fileFld == nil || entriesFld == nil || offFld == nil {
				return missing("LOG-WSP", "persistentLog.file / persistentLog.entries / LogEntry.Offset")
			}
			for _, name := range []string{"(*persistentLog).AppendEntries", "(*persistentLog).Truncate", "(*persistentLog).Replay"} {
				fn := p.Func(name)
				if fn == nil {
					obs.lost(name)
					continue
				}
				logWSP(p, obs, fn, name == "(*persistentLog).AppendEntries")
			}
			return obs.list()
		},
	}
}

// flowSites interns (frame, call) pairs as small integers usable inside automaton states.
type flowSites struct {
	list []flowSite
	idx  map[flowSite]int
}

type flowSite struct {
	fr   *sframe
	call *ssa.Call
}

func (fs *flowSites) id(fr *sframe, c *ssa.Call) int {
	if fs.idx == nil {
		fs.idx = map[flowSite]int{}
	}
	k := flowSite{fr, c}
	if i, ok := fs.idx[k]; ok {
		return i
	}
	fs.idx[k] = len(fs.list)
	fs.list = append(fs.list, k)
	return len(fs.list) - 1
}

func (fs *flowSites) at(s string) flowSite {
	i, _ := strconv.Atoi(s)
	return fs.list[i]
}

// flags returns the "name@…" flags of a state, split at '@' (without the name).
func stFlags(st, name string) [][]string {
	var out [][]string
	for _, f := range strings.Split(st, ",") {
		if strings.HasPrefix(f, name+"@") {
			out = append(out, strings.Split(f[len(name)+1:], "@"))
		}
	}
	return out
}

func logWSP(p *Program, obs *obSet, fn *ssa.Function, checkOffset bool) {
	fileFld, entriesFld, offFld := p.Field("persistentLog.file"), p.Field("persistentLog.entries"), p.Field("LogEntry.Offset")
	var sites flowSites
	vals := map[ssa.Value]int{}
	valID := func(v ssa.Value) int {
		if id, ok := vals[v]; ok {
			return id
		}
		vals[v] = len(vals)
		return vals[v]
	}
	fname := FuncName(fn)
	reached := map[int]bool{}   // write sites seen
	published := map[int]bool{} // write sites that reached a publish point
	s := &flowSpec{p: p, root: fn}
	s.noInline = map[string]bool{}
	var root *sframe
	syncKey := func(i int) string {
		w := sites.list[i]
		return "sync before publish on path from " + siteKey(w.fr, w.call)
	}
	errKey := func(i int) string {
		w := sites.list[i]
		return "error returns before publish for " + siteKey(w.fr, w.call)
	}
	publish := func(v *flowVisit, in ssa.Instruction, what string) {
		st := v.St
		checkErr := func(i int) {
			w := sites.list[i]
			if !v.ErrNil(w.fr, w.call) {
				v.Note("%s: %s", p.InstrPos(in), what)
				obs.failErr(errKey(i), p.InstrPos(w.call),
					fmt.Sprintf("%s is reached although the error of the write is not known to be nil", what), v.Path(), []*ssa.Call{w.call})
			} else {
				obs.ok(errKey(i), p.InstrPos(w.call), "the write's error is known nil at every publish point", "publish: "+what)
			}
		}
		for _, f := range stFlags(st, "W") {
			i, _ := strconv.Atoi(f[0])
			published[i] = true
			v.Note("%s: %s", p.InstrPos(in), what)
			obs.fail(syncKey(i), p.InstrPos(sites.list[i].call),
				fmt.Sprintf("%s is reached after a write to the log file with no (*os.File).Sync on it in between", what), v.Path())
			checkErr(i)
		}
		for _, f := range stFlags(st, "S") {
			i, _ := strconv.Atoi(f[0])
			j, _ := strconv.Atoi(f[1])
			published[i] = true
			sy := sites.list[j]
			if !v.ErrNil(sy.fr, sy.call) {
				v.Note("%s: %s", p.InstrPos(in), what)
				obs.failErr(syncKey(i), p.InstrPos(sites.list[i].call),
					fmt.Sprintf("%s is reached although the result of %s is not known to be nil (failure path, or error not tested)", what, siteKey(sy.fr, sy.call)), v.Path(), []*ssa.Call{sy.call})
			} else {
				obs.ok(syncKey(i), p.InstrPos(sites.list[i].call), "every path to a publish point passes a successful Sync of the log file",
					"sync: "+siteKey(sy.fr, sy.call), "publish: "+what)
			}
			checkErr(i)
		}
	}
	s.instr = func(v *flowVisit, in ssa.Instruction) (string, bool) {
		if root == nil {
			root = v.Fr.root()
		}
		st := v.St
		kind, f, call := fileEvent(in)
		if kind != "" && fieldLoad(v.Fr, f, fileFld) {
			switch kind {
			case "write", "truncate":
				i := sites.id(v.Fr, call)
				reached[i] = true
				if checkOffset && kind == "write" && len(call.Common().Args) == 2 && calleeName(call.Common()) == "encodeLogEntry" {
					key := "record offset taken from file position before " + siteKey(v.Fr, call)
					entry := resolve(v.Fr, call.Common().Args[1])
					j, hasK := stGet(st, "K")
					if hasK && stHas(st, fmt.Sprintf("OFF@%d@%s", valID(entry), j)) {
						sk := sites.at(j)
						obs.ok(key, p.InstrPos(call), "LogEntry.Offset of the written entry is result #0 of Seek(0, io.SeekCurrent) on the log file with no write in between",
							"seek: "+siteKey(sk.fr, sk.call))
					} else {
						v.Note("%s: %s", p.InstrPos(call), instrLabel(call))
						obs.fail(key, p.InstrPos(call), "the record is written without its Offset having been assigned from Seek(0, io.SeekCurrent) on the log file since the previous write", v.Path())
					}
				}
				st = stDel(st, "K", "OFF")
				st = stAdd(stDel(st, fmt.Sprintf("S@%d", i)), fmt.Sprintf("W@%d", i))
				return st, false
			case "sync":
				j := sites.id(v.Fr, call)
				for _, w := range stFlags(st, "W") {
					st = stAdd(stDel(st, "W@"+w[0]), fmt.Sprintf("S@%s@%d", w[0], j))
				}
				return st, false
			case "seek":
				if !checkOffset {
					return st, false
				}
				st = stDel(st, "K", "OFF")
				a := call.Common().Args
				off, ok1 := constIntOf(a[1])
				wh, ok2 := constIntOf(a[2])
				if ok1 && ok2 && off == 0 && wh == 1 {
					st = stAdd(st, fmt.Sprintf("K@%d", sites.id(v.Fr, call)))
				}
				return st, false
			}
		}
		if store, fld := storeField(in); store != nil {
			switch fld {
			case offFld:
				if !checkOffset {
					return st, false
				}
				base := resolve(v.Fr, store.Addr.(*ssa.FieldAddr).X)
				st = stDel(st, fmt.Sprintf("OFF@%d", valID(base)))
				if c, cf := callOf(v.Fr, store.Val, 0); c != nil {
					j := sites.id(cf, c)
					if k, ok := stGet(st, "K"); ok && k == strconv.Itoa(j) {
						st = stAdd(st, fmt.Sprintf("OFF@%d@%d", valID(base), j))
					}
				}
				return st, false
			case entriesFld:
				publish(v, in, "the store to persistentLog.entries")
				return stDel(st, "W", "S"), false
			}
		}
		if ret, ok := in.(*ssa.Return); ok && v.Fr == root {
			if succ, known := successReturn(ret); known && succ {
				publish(v, in, "the nil-error return")
			}
			return st, true
		}
		return st, false
	}
	s.inlineVeto = func(fr *sframe, c *ssa.Call) bool { return passesFileAsWriter(c) }
	s.RunFromEntry("")
	if s.Overflow {
		obs.undecided("log file write ordering in "+fname, p.Pos(fn.Pos()), "path exploration exceeded its bound")
		return
	}
	if in := s.DeferredMatch(func(in ssa.Instruction) bool {
		if _, fld := storeField(in); fld == entriesFld {
			return true
		}
		k, f, _ := fileEvent(in)
		return (k == "write" || k == "truncate" || k == "sync") && fieldLoad(nil, f, fileFld)
	}); in != nil {
		obs.undecided("log file write ordering in "+fname, p.InstrPos(in), "a deferred function, or a helper beyond the inlining depth, writes, syncs or publishes the log; the rule does not order those")
	}
	if len(reached) == 0 {
		obs.lost("write to the log file in " + fname)
	}
	for i := range reached {
		if !published[i] && !obs.has(syncKey(i)) {
			obs.undecided(syncKey(i), p.InstrPos(sites.list[i].call), "the write never reaches a publish point (store to persistentLog.entries or nil-error return)")
		}
	}
}

// ---------------------------------------------------------------------------------------------
// TMP-CLEAN / NEWLOG-CLEAN

var tmpCleanCtors = []struct{ fn, field string }{
	{"NewLog", "persistentLog.logDir"},
	{"NewStateStorage", "persistentStateStorage.stateDir"},
	{"NewSnapshotStorage", "persistentSnapshotStorage.snapshotDir"},
}

func ruleTmpClean() *Rule {
	return &Rule{
		ID: "TMP-CLEAN",
		Text: "NewLog, NewStateStorage and NewSnapshotStorage call fileutil.RemoveTmpFiles on exactly the directory they store in the returned object " +
			"(not on an ancestor: the helper also tests the name of the directory it is given) on every path to a return of a non-nil storage, with the call's error known nil there; on its failure they return a nil storage and a non-nil error.",
		Floor: 3,
		Run: func(p *Program) []Obligation {
			obs := newObSet("TMP-CLEAN")
			for _, c := range tmpCleanCtors {
				tmpClean(p, obs, c.fn, c.field)
			}
			return obs.list()
		},
	}
}

func ruleNewLogClean() *Rule {
	return &Rule{
		ID:    "NEWLOG-CLEAN",
		Text:  "NewLog calls fileutil.RemoveTmpFiles(logDir) before returning a log (the NewLog instance of TMP-CLEAN).",
		Floor: 1,
		Run: func(p *Program) []Obligation {
			obs := newObSet("NEWLOG-CLEAN")
			tmpClean(p, obs, tmpCleanCtors[0].fn, tmpCleanCtors[0].field)
			return obs.list()
		},
	}
}

func tmpClean(p *Program, obs *obSet, fname, fieldSpec string) {
	fn := p.Func(fname)
	dirFld := p.Field(fieldSpec)
	if fn == nil || dirFld == nil {
		obs.lost(fname + " / " + fieldSpec)
		return
	}
	keyClean := "fileutil.RemoveTmpFiles before returning a storage in " + fname
	keyErr := "failure of fileutil.RemoveTmpFiles returns nil storage and error in " + fname
	var sites flowSites
	s := &flowSpec{p: p, root: fn, noInline: map[string]bool{"fileutil.RemoveTmpFiles": true}}
	var root *sframe
	returns := 0
	s.instr = func(v *flowVisit, in ssa.Instruction) (string, bool) {
		if root == nil {
			root = v.Fr.root()
		}
		if c := callNamed(in, "fileutil.RemoveTmpFiles"); c != nil {
			return stAdd(v.St, fmt.Sprintf("C@%d", sites.id(v.Fr, c))), false
		}
		ret, ok := in.(*ssa.Return)
		if !ok || v.Fr != root {
			return v.St, false
		}
		if len(ret.Results) == 0 || isNilConst(ret.Results[0]) {
			return v.St, true
		}
		returns++
		// the directory the returned object keeps
		var dir ssa.Value
		if al, ok := resolve(v.Fr, ret.Results[0]).(*ssa.Alloc); ok {
			for _, r := range *al.Referrers() {
				if fa, ok := r.(*ssa.FieldAddr); ok && fieldOf(fa.X.Type(), fa.Field) == dirFld {
					for _, rr := range *fa.Referrers() {
						if st, ok := rr.(*ssa.Store); ok && st.Addr == ssa.Value(fa) {
							dir = resolve(v.Fr, st.Val)
						}
					}
				}
			}
		}
		good := false
		for _, f := range stFlags(v.St, "C") {
			c := sites.at(f[0])
			if !v.ErrNil(c.fr, c.call) {
				continue
			}
			arg := resolve(c.fr, c.call.Common().Args[0])
			rel := ""
			switch {
			case dir == nil:
			case arg == dir:
				rel = "the cleaned directory is the value stored in " + fieldSpec
			default:
				if es, ef := joinElems(v.Fr, dir); es != nil && resolve(ef, es[0]) == arg {
					obs.fail(keyClean, p.InstrPos(c.call), "the directory handed to RemoveTmpFiles is an ANCESTOR of the one stored in "+fieldSpec+" (the caller's path): RemoveTmpFiles also tests the NAME of the directory it is given and removes whatever below it starts with \"tmp\" — "+
						"a data directory called tmp…, or created by os.MkdirTemp, is deleted whole (state file, log, every snapshot) by the constructor, and the temporaries of the sibling storages go with it", nil, "argument: "+describe(c.fr, arg), "stored: "+describe(v.Fr, dir))
					return v.St, true
				}
			}
			if rel == "" {
				obs.undecided(keyClean, p.InstrPos(c.call), "cannot relate the directory passed to RemoveTmpFiles to the directory stored in "+fieldSpec,
					"argument: "+describe(c.fr, arg), "stored: "+describe(v.Fr, dir))
				return v.St, true
			}
			good = true
			obs.ok(keyClean, p.InstrPos(c.call), "every return of a non-nil storage is preceded by a successful RemoveTmpFiles", rel, "directory: "+describe(c.fr, arg))
		}
		if !good {
			var cs []*ssa.Call
			for _, f := range stFlags(v.St, "C") {
				cs = append(cs, sites.at(f[0]).call)
			}
			v.Note("%s: return of a non-nil storage", p.InstrPos(in))
			obs.failErr(keyClean, p.InstrPos(in), "a non-nil storage is returned on a path that has not passed a successful fileutil.RemoveTmpFiles", v.Path(), cs)
		}
		return v.St, true
	}
	s.RunFromEntry("")
	if s.Overflow {
		obs.undecided(keyClean, p.Pos(fn.Pos()), "path exploration exceeded its bound")
		return
	}
	if returns == 0 {
		obs.undecided(keyClean, p.Pos(fn.Pos()), "no return of a non-nil storage found")
	}
	// failure edge
	for _, b := range fn.Blocks {
		for _, in := range b.Instrs {
			c := callNamed(in, "fileutil.RemoveTmpFiles")
			if c == nil {
				continue
			}
			out := errorPathsReturn(p, fn, c, func(fr *sframe, in ssa.Instruction) bool {
				ret, ok := in.(*ssa.Return)
				return ok && in.Parent() == fn && len(ret.Results) > 0 && !isNilConst(ret.Results[0])
			}, s.noInline)
			reportErrOutcome(p, obs, keyErr, c, out, "a return of a non-nil storage")
		}
	}
}

// reportErrOutcome turns an errOutcome into one obligation.
func reportErrOutcome(p *Program, obs *obSet, key string, c *ssa.Call, out *errOutcome, publishWhat string) {
	pos := p.InstrPos(c)
	switch {
	case out.Undecided != "":
		obs.undecided(key, pos, out.Undecided)
	case len(out.Breaches) > 0:
		b := out.Breaches[0]
		obs.fail(key, pos, fmt.Sprintf("%s (%s at %s)", b.What, instrLabel(b.At), p.InstrPos(b.At)), b.Path)
	case !out.Tested:
		obs.fail(key, pos, "the error of the call is never tested", nil)
	case out.FailReturns+out.FailNoReturn == 0:
		obs.undecided(key, pos, "no failure path found for the call")
	default:
		obs.ok(key, pos, fmt.Sprintf("failure paths: %d return a non-nil error, %d end in a no-return call; none reaches %s", out.FailReturns, out.FailNoReturn, publishWhat))
	}
}
