package lint

// REPLAY-TAIL (C12) and WALK-RM (C13).

import (
	"fmt"
	"go/token"
	"go/types"
	"strings"

	"golang.org/x/tools/go/ssa"
)

// sentinelOf: cond tests the error e against a package-level error value. Returns the global
// ("io.EOF"), and the truth value of cond under which e matches it.
func sentinelOf(fr *sframe, cond ssa.Value, isErr func(fr *sframe, v ssa.Value) bool) (global string, matchWhen bool, ok bool) {
	switch c := cond.(type) {
	case *ssa.BinOp:
		if c.Op != token.EQL && c.Op != token.NEQ {
			return "", false, false
		}
		x, y := c.X, c.Y
		if isErr(fr, y) {
			x, y = y, x
		}
		if !isErr(fr, x) {
			return "", false, false
		}
		if g := globalLoad(fr, y); g != "" {
			return g, c.Op == token.EQL, true
		}
	case *ssa.Call:
		if calleeName(c.Common()) == "errors.Is" && len(c.Common().Args) == 2 && isErr(fr, c.Common().Args[0]) {
			if g := globalLoad(fr, c.Common().Args[1]); g != "" {
				return g, true, true
			}
		}
	}
	return "", false, false
}

func isIntegerType(t types.Type) bool {
	b, ok := t.Underlying().(*types.Basic)
	return ok && b.Info()&types.IsInteger != 0
}

// positionTest: cond compares two non-constant integer values (a stream position against the
// end of the last complete record, a file size, …). establishedOn reports for which truth value
// the comparison establishes a relation the rule accepts as a position test: equality for ==/!=,
// either outcome for an ordering.
func positionTest(cond ssa.Value) (isTest bool, onTrue, onFalse bool) {
	b, ok := cond.(*ssa.BinOp)
	if !ok || !isIntegerType(b.X.Type()) || !isIntegerType(b.Y.Type()) {
		return false, false, false
	}
	if _, isConst := stripConvert(b.X).(*ssa.Const); isConst {
		return false, false, false
	}
	if _, isConst := stripConvert(b.Y).(*ssa.Const); isConst {
		return false, false, false
	}
	switch b.Op {
	case token.EQL:
		return true, true, false
	case token.NEQ:
		return true, false, true
	case token.LSS, token.LEQ, token.GTR, token.GEQ:
		return true, true, true
	}
	return false, false, false
}

// wrappedReadErrors inspects decodeLogEntry: the failing returns whose error wraps (with %w) the
// error of a read from the input (encoding/binary.Read, io.ReadFull, io.ReadAtLeast, Read).
func wrappedReadErrors(p *Program, fn *ssa.Function) (wrapped []string, unwrapped []string) {
	for _, b := range fn.Blocks {
		if b == fn.Recover {
			continue
		}
		for _, in := range b.Instrs {
			ret, ok := in.(*ssa.Return)
			if !ok || len(ret.Results) == 0 {
				continue
			}
			rv := returnedValue(ret, len(ret.Results)-1)
			c, ok := rv.(*ssa.Call)
			if !ok || !isErrorCtor(c.Common()) {
				if src, _ := callOf(nil, rv, -1); src != nil && isInputRead(src) {
					wrapped = append(wrapped, calleeName(src.Common())+" (returned as is)")
				}
				continue
			}
			format, _ := constStringOf(c.Common().Args[0])
			for _, a := range c.Common().Args[1:] {
				for _, e := range varargElems(a) {
					src, _ := callOf(nil, e, -1)
					if src == nil || !isInputRead(src) {
						continue
					}
					if strings.Contains(format, "%w") {
						wrapped = append(wrapped, calleeName(src.Common()))
					} else {
						unwrapped = append(unwrapped, calleeName(src.Common()))
					}
				}
			}
		}
	}
	return wrapped, unwrapped
}

func isInputRead(c *ssa.Call) bool {
	switch calleeName(c.Common()) {
	case "encoding/binary.Read", "io.ReadFull", "io.ReadAtLeast", "io.Reader.Read", "io.ReadAll":
		return true
	}
	return false
}

func ruleReplayTail() *Rule {
	return &Rule{
		ID: "REPLAY-TAIL",
		Text: "(*persistentLog).Replay tolerates a torn tail: a decode error that stems from the end of the input (io.EOF or io.ErrUnexpectedEOF, whose identity decodeLogEntry preserves with %w) never reaches a failing return; " +
			"a nil return after such an error either passes (*os.File).Truncate of the log file followed by Sync (both with nil results), or is conditioned on a comparison of two tracked integer values (stream position / file size test); " +
			"a truncation of the log file to a tracked (non-constant) offset is reachable from the decode-error branch.",
		Floor: 2,
		Run: func(p *Program) []Obligation {
			obs := newObSet("REPLAY-TAIL")
			fn := p.Func("(*persistentLog).Replay")
			dec := p.Func("decodeLogEntry")
			fileFld := p.Field("persistentLog.file")
			if fn == nil || dec == nil || fileFld == nil {
				return missing("REPLAY-TAIL", "(*persistentLog).Replay / decodeLogEntry / persistentLog.file")
			}
			wrapped, unwrapped := wrappedReadErrors(p, dec)
			premise := fmt.Sprintf("decodeLogEntry preserves the identity of its read errors with %%w at %d return(s): %s", len(wrapped), strings.Join(wrapped, ", "))
			if len(wrapped) == 0 {
				obs.undecided("end-of-input decode errors in (*persistentLog).Replay", p.Pos(fn.Pos()),
					"decodeLogEntry does not hand its read errors (io.EOF / io.ErrUnexpectedEOF) to the caller with their identity preserved; the rule cannot tell how Replay recognises the end of the input",
					fmt.Sprintf("read errors not wrapped with %%w: %s", strings.Join(unwrapped, ", ")))
				return obs.list()
			}
			const (
				k1 = "end-of-input decode error does not reach a failing return in (*persistentLog).Replay"
				k2 = "nil return after a detected short read repairs the file (Truncate then Sync) in (*persistentLog).Replay"
				k3 = "nil return on io.EOF is conditioned on a position test or repairs the file in (*persistentLog).Replay"
				k4 = "truncation of the log file to a tracked offset reachable from the decode-error branch in (*persistentLog).Replay"
			)
			var sites flowSites
			var decodeSeen bool
			type trunc struct {
				fr   *sframe
				call *ssa.Call
			}
			var truncs []trunc
			s := &flowSpec{p: p, root: fn, noInline: map[string]bool{"decodeLogEntry": true}}
			s.inlineVeto = func(fr *sframe, c *ssa.Call) bool { return passesFileAsWriter(c) }
			var root *sframe
			var dFr *sframe
			var dCall *ssa.Call
			isErr := func(fr *sframe, v ssa.Value) bool {
				if dCall == nil {
					return false
				}
				c, cf := s.errSource(fr, v)
				return c == ssa.Value(dCall) && cf == dFr
			}
			decodeFailed := func(v *flowVisit) bool {
				return dCall != nil && (v.ErrNon(dFr, dCall) || stHas(v.St, "U") || stHas(v.St, "E"))
			}
			s.instr = func(v *flowVisit, in ssa.Instruction) (string, bool) {
				if root == nil {
					root = v.Fr.root()
				}
				st := v.St
				if c := callNamed(in, "decodeLogEntry"); c != nil {
					decodeSeen = true
					if dCall != nil && (dCall != c || dFr != v.Fr) {
						obs.undecided("end-of-input decode errors in (*persistentLog).Replay", p.InstrPos(c), "more than one call of decodeLogEntry")
						return st, true
					}
					dCall, dFr = c, v.Fr
					return "", false // a new record: forget what was learnt about the previous one
				}
				if kind, f, call := fileEvent(in); kind != "" && fieldLoad(v.Fr, f, fileFld) {
					switch kind {
					case "truncate":
						if decodeFailed(v) {
							truncs = append(truncs, trunc{v.Fr, call})
						}
						return stAdd(stDel(st, "T", "S"), fmt.Sprintf("T@%d", sites.id(v.Fr, call))), false
					case "sync":
						if hasFlag(st, "T") {
							return stAdd(stDel(st, "S"), fmt.Sprintf("S@%d", sites.id(v.Fr, call))), false
						}
					}
					return st, false
				}
				ret, ok := in.(*ssa.Return)
				if !ok || v.Fr != root {
					return st, false
				}
				if !decodeFailed(v) {
					return st, true
				}
				succ, known := successReturn(ret)
				if !known {
					// `return err`-style: classify by provenance below
					succ = false
				}
				pos := p.InstrPos(in)
				if !succ {
					rv := returnedValue(ret, len(ret.Results)-1)
					fromDecode := isErr(v.Fr, rv) || wrapsError(v.Fr, rv, dCall)
					if !fromDecode {
						return st, true
					}
					var open []string
					if !stHas(st, "nU") {
						open = append(open, "io.ErrUnexpectedEOF (record header or body cut short)")
					}
					if !stHas(st, "nE") {
						open = append(open, "io.EOF")
					}
					if len(open) > 0 {
						v.Note("%s: return of the decode error", pos)
						obs.fail(k1, pos, "the error of decodeLogEntry is returned as a failure on a path that has not excluded "+strings.Join(open, " and ")+
							": a record torn by a crash during an append makes Replay (and so NewRaft) fail", v.Path(), premise)
					} else {
						obs.ok(k1, pos, "the decode error is returned only on paths that excluded io.EOF and io.ErrUnexpectedEOF", premise)
					}
					return st, true
				}
				// nil return after a decode failure
				repaired := false
				if t, ok := stGet(st, "T"); ok {
					ts := sites.at(t)
					if sy, ok := stGet(st, "S"); ok {
						ss := sites.at(sy)
						repaired = v.ErrNil(ts.fr, ts.call) && v.ErrNil(ss.fr, ss.call)
					}
				}
				if stHas(st, "U") {
					if repaired {
						obs.ok(k2, pos, "after errors.Is(err, io.ErrUnexpectedEOF) every nil return passes Truncate and Sync of the log file with nil results")
					} else if stHas(st, "P") {
						obs.ok(k2, pos, "after errors.Is(err, io.ErrUnexpectedEOF) a nil return that does not repair the file is conditioned on a comparison of two tracked integer values (file size / position test)")
					} else {
						v.Note("%s: return nil", pos)
						obs.fail(k2, pos, "a short read is detected but nil is returned without a successful Truncate followed by a successful Sync of the log file", v.Path())
					}
				}
				if stHas(st, "E") && !stHas(st, "U") {
					switch {
					case repaired:
						obs.ok(k3, pos, "the io.EOF exit repairs the file (Truncate, Sync)")
					case stHas(st, "P"):
						obs.ok(k3, pos, "the io.EOF exit that does not repair the file is conditioned on a comparison of two tracked integer values (stream position test)")
					default:
						v.Note("%s: return nil", pos)
						obs.fail(k3, pos, "Replay stops with success on errors.Is(err, io.EOF) without testing the stream position and without repairing the file: "+
							"io.ReadFull reports io.EOF when the header of the last record is complete and its body has zero bytes, so a torn record is kept and the next append lands after it", v.Path(), premise)
					}
				}
				return st, true
			}
			s.edge = func(v *flowVisit, iff *ssa.If, taken bool) (string, bool) {
				st := v.St
				c, pol := stripNot(iff.Cond, taken)
				if g, matchWhen, ok := sentinelOf(v.Fr, c, isErr); ok {
					switch g {
					case "io.ErrUnexpectedEOF":
						if matchWhen == pol {
							return stAdd(st, "U"), false
						}
						return stAdd(st, "nU"), false
					case "io.EOF":
						if matchWhen == pol {
							return stAdd(st, "E"), false
						}
						return stAdd(st, "nE"), false
					}
					return st, false
				}
				if isTest, onTrue, onFalse := positionTest(c); isTest && ((pol && onTrue) || (!pol && onFalse)) {
					return stAdd(st, "P"), false
				}
				return st, false
			}
			s.RunFromEntry("")
			if s.Overflow {
				obs.undecided("end-of-input decode errors in (*persistentLog).Replay", p.Pos(fn.Pos()), "path exploration exceeded its bound")
				return obs.list()
			}
			if !decodeSeen {
				obs.lost("call of decodeLogEntry reachable from (*persistentLog).Replay")
				return obs.list()
			}
			if len(truncs) == 0 {
				obs.fail(k4, p.InstrPos(dCall), "no (*os.File).Truncate of the log file is reachable after a decode error: a partial record at the end of the file is never cut off", nil, premise)
			}
			replayPositionSource(p, obs, fn, dCall)
			for _, t := range truncs {
				arg := t.call.Common().Args[1]
				if _, isConst := stripConvert(resolve(t.fr, arg)).(*ssa.Const); isConst {
					obs.fail(k4, p.InstrPos(t.call), "the log file is truncated to a constant offset, not to the end of the last complete record", nil, "offset: "+describe(t.fr, arg))
				} else {
					obs.ok(k4, p.InstrPos(t.call), "the log file is truncated to a tracked offset", "offset: "+describe(t.fr, arg), "by: "+siteKey(t.fr, t.call))
				}
			}
			return obs.list()
		},
	}
}

// replayPositionSource decides the clause "the position the file is cut back / repositioned to is not read from
// beneath a read-ahead buffer": if the decoder's input is a bufio.Reader built over X, a position that is taken
// from X (a counting wrapper's field, or the file's own offset) counts what the buffer has fetched, not what the
// decoder has consumed, so it overshoots the end of the last complete record by the read-ahead. The clause is a
// contradiction rule: it only speaks when it recognises both the buffer and a position source beneath it (and no
// correction by (*bufio.Reader).Buffered); any other derivation (sum of record sizes, a counter that wraps the
// buffer, a correction by Buffered) is accepted as "tracked".
func replayPositionSource(p *Program, obs *obSet, fn *ssa.Function, dCall *ssa.Call) {
	const k5 = "position of the last complete record is not read from beneath a read-ahead buffer in (*persistentLog).Replay"
	if dCall == nil || dCall.Parent() != fn || len(dCall.Common().Args) == 0 {
		return
	}
	unwrap := func(v ssa.Value) ssa.Value {
		for {
			switch x := v.(type) {
			case *ssa.MakeInterface:
				v = x.X
			case *ssa.ChangeInterface:
				v = x.X
			case *ssa.ChangeType:
				v = x.X
			default:
				return v
			}
		}
	}
	input := unwrap(dCall.Common().Args[0])
	replayCounterCounts(p, obs, fn, input)
	bc, ok := input.(*ssa.Call)
	if !ok {
		obs.ok(k5, p.InstrPos(dCall), "the decoder does not read through a read-ahead buffer created in Replay (its input is "+input.String()+")")
		return
	}
	switch calleeName(bc.Common()) {
	case "bufio.NewReader", "bufio.NewReaderSize":
	default:
		obs.ok(k5, p.InstrPos(dCall), "the decoder's input is not a bufio.Reader created in Replay")
		return
	}
	// everything beneath the buffer: the value handed to bufio.NewReader, and, if that is a local wrapper object,
	// the readers stored into its fields, transitively
	beneath := map[ssa.Value]bool{}
	var addBeneath func(v ssa.Value)
	addBeneath = func(v ssa.Value) {
		v = unwrap(v)
		if v == nil || beneath[v] {
			return
		}
		beneath[v] = true
		switch x := v.(type) {
		case *ssa.Alloc:
			if refs := x.Referrers(); refs != nil {
				for _, r := range *refs {
					fa, ok := r.(*ssa.FieldAddr)
					if !ok || fa.Referrers() == nil {
						continue
					}
					for _, rr := range *fa.Referrers() {
						if st, ok := rr.(*ssa.Store); ok && st.Addr == fa {
							if _, isIface := st.Val.Type().Underlying().(*types.Interface); isIface {
								addBeneath(st.Val)
							}
						}
					}
				}
			}
		case *ssa.UnOp:
			// load of a field holding the file: remember the load itself
		}
	}
	addBeneath(bc.Common().Args[0])
	// positions used: arguments of Truncate and of Seek(…, io.SeekStart) on an *os.File in Replay
	type use struct {
		call *ssa.Call
		arg  ssa.Value
	}
	var uses []use
	for _, b := range fn.Blocks {
		for _, in := range b.Instrs {
			kind, _, call := fileEvent(in)
			switch kind {
			case "truncate":
				uses = append(uses, use{call, call.Common().Args[1]})
			case "seek":
				if w, ok := constIntOf(call.Common().Args[2]); ok && w == 0 {
					uses = append(uses, use{call, call.Common().Args[1]})
				}
			}
		}
	}
	isFileLoad := func(v ssa.Value) bool {
		// two loads of the same field of the same object denote the same file here (Replay does not reassign it)
		for b := range beneath {
			if u1, ok := b.(*ssa.UnOp); ok {
				if u2, ok := v.(*ssa.UnOp); ok {
					f1, ok1 := u1.X.(*ssa.FieldAddr)
					f2, ok2 := u2.X.(*ssa.FieldAddr)
					if ok1 && ok2 && sameBase(f1.X, f2.X) && f1.Field == f2.Field {
						return true
					}
				}
			}
		}
		return beneath[v]
	}
	for _, u := range uses {
		var below []string
		corrected := false
		seen := map[ssa.Value]bool{}
		var walk func(v ssa.Value)
		walk = func(v ssa.Value) {
			if v == nil || seen[v] {
				return
			}
			seen[v] = true
			switch x := v.(type) {
			case *ssa.Phi:
				for _, e := range x.Edges {
					walk(e)
				}
			case *ssa.Convert:
				walk(x.X)
			case *ssa.ChangeType:
				walk(x.X)
			case *ssa.BinOp:
				walk(x.X)
				walk(x.Y)
			case *ssa.Extract:
				walk(x.Tuple)
			case *ssa.UnOp:
				if x.Op != token.MUL {
					walk(x.X)
					return
				}
				switch ad := x.X.(type) {
				case *ssa.FieldAddr:
					if beneath[unwrap(ad.X)] {
						below = append(below, "field "+fieldOf(ad.X.Type(), ad.Field).Name()+" of the reader wrapped by the buffer ("+p.InstrPos(x)+")")
					}
				case *ssa.Alloc:
					// a local variable: every value stored to it
					if refs := ad.Referrers(); refs != nil {
						for _, r := range *refs {
							if st, ok := r.(*ssa.Store); ok && st.Addr == ad {
								walk(st.Val)
							}
						}
					}
				}
			case *ssa.Call:
				switch calleeName(x.Common()) {
				case "(*bufio.Reader).Buffered":
					if unwrap(x.Common().Args[0]) == input {
						corrected = true
					}
				case "(*os.File).Seek":
					if isFileLoad(unwrap(x.Common().Args[0])) {
						below = append(below, "offset of the file the buffer reads from ("+p.InstrPos(x)+")")
					}
				}
			}
		}
		walk(u.arg)
		name := calleeName(u.call.Common())
		switch {
		case len(below) > 0 && !corrected:
			obs.fail(k5, p.InstrPos(u.call), "the offset passed to "+name+" is taken from beneath the bufio.Reader the decoder reads through ("+strings.Join(below, "; ")+
				"): it counts the bytes the buffer has fetched ahead, not the bytes decoded, so for a log smaller than the buffer it equals the file size and a torn tail is neither cut off nor skipped", nil,
				"decoder input: "+input.String()+" at "+p.InstrPos(bc))
		default:
			obs.ok(k5, p.InstrPos(u.call), "the offset passed to "+name+" is not taken from beneath the decoder's read-ahead buffer (or is corrected by Buffered())")
		}
	}
	if len(uses) == 0 {
		obs.ok(k5, p.InstrPos(dCall), "no Truncate/Seek to a computed position in Replay")
	}
}

// replayCounterCounts: if the decoder's input is an object of a module type with its own Read method (a counting
// wrapper) and Replay reads a field of that object (the position), then that Read must add to that very field
// exactly the byte count its inner Read returned, and return the same count: otherwise the position is not the number
// of bytes the decoder consumed (a counter that never moves makes every end of input look clean and the re-positioning
// seek rewind to the start of the file).
func replayCounterCounts(p *Program, obs *obSet, fn *ssa.Function, input ssa.Value) {
	const k6 = "the byte counter the position is read from counts what its Read hands out, in (*persistentLog).Replay"
	al, ok := input.(*ssa.Alloc)
	if !ok {
		return
	}
	pt, ok := al.Type().Underlying().(*types.Pointer)
	if !ok {
		return
	}
	named, ok := pt.Elem().(*types.Named)
	if !ok || named.Obj().Pkg() == nil || !strings.HasPrefix(named.Obj().Pkg().Path(), ModulePath) {
		return
	}
	read := p.Func("(*" + named.Obj().Name() + ").Read")
	if read == nil {
		return
	}
	// fields of the wrapper that Replay loads
	used := map[*types.Var]string{}
	if refs := al.Referrers(); refs != nil {
		for _, r := range *refs {
			fa, ok := r.(*ssa.FieldAddr)
			if !ok || fa.Referrers() == nil {
				continue
			}
			for _, rr := range *fa.Referrers() {
				if u, ok := rr.(*ssa.UnOp); ok && u.Op == token.MUL {
					fld := fieldOf(fa.X.Type(), fa.Field)
					if isIntegerType(fld.Type()) {
						used[fld] = p.InstrPos(u)
					}
				}
			}
		}
	}
	if len(used) == 0 {
		return
	}
	// the inner read and its count
	var inner *ssa.Call
	for _, b := range read.Blocks {
		for _, in := range b.Instrs {
			if c, ok := in.(*ssa.Call); ok && c.Common().IsInvoke() && c.Common().Method.Name() == "Read" {
				inner = c
			}
		}
	}
	for fld, at := range used {
		switch {
		case inner == nil:
			obs.undecided(k6, at, "(*"+named.Obj().Name()+").Read does not call the Read of a wrapped reader; how field "+fld.Name()+" relates to the bytes consumed was not recognised")
			continue
		}
		isN := func(v ssa.Value) bool {
			v = stripConvert(v)
			e, ok := v.(*ssa.Extract)
			return ok && e.Tuple == ssa.Value(inner) && e.Index == 0
		}
		adds := false
		for _, b := range read.Blocks {
			for _, in := range b.Instrs {
				st, ok := in.(*ssa.Store)
				if !ok {
					continue
				}
				fa, ok := st.Addr.(*ssa.FieldAddr)
				if !ok || fieldOf(fa.X.Type(), fa.Field) != fld {
					continue
				}
				bo, ok := st.Val.(*ssa.BinOp)
				if !ok || bo.Op != token.ADD {
					continue
				}
				isOld := func(v ssa.Value) bool {
					u, ok := v.(*ssa.UnOp)
					if !ok || u.Op != token.MUL {
						return false
					}
					ofa, ok := u.X.(*ssa.FieldAddr)
					return ok && fieldOf(ofa.X.Type(), ofa.Field) == fld
				}
				if (isOld(bo.X) && isN(bo.Y)) || (isOld(bo.Y) && isN(bo.X)) {
					adds = true
				}
			}
		}
		returnsN := true
		for _, b := range read.Blocks {
			for _, in := range b.Instrs {
				if ret, ok := in.(*ssa.Return); ok && len(ret.Results) == 2 && !isN(ret.Results[0]) {
					returnsN = false
				}
			}
		}
		switch {
		case !adds:
			obs.fail(k6, at, "Replay takes the position of the last complete record from field "+fld.Name()+" of the "+named.Obj().Name()+" it decodes from, but (*"+named.Obj().Name()+").Read does not add the byte count returned by the wrapped reader to that field: "+
				"the position does not follow the decoder, so a torn tail is mistaken for a clean end (or the file is cut / re-positioned at the wrong offset)", nil, "Read: "+p.Pos(read.Pos()))
		case !returnsN:
			obs.fail(k6, at, "(*"+named.Obj().Name()+").Read counts the bytes of the wrapped reader but returns a different count to the decoder", nil, "Read: "+p.Pos(read.Pos()))
		default:
			obs.ok(k6, at, "(*"+named.Obj().Name()+").Read adds the wrapped reader's byte count to "+fld.Name()+" and returns that count unchanged")
		}
	}
}

// sameBase: the two values are the same register, or loads of the same local variable (a parameter spilled
// because a closure captures it).
func sameBase(a, b ssa.Value) bool {
	if a == b {
		return true
	}
	u1, ok1 := a.(*ssa.UnOp)
	u2, ok2 := b.(*ssa.UnOp)
	if ok1 && ok2 && u1.Op == token.MUL && u2.Op == token.MUL {
		if al, ok := u1.X.(*ssa.Alloc); ok && u1.X == u2.X && singleStore(al) != nil {
			return true
		}
	}
	return false
}

// ---------------------------------------------------------------------------------------------
// WALK-RM

func ruleWalkRm() *Rule {
	return &Rule{
		ID: "WALK-RM",
		Text: "In fileutil.RemoveTmpFiles, the filepath.Walk callback that removes (os.RemoveAll / os.Remove) the path it is visiting returns filepath.SkipDir on every path after a successful removal " +
			"on which the visited entry may be a directory (otherwise Walk descends into the removed directory and reports an lstat error).",
		Floor: 1,
		Run: func(p *Program) []Obligation {
			obs := newObSet("WALK-RM")
			fn := p.Func("fileutil.RemoveTmpFiles")
			if fn == nil {
				return missing("WALK-RM", "fileutil.RemoveTmpFiles")
			}
			var callbacks []*ssa.Function
			for _, b := range fn.Blocks {
				for _, in := range b.Instrs {
					c := callNamed(in, "path/filepath.Walk", "path/filepath.WalkDir")
					if c == nil || len(c.Common().Args) != 2 {
						continue
					}
					switch k := resolve(nil, c.Common().Args[1]).(type) {
					case *ssa.MakeClosure:
						callbacks = append(callbacks, k.Fn.(*ssa.Function))
					case *ssa.Function:
						callbacks = append(callbacks, k)
					default:
						obs.undecided("callback of "+siteKey(nil, c), p.InstrPos(c), "the walk callback is not a function literal or a declared function")
					}
				}
			}
			if len(callbacks) == 0 && len(obs.m) == 0 {
				return missing("WALK-RM", "call of filepath.Walk in fileutil.RemoveTmpFiles")
			}
			for _, k := range callbacks {
				walkRm(p, obs, k)
			}
			return obs.list()
		},
	}
}

func walkRm(p *Program, obs *obSet, k *ssa.Function) {
	if len(k.Params) < 2 || len(k.Blocks) == 0 {
		obs.undecided("walk callback "+FuncName(k), p.Pos(k.Pos()), "unexpected callback signature")
		return
	}
	pathParam, infoParam := k.Params[0], k.Params[1]
	var sites flowSites
	found := false
	s := &flowSpec{p: p, root: k, keepCond: func(fr *sframe, c ssa.Value) bool { _, isCall := c.(*ssa.Call); return isCall }}
	s.instr = func(v *flowVisit, in ssa.Instruction) (string, bool) {
		st := v.St
		if c := callNamed(in, "os.RemoveAll", "os.Remove"); c != nil && resolve(v.Fr, c.Common().Args[0]) == ssa.Value(pathParam) {
			found = true
			// the removal must be conditioned on the visited name carrying the temporary prefix
			hasPrefix := false
			v.Conds(func(fr *sframe, cond ssa.Value, truth bool) {
				hc, ok := cond.(*ssa.Call)
				if !ok || calleeName(hc.Common()) != "strings.HasPrefix" || len(hc.Common().Args) != 2 || !truth {
					return
				}
				nc, _ := callOf(fr, hc.Common().Args[0], -1)
				if nc == nil || !nc.Common().IsInvoke() || nc.Common().Method.Name() != "Name" || resolve(fr, nc.Common().Value) != ssa.Value(infoParam) {
					return
				}
				if pre, ok := constStringOf(resolve(fr, hc.Common().Args[1])); ok && strings.HasPrefix(pre, "tmp") {
					hasPrefix = true
				}
			})
			// a temporary DIRECTORY left by a crash is never empty (it holds the snapshot's data and metadata files):
			// os.Remove fails on it, so unless the path is known not to be a directory the removal must be recursive
			if calleeName(c.Common()) == "os.Remove" {
				notDir := false
				v.Conds(func(fr *sframe, cond ssa.Value, truth bool) {
					ic, ok := cond.(*ssa.Call)
					if ok && ic.Common().IsInvoke() && ic.Common().Method.Name() == "IsDir" && resolve(fr, ic.Common().Value) == ssa.Value(infoParam) && !truth {
						notDir = true
					}
				})
				kr := "a temporary directory is removed with its contents: " + siteKey(v.Fr, c)
				if notDir {
					obs.ok(kr, p.InstrPos(c), "os.Remove is used only where the visited entry is known not to be a directory")
				} else {
					v.Note("%s: os.Remove", p.InstrPos(c))
					obs.fail(kr, p.InstrPos(c), "the visited path is removed with os.Remove although it may be a directory: the temporary snapshot directory a crash leaves behind holds its data and metadata files, os.Remove fails on a non-empty directory, "+
						"and the constructor that calls RemoveTmpFiles fails on every start after such a crash", v.Path())
				}
			} else {
				obs.ok("a temporary directory is removed with its contents: "+siteKey(v.Fr, c), p.InstrPos(c), "the removal is recursive (os.RemoveAll)")
			}
			kp := "only entries whose name has the temporary prefix are removed: " + siteKey(v.Fr, c)
			if hasPrefix {
				obs.ok(kp, p.InstrPos(c), "the removal is reached only where strings.HasPrefix(info.Name(), \"tmp…\") holds")
			} else {
				v.Note("%s: removal", p.InstrPos(c))
				obs.fail(kp, p.InstrPos(c), "the visited path is removed on a path that has not established strings.HasPrefix(info.Name(), \"tmp…\"): published snapshots, the state file or the log are deleted at construction", v.Path())
			}
			return stAdd(stDel(st, "R"), fmt.Sprintf("R@%d", sites.id(v.Fr, c))), false
		}
		ret, ok := in.(*ssa.Return)
		if !ok || v.Fr.parent != nil {
			return st, false
		}
		r, has := stGet(st, "R")
		if !has {
			return st, true
		}
		rm := sites.at(r)
		if v.ErrNon(rm.fr, rm.call) {
			return st, true
		}
		key := "filepath.SkipDir returned after removing a visited directory: " + siteKey(rm.fr, rm.call)
		pos := p.InstrPos(rm.call)
		rv := returnedValue(ret, 0)
		switch g := globalLoad(v.Fr, rv); g {
		case "path/filepath.SkipDir", "io/fs.SkipDir":
			obs.ok(key, pos, "the callback returns SkipDir after the removal")
			return st, true
		}
		notDir := false
		v.Conds(func(fr *sframe, cond ssa.Value, truth bool) {
			c, ok := cond.(*ssa.Call)
			if !ok || !c.Common().IsInvoke() || c.Common().Method.Name() != "IsDir" {
				return
			}
			if resolve(fr, c.Common().Value) == ssa.Value(infoParam) && !truth {
				notDir = true
			}
		})
		if notDir {
			obs.ok(key, pos, "paths that do not return SkipDir after the removal have established that the visited entry is not a directory")
			return st, true
		}
		what := "nil"
		if c, _ := callOf(v.Fr, rv, -1); c == rm.call {
			what = "the result of the removal (nil on success)"
		} else if !isNilConst(rv) {
			what = describe(v.Fr, rv)
		}
		v.Note("%s: return", p.InstrPos(in))
		obs.fail(key, pos, "after a successful removal of the visited path the callback returns "+what+" although the entry may be a directory: "+
			"Walk then reads the removed directory, lstat fails, and the constructor calling RemoveTmpFiles fails on the first start after a crash that left a non-empty tmp directory", v.Path())
		return st, true
	}
	s.RunFromEntry("")
	if s.Overflow {
		obs.undecided("walk callback "+FuncName(k), p.Pos(k.Pos()), "path exploration exceeded its bound")
	}
	if !found {
		obs.undecided("walk callback "+FuncName(k), p.Pos(k.Pos()), "the callback does not remove the path it visits")
	}
}
