package lint

// ERR-DISC (DESIGN §2.2 A8): error discipline of the storage layer.

import (
	"fmt"
	"go/token"
	"strings"

	"golang.org/x/tools/go/ssa"
)

// errDiscException is one accepted site where an error result is deliberately not consumed.
type errDiscException struct {
	fn     string // enclosing declared function
	callee string
	max    int
	cond   string // structural side condition: "deferred-closure", "closure", "value-nil-tested"
	reason string
}

// Frozen table (DESIGN §4 C13). One reason each.
var errDiscExceptions = []errDiscException{
	{"(*persistentLog).rename", "os.Remove", 1, "deferred-closure",
		"best-effort removal of the temporary in the deferred failure cleanup; the primary error is already being returned"},
	{"(*persistentStateStorage).SetState", "os.Remove", 1, "deferred-closure",
		"best-effort removal of the temporary in the deferred failure cleanup; the primary error is already being returned"},
	{"(*snapshotFile).Close", "os.RemoveAll", 1, "deferred-closure",
		"best-effort removal of the temporary directory in the deferred failure cleanup; the primary error is already being returned"},
	{"(*persistentSnapshotStorage).directories", "fmt.Sscanf", 2, "closure",
		"examined: the parse always fails on the joined path, but the pick stays correct because os.ReadDir order is already sorted (DESIGN C13 SNAP-PICK)"},
	{"(*Raft).InstallSnapshot", "Log.GetEntry", 1, "value-nil-tested",
		"the entry is nil-tested instead; the bundled GetEntry returns a nil entry exactly when it returns an error"},
}

var storageIfaces = map[string]bool{"Log": true, "StateStorage": true, "SnapshotStorage": true, "SnapshotFile": true}

func isStorageFile(rel string) bool {
	switch rel {
	case "log.go", "state_storage.go", "snapshot_storage.go":
		return true
	}
	return strings.HasPrefix(rel, "internal/fileutil/") && strings.HasSuffix(rel, ".go")
}

func ruleErrDisc() *Rule {
	return &Rule{
		ID: "ERR-DISC",
		Text: "Every call in log.go, state_storage.go, snapshot_storage.go and internal/fileutil whose callee returns an error, and every call elsewhere in package raft to a method of Log, StateStorage, " +
			"SnapshotStorage or SnapshotFile that returns an error, consumes it: the error is returned (possibly wrapped), or tested against nil with every failure path ending in a return of a non-nil error, " +
			"a no-return call, a positive match against a sentinel error, or — in the function that sets state to Shutdown — an error-level log line. Accepted exceptions are a frozen table.",
		Floor: 60,
		Run: func(p *Program) []Obligation {
			obs := newObSet("ERR-DISC")
			used := map[int]int{}
			inStorage := map[*ssa.Function]bool{}
			for _, fn := range p.funcsIn(isStorageFile) {
				inStorage[fn] = true
			}
			for _, fn := range p.SortedFuncs() {
				var pkgPath string
				if d := EnclosingDeclared(fn); d.Pkg != nil {
					pkgPath = d.Pkg.Pkg.Path()
				}
				if !inStorage[fn] && pkgPath != ModulePath {
					continue
				}
				for _, b := range fn.Blocks {
					for _, in := range b.Instrs {
						ci, ok := in.(ssa.CallInstruction)
						if !ok {
							continue
						}
						cc := ci.Common()
						res := cc.Signature().Results()
						if res.Len() == 0 || !isErrorType(res.At(res.Len()-1).Type()) {
							continue
						}
						if isErrorCtor(cc) {
							continue
						}
						if !inStorage[fn] && !(cc.IsInvoke() && storageIfaces[ifaceOf(cc)]) {
							continue
						}
						errDiscSite(p, obs, fn, ci, used)
					}
				}
			}
			return obs.list()
		},
	}
}

func errDiscSite(p *Program, obs *obSet, fn *ssa.Function, ci ssa.CallInstruction, used map[int]int) {
	in := ci.(ssa.Instruction)
	cc := ci.Common()
	name := calleeName(cc)
	if name == "" {
		name = "dynamic call"
	}
	key := "error of " + siteKey(nil, in)
	pos := p.InstrPos(in)
	violate := func(detail string, path []string) {
		// frozen exceptions
		decl := FuncName(EnclosingDeclared(fn))
		for k, ex := range errDiscExceptions {
			if ex.fn != decl || ex.callee != name {
				continue
			}
			if ok, why := exceptionCond(p, fn, ci, ex.cond); !ok {
				obs.fail(key, pos, detail+" (the accepted exception for this site does not apply: "+why+")", path)
				return
			}
			used[k]++
			if used[k] > ex.max {
				obs.fail(key, pos, fmt.Sprintf("%s (the accepted exception covers %d site(s) of %s in %s, this is one more)", detail, ex.max, name, decl), path)
				return
			}
			obs.ok(key, pos, "accepted exception: "+ex.reason, "unconsumed: "+detail)
			return
		}
		obs.fail(key, pos, detail, path)
	}
	call, isCall := in.(*ssa.Call)
	if !isCall {
		violate(fmt.Sprintf("the error returned by %s is lost: the call is a %s statement", name, strings.ToLower(strings.TrimPrefix(fmt.Sprintf("%T", in), "*ssa."))), nil)
		return
	}
	// the error value
	var ev ssa.Value
	res := cc.Signature().Results()
	if res.Len() == 1 {
		ev = call
	} else if refs := call.Referrers(); refs != nil {
		for _, r := range *refs {
			if ex, ok := r.(*ssa.Extract); ok && ex.Index == res.Len()-1 {
				ev = ex
			}
		}
	}
	if ev == nil || ev.Referrers() == nil || len(*ev.Referrers()) == 0 {
		violate("the error returned by "+name+" is discarded", nil)
		return
	}
	use := classifyErrUses(ev)
	if use.returned && !use.nilTested {
		obs.ok(key, pos, "the error is returned to the caller"+wrapNote(use))
		return
	}
	if !use.nilTested {
		if use.nilTestedMerged {
			obs.undecided(key, pos, "the error is merged with other values (phi or re-assigned local) before it is compared with nil; its failure paths cannot be followed")
			return
		}
		if use.sentinel {
			obs.undecided(key, pos, "the error is only compared with sentinel values, never with nil")
			return
		}
		if use.escapes != "" {
			obs.undecided(key, pos, "the error is neither returned nor tested; it flows into "+use.escapes)
			return
		}
		violate("the error returned by "+name+" is discarded", nil)
		return
	}
	// tested: examine the failure paths
	shutdownFn := setsShutdown(p, fn)
	s := &flowSpec{p: p, root: fn}
	s.inlineVeto = func(*sframe, *ssa.Call) bool { return true }
	var breach *flowBreach
	handled := map[string]int{}
	undecided := ""
	hasErrResult := fn.Signature.Results().Len() > 0 && isErrorType(fn.Signature.Results().At(fn.Signature.Results().Len()-1).Type())
	s.instr = func(v *flowVisit, x ssa.Instruction) (string, bool) {
		if x == in {
			return v.St, true
		}
		if v.ErrNil(v.Fr, call) {
			return v.St, true
		}
		failed := v.ErrNon(v.Fr, call)
		if c, ok := x.(*ssa.Call); ok {
			if p.IsNoReturnCall(c.Common()) {
				if failed {
					handled["no-return call"]++
				}
				return v.St, true
			}
			if failed && isErrorLog(c.Common()) && storageMentions(c, ev) {
				if shutdownFn {
					handled["error-level log in the shutdown function"]++
					return v.St, true
				}
				return stAdd(v.St, "logged"), false
			}
		}
		if ret, ok := x.(*ssa.Return); ok {
			if !failed {
				// never tested on this path: fine only if the error is what is returned
				if hasErrResult {
					rv := returnedValue(ret, len(ret.Results)-1)
					if rv == ev || derivesFromErr(rv, ev, 3) {
						return v.St, true
					}
					// the operation fails anyway, with an error constructed on the spot from another failure
					// (e.g. a second call failed before this error was examined): nothing is claimed to have succeeded
					if succ, known := successReturn(ret); known && !succ {
						return v.St, true
					}
				}
				if breach == nil {
					v.Note("%s: return", p.InstrPos(x))
					breach = &flowBreach{At: x, What: "the function returns on a path where the error was never tested", Path: v.Path()}
				}
				return v.St, true
			}
			if hasErrResult {
				rv := returnedValue(ret, len(ret.Results)-1)
				if !isNilConst(rv) {
					handled["return of a non-nil error"]++
					return v.St, true
				}
			}
			if breach == nil {
				what := "a failure path returns without reporting the error"
				if stHas(v.St, "logged") {
					what = "a failure path only logs the error and carries on"
				}
				v.Note("%s: return", p.InstrPos(x))
				breach = &flowBreach{At: x, What: what, Path: v.Path()}
			}
			return v.St, true
		}
		return v.St, false
	}
	s.edge = func(v *flowVisit, iff *ssa.If, taken bool) (string, bool) {
		// a positive match against a sentinel implies the error is non-nil and identified
		c, pol := stripNot(iff.Cond, taken)
		if m, isTest := sentinelTest(c, ev); isTest && m == pol {
			handled["positive match against a sentinel error"]++
			return v.St, true
		}
		// a later test of a variable into which this error was merged: the engine cannot tell
		// which way it goes on this path
		if b, ok := c.(*ssa.BinOp); ok && (b.Op == token.EQL || b.Op == token.NEQ) && (isNilConst(b.X) || isNilConst(b.Y)) {
			x := b.X
			if isNilConst(x) {
				x = b.Y
			}
			if phiMerges(x, ev, 4) {
				undecided = "the error is merged with other values (phi) and tested again later; its failure paths cannot be followed"
				return v.St, true
			}
		}
		return v.St, false
	}
	s.RunAfter(in, "")
	switch {
	case s.Overflow:
		obs.undecided(key, pos, "path exploration exceeded its bound")
	case undecided != "":
		obs.undecided(key, pos, undecided)
	case breach != nil:
		violate(breach.What+" ("+instrLabel(breach.At)+" at "+p.InstrPos(breach.At)+")", breach.Path)
	case len(handled) == 0:
		obs.undecided(key, pos, "the error is tested but no failure path was found")
	default:
		var hs []string
		for h, n := range handled {
			hs = append(hs, fmt.Sprintf("%s ×%d", h, n))
		}
		sortStrings(hs)
		obs.ok(key, pos, "the error is tested; failure paths end in: "+strings.Join(hs, ", "))
	}
}

func wrapNote(u errUses) string {
	if u.wrapped {
		return " (wrapped)"
	}
	return ""
}

type errUses struct {
	returned  bool
	wrapped   bool
	nilTested bool
	// nilTestedMerged: compared with nil only after a merge the path engine cannot see through
	nilTestedMerged bool
	sentinel        bool
	escapes         string
}

// classifyErrUses follows the error value through phis, interface conversions, variadic
// argument slices of error constructors and result slots.
func classifyErrUses(ev ssa.Value) errUses {
	var u errUses
	seen := map[ssa.Value]bool{}
	merged := map[ssa.Value]bool{}
	var walk func(v ssa.Value, depth int, wrapped bool)
	walk = func(v ssa.Value, depth int, wrapped bool) {
		if seen[v] || depth > 6 || v.Referrers() == nil {
			return
		}
		seen[v] = true
		for _, r := range *v.Referrers() {
			switch x := r.(type) {
			case *ssa.Return:
				u.returned = true
				u.wrapped = u.wrapped || wrapped
			case *ssa.Phi:
				merged[x] = true
				walk(x, depth+1, wrapped)
			case *ssa.MakeInterface:
				walk(x, depth+1, wrapped)
			case *ssa.ChangeInterface:
				walk(x, depth+1, wrapped)
			case *ssa.BinOp:
				if x.Op == token.EQL || x.Op == token.NEQ {
					if isNilConst(x.X) || isNilConst(x.Y) {
						if merged[v] {
							u.nilTestedMerged = true
						} else {
							u.nilTested = true
						}
					} else {
						u.sentinel = true
					}
				}
			case *ssa.Store:
				if x.Val != v {
					continue
				}
				switch a := x.Addr.(type) {
				case *ssa.Alloc:
					// result slot or local: follow the loads
					for _, rr := range *a.Referrers() {
						if ld, ok := rr.(*ssa.UnOp); ok && ld.Op == token.MUL {
							if singleStore(a) == nil && lastStoreBefore(ld, a) != v {
								merged[ld] = true
							}
							walk(ld, depth+1, wrapped)
						}
					}
				case *ssa.IndexAddr:
					// element of a variadic slice: find the call that receives the slice
					if arr, ok := a.X.(*ssa.Alloc); ok {
						for _, rr := range *arr.Referrers() {
							if sl, ok := rr.(*ssa.Slice); ok {
								for _, r3 := range *sl.Referrers() {
									if c, ok := r3.(*ssa.Call); ok {
										if isErrorCtor(c.Common()) {
											walk(c, depth+1, true)
										} else if calleeName(c.Common()) != "" && u.escapes == "" {
											u.escapes = "call " + calleeName(c.Common())
										}
									}
								}
							}
						}
					}
				default:
					if u.escapes == "" {
						u.escapes = "a store"
					}
				}
			case *ssa.Call:
				n := calleeName(x.Common())
				if n == "errors.Is" || n == "errors.As" {
					u.sentinel = true
				} else if u.escapes == "" {
					u.escapes = "call " + n
				}
			}
		}
	}
	walk(ev, 0, false)
	return u
}

// phiMerges reports whether v is a phi one of whose inputs is ev.
func phiMerges(v, ev ssa.Value, depth int) bool {
	ph, ok := v.(*ssa.Phi)
	if !ok || depth == 0 {
		return false
	}
	for _, e := range ph.Edges {
		if e == ev || phiMerges(e, ev, depth-1) {
			return true
		}
	}
	return false
}

// derivesFromErr reports whether rv is ev, possibly wrapped by an error constructor.
func derivesFromErr(rv, ev ssa.Value, depth int) bool {
	if rv == ev {
		return true
	}
	if depth == 0 {
		return false
	}
	c, ok := rv.(*ssa.Call)
	if !ok || !isErrorCtor(c.Common()) {
		return false
	}
	for _, a := range c.Common().Args {
		for _, e := range varargElems(a) {
			if derivesFromErr(resolve(nil, e), ev, depth-1) {
				return true
			}
		}
	}
	return false
}

// sentinelTest: cond compares ev with a package-level error value (==, !=, errors.Is).
// Returns the truth value of cond under which ev matches the sentinel.
func sentinelTest(cond, ev ssa.Value) (matchWhen bool, ok bool) {
	switch c := cond.(type) {
	case *ssa.BinOp:
		if c.Op != token.EQL && c.Op != token.NEQ {
			return false, false
		}
		x, y := c.X, c.Y
		if y == ev {
			x, y = y, x
		}
		if x != ev || globalLoad(nil, y) == "" {
			return false, false
		}
		return c.Op == token.EQL, true
	case *ssa.Call:
		if calleeName(c.Common()) == "errors.Is" && len(c.Common().Args) == 2 && c.Common().Args[0] == ev && globalLoad(nil, c.Common().Args[1]) != "" {
			return true, true
		}
	}
	return false, false
}

// isErrorLog: a call to the module logger at error level.
func isErrorLog(c *ssa.CallCommon) bool {
	switch calleeName(c) {
	case "(*logging.Logger).Error", "(*logging.Logger).Errorf", "logging.Logger.Error", "logging.Logger.Errorf":
		return true
	}
	if c.IsInvoke() {
		n := c.Method.Name()
		if (n == "Error" || n == "Errorf") && c.Method.Pkg() != nil && strings.HasPrefix(c.Method.Pkg().Path(), ModulePath) {
			return true
		}
	}
	return false
}

// mentions reports whether the call receives ev (also inside a variadic slice).
func storageMentions(c *ssa.Call, ev ssa.Value) bool {
	for _, a := range c.Common().Args {
		if resolve(nil, a) == ev {
			return true
		}
		for _, e := range varargElems(a) {
			if resolve(nil, e) == ev {
				return true
			}
		}
	}
	return false
}

// setsShutdown: the function stores the constant Shutdown into Raft.state (the shutdown path).
func setsShutdown(p *Program, fn *ssa.Function) bool {
	stateFld := p.Field("Raft.state")
	sd, ok := p.ConstVal("Shutdown")
	if stateFld == nil || !ok {
		return false
	}
	for _, b := range fn.Blocks {
		for _, in := range b.Instrs {
			if st, fld := storeField(in); st != nil && fld == stateFld {
				if c, isConst := st.Val.(*ssa.Const); isConst {
					if v, ok := constInt(c); ok && v == sd {
						return true
					}
				}
			}
		}
	}
	return false
}

// exceptionCond checks the structural side condition of an accepted exception.
func exceptionCond(p *Program, fn *ssa.Function, ci ssa.CallInstruction, cond string) (bool, string) {
	switch cond {
	case "closure":
		if fn.Parent() == nil {
			return false, "the call is not inside a function literal"
		}
		return true, ""
	case "deferred-closure":
		par := fn.Parent()
		if par == nil {
			return false, "the call is not inside a function literal"
		}
		for _, b := range par.Blocks {
			for _, in := range b.Instrs {
				if d, ok := in.(*ssa.Defer); ok {
					if mc, ok := d.Call.Value.(*ssa.MakeClosure); ok && mc.Fn == ssa.Value(fn) {
						return true, ""
					}
					if d.Call.Value == ssa.Value(fn) {
						return true, ""
					}
				}
			}
		}
		return false, "the enclosing function literal is not deferred"
	case "value-nil-tested":
		call, ok := ci.(*ssa.Call)
		if !ok || call.Referrers() == nil {
			return false, "not a plain call"
		}
		tested := false
		for _, r := range *call.Referrers() {
			ex, ok := r.(*ssa.Extract)
			if !ok || ex.Index != 0 || ex.Referrers() == nil {
				continue
			}
			for _, rr := range *ex.Referrers() {
				if b, ok := rr.(*ssa.BinOp); ok && (b.Op == token.EQL || b.Op == token.NEQ) && (isNilConst(b.X) || isNilConst(b.Y)) {
					tested = true
				}
			}
		}
		if !tested {
			return false, "the value result is not compared with nil"
		}
		// the bundled implementation returns a nil entry exactly when it returns an error
		impl := p.Func("(*persistentLog).GetEntry")
		if impl == nil {
			return false, "(*persistentLog).GetEntry not found"
		}
		for _, b := range impl.Blocks {
			if b == impl.Recover {
				continue
			}
			for _, in := range b.Instrs {
				ret, ok := in.(*ssa.Return)
				if !ok || len(ret.Results) != 2 {
					continue
				}
				succ, known := successReturn(ret)
				if !known {
					return false, "a return of (*persistentLog).GetEntry cannot be classified"
				}
				if isNilConst(ret.Results[0]) == succ {
					return false, "(*persistentLog).GetEntry has a return where the entry is nil without an error, or non-nil with one"
				}
			}
		}
		return true, ""
	}
	return false, "unknown condition"
}

func sortStrings(xs []string) {
	for i := 1; i < len(xs); i++ {
		for j := i; j > 0 && xs[j] < xs[j-1]; j-- {
			xs[j], xs[j-1] = xs[j-1], xs[j]
		}
	}
}
