package lint

import (
	"go/token"
	"sort"
	"strings"

	"golang.org/x/tools/go/ssa"
)

// encodedFromParams decides "what is written is what was asked for": in function root, the object handed to the
// encoder (second argument of encoderName) is an object built in root whose fields named in want are stored from the
// parameters of root with the given names, and from nothing else. A write that encodes a stale cache, a default
// value or the wrong parameter is a durable lie that no ordering rule sees.
func encodedFromParams(p *Program, obs *obSet, rootName, encoderName string, want map[string]string) {
	key := "the record handed to " + encoderName + " in " + rootName + " is built from the function's own arguments"
	fn := p.Func(rootName)
	if fn == nil {
		obs.lost(rootName)
		return
	}
	// the encoder call: in root itself, or in a helper that root calls and that passes one of its own parameters on
	var enc *ssa.Call // the call in root that (directly or through the helper) encodes the record
	var arg ssa.Value // the record, as a value of root
	count := 0
	for _, b := range fn.Blocks {
		for _, in := range b.Instrs {
			if c := callNamed(in, encoderName); c != nil && len(c.Common().Args) >= 2 {
				enc, arg = c, c.Common().Args[1]
				count++
				continue
			}
			c, ok := in.(*ssa.Call)
			if !ok {
				continue
			}
			g := c.Common().StaticCallee()
			if g == nil || !p.InScope[g] || g == fn {
				continue
			}
			for _, gb := range g.Blocks {
				for _, gin := range gb.Instrs {
					if gc := callNamed(gin, encoderName); gc != nil && len(gc.Common().Args) >= 2 {
						for k, par := range g.Params {
							if gc.Common().Args[1] == ssa.Value(par) && k < len(c.Common().Args) {
								enc, arg = c, c.Common().Args[k]
								count++
							}
						}
					}
				}
			}
		}
	}
	if count > 1 {
		obs.undecided(key, p.InstrPos(enc), "more than one call of "+encoderName+" reachable from "+rootName)
		return
	}
	if enc == nil {
		obs.lost("call of " + encoderName + " in " + rootName + " (or in a helper it hands the record to)")
		return
	}
	// resolve the argument to the allocation it points to
	var obj *ssa.Alloc
	switch v := arg.(type) {
	case *ssa.Alloc:
		obj = v
	case *ssa.UnOp:
		if v.Op == token.MUL {
			if fa, ok := v.X.(*ssa.FieldAddr); ok {
				// a field of the receiver (a cache): the store to it in this function that is executed before the call
				fld := fieldOf(fa.X.Type(), fa.Field)
				var last *ssa.Store
				for _, b := range fn.Blocks {
					for _, in := range b.Instrs {
						st, ok := in.(*ssa.Store)
						if !ok {
							continue
						}
						wfa, ok := st.Addr.(*ssa.FieldAddr)
						if ok && fieldOf(wfa.X.Type(), wfa.Field) == fld && instrBlockDominates(st, enc) {
							last = st
						}
					}
				}
				if last == nil {
					obs.fail(key, p.InstrPos(enc), "the encoder is given the contents of field "+fld.Name()+" of the receiver, which this function does not assign before the call: what is written is whatever was cached before, not the arguments of this call", nil)
					return
				}
				if al, ok := last.Val.(*ssa.Alloc); ok {
					obj = al
				}
			}
		}
	}
	if obj == nil {
		obs.undecided(key, p.InstrPos(enc), "the object handed to the encoder was not recognised as one built in this function", "argument: "+arg.String())
		return
	}
	params := map[ssa.Value]string{}
	for _, par := range fn.Params {
		params[par] = par.Name()
	}
	got := map[string]string{}
	if refs := obj.Referrers(); refs != nil {
		for _, r := range *refs {
			fa, ok := r.(*ssa.FieldAddr)
			if !ok || fa.Referrers() == nil {
				continue
			}
			name := fieldOf(fa.X.Type(), fa.Field).Name()
			for _, rr := range *fa.Referrers() {
				st, ok := rr.(*ssa.Store)
				if !ok || st.Addr != ssa.Value(fa) {
					continue
				}
				if !instrBlockDominates(st, enc) {
					continue
				}
				src := "?"
				if n, ok := params[st.Val]; ok {
					src = n
				} else if c, ok := st.Val.(*ssa.Const); ok {
					src = "constant " + constString(c)
				} else {
					src = st.Val.String()
				}
				if old, dup := got[name]; dup && old != src {
					src = old + " and " + src
				}
				got[name] = src
			}
		}
	}
	var bad []string
	var names []string
	for f := range want {
		names = append(names, f)
	}
	sort.Strings(names)
	for _, f := range names {
		switch g, ok := got[f]; {
		case !ok:
			bad = append(bad, "field "+f+" is never set (zero value is written)")
		case g != want[f]:
			bad = append(bad, "field "+f+" is set from "+g+", must be parameter "+want[f])
		}
	}
	if len(bad) > 0 {
		obs.fail(key, p.InstrPos(enc), strings.Join(bad, "; "), nil)
		return
	}
	obs.ok(key, p.InstrPos(enc), "every field of the record is stored from the parameter of the same meaning before the call ("+strings.Join(names, ", ")+")")
}
