package lint

import (
	"fmt"
	"go/ast"
	"go/token"
	"go/types"
	"sort"
	"strings"

	"golang.org/x/tools/go/ssa"
)

// C18 table rules: ENUM-SWITCH, PANIC-SITES, FATAL-IO, WG-PARITY, COND-PARITY, FUT-NONBLOCK.

// ---------------------------------------------------------------------------------------------
// comparison chains (switch statements and equivalent if-chains)

// tbChain is a maximal chain of "tag == constant" tests over one enumeration value: the SSA
// form of `switch tag { case A: ... case B, C: ... default: ... }` and of the equivalent
// if / else-if chain. Rest is the block reached by a value that equals none of the constants.
type tbChain struct {
	Fn        *ssa.Function
	Enum      *tbEnum
	Tag       ssa.Value
	Cases     map[int64]bool
	Blocks    []*ssa.BasicBlock
	Rest      *ssa.BasicBlock
	FirstPos  token.Pos
	Switch    *ast.SwitchStmt // the switch statement the tests come from (nil: if-chain)
	NoDefault bool            // Switch != nil and it has no default clause
	Ordinal   int
}

type tbCompare struct {
	tag   ssa.Value
	val   int64
	enum  *tbEnum
	equal *ssa.BasicBlock
	rest  *ssa.BasicBlock
	pos   token.Pos
}

// tbCompareOf recognises a block ending in "if tag == C" (or !=) over an enumeration.
func tbCompareOf(b *ssa.BasicBlock, enums map[*types.TypeName]*tbEnum) *tbCompare {
	if len(b.Instrs) == 0 {
		return nil
	}
	ifi, ok := b.Instrs[len(b.Instrs)-1].(*ssa.If)
	if !ok {
		return nil
	}
	bo, ok := ifi.Cond.(*ssa.BinOp)
	if !ok || (bo.Op != token.EQL && bo.Op != token.NEQ) {
		return nil
	}
	tag, cv := bo.X, bo.Y
	if _, isConst := tag.(*ssa.Const); isConst {
		tag, cv = cv, tag
	}
	val, ok := tbConstInt(cv)
	if !ok {
		return nil
	}
	if _, isConst := tag.(*ssa.Const); isConst {
		return nil
	}
	e := tbEnumOfType(enums, tag.Type())
	if e == nil {
		return nil
	}
	c := &tbCompare{tag: tag, val: val, enum: e, equal: b.Succs[0], rest: b.Succs[1], pos: bo.Pos()}
	if bo.Op == token.NEQ {
		c.equal, c.rest = c.rest, c.equal
	}
	return c
}

// tbSameTag: the same SSA value, or two loads of the same field of the same base.
func tbSameTag(a, b ssa.Value) bool {
	if a == b {
		return true
	}
	fa, ba := tbFieldLoad(a)
	fb, bb := tbFieldLoad(b)
	return fa != nil && fa == fb && ba == bb
}

// tbPureCompareBlock: the block only computes its comparison (no calls, no stores).
func tbPureCompareBlock(b *ssa.BasicBlock) bool {
	for _, in := range b.Instrs {
		switch x := in.(type) {
		case *ssa.BinOp, *ssa.If, *ssa.FieldAddr, *ssa.DebugRef:
		case *ssa.UnOp:
			if x.Op != token.MUL {
				return false
			}
		default:
			return false
		}
	}
	return true
}

// tbSwitchIndex maps the position of every case expression in fn's syntax to its switch.
func tbSwitchIndex(fn *ssa.Function) map[token.Pos]*ast.SwitchStmt {
	out := map[token.Pos]*ast.SwitchStmt{}
	syn := fn.Syntax()
	if syn == nil {
		return out
	}
	ast.Inspect(syn, func(n ast.Node) bool {
		sw, ok := n.(*ast.SwitchStmt)
		if !ok {
			return true
		}
		for _, cl := range sw.Body.List {
			cc, ok := cl.(*ast.CaseClause)
			if !ok {
				continue
			}
			for _, e := range cc.List {
				out[e.Pos()] = sw
			}
		}
		return true
	})
	return out
}

func tbHasDefault(sw *ast.SwitchStmt) bool {
	for _, cl := range sw.Body.List {
		if cc, ok := cl.(*ast.CaseClause); ok && cc.List == nil {
			return true
		}
	}
	return false
}

// tbChains finds the comparison chains of fn.
func (p *Program) tbChains(fn *ssa.Function, enums map[*types.TypeName]*tbEnum) []*tbChain {
	cmp := map[*ssa.BasicBlock]*tbCompare{}
	for _, b := range fn.Blocks {
		if c := tbCompareOf(b, enums); c != nil {
			cmp[b] = c
		}
	}
	if len(cmp) == 0 {
		return nil
	}
	continues := func(prev *tbCompare, prevBlock, b *ssa.BasicBlock) bool {
		c := cmp[b]
		return c != nil && b == prev.rest && len(b.Preds) == 1 && b.Preds[0] == prevBlock && tbSameTag(prev.tag, c.tag) && tbPureCompareBlock(b)
	}
	isCont := map[*ssa.BasicBlock]bool{}
	for b, c := range cmp {
		if nb := c.rest; continues(c, b, nb) {
			isCont[nb] = true
		}
	}
	var swIndex map[token.Pos]*ast.SwitchStmt
	var out []*tbChain
	for _, b := range fn.Blocks {
		c := cmp[b]
		if c == nil || isCont[b] {
			continue
		}
		ch := &tbChain{Fn: fn, Enum: c.enum, Tag: c.tag, Cases: map[int64]bool{}, FirstPos: c.pos}
		cur, curBlock := c, b
		for {
			ch.Cases[cur.val] = true
			ch.Blocks = append(ch.Blocks, curBlock)
			if swIndex == nil {
				swIndex = tbSwitchIndex(fn)
			}
			if sw := swIndex[cur.pos]; sw != nil && ch.Switch == nil {
				ch.Switch = sw
			}
			if !continues(cur, curBlock, cur.rest) {
				ch.Rest = cur.rest
				break
			}
			curBlock = cur.rest
			cur = cmp[curBlock]
		}
		if ch.Switch != nil {
			ch.NoDefault = !tbHasDefault(ch.Switch)
		}
		out = append(out, ch)
	}
	sort.SliceStable(out, func(i, j int) bool { return out[i].FirstPos < out[j].FirstPos })
	n := map[*tbEnum]int{}
	for _, ch := range out {
		n[ch.Enum]++
		ch.Ordinal = n[ch.Enum]
	}
	return out
}

func (ch *tbChain) construct() string {
	return "switch over " + ch.Enum.Name() + ordSuffix(ch.Ordinal) + " in " + FuncName(ch.Fn)
}

func (ch *tbChain) caseNames() string {
	var vals []int64
	for v := range ch.Cases {
		vals = append(vals, v)
	}
	sort.Slice(vals, func(i, j int) bool { return vals[i] < vals[j] })
	var names []string
	for _, v := range vals {
		names = append(names, ch.Enum.NameOf(v))
	}
	return tbJoin(names)
}

// restAborts returns the no-return instruction at the start of the default arm, if any.
func (p *Program) tbRestAborts(ch *tbChain) ssa.Instruction {
	if ch.Rest == nil {
		return nil
	}
	return p.tbNoReturnIn(ch.Rest)
}

// tbAllChains computes the chains of every in-scope function.
func (p *Program) tbAllChains() []*tbChain {
	enums := p.tbEnums()
	var out []*tbChain
	for _, fn := range p.SortedFuncs() {
		out = append(out, p.tbChains(fn, enums)...)
	}
	return out
}

// ---------------------------------------------------------------------------------------------
// ENUM-SWITCH

func ruleEnumSwitch() *Rule {
	const id = "ENUM-SWITCH"
	return &Rule{
		ID: id,
		Text: "For every switch (or equivalent if-chain on one value) over a module-declared integer type with declared constants whose default arm panics or calls a no-return function, " +
			"or which is a switch statement without default arm: the set of case constants equals the set of declared constants of the type.",
		Floor: 3,
		Run: func(p *Program) []Obligation {
			var out []Obligation
			for _, ch := range p.tbAllChains() {
				abort := p.tbRestAborts(ch)
				if abort == nil && !ch.NoDefault {
					continue // the remaining values are handled by an ordinary default arm / else branch
				}
				ob := Obligation{Rule: id, Construct: ch.construct(), Pos: p.Pos(ch.FirstPos)}
				ob.Facts = append(ob.Facts, "cases: "+ch.caseNames())
				var decl []string
				for _, c := range ch.Enum.Consts {
					decl = append(decl, c.Name())
				}
				ob.Facts = append(ob.Facts, "declared: "+tbJoin(decl))
				if extra := ch.Enum.Undeclared(ch.Cases); len(extra) > 0 {
					ob.Facts = append(ob.Facts, fmt.Sprintf("cases for undeclared values: %v", extra))
				}
				miss := ch.Enum.Missing(ch.Cases)
				switch {
				case len(miss) == 0 && abort != nil:
					ob.Verdict = Discharged
					ob.Detail = fmt.Sprintf("all %d declared constants of %s have a case; the aborting default arm (%s) is unreachable for declared values", len(ch.Enum.Values()), ch.Enum.Name(), p.InstrPos(abort))
				case len(miss) == 0:
					ob.Verdict = Discharged
					ob.Detail = fmt.Sprintf("all %d declared constants of %s have a case (no default arm)", len(ch.Enum.Values()), ch.Enum.Name())
				case abort != nil:
					ob.Verdict = Violated
					ob.Detail = fmt.Sprintf("no case for %s: a value %s reaches the default arm, which does not return (%s)", tbJoin(miss), tbJoin(miss), p.InstrPos(abort))
				default:
					ob.Verdict = Violated
					ob.Detail = fmt.Sprintf("no case for %s and no default arm: a value %s falls through the switch unhandled", tbJoin(miss), tbJoin(miss))
				}
				out = append(out, ob)
			}
			return out
		},
	}
}

// ---------------------------------------------------------------------------------------------
// PANIC-SITES

// tbChainGuarding returns the innermost chain whose default arm contains block b.
func tbChainGuarding(chains []*tbChain, b *ssa.BasicBlock) *tbChain {
	depth := func(x *ssa.BasicBlock) int {
		n := 0
		for ; x != nil; x = x.Idom() {
			n++
		}
		return n
	}
	var best *tbChain
	for _, ch := range chains {
		if ch.Fn != b.Parent() || ch.Rest == nil || len(ch.Rest.Preds) != 1 {
			continue
		}
		if ch.Rest != b && !ch.Rest.Dominates(b) {
			continue
		}
		if best == nil || depth(ch.Rest) > depth(best.Rest) {
			best = ch
		}
	}
	return best
}

func rulePanicSites() *Rule {
	const id = "PANIC-SITES"
	return &Rule{
		ID:    id,
		Text:  "Every explicit panic(...) in analysed code is the default arm of a switch over an enumeration that has a case for every declared constant (ENUM-SWITCH), i.e. it is unreachable for declared values.",
		Floor: 2,
		Run: func(p *Program) []Obligation {
			chains := p.tbAllChains()
			var out []Obligation
			for _, fn := range p.SortedFuncs() {
				ord := newOrdinals()
				for _, in := range tbInstrsByPos(fn) {
					if !tbExplicitPanic(in) {
						continue
					}
					b := in.Block()
					ob := Obligation{Rule: id, Construct: ord.next("panic in " + FuncName(fn)), Pos: p.InstrPos(in)}
					ch := tbChainGuarding(chains, b)
					switch {
					case ch == nil:
						ob.Verdict = Violated
						ob.Detail = "explicit panic in " + FuncName(fn) + " is not the default arm of a switch over an enumeration: it is reachable without an invalid enum value"
					case len(ch.Enum.Missing(ch.Cases)) > 0:
						miss := ch.Enum.Missing(ch.Cases)
						ob.Verdict = Violated
						ob.Detail = fmt.Sprintf("the panic is the default arm of the switch over %s in %s, which has no case for %s: the declared value %s panics", ch.Enum.Name(), FuncName(fn), tbJoin(miss), tbJoin(miss))
					default:
						ob.Verdict = Discharged
						ob.Detail = fmt.Sprintf("default arm of the complete switch over %s (cases %s)", ch.Enum.Name(), ch.caseNames())
					}
					out = append(out, ob)
				}
			}
			return out
		},
	}
}

// ---------------------------------------------------------------------------------------------
// FATAL-IO

// tbErrOrigin explains where an error value comes from ("" if not from a call).
func tbErrOrigin(v ssa.Value, seen map[ssa.Value]bool) string {
	if seen[v] {
		return "loop"
	}
	seen[v] = true
	switch x := v.(type) {
	case *ssa.Call:
		if x.Common().IsInvoke() {
			return "call " + tbTypeName(x.Common().Value.Type()) + "." + x.Common().Method.Name()
		}
		if c := x.Common().StaticCallee(); c != nil {
			return "call " + tbFuncName(c)
		}
		return "dynamic call"
	case *ssa.Extract:
		return tbErrOrigin(x.Tuple, seen)
	case *ssa.Phi:
		var parts []string
		for _, e := range x.Edges {
			if tbIsNilConst(e) {
				continue
			}
			o := tbErrOrigin(e, seen)
			if o == "" {
				return ""
			}
			if o != "loop" {
				parts = append(parts, o)
			}
		}
		return strings.Join(tbDedupe(parts), " | ")
	case *ssa.UnOp:
		al, ok := x.X.(*ssa.Alloc)
		if !ok || x.Op != token.MUL {
			return ""
		}
		var parts []string
		for _, r := range *al.Referrers() {
			if s, ok := r.(*ssa.Store); ok && s.Addr == ssa.Value(al) {
				if tbIsNilConst(s.Val) {
					continue
				}
				o := tbErrOrigin(s.Val, seen)
				if o == "" {
					return ""
				}
				parts = append(parts, o)
			}
		}
		return strings.Join(tbDedupe(parts), " | ")
	}
	return ""
}

func tbIsErrorType(t types.Type) bool {
	return types.Identical(t, types.Universe.Lookup("error").Type())
}

// tbErrGuard finds an "err != nil" test whose true edge dominates b. It returns the origin of
// err and whether a test was found at all.
func tbErrGuard(b *ssa.BasicBlock) (origin string, found bool, pos token.Pos) {
	fn := b.Parent()
	for _, g := range fn.Blocks {
		if len(g.Instrs) == 0 {
			continue
		}
		ifi, ok := g.Instrs[len(g.Instrs)-1].(*ssa.If)
		if !ok {
			continue
		}
		bo, ok := ifi.Cond.(*ssa.BinOp)
		if !ok || (bo.Op != token.NEQ && bo.Op != token.EQL) {
			continue
		}
		ev := bo.X
		if tbIsNilConst(ev) {
			ev = bo.Y
		} else if !tbIsNilConst(bo.Y) {
			continue
		}
		if !tbIsErrorType(ev.Type()) {
			continue
		}
		errEdge := g.Succs[0]
		if bo.Op == token.EQL {
			errEdge = g.Succs[1]
		}
		if len(errEdge.Preds) != 1 || !(errEdge == b || errEdge.Dominates(b)) {
			continue
		}
		found = true
		if o := tbErrOrigin(ev, map[ssa.Value]bool{}); o != "" && o != "loop" {
			return o, true, bo.Pos()
		}
	}
	return "", found, token.NoPos
}

// tbInRaftPkg reports whether fn is (nested in) a function of package raft.
func tbInRaftPkg(fn *ssa.Function) bool {
	top := EnclosingDeclared(fn)
	if top.Pkg != nil {
		return top.Pkg.Pkg.Path() == ModulePath
	}
	if o := top.Origin(); o != nil && o.Pkg != nil {
		return o.Pkg.Pkg.Path() == ModulePath
	}
	return false
}

func ruleFatalIO() *Rule {
	const id = "FATAL-IO"
	return &Rule{
		ID: id,
		Text: "Every call in package raft to a logger function that does not return (Fatal, Fatalf) is control-dependent on err != nil for an error returned by a call in the same function: the process only aborts on a failed storage/transport/codec operation. " +
			"Frozen exception: the default arm of the entry-type switch in (*Raft).applyLoop, justified by the switch being complete (ENUM-SWITCH) and by every producer of LogEntry.EntryType in analysed code being a declared constant, " +
			"the NewLogEntry parameter (every call passes a declared constant) or the numeric inverse of the encoding (ENUM-CAST).",
		Floor: 30,
		Run: func(p *Program) []Obligation {
			var out []Obligation
			enums := p.tbEnums()
			etEnum := tbEnumOfType(enums, typeOrNil(p.NamedType("LogEntryType")))
			etField := p.Field("LogEntry.EntryType")
			newEntry := p.Func("NewLogEntry")
			if etEnum == nil || etField == nil || newEntry == nil {
				return missing(id, "LogEntryType / LogEntry.EntryType / NewLogEntry")
			}

			// producers of entry types
			producersOK := true
			var pbEnumT types.Type
			if n := p.tbLookupNamed(tbProtoPkgPath, "LogEntry_LogEntryType"); n != nil {
				pbEnumT = n
			}
			etParam := -1
			for i, prm := range newEntry.Params {
				if types.Identical(prm.Type(), etEnum.Type) {
					etParam = i
				}
			}
			for _, fn := range p.SortedFuncs() {
				ordS, ordC := newOrdinals(), newOrdinals()
				for _, in := range tbInstrsByPos(fn) {
					if st, f := storeField(in); st != nil && f == etField {
						ob := Obligation{Rule: id, Construct: ordS.next("producer of LogEntry.EntryType: store in " + FuncName(fn)), Pos: p.InstrPos(in)}
						v := st.Val
						switch {
						case fn == newEntry && etParam >= 0 && v == ssa.Value(newEntry.Params[etParam]):
							ob.Verdict, ob.Detail = Discharged, "the NewLogEntry parameter; every call site is checked separately"
						case func() bool { c, ok := tbConstInt(v); return ok && len(etEnum.Values()[c]) > 0 }():
							c, _ := tbConstInt(v)
							ob.Verdict, ob.Detail = Discharged, "declared constant "+etEnum.NameOf(c)
						case func() bool { _, ok := tbConstInt(v); return ok }():
							c, _ := tbConstInt(v)
							ob.Verdict, ob.Detail = Violated, fmt.Sprintf("an entry is created with the undeclared entry type %d, which the apply loop answers with Fatal", c)
						case pbEnumT != nil && tbMentionsType(v, pbEnumT):
							ob.Verdict, ob.Detail = Discharged, "decoded from a protobuf message; the encoding is a bijection on entry types (ENUM-CAST), so only values produced by a sender's analysed code arrive (peers and files are assumed to come from this code)"
						default:
							ob.Verdict, ob.Detail = Undecided, "entry type comes from a value this rule cannot classify"
						}
						if ob.Verdict != Discharged {
							producersOK = false
						}
						out = append(out, ob)
					}
					c, ok := in.(ssa.CallInstruction)
					if !ok || c.Common().StaticCallee() != newEntry || etParam < 0 {
						continue
					}
					ob := Obligation{Rule: id, Construct: ordC.next("producer of LogEntry.EntryType: NewLogEntry call in " + FuncName(fn)), Pos: p.InstrPos(in)}
					arg := c.Common().Args[etParam]
					if v, isC := tbConstInt(arg); isC && len(etEnum.Values()[v]) > 0 {
						ob.Verdict, ob.Detail = Discharged, "passes the declared constant "+etEnum.NameOf(v)
					} else if isC {
						ob.Verdict, ob.Detail = Violated, fmt.Sprintf("NewLogEntry is called with the undeclared entry type %d, which the apply loop answers with Fatal", v)
					} else {
						ob.Verdict, ob.Detail = Undecided, "NewLogEntry is called with a non-constant entry type"
					}
					if ob.Verdict != Discharged {
						producersOK = false
					}
					out = append(out, ob)
				}
			}

			chains := p.tbAllChains()
			for _, fn := range p.SortedFuncs() {
				if !tbInRaftPkg(fn) {
					continue
				}
				ord := newOrdinals()
				for _, in := range tbInstrsByPos(fn) {
					ci, ok := in.(ssa.CallInstruction)
					if !ok {
						continue
					}
					callee := ci.Common().StaticCallee()
					if callee == nil || !p.noReturn[callee] || !p.IsNoReturnCall(ci.Common()) {
						continue
					}
					b := in.Block()
					ob := Obligation{Rule: id, Construct: ord.next("call " + FuncName(callee) + " in " + FuncName(fn)), Pos: p.InstrPos(in)}
					origin, found, gpos := tbErrGuard(b)
					switch {
					case origin != "":
						ob.Verdict = Discharged
						ob.Detail = "reached only when err != nil (" + p.Pos(gpos) + ") for the error returned by " + origin
					case found:
						ob.Verdict = Undecided
						ob.Detail = "guarded by an error test, but the error was not seen to be the result of a call in this function"
					default:
						ch := tbChainGuarding(chains, b)
						if ch != nil && FuncName(fn) == "(*Raft).applyLoop" && ch.Enum.Type.Obj() == etEnum.Type.Obj() {
							miss := ch.Enum.Missing(ch.Cases)
							switch {
							case len(miss) > 0:
								ob.Verdict = Violated
								ob.Detail = "the entry-type switch in the apply loop has no case for " + tbJoin(miss) + ": a committed entry of that type kills the process"
							case !producersOK:
								ob.Verdict = Undecided
								ob.Detail = "frozen exception (default arm of the complete entry-type switch), but not every producer of LogEntry.EntryType was confirmed to yield a declared constant — see the producer obligations"
							default:
								ob.Verdict = Discharged
								ob.Detail = "frozen exception: default arm of the complete entry-type switch (cases " + ch.caseNames() + "); every producer of LogEntry.EntryType yields a declared constant, so the arm is unreachable"
							}
						} else {
							ob.Verdict = Violated
							ob.Detail = FuncName(callee) + " is not control-dependent on a failed call (no dominating err != nil test): the process can abort without an I/O error"
						}
					}
					out = append(out, ob)
				}
			}
			return out
		},
	}
}

// ---------------------------------------------------------------------------------------------
// WG-PARITY

// tbWaitGroupCall recognises (*sync.WaitGroup).<name> on field fld of some struct.
func tbWaitGroupCall(in ssa.Instruction, name string, fld *types.Var) (ssa.CallInstruction, bool) {
	ci, ok := in.(ssa.CallInstruction)
	if !ok {
		return nil, false
	}
	c := ci.Common()
	if !tbIsFunc(c.StaticCallee(), "sync", "(*WaitGroup)."+name) || len(c.Args) == 0 {
		return nil, false
	}
	fa, ok := c.Args[0].(*ssa.FieldAddr)
	if !ok || fieldOf(fa.X.Type(), fa.Field) != fld {
		return nil, false
	}
	return ci, true
}

// tbDefersDone reports whether fn defers wg.Done on fld in a block that dominates every return.
func tbDefersDone(fn *ssa.Function, fld *types.Var) (deferred bool, plain bool, onAllPaths bool) {
	var def ssa.Instruction
	for _, b := range fn.Blocks {
		for _, in := range b.Instrs {
			ci, ok := tbWaitGroupCall(in, "Done", fld)
			if !ok {
				continue
			}
			if _, isDefer := ci.(*ssa.Defer); isDefer {
				deferred = true
				def = in
			} else {
				plain = true
			}
		}
	}
	if def == nil {
		return
	}
	onAllPaths = true
	for _, b := range fn.Blocks {
		if len(b.Instrs) == 0 {
			continue
		}
		if _, isRet := b.Instrs[len(b.Instrs)-1].(*ssa.Return); isRet && b != fn.Recover {
			if !(def.Block() == b || def.Block().Dominates(b)) {
				onAllPaths = false
			}
		}
	}
	return
}

func ruleWGParity() *Rule {
	const id = "WG-PARITY"
	return &Rule{
		ID: id,
		Text: "In (*Raft).start the constant passed to r.wg.Add equals, on every path from the Add to a return, the number of go statements whose target defers r.wg.Done(); " +
			"every function that calls Done on Raft.wg defers it on all paths and is started exactly once, by a go statement in (*Raft).start after the Add; no other function calls Add on Raft.wg.",
		Floor: 5,
		Run: func(p *Program) []Obligation {
			start := p.Func("(*Raft).start")
			wg := p.Field("Raft.wg")
			if start == nil || wg == nil {
				return missing(id, "(*Raft).start / Raft.wg")
			}
			var out []Obligation
			// functions that call Done on Raft.wg
			doneFns := map[*ssa.Function]bool{}
			for _, fn := range p.SortedFuncs() {
				d, pl, _ := tbDefersDone(fn, wg)
				if d || pl {
					doneFns[fn] = true
				}
			}
			// go func() { r.loop() }(): a function literal whose entry block calls exactly one
			// Done function (and nothing else that calls Done) stands for that function.
			wrapperOf := map[*ssa.Function]*ssa.Function{}
			for _, fn := range p.SortedFuncs() {
				if fn.Parent() == nil || doneFns[fn] || len(fn.Blocks) == 0 {
					continue
				}
				var inner []*ssa.Function
				for _, b := range fn.Blocks {
					for _, in := range b.Instrs {
						if c, ok := in.(*ssa.Call); ok && doneFns[c.Common().StaticCallee()] {
							if b != fn.Blocks[0] {
								inner = append(inner, nil)
							}
							inner = append(inner, c.Common().StaticCallee())
						}
					}
				}
				if len(inner) == 1 && inner[0] != nil {
					wrapperOf[fn] = inner[0]
				}
			}
			runsDone := func(t *ssa.Function) bool { return t != nil && (doneFns[t] || wrapperOf[t] != nil) }
			// Add calls
			var adds []ssa.CallInstruction
			for _, fn := range p.SortedFuncs() {
				for _, b := range fn.Blocks {
					for _, in := range b.Instrs {
						if ci, ok := tbWaitGroupCall(in, "Add", wg); ok {
							if fn == start {
								adds = append(adds, ci)
							} else {
								out = append(out, Obligation{Rule: id, Construct: "call (*sync.WaitGroup).Add on Raft.wg in " + FuncName(fn), Pos: p.InstrPos(in), Verdict: Undecided,
									Detail: "Raft.wg.Add is called outside (*Raft).start; this rule only understands the single Add in start"})
							}
						}
					}
				}
			}
			ob := Obligation{Rule: id, Construct: "wg.Add count in (*Raft).start", Pos: p.Pos(start.Pos())}
			var add ssa.CallInstruction
			switch {
			case len(adds) == 0:
				out = append(out, missing(id, "call r.wg.Add in (*Raft).start")...)
			case len(adds) > 1:
				ob.Verdict, ob.Detail = Undecided, fmt.Sprintf("%d calls to r.wg.Add in (*Raft).start, expected 1", len(adds))
				out = append(out, ob)
			default:
				add = adds[0]
				ob.Pos = p.InstrPos(add)
				n, isConst := tbConstInt(add.Common().Args[1])
				if !isConst {
					ob.Verdict, ob.Detail = Undecided, "the argument of r.wg.Add is not a constant"
					out = append(out, ob)
					break
				}
				counts, cyc, before := tbGoCounts(start, add, func(g *ssa.Go) bool { return runsDone(g.Common().StaticCallee()) })
				var names []string
				for _, b := range start.Blocks {
					for _, in := range b.Instrs {
						if g, ok := in.(*ssa.Go); ok {
							if t := g.Common().StaticCallee(); runsDone(t) {
								if w := wrapperOf[t]; w != nil {
									names = append(names, FuncName(w)+" (through "+FuncName(t)+")")
								} else {
									names = append(names, FuncName(t))
								}
							}
						}
					}
				}
				ob.Facts = append(ob.Facts, "go targets that defer r.wg.Done: "+tbJoin(names))
				switch {
				case cyc:
					ob.Verdict, ob.Detail = Undecided, "a go statement that is counted sits in a loop after r.wg.Add"
				case before > 0:
					ob.Verdict = Violated
					ob.Detail = fmt.Sprintf("%d goroutine(s) that call r.wg.Done are started before r.wg.Add(%d): Done can run before Add", before, n)
				case len(counts) == 0:
					ob.Verdict, ob.Detail = Undecided, "no path from r.wg.Add to a return found"
				default:
					var bad []int
					for c := range counts {
						if int64(c) != n {
							bad = append(bad, c)
						}
					}
					sort.Ints(bad)
					if len(bad) > 0 {
						ob.Verdict = Violated
						ob.Detail = fmt.Sprintf("r.wg.Add(%d), but a path from there to a return starts %d goroutine(s) that call r.wg.Done: Stop's wg.Wait would %s", n, bad[0],
							map[bool]string{true: "block forever", false: "return early or the counter would go negative (panic)"}[int64(bad[0]) < n])
					} else {
						ob.Verdict = Discharged
						ob.Detail = fmt.Sprintf("r.wg.Add(%d) is followed on every path by exactly %d go statements whose targets defer r.wg.Done", n, n)
					}
				}
				out = append(out, ob)
			}
			// each Done function
			var fns []*ssa.Function
			for fn := range doneFns {
				fns = append(fns, fn)
			}
			sort.Slice(fns, func(i, j int) bool { return FuncName(fns[i]) < FuncName(fns[j]) })
			for _, fn := range fns {
				ob := Obligation{Rule: id, Construct: "goroutine " + FuncName(fn) + " counted by Raft.wg", Pos: p.Pos(fn.Pos())}
				deferred, plain, all := tbDefersDone(fn, wg)
				var goSites, otherSites []string
				okSites := 0
				var sites []*CallSite
				for _, cs := range p.Callers[fn] {
					if wrapperOf[cs.Caller] == fn {
						sites = append(sites, p.Callers[cs.Caller]...) // where the wrapping literal is started
					} else {
						sites = append(sites, cs)
					}
				}
				for _, cs := range sites {
					_, isGo := cs.Instr.(*ssa.Go)
					where := FuncName(cs.Caller) + " (" + p.InstrPos(cs.Instr) + ")"
					if isGo && cs.Caller == start && add != nil && tbPrecedes(add, cs.Instr) {
						okSites++
						goSites = append(goSites, where)
					} else {
						otherSites = append(otherSites, where)
					}
				}
				switch {
				case plain || !deferred:
					ob.Verdict, ob.Detail = Undecided, "r.wg.Done is called directly rather than deferred; the count per path is not analysed"
				case !all:
					ob.Verdict, ob.Detail = Violated, "defer r.wg.Done() does not dominate every return of "+FuncName(fn)+": the goroutine can exit without Done and Stop blocks forever"
				case len(otherSites) > 0:
					ob.Verdict, ob.Detail = Violated, FuncName(fn)+" calls r.wg.Done but is also started or called at "+tbJoin(otherSites)+", where no r.wg.Add precedes it"
				case okSites != 1:
					ob.Verdict, ob.Detail = Violated, fmt.Sprintf("%s calls r.wg.Done and is started %d times after r.wg.Add in (*Raft).start", FuncName(fn), okSites)
				default:
					ob.Verdict, ob.Detail = Discharged, "defers r.wg.Done on all paths; started once, at "+tbJoin(goSites)
				}
				out = append(out, ob)
			}
			return out
		},
	}
}

// tbGoCounts enumerates, for every path from instruction `from` to a return, how many go
// statements accepted by counted it executes. before = counted go statements not after from.
func tbGoCounts(fn *ssa.Function, from ssa.Instruction, counted func(*ssa.Go) bool) (counts map[int]bool, cyclic bool, before int) {
	comp, cyc := tbSCC(fn)
	per := make([]int, len(fn.Blocks))
	for _, b := range fn.Blocks {
		for _, in := range b.Instrs {
			g, ok := in.(*ssa.Go)
			if !ok || !counted(g) {
				continue
			}
			if !tbPrecedes(from, in) {
				before++
				continue
			}
			per[b.Index]++
			if cyc[comp[b.Index]] {
				cyclic = true
			}
		}
	}
	counts = map[int]bool{}
	memo := map[*ssa.BasicBlock]map[int]bool{}
	onStack := map[*ssa.BasicBlock]bool{}
	var walk func(b *ssa.BasicBlock) map[int]bool
	walk = func(b *ssa.BasicBlock) map[int]bool {
		if m, ok := memo[b]; ok {
			return m
		}
		if onStack[b] {
			return map[int]bool{}
		}
		onStack[b] = true
		res := map[int]bool{}
		if len(b.Succs) == 0 {
			if _, isRet := b.Instrs[len(b.Instrs)-1].(*ssa.Return); isRet {
				res[per[b.Index]] = true
			}
		}
		for _, s := range b.Succs {
			for c := range walk(s) {
				res[c+per[b.Index]] = true
			}
		}
		onStack[b] = false
		memo[b] = res
		return res
	}
	counts = walk(from.Block())
	return
}

// ---------------------------------------------------------------------------------------------
// COND-PARITY

// tbCondCall recognises (*sync.Cond).<name> on a field of Raft and returns that field.
func tbCondCall(in ssa.Instruction, raft *types.Named) (name string, fld *types.Var, ok bool) {
	c, isCall := in.(ssa.CallInstruction)
	if !isCall {
		return "", nil, false
	}
	callee := c.Common().StaticCallee()
	for _, n := range []string{"Wait", "Broadcast", "Signal"} {
		if tbIsFunc(callee, "sync", "(*Cond)."+n) {
			name = n
		}
	}
	if name == "" || len(c.Common().Args) == 0 {
		return "", nil, false
	}
	f, base := tbFieldLoad(c.Common().Args[0])
	if f == nil {
		return name, nil, true
	}
	if n := tbPtrElemNamed(base.Type()); n == nil || n.Obj() != raft.Obj() {
		return name, nil, true
	}
	return name, f, true
}

// tbShutdownTest recognises a block ending in a test of Raft.state against Shutdown and returns
// the successor taken when the state IS Shutdown.
func tbShutdownTest(b *ssa.BasicBlock, state *types.Var, shutdown int64) *ssa.BasicBlock {
	if len(b.Instrs) == 0 {
		return nil
	}
	ifi, ok := b.Instrs[len(b.Instrs)-1].(*ssa.If)
	if !ok {
		return nil
	}
	bo, ok := ifi.Cond.(*ssa.BinOp)
	if !ok || (bo.Op != token.EQL && bo.Op != token.NEQ) {
		return nil
	}
	x, y := bo.X, bo.Y
	if _, isC := x.(*ssa.Const); isC {
		x, y = y, x
	}
	c, ok := tbConstInt(y)
	if !ok || c != shutdown {
		return nil
	}
	if f, _ := tbFieldLoad(x); f != state {
		return nil
	}
	if bo.Op == token.EQL {
		return b.Succs[0]
	}
	return b.Succs[1]
}

func ruleCondParity() *Rule {
	const id = "COND-PARITY"
	return &Rule{
		ID: id,
		Text: "Every *sync.Cond field of Raft on which some function calls Wait is Broadcast in (*Raft).Stop after state := Shutdown; " +
			"and every Wait call sits in a loop in which every iteration re-tests r.state against Shutdown with the Shutdown outcome leaving the loop.",
		Floor: 6,
		Run: func(p *Program) []Obligation {
			raft := p.NamedType("Raft")
			stop := p.Func("(*Raft).Stop")
			state := p.Field("Raft.state")
			shutdown, okc := p.ConstVal("Shutdown")
			if raft == nil || stop == nil || state == nil || !okc {
				return missing(id, "Raft / (*Raft).Stop / Raft.state / Shutdown")
			}
			var out []Obligation
			// broadcasts in Stop after the state store
			var stateStore ssa.Instruction
			for _, b := range stop.Blocks {
				for _, in := range b.Instrs {
					if st, f := storeField(in); st != nil && f == state {
						if c, ok := tbConstInt(st.Val); ok && c == shutdown {
							stateStore = in
						}
					}
				}
			}
			if stateStore == nil {
				return missing(id, "store Raft.state := Shutdown in (*Raft).Stop")
			}
			// the lock must still be held: find the Unlock that follows
			broadcast := map[*types.Var]string{}
			signalled := map[*types.Var]string{}
			for _, b := range stop.Blocks {
				for _, in := range b.Instrs {
					name, f, ok := tbCondCall(in, raft)
					if !ok || f == nil || !tbPrecedes(stateStore, in) {
						continue
					}
					if _, isCall := in.(*ssa.Call); !isCall {
						continue
					}
					switch name {
					case "Broadcast":
						broadcast[f] = p.InstrPos(in)
					case "Signal":
						signalled[f] = p.InstrPos(in)
					}
				}
			}
			waited := map[*types.Var][]string{}
			for _, fn := range p.SortedFuncs() {
				ord := newOrdinals()
				var comp []int
				for _, in := range tbInstrsByPos(fn) {
					name, f, ok := tbCondCall(in, raft)
					if !ok || name != "Wait" {
						continue
					}
					b := in.Block()
					if f == nil {
						out = append(out, Obligation{Rule: id, Construct: ord.next("call (*sync.Cond).Wait in " + FuncName(fn)), Pos: p.InstrPos(in), Verdict: Undecided,
							Detail: "the condition variable waited on is not a field of Raft"})
						continue
					}
					waited[f] = append(waited[f], FuncName(fn))
					ob := Obligation{Rule: id, Construct: ord.next("call (*sync.Cond).Wait on Raft." + f.Name() + " in " + FuncName(fn)), Pos: p.InstrPos(in)}
					if comp == nil {
						comp, _ = tbSCC(fn)
					}
					inLoop := func(x *ssa.BasicBlock) bool { return comp[x.Index] == comp[b.Index] }
					if !tbOnCycleAvoiding(b, inLoop, nil) {
						ob.Verdict, ob.Detail = Violated, "Wait is not inside a loop: a wakeup (spurious, or Stop's broadcast) is not followed by a re-test of the state"
						out = append(out, ob)
						continue
					}
					cut := map[*ssa.BasicBlock]bool{}
					var tests []string
					for _, x := range fn.Blocks {
						if !inLoop(x) {
							continue
						}
						if exit := tbShutdownTest(x, state, shutdown); exit != nil && !inLoop(exit) {
							cut[x] = true
							tests = append(tests, p.InstrPos(x.Instrs[len(x.Instrs)-1]))
						}
					}
					// a test inside a nested loop: its Shutdown outcome stays in the (outer) loop, but counts if from there the
					// Wait cannot be reached again without passing one of the tests that leave the loop
					if len(cut) > 0 {
						base := map[*ssa.BasicBlock]bool{}
						for k := range cut {
							base[k] = true
						}
						for _, x := range fn.Blocks {
							if !inLoop(x) || base[x] {
								continue
							}
							if exit := tbShutdownTest(x, state, shutdown); exit != nil && inLoop(exit) && x != b && !reachAssuming(exit, b, inLoop, base, state, shutdown) {
								cut[x] = true
								tests = append(tests, p.InstrPos(x.Instrs[len(x.Instrs)-1]))
							}
						}
					}
					switch {
					case len(cut) == 0:
						ob.Verdict, ob.Detail = Violated, "the loop around Wait contains no test of r.state against Shutdown whose Shutdown outcome leaves the loop: the goroutine cannot be stopped"
					case tbOnCycleAvoiding(b, inLoop, cut):
						ob.Verdict, ob.Detail = Violated, "there is a path from Wait back to Wait that does not re-test r.state against Shutdown (tests at "+tbJoin(tests)+" can be bypassed): after Stop's single broadcast the goroutine can sleep forever"
					default:
						ob.Verdict, ob.Detail = Discharged, "every path from Wait back to Wait passes a test of r.state against Shutdown that leaves the loop ("+tbJoin(tests)+")"
					}
					out = append(out, ob)
				}
			}
			var flds []*types.Var
			for f := range waited {
				flds = append(flds, f)
			}
			sort.Slice(flds, func(i, j int) bool { return flds[i].Name() < flds[j].Name() })
			for _, f := range flds {
				ob := Obligation{Rule: id, Construct: "condition variable Raft." + f.Name() + " broadcast in (*Raft).Stop", Pos: p.InstrPos(stateStore)}
				ob.Facts = append(ob.Facts, "waited on in: "+tbJoin(tbDedupe(waited[f])))
				switch {
				case broadcast[f] != "":
					ob.Pos = broadcast[f]
					ob.Verdict, ob.Detail = Discharged, "Broadcast after state := Shutdown"
				case signalled[f] != "":
					ob.Pos = signalled[f]
					ob.Verdict, ob.Detail = Violated, fmt.Sprintf("(*Raft).Stop only Signals Raft.%s; with more than one waiter (%s) some are never woken and wg.Wait blocks", f.Name(), tbJoin(tbDedupe(waited[f])))
				default:
					ob.Verdict, ob.Detail = Violated, fmt.Sprintf("Raft.%s is waited on in %s but (*Raft).Stop does not Broadcast it after state := Shutdown: the waiter never wakes and wg.Wait blocks forever", f.Name(), tbJoin(tbDedupe(waited[f])))
				}
				out = append(out, ob)
			}
			return out
		},
	}
}

// ---------------------------------------------------------------------------------------------
// FUT-NONBLOCK

func ruleFutNonblock() *Rule {
	const id = "FUT-NONBLOCK"
	return &Rule{
		ID: id,
		Text: "respond sends on the response channel in a select with a default arm (never blocks the caller, which holds the node mutex); " +
			"newFuture allocates the response channel with capacity >= 1 (a response sent before Await is not lost); Await's select has a time.After arm (never blocks forever).",
		Floor: 3,
		Run: func(p *Program) []Obligation {
			var out []Obligation
			each := func(name, construct string, check func(fn *ssa.Function) (string, string, string)) {
				fns := p.tbInstances(name)
				if len(fns) == 0 {
					out = append(out, missing(id, name)...)
					return
				}
				ob := Obligation{Rule: id, Construct: construct, Pos: p.Pos(fns[0].Pos()), Verdict: Discharged}
				for _, fn := range fns {
					v, d, pos := check(fn)
					ob.Facts = append(ob.Facts, FuncName(fn)+": "+v+": "+d)
					rank := map[string]int{Discharged: 0, Undecided: 1, Violated: 2}
					if rank[v] > rank[ob.Verdict] || ob.Detail == "" {
						ob.Verdict, ob.Detail = v, d
						if pos != "" {
							ob.Pos = pos
						}
					}
				}
				out = append(out, ob)
			}
			each("respond", "non-blocking send in respond", func(fn *ssa.Function) (string, string, string) {
				var sends []ssa.Instruction
				verdict, detail, pos := Undecided, "no send on the response channel found in respond", ""
				for _, b := range fn.Blocks {
					for _, in := range b.Instrs {
						switch x := in.(type) {
						case *ssa.Send:
							sends = append(sends, in)
							if tbDerivesFrom(x.Chan, fn.Params[0]) {
								return Violated, "respond sends on the response channel with a plain (blocking) send; the caller holds the node mutex", p.InstrPos(in)
							}
						case *ssa.Select:
							for _, st := range x.States {
								if st.Dir != types.SendOnly || !tbDerivesFrom(st.Chan, fn.Params[0]) {
									continue
								}
								sends = append(sends, in)
								if x.Blocking {
									return Violated, "the select that sends the response has no default arm: respond blocks when nobody receives and the buffer is full, with the node mutex held", p.InstrPos(in)
								}
								verdict, detail, pos = Discharged, "the response is sent in a select with a default arm", p.InstrPos(in)
							}
						}
					}
				}
				return verdict, detail, pos
			})
			each("newFuture", "buffered response channel in newFuture", func(fn *ssa.Function) (string, string, string) {
				verdict, detail, pos := Undecided, "no channel stored into future.responseCh found in newFuture", ""
				for _, b := range fn.Blocks {
					for _, in := range b.Instrs {
						st, f := storeField(in)
						if st == nil || f == nil || f.Name() != "responseCh" {
							continue
						}
						mk, ok := tbStrip(st.Val).(*ssa.MakeChan)
						if !ok {
							return Undecided, "future.responseCh is not set from a make(chan ...) in newFuture", p.InstrPos(in)
						}
						n, isConst := tbConstInt(mk.Size)
						switch {
						case !isConst:
							return Undecided, "the capacity of the response channel is not a constant", p.InstrPos(mk)
						case n < 1:
							return Violated, "the response channel is unbuffered: respond's non-blocking send drops every response that arrives before Await is receiving, and the future times out", p.InstrPos(mk)
						}
						verdict, detail, pos = Discharged, fmt.Sprintf("response channel has capacity %d", n), p.InstrPos(mk)
					}
				}
				return verdict, detail, pos
			})
			each("(*future).Await", "timeout arm in (*future).Await", func(fn *ssa.Function) (string, string, string) {
				verdict, detail, pos := Undecided, "no receive from future.responseCh found in Await", ""
				for _, b := range fn.Blocks {
					for _, in := range b.Instrs {
						switch x := in.(type) {
						case *ssa.UnOp:
							if x.Op == token.ARROW && tbIsFutureCh(x.X) {
								return Violated, "Await receives from the response channel outside a select: it blocks forever if no response is ever sent", p.InstrPos(in)
							}
						case *ssa.Select:
							recvs, timeout := false, false
							for _, st := range x.States {
								if st.Dir != types.RecvOnly {
									continue
								}
								if tbIsFutureCh(st.Chan) {
									recvs = true
								}
								if c, ok := st.Chan.(*ssa.Call); ok && (tbIsFunc(c.Common().StaticCallee(), "time", "After") || tbIsFunc(c.Common().StaticCallee(), "time", "Tick")) {
									timeout = true
								}
								if f, _ := tbFieldLoad(st.Chan); f != nil && f.Name() == "C" {
									if n := tbPtrElemNamed(f.Type()); n == nil { // <-chan Time of a time.Timer
										timeout = true
									}
								}
							}
							if !recvs {
								continue
							}
							switch {
							case timeout:
								verdict, detail, pos = Discharged, "the select that receives the response has a time.After arm", p.InstrPos(in)
							case !x.Blocking:
								return Undecided, "Await polls the response channel with a default arm; not the recognised shape", p.InstrPos(in)
							default:
								return Violated, "the select that receives the response has no timeout arm: Await blocks forever if no response is ever sent", p.InstrPos(in)
							}
						}
					}
				}
				return verdict, detail, pos
			})
			return out
		},
	}
}

// tbIsFutureCh recognises a load of the field responseCh.
func tbIsFutureCh(v ssa.Value) bool {
	f, _ := tbFieldLoad(v)
	return f != nil && f.Name() == "responseCh"
}

// reachAssuming reports whether target is reachable from from inside the loop when the node is shut down: at a block
// of base (a test of r.state against Shutdown that leaves the loop) only the Shutdown outcome is followed, i.e. the walk
// leaves the loop there.
func reachAssuming(from, target *ssa.BasicBlock, inLoop func(*ssa.BasicBlock) bool, base map[*ssa.BasicBlock]bool, state *types.Var, shutdown int64) bool {
	seen := map[*ssa.BasicBlock]bool{}
	work := []*ssa.BasicBlock{from}
	for len(work) > 0 {
		x := work[len(work)-1]
		work = work[:len(work)-1]
		if seen[x] || !inLoop(x) {
			continue
		}
		if x == target {
			return true
		}
		seen[x] = true
		if base[x] {
			continue // shut down: this test leaves the loop
		}
		if e := tbShutdownTest(x, state, shutdown); e != nil {
			work = append(work, e) // another state test: its Shutdown outcome
			continue
		}
		work = append(work, x.Succs...)
	}
	return false
}
