package lint

// COMPACT-KEEP (C11): what the in-memory log keeps after Compact / DiscardEntries, and the
// accessors that read its boundaries. Value-provenance matchers (DESIGN §2.2 A6).

import (
	"fmt"
	"go/constant"
	"go/token"
	"go/types"

	"golang.org/x/tools/go/ssa"
)

type keepCtx struct {
	p          *Program
	entries    *types.Var
	indexFld   *types.Var
	termFld    *types.Var
	logEntryTy types.Type
}

func (k *keepCtx) isEntries(v ssa.Value) bool { return fieldLoad(nil, v, k.entries) }

// elemField: v is entries[<idx>].<fld>; returns the index value.
func (k *keepCtx) elemField(v ssa.Value, fld *types.Var) (ssa.Value, bool) {
	u, ok := resolve(nil, v).(*ssa.UnOp)
	if !ok || u.Op != token.MUL {
		return nil, false
	}
	fa, ok := u.X.(*ssa.FieldAddr)
	if !ok || fieldOf(fa.X.Type(), fa.Field) != fld {
		return nil, false
	}
	el, ok := resolve(nil, fa.X).(*ssa.UnOp)
	if !ok || el.Op != token.MUL {
		return nil, false
	}
	ia, ok := el.X.(*ssa.IndexAddr)
	if !ok || !k.isEntries(ia.X) {
		return nil, false
	}
	return ia.Index, true
}

func (k *keepCtx) isFirstIndex(v ssa.Value) bool {
	idx, ok := k.elemField(v, k.indexFld)
	if !ok {
		return false
	}
	c, isConst := constIntOf(stripConvert(idx))
	return isConst && c == 0
}

func (k *keepCtx) isLenEntries(v ssa.Value) bool {
	c, ok := stripConvert(resolve(nil, v)).(*ssa.Call)
	return ok && calleeName(c.Common()) == "builtin.len" && k.isEntries(c.Common().Args[0])
}

func (k *keepCtx) isLastIdx(v ssa.Value) bool {
	b, ok := stripConvert(resolve(nil, v)).(*ssa.BinOp)
	if !ok || b.Op != token.SUB {
		return false
	}
	one, isConst := constIntOf(b.Y)
	return isConst && one == 1 && k.isLenEntries(b.X)
}

// isIndexMinusFirst: v is <param> - entries[0].Index
func (k *keepCtx) isIndexMinusFirst(v ssa.Value, param *ssa.Parameter) bool {
	b, ok := stripConvert(resolve(nil, v)).(*ssa.BinOp)
	return ok && b.Op == token.SUB && resolve(nil, b.X) == ssa.Value(param) && k.isFirstIndex(b.Y)
}

func ruleCompactKeep() *Rule {
	return &Rule{
		ID: "COMPACT-KEEP",
		Text: "(*persistentLog).Compact(i) keeps entries[i-first:] (Slice low bound = index - entries[0].Index) and writes exactly those to the temporary file; DiscardEntries(i,t) leaves and writes exactly one entry {Index:i, Term:t}; " +
			"LastIndex/LastTerm/NextIndex read element len-1 (NextIndex adds 1); Contains(index) is true exactly for first < index < first+len.",
		Floor: 6,
		Run: func(p *Program) []Obligation {
			obs := newObSet("COMPACT-KEEP")
			k := &keepCtx{p: p, entries: p.Field("persistentLog.entries"), indexFld: p.Field("LogEntry.Index"), termFld: p.Field("LogEntry.Term")}
			if k.entries == nil || k.indexFld == nil || k.termFld == nil {
				return missing("COMPACT-KEEP", "persistentLog.entries / LogEntry.Index / LogEntry.Term")
			}
			k.compact(obs)
			k.discard(obs)
			k.last(obs, "(*persistentLog).LastIndex", k.indexFld, 0)
			k.last(obs, "(*persistentLog).LastTerm", k.termFld, 0)
			k.last(obs, "(*persistentLog).NextIndex", k.indexFld, 1)
			k.contains(obs)
			return obs.list()
		},
	}
}

func methodParam(fn *ssa.Function, i int) *ssa.Parameter {
	if fn.Signature.Recv() != nil {
		i++
	}
	if i < len(fn.Params) {
		return fn.Params[i]
	}
	return nil
}

func (k *keepCtx) compact(obs *obSet) {
	const fname = "(*persistentLog).Compact"
	p := k.p
	fn := p.Func(fname)
	if fn == nil {
		obs.lost(fname)
		return
	}
	index := methodParam(fn, 0)
	key := "kept entries are entries[index-first:] in " + fname
	keyW := "entries written to the temporary file are the kept entries in " + fname
	var stores []*ssa.Store
	var encodes []*ssa.Call
	var copies []*ssa.Call
	for _, b := range fn.Blocks {
		for _, in := range b.Instrs {
			if st, fld := storeField(in); st != nil && fld == k.entries {
				stores = append(stores, st)
			}
			if c := callNamed(in, "encodeLogEntry"); c != nil {
				encodes = append(encodes, c)
			}
			if c := callNamed(in, "builtin.copy"); c != nil {
				copies = append(copies, c)
			}
		}
	}
	if len(stores) == 0 {
		obs.lost("store to persistentLog.entries in " + fname)
		return
	}
	// tail: v is entries[L:] — returns L
	tail := func(v ssa.Value) (ssa.Value, bool) {
		sl, ok := resolve(nil, v).(*ssa.Slice)
		if !ok || !k.isEntries(sl.X) || sl.Low == nil {
			return nil, false
		}
		if sl.High != nil && !k.isLenEntries(sl.High) {
			return nil, false
		}
		return sl.Low, true
	}
	for _, st := range stores {
		pos := p.InstrPos(st)
		var low ssa.Value
		how := ""
		if l, ok := tail(st.Val); ok {
			low, how = l, "the stored slice is entries[L:]"
		}
		if low == nil {
			if c, _ := callOf(nil, st.Val, -1); c != nil && calleeName(c.Common()) == "builtin.append" && len(c.Common().Args) == 2 {
				if l, ok := tail(c.Common().Args[1]); ok {
					low, how = l, "the stored slice is append(…, entries[L:]...)"
				}
			}
		}
		if low == nil {
			for _, c := range copies {
				if !sameSliceVar(c.Common().Args[0], st.Val) {
					continue
				}
				if l, ok := tail(c.Common().Args[1]); ok {
					low, how = l, "the stored slice is filled by copy(dst, entries[L:])"
				}
			}
		}
		switch {
		case low == nil:
			obs.undecided(key, pos, "the new value of persistentLog.entries is not recognised as a tail of the old one", "value: "+describe(nil, st.Val))
		case k.isIndexMinusFirst(low, index):
			obs.ok(key, pos, how+" with L = index - entries[0].Index: the entry at the compaction index becomes the placeholder")
		default:
			obs.fail(key, pos, "the kept tail does not start at index - entries[0].Index: "+describe(nil, low)+
				" (an off-by-one drops the boundary entry, or keeps one too many, and every later index lookup is shifted)", nil, how)
		}
		// the kept entries are the old ones, untouched: nothing replaces an element of the kept slice, and nothing but the
		// file position (Offset) of a kept entry is assigned
		keyU := "kept entries are not replaced or altered (except their Offset) in " + fname
		bad := ""
		for _, bb := range fn.Blocks {
			for _, x := range bb.Instrs {
				s2, ok := x.(*ssa.Store)
				if !ok {
					continue
				}
				if ia, ok := s2.Addr.(*ssa.IndexAddr); ok && sameSliceVar(ia.X, st.Val) {
					if z, isZero := constIntOf(ia.Index); isZero && z == 0 && k.freshPlaceholderKeepsLabel(s2.Val, st.Val, index) {
						continue // the placeholder re-created with the old entry's index and term (its data dropped)
					}
					bad = "element " + describe(nil, ia.Index) + " of the kept slice is replaced at " + p.InstrPos(s2) + ": the kept entry (for element 0 the placeholder, whose Term LastTerm() reports when nothing follows it) is no longer the log's entry"
				}
				if fa, ok := s2.Addr.(*ssa.FieldAddr); ok {
					if u, ok := fa.X.(*ssa.UnOp); ok && u.Op == token.MUL {
						if ia, ok := u.X.(*ssa.IndexAddr); ok && (sameSliceVar(ia.X, st.Val) || k.isEntries(ia.X)) {
							if f := fieldOf(fa.X.Type(), fa.Field); f != nil && f.Name() != "Offset" {
								bad = "field " + f.Name() + " of a kept entry is assigned at " + p.InstrPos(s2)
							}
						}
					}
				}
			}
		}
		if bad != "" {
			obs.fail(keyU, pos, bad, nil)
		} else {
			obs.ok(keyU, pos, "no element of the kept slice is stored to, and only Offset is assigned in a kept entry")
		}
		// what is written
		if len(encodes) == 0 {
			obs.undecided(keyW, pos, "no encodeLogEntry in "+fname)
			continue
		}
		for _, e := range encodes {
			elem, ok := resolve(nil, e.Common().Args[1]).(*ssa.UnOp)
			var from ssa.Value
			if ok && elem.Op == token.MUL {
				if ia, isIA := elem.X.(*ssa.IndexAddr); isIA {
					from = ia.X
				}
			}
			if from == nil {
				// a copy of the element: *local = *elem, &local written
				if al, isAl := resolve(nil, e.Common().Args[1]).(*ssa.Alloc); isAl {
					for _, ref := range *al.Referrers() {
						if s2, isSt := ref.(*ssa.Store); isSt && s2.Addr == al {
							if u, isU := s2.Val.(*ssa.UnOp); isU && u.Op == token.MUL {
								if u2, isU2 := u.X.(*ssa.UnOp); isU2 && u2.Op == token.MUL {
									if ia, isIA := u2.X.(*ssa.IndexAddr); isIA {
										from, elem = ia.X, u2
									}
								}
							}
						}
					}
				}
			}
			// the position a kept entry has in the NEW file is recorded in the entry that stays in memory: Truncate cuts the
			// file at entry.Offset
			keyO := "Offset of each kept entry is its position in the new file in " + fname
			if from != nil && (sameSliceVar(from, st.Val) || func() bool { _, t := tail(from); return t }()) {
				var seekOK, other bool
				for _, bb := range fn.Blocks {
					for _, x := range bb.Instrs {
						s2, isSt := x.(*ssa.Store)
						if !isSt {
							continue
						}
						fa, isFA := s2.Addr.(*ssa.FieldAddr)
						if !isFA || fa.X != ssa.Value(elem) {
							continue
						}
						if f := fieldOf(fa.X.Type(), fa.Field); f == nil || f.Name() != "Offset" {
							continue
						}
						if ex, isEx := s2.Val.(*ssa.Extract); isEx && ex.Index == 0 {
							if c, isC := ex.Tuple.(*ssa.Call); isC && calleeName(c.Common()) == "(*os.File).Seek" && len(c.Common().Args) == 3 &&
								c.Common().Args[0] == unwrapIface(e.Common().Args[0]) && bb.Dominates(e.Block()) {
								if off, okO := constIntOf(c.Common().Args[1]); okO && off == 0 {
									if wh, okW := constIntOf(c.Common().Args[2]); okW && wh == 1 {
										seekOK = true
										continue
									}
								}
							}
						}
						other = true
					}
				}
				switch {
				case seekOK && !other:
					obs.ok(keyO, p.InstrPos(e), "the element that stays in memory receives Seek(0, io.SeekCurrent) of the file written to, before the entry is encoded there")
				case other:
					obs.undecided(keyO, p.InstrPos(e), "the Offset assigned to a kept entry is not recognised as the current position of the temporary file")
				default:
					obs.fail(keyO, p.InstrPos(e), "the kept entries that stay in memory do not receive their position in the new file: their Offset still refers to the old, longer file, "+
						"so a later Truncate cuts the compacted file at the wrong place and overwritten entries come back on the next Replay", nil)
				}
			}
			switch {
			case from == nil:
				obs.undecided(keyW, p.InstrPos(e), "the written entry is not an element of a slice", "entry: "+describe(nil, e.Common().Args[1]))
			case sameSliceVar(from, st.Val):
				obs.ok(keyW, p.InstrPos(e), "encodeLogEntry receives the elements of the slice that becomes persistentLog.entries")
			default:
				if l, isTail := tail(from); isTail && k.isIndexMinusFirst(low, index) && k.isIndexMinusFirst(l, index) {
					obs.ok(keyW, p.InstrPos(e), "encodeLogEntry receives the elements of entries[index-first:]")
				} else {
					obs.fail(keyW, p.InstrPos(e), "the entries written to the new log file are not the ones kept in memory", nil, "written from: "+describe(nil, from))
				}
			}
		}
	}
}

func (k *keepCtx) discard(obs *obSet) {
	const fname = "(*persistentLog).DiscardEntries"
	p := k.p
	fn := p.Func(fname)
	if fn == nil {
		obs.lost(fname)
		return
	}
	index, term := methodParam(fn, 0), methodParam(fn, 1)
	key := "log replaced by exactly one entry {Index: index, Term: term} in " + fname
	keyW := "entry written to the temporary file is the kept entry in " + fname
	n := 0
	for _, b := range fn.Blocks {
		for _, in := range b.Instrs {
			st, fld := storeField(in)
			if st == nil || fld != k.entries {
				continue
			}
			n++
			pos := p.InstrPos(st)
			elems := varargElems(resolve(nil, st.Val))
			if elems == nil {
				obs.undecided(key, pos, "the new value of persistentLog.entries is not a slice literal", "value: "+describe(nil, st.Val))
				continue
			}
			if len(elems) != 1 {
				obs.fail(key, pos, fmt.Sprintf("the log is replaced by %d entries, not one", len(elems)), nil)
				continue
			}
			ent, ok := resolve(nil, elems[0]).(*ssa.Alloc)
			if !ok {
				obs.undecided(key, pos, "the kept entry is not a fresh LogEntry", "entry: "+describe(nil, elems[0]))
				continue
			}
			got := map[*types.Var]ssa.Value{}
			for _, r := range *ent.Referrers() {
				if fa, ok := r.(*ssa.FieldAddr); ok {
					for _, rr := range *fa.Referrers() {
						if s2, ok := rr.(*ssa.Store); ok && s2.Addr == ssa.Value(fa) {
							got[fieldOf(fa.X.Type(), fa.Field)] = resolve(nil, s2.Val)
						}
					}
				}
			}
			switch {
			case got[k.indexFld] != ssa.Value(index):
				obs.fail(key, pos, "the placeholder's Index is not the index argument", nil, "Index: "+describe(nil, got[k.indexFld]))
			case got[k.termFld] != ssa.Value(term):
				obs.fail(key, pos, "the placeholder's Term is not the term argument", nil, "Term: "+describe(nil, got[k.termFld]))
			default:
				obs.ok(key, pos, "entries = []*LogEntry{{Index: index, Term: term}}")
			}
			wrote := false
			for _, bb := range fn.Blocks {
				for _, x := range bb.Instrs {
					if c := callNamed(x, "encodeLogEntry"); c != nil {
						wrote = true
						if resolve(nil, c.Common().Args[1]) == ssa.Value(ent) {
							obs.ok(keyW, p.InstrPos(c), "encodeLogEntry receives the entry that becomes the only element of persistentLog.entries")
						} else {
							obs.fail(keyW, p.InstrPos(c), "the entry written to the new log file is not the one kept in memory", nil, "written: "+describe(nil, c.Common().Args[1]))
						}
					}
				}
			}
			if !wrote {
				obs.undecided(keyW, pos, "no encodeLogEntry in "+fname)
			}
		}
	}
	if n == 0 {
		obs.lost("store to persistentLog.entries in " + fname)
	}
}

func (k *keepCtx) last(obs *obSet, fname string, fld *types.Var, plus int64) {
	p := k.p
	fn := p.Func(fname)
	if fn == nil {
		obs.lost(fname)
		return
	}
	key := fmt.Sprintf("%s reads %s of the last element (index len-1)", fname, fld.Name())
	if plus != 0 {
		key += fmt.Sprintf(" plus %d", plus)
	}
	n := 0
	for _, b := range fn.Blocks {
		if b == fn.Recover {
			continue
		}
		for _, in := range b.Instrs {
			ret, ok := in.(*ssa.Return)
			if !ok || len(ret.Results) != 1 {
				continue
			}
			n++
			pos := p.InstrPos(in)
			v := resolve(nil, returnedValue(ret, 0))
			if plus != 0 {
				b, ok := v.(*ssa.BinOp)
				if !ok || b.Op != token.ADD {
					obs.fail(key, pos, fmt.Sprintf("the result is not <last>.%s + %d", fld.Name(), plus), nil, "value: "+describe(nil, v))
					continue
				}
				x, y := b.X, b.Y
				if _, isConst := x.(*ssa.Const); isConst {
					x, y = y, x
				}
				if c, isConst := constIntOf(y); !isConst || c != plus {
					obs.fail(key, pos, fmt.Sprintf("the result does not add %d to the last index", plus), nil, "value: "+describe(nil, v))
					continue
				}
				v = x
			}
			idx, ok := k.elemField(v, fld)
			switch {
			case !ok:
				if _, isOther := k.elemField(v, otherOf(fld, k.indexFld, k.termFld)); isOther {
					obs.fail(key, pos, "the accessor reads the wrong field of the log entry", nil, "value: "+describe(nil, v))
				} else {
					obs.undecided(key, pos, "the result is not a field of an element of persistentLog.entries", "value: "+describe(nil, v))
				}
			case k.isLastIdx(idx):
				obs.ok(key, pos, "entries[len(entries)-1]."+fld.Name())
			default:
				obs.fail(key, pos, "the element read is not the last one (index len-1)", nil, "index: "+describe(nil, idx))
			}
		}
	}
	if n == 0 {
		obs.undecided(key, p.Pos(fn.Pos()), "no return found")
	}
}

func otherOf(f, a, b *types.Var) *types.Var {
	if f == a {
		return b
	}
	return a
}

// contains evaluates (*persistentLog).Contains symbolically on representatives of the order
// classes of index relative to first = entries[0].Index and first+len(entries): the function is
// loop-free and reads only those two quantities, so a case split over them is exhaustive up to
// the choice of representatives. Unsigned wrap-around is modelled with real uint64 arithmetic.
func (k *keepCtx) contains(obs *obSet) {
	const fname = "(*persistentLog).Contains"
	p := k.p
	fn := p.Func(fname)
	if fn == nil {
		obs.lost(fname)
		return
	}
	key := "Contains(index) is true exactly for first < index < first+len in " + fname
	index := methodParam(fn, 0)
	type tc struct {
		first, n, idx uint64
		want          bool
	}
	var cases []tc
	for _, fl := range [][2]uint64{{10, 3}, {0, 1}, {0, 4}, {7, 1}} {
		first, n := fl[0], fl[1]
		for _, idx := range []uint64{0, first - 1, first, first + 1, first + n - 1, first + n, first + n + 1, 1 << 63, ^uint64(0)} {
			want := idx > first && idx < first+n
			cases = append(cases, tc{first, n, idx, want})
		}
	}
	var facts []string
	for _, c := range cases {
		got, err := k.evalBool(fn, index, c.first, c.n, c.idx)
		if err != "" {
			obs.undecided(key, p.Pos(fn.Pos()), "cannot evaluate the function symbolically: "+err)
			return
		}
		if got != c.want {
			obs.fail(key, p.Pos(fn.Pos()), fmt.Sprintf("with first = %d and len = %d, Contains(%d) evaluates to %v, expected %v", c.first, c.n, c.idx, got, c.want), nil)
			return
		}
		if len(facts) < 9 {
			facts = append(facts, fmt.Sprintf("first=%d len=%d index=%d -> %v", c.first, c.n, c.idx, got))
		}
	}
	obs.ok(key, p.Pos(fn.Pos()), fmt.Sprintf("%d representative cases of index relative to first and first+len evaluate as required", len(cases)), facts...)
}

// evalBool interprets the loop-free function over {index, entries[0].Index, len(entries)}.
func (k *keepCtx) evalBool(fn *ssa.Function, index *ssa.Parameter, first, n, idx uint64) (bool, string) {
	type val struct {
		u      uint64
		b      bool
		isBool bool
	}
	var prev *ssa.BasicBlock
	memo := map[ssa.Value]val{}
	var eval func(v ssa.Value, depth int) (val, string)
	eval = func(v ssa.Value, depth int) (val, string) {
		if depth > 40 {
			return val{}, "expression too deep"
		}
		if m, ok := memo[v]; ok {
			return m, ""
		}
		if v == ssa.Value(index) {
			return val{u: idx}, ""
		}
		if k.isFirstIndex(v) {
			return val{u: first}, ""
		}
		if k.isLenEntries(v) {
			return val{u: n}, ""
		}
		switch x := v.(type) {
		case *ssa.Const:
			if x.Value == nil {
				return val{}, "nil constant"
			}
			switch x.Value.Kind() {
			case constant.Bool:
				return val{b: constant.BoolVal(x.Value), isBool: true}, ""
			case constant.Int:
				if u, ok := constant.Uint64Val(x.Value); ok {
					return val{u: u}, ""
				}
				if i, ok := constant.Int64Val(x.Value); ok {
					return val{u: uint64(i)}, ""
				}
			}
			return val{}, "unsupported constant"
		case *ssa.Convert:
			return eval(x.X, depth+1)
		case *ssa.UnOp:
			if x.Op == token.NOT {
				a, e := eval(x.X, depth+1)
				if e != "" {
					return val{}, e
				}
				return val{b: !a.b, isBool: true}, ""
			}
			return val{}, "unsupported operand " + describe(nil, v)
		case *ssa.Phi:
			for i, pb := range x.Block().Preds {
				if pb == prev {
					return eval(x.Edges[i], depth+1)
				}
			}
			return val{}, "phi without a matching predecessor"
		case *ssa.BinOp:
			a, e := eval(x.X, depth+1)
			if e != "" {
				return val{}, e
			}
			b, e := eval(x.Y, depth+1)
			if e != "" {
				return val{}, e
			}
			signed := false
			if bt, ok := x.X.Type().Underlying().(*types.Basic); ok && bt.Info()&types.IsUnsigned == 0 && bt.Info()&types.IsInteger != 0 {
				signed = true
			}
			cmp := func() int {
				if signed {
					switch {
					case int64(a.u) < int64(b.u):
						return -1
					case int64(a.u) > int64(b.u):
						return 1
					}
					return 0
				}
				switch {
				case a.u < b.u:
					return -1
				case a.u > b.u:
					return 1
				}
				return 0
			}
			switch x.Op {
			case token.ADD:
				return val{u: a.u + b.u}, ""
			case token.SUB:
				return val{u: a.u - b.u}, ""
			case token.LSS:
				return val{b: cmp() < 0, isBool: true}, ""
			case token.LEQ:
				return val{b: cmp() <= 0, isBool: true}, ""
			case token.GTR:
				return val{b: cmp() > 0, isBool: true}, ""
			case token.GEQ:
				return val{b: cmp() >= 0, isBool: true}, ""
			case token.EQL:
				if a.isBool {
					return val{b: a.b == b.b, isBool: true}, ""
				}
				return val{b: a.u == b.u, isBool: true}, ""
			case token.NEQ:
				if a.isBool {
					return val{b: a.b != b.b, isBool: true}, ""
				}
				return val{b: a.u != b.u, isBool: true}, ""
			case token.LAND, token.AND:
				if a.isBool {
					return val{b: a.b && b.b, isBool: true}, ""
				}
			case token.LOR, token.OR:
				if a.isBool {
					return val{b: a.b || b.b, isBool: true}, ""
				}
			}
			return val{}, "unsupported operator " + x.Op.String()
		}
		return val{}, "unsupported value " + describe(nil, v)
	}
	b := fn.Blocks[0]
	for steps := 0; steps < 64; steps++ {
		// phis of this block are evaluated against prev and frozen
		for _, in := range b.Instrs {
			if ph, ok := in.(*ssa.Phi); ok {
				r, e := eval(ph, 0)
				if e != "" {
					return false, e
				}
				memo[ph] = r
			}
		}
		switch t := b.Instrs[len(b.Instrs)-1].(type) {
		case *ssa.If:
			c, e := eval(t.Cond, 0)
			if e != "" {
				return false, e
			}
			prev = b
			if c.b {
				b = b.Succs[0]
			} else {
				b = b.Succs[1]
			}
		case *ssa.Jump:
			prev = b
			b = b.Succs[0]
		case *ssa.Return:
			if len(t.Results) != 1 {
				return false, "unexpected result count"
			}
			r, e := eval(t.Results[0], 0)
			if e != "" {
				return false, e
			}
			if !r.isBool {
				return false, "result is not a boolean"
			}
			return r.b, ""
		default:
			return false, "unexpected terminator"
		}
	}
	return false, "evaluation did not terminate"
}

// freshPlaceholderKeepsLabel: v is a fresh LogEntry whose Index is the index argument (or the Index of the entry it
// replaces) and whose Term is the Term of the entry it replaces (element 0 of the kept slice, or entries[index-first]).
func (k *keepCtx) freshPlaceholderKeepsLabel(v ssa.Value, kept ssa.Value, index *ssa.Parameter) bool {
	ent, ok := resolve(nil, v).(*ssa.Alloc)
	if !ok || ent.Referrers() == nil {
		return false
	}
	got := map[*types.Var]ssa.Value{}
	for _, r := range *ent.Referrers() {
		if fa, ok := r.(*ssa.FieldAddr); ok && fa.Referrers() != nil {
			for _, rr := range *fa.Referrers() {
				if s2, ok := rr.(*ssa.Store); ok && s2.Addr == ssa.Value(fa) {
					got[fieldOf(fa.X.Type(), fa.Field)] = resolve(nil, s2.Val)
				}
			}
		}
	}
	ofOld := func(x ssa.Value, fld *types.Var) bool {
		u, ok := x.(*ssa.UnOp)
		if !ok || u.Op != token.MUL {
			return false
		}
		fa, ok := u.X.(*ssa.FieldAddr)
		if !ok || fieldOf(fa.X.Type(), fa.Field) != fld {
			return false
		}
		l, ok := fa.X.(*ssa.UnOp)
		if !ok || l.Op != token.MUL {
			return false
		}
		ia, ok := l.X.(*ssa.IndexAddr)
		if !ok {
			return false
		}
		if z, isZero := constIntOf(ia.Index); isZero && z == 0 && sameSliceVar(ia.X, kept) {
			return true
		}
		return k.isEntries(ia.X) && k.isIndexMinusFirst(ia.Index, index)
	}
	okIndex := got[k.indexFld] == ssa.Value(index) || (got[k.indexFld] != nil && ofOld(got[k.indexFld], k.indexFld))
	okTerm := got[k.termFld] != nil && ofOld(got[k.termFld], k.termFld)
	return okIndex && okTerm
}

func unwrapIface(v ssa.Value) ssa.Value {
	if mi, ok := v.(*ssa.MakeInterface); ok {
		return mi.X
	}
	return v
}
