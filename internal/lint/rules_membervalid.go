package lint

import (
	"go/constant"
	"go/token"

	"golang.org/x/tools/go/ssa"
)

// ruleMemberValid: MEMBER-VALID (C02/C08, C18).
//
// Two things the library does with a node's ID constrain what an ID may be. (1) Raft.votedFor == "" MEANS "has not
// voted in this term" (becomeFollower resets it to "", the vote test asks votedFor != ""): a vote granted to a node
// whose ID is "" is recorded as no vote, and the voter votes again in the same term. (2) IDs and addresses are encoded
// as protobuf strings, and appendConfiguration treats an encoding error as fatal: an ID that is not valid UTF-8, handed
// to AddServer, terminates the leader's process. So every exported entry through which an ID enters a node or a
// configuration (NewRaft, Bootstrap, AddServer) refuses such values first: it branches on a predicate whose body
// compares its argument with "" and asks unicode/utf8.ValidString, and the refusing side returns.
//
// D53: none of the three checked anything.
func ruleMemberValid() *Rule {
	const id = "MEMBER-VALID"
	return &Rule{
		ID: id,
		Text: "NewRaft, (*Raft).Bootstrap and (*Raft).AddServer each branch on an in-module predicate over the node ID (and address) whose body compares a parameter with the constant \"\" and calls unicode/utf8.ValidString; " +
			"the refusing side of the branch leaves the function (return) without reaching the rest.",
		Floor: 3,
		Run: func(p *Program) []Obligation {
			isValidator := func(f *ssa.Function) bool {
				if f == nil || !p.InScope[f] {
					return false
				}
				empty, utf := false, false
				for _, b := range f.Blocks {
					for _, in := range b.Instrs {
						switch x := in.(type) {
						case *ssa.BinOp:
							if x.Op == token.EQL || x.Op == token.NEQ {
								for _, side := range []ssa.Value{x.X, x.Y} {
									if k, ok := side.(*ssa.Const); ok && k.Value != nil && k.Value.Kind() == constant.String && constant.StringVal(k.Value) == "" {
										empty = true
									}
								}
							}
						case *ssa.Call:
							if c := x.Common().StaticCallee(); c != nil && c.Pkg != nil && c.Pkg.Pkg.Path() == "unicode/utf8" && c.Name() == "ValidString" {
								utf = true
							}
						}
					}
				}
				return empty && utf
			}
			var out []Obligation
			for _, fname := range []string{"NewRaft", "(*Raft).Bootstrap", "(*Raft).AddServer"} {
				fn := p.Func(fname)
				if fn == nil {
					out = append(out, missing(id, fname)...)
					continue
				}
				ob := Obligation{Rule: id, Construct: "node IDs and addresses are validated on entry in " + fname, Pos: p.Pos(fn.Pos())}
				ok := false
				for _, b := range fn.Blocks {
					iff, isIf := b.Instrs[len(b.Instrs)-1].(*ssa.If)
					if !isIf {
						continue
					}
					cond, refuse := iff.Cond, 1 // valid(...) true -> go on, false -> refuse
					if u, isU := cond.(*ssa.UnOp); isU && u.Op == token.NOT {
						cond, refuse = u.X, 0
					}
					c, isCall := cond.(*ssa.Call)
					if !isCall || !isValidator(c.Common().StaticCallee()) {
						continue
					}
					// the refusing side leaves the function
					t := b.Succs[refuse]
					leaves := false
					for _, in := range t.Instrs {
						if _, isRet := in.(*ssa.Return); isRet {
							leaves = true
						}
					}
					if len(t.Succs) == 1 { // defer-style epilogue: rundefers; return in the next block
						for _, in := range t.Succs[0].Instrs {
							if _, isRet := in.(*ssa.Return); isRet {
								leaves = true
							}
						}
					}
					if leaves && len(t.Preds) == 1 {
						ok = true
						ob.Pos = p.InstrPos(iff)
					}
				}
				if ok {
					ob.Verdict, ob.Detail = Discharged, "the function branches on a predicate that excludes \"\" and invalid UTF-8, and the refusing side returns"
				} else {
					ob.Verdict = Violated
					ob.Detail = "an empty node ID (the very value votedFor uses for \"has not voted\": a vote for such a node is forgotten and cast again in the same term) or an ID/address that is not valid UTF-8 " +
						"(which cannot be encoded; in AddServer the encoding error is fatal and ends the process) is accepted here"
				}
				out = append(out, ob)
			}
			return out
		},
	}
}
