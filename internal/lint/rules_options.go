package lint

import (
	"go/token"
	"go/types"
	"strings"

	"golang.org/x/tools/go/ssa"
)

// ruleOptionRange: C18 OPTION-RANGE (invalid arguments must be refused, not crash the node later).
//
//	LEVEL    every store to the logger's level field of a value that is not a declared constant is dominated, in the
//	         same function, by a comparison of that value with the largest level (Fatal) whose failing outcome returns
//	         an error. Otherwise a level beyond Fatal silences Fatal itself: (*Logger).Fatal returns, and every caller that
//	         relies on "a failed write of term/vote/log terminates the process" carries on as if the write had succeeded.
//	         (This is also the premise under which this checker treats Fatal/Fatalf as calls that do not return.)
//	TIMEOUT  the election timeout option refuses durations whose millisecond count is below one: the election ticker
//	         draws from a range of whole milliseconds between one and two timeouts and panics (rand.Int63n(0)) on an
//	         empty range.
func ruleOptionRange() *Rule {
	const id = "OPTION-RANGE"
	return &Rule{
		ID: id,
		Text: "(LEVEL) a non-constant value is stored into the logger's level only after a test against Fatal that rejects larger values with an error (so (*Logger).Fatal never returns); " +
			"(TIMEOUT) WithElectionTimeout rejects durations of less than one millisecond with an error (the election ticker's random range would be empty and panic).",
		Floor: 2,
		Run: func(p *Program) []Obligation {
			var out []Obligation
			// ---- LEVEL
			var levelFld *types.Var
			for _, pk := range p.Pkgs {
				if pk.PkgPath != ModulePath+"/logging" {
					continue
				}
				if o := pk.Types.Scope().Lookup("options"); o != nil {
					if st, ok := o.Type().Underlying().(*types.Struct); ok {
						for i := 0; i < st.NumFields(); i++ {
							if st.Field(i).Name() == "level" {
								levelFld = st.Field(i)
							}
						}
					}
				}
			}
			fatalVal, _ := int64(4), true
			if levelFld == nil {
				out = append(out, missing(id, "logging.options.level")...)
			} else {
				for _, pk := range p.Pkgs {
					if pk.PkgPath == ModulePath+"/logging" {
						if c, ok := pk.Types.Scope().Lookup("Fatal").(*types.Const); ok {
							if v, ok2 := constantInt64(c); ok2 {
								fatalVal = v
							}
						}
					}
				}
				n := 0
				for _, fn := range p.SortedFuncs() {
					for _, b := range fn.Blocks {
						for _, in := range b.Instrs {
							st, fld := storeField(in)
							if st == nil || fld != levelFld {
								continue
							}
							if _, isConst := st.Val.(*ssa.Const); isConst {
								continue
							}
							n++
							ob := Obligation{Rule: id, Construct: "LEVEL store of a caller-supplied log level in " + FuncName(fn), Pos: p.InstrPos(in)}
							if rangeChecked(st.Val, st, fatalVal, true) {
								ob.Verdict, ob.Detail = Discharged, "dominated by a test against Fatal whose failing outcome returns an error: (*Logger).Fatal cannot be silenced"
							} else {
								ob.Verdict = Violated
								ob.Detail = "the level is stored without an upper bound: with a level beyond Fatal (*Logger).Fatal returns instead of terminating the process, so a failed write of term, vote or log is ignored and the node answers as if it had persisted it"
							}
							out = append(out, ob)
						}
					}
				}
				if n == 0 {
					out = append(out, Obligation{Rule: id, Construct: "LEVEL store of a caller-supplied log level", Verdict: AnchorLost, Detail: "no store of a non-constant level found"})
				}
			}
			// ---- TIMEOUT
			etFld := p.Field("options.electionTimeout")
			if etFld == nil {
				out = append(out, missing(id, "options.electionTimeout")...)
				return out
			}
			n := 0
			for _, fn := range p.SortedFuncs() {
				if !strings.HasPrefix(FuncName(fn), "WithElectionTimeout") {
					continue
				}
				for _, b := range fn.Blocks {
					for _, in := range b.Instrs {
						st, fld := storeField(in)
						if st == nil || fld != etFld {
							continue
						}
						n++
						ob := Obligation{Rule: id, Construct: "TIMEOUT store of the election timeout in " + FuncName(fn), Pos: p.InstrPos(in)}
						if millisChecked(st.Val, st) {
							ob.Verdict, ob.Detail = Discharged, "dominated by a test that rejects durations of less than one millisecond with an error"
						} else {
							ob.Verdict = Violated
							ob.Detail = "any duration is accepted: with less than half a millisecond (or a negative value) the election ticker calls rand.Int63n with a non-positive range and the process panics shortly after Start"
						}
						out = append(out, ob)
					}
				}
			}
			if n == 0 {
				out = append(out, Obligation{Rule: id, Construct: "TIMEOUT store of the election timeout in WithElectionTimeout", Verdict: AnchorLost, Detail: "no such store found"})
			}
			return out
		},
	}
}

func constantInt64(c *types.Const) (int64, bool) {
	s := c.Val().ExactString()
	var v int64
	neg := false
	for i, ch := range s {
		if i == 0 && ch == '-' {
			neg = true
			continue
		}
		if ch < '0' || ch > '9' {
			return 0, false
		}
		v = v*10 + int64(ch-'0')
	}
	if neg {
		v = -v
	}
	return v, true
}

// rangeChecked: the store is dominated by an If in the same function that compares v (possibly through the free
// variable / parameter it is) with the constant bound such that v > bound leads to a return of a non-nil error (upper
// == true), i.e. the store is reached only with v <= bound.
func rangeChecked(v ssa.Value, at ssa.Instruction, bound int64, upper bool) bool {
	fn := at.Parent()
	for _, b := range fn.Blocks {
		if len(b.Instrs) == 0 || !b.Dominates(at.Block()) {
			continue
		}
		iff, ok := b.Instrs[len(b.Instrs)-1].(*ssa.If)
		if !ok {
			continue
		}
		// collect the comparisons of the (possibly short-circuit) condition that sit in this block chain: accept
		// `x > bound` as the whole condition or as an operand of || (any operand true leads to the rejecting branch)
		if cmpRejects(iff, v, bound) && rejectingSucc(iff.Block().Succs[0]) && reaches(iff.Block().Succs[1], at.Block()) {
			return true
		}
	}
	// `a || v > bound`: the second operand is tested in a block that does not dominate the store's block directly when
	// the true edges merge; scan all Ifs whose true successor rejects and whose false successor leads to the store
	for _, b := range fn.Blocks {
		if len(b.Instrs) == 0 {
			continue
		}
		iff, ok := b.Instrs[len(b.Instrs)-1].(*ssa.If)
		if !ok || !cmpRejects(iff, v, bound) {
			continue
		}
		if rejectingSucc(b.Succs[0]) && b.Succs[1].Dominates(at.Block()) || (rejectingSucc(b.Succs[0]) && b.Succs[1] == at.Block()) {
			return true
		}
	}
	_ = upper
	return false
}

func cmpRejects(iff *ssa.If, v ssa.Value, bound int64) bool {
	bo, ok := iff.Cond.(*ssa.BinOp)
	if !ok {
		return false
	}
	same := func(x ssa.Value) bool {
		x = stripConv(x)
		if x == stripConv(v) {
			return true
		}
		// both are loads of the same captured variable
		u1, ok1 := x.(*ssa.UnOp)
		u2, ok2 := stripConv(v).(*ssa.UnOp)
		return ok1 && ok2 && u1.Op == token.MUL && u2.Op == token.MUL && u1.X == u2.X
	}
	switch {
	case bo.Op == token.GTR && same(bo.X) && isConstInt(bo.Y, bound):
		return true
	case bo.Op == token.GEQ && same(bo.X) && isConstInt(bo.Y, bound+1):
		return true
	case bo.Op == token.LSS && same(bo.Y) && isConstInt(bo.X, bound):
		return true
	case bo.Op == token.LEQ && same(bo.Y) && isConstInt(bo.X, bound+1):
		return true
	}
	return false
}

// rejectingSucc: the block (possibly after trivial jumps) returns a non-nil error.
func rejectingSucc(b *ssa.BasicBlock) bool {
	for i := 0; i < 4 && b != nil; i++ {
		last := b.Instrs[len(b.Instrs)-1]
		switch x := last.(type) {
		case *ssa.Return:
			if len(x.Results) == 0 {
				return false
			}
			r := x.Results[len(x.Results)-1]
			if c, ok := r.(*ssa.Const); ok && c.Value == nil {
				return false
			}
			return true
		case *ssa.Jump:
			b = b.Succs[0]
		default:
			return false
		}
	}
	return false
}

func reaches(from, to *ssa.BasicBlock) bool {
	seen := map[*ssa.BasicBlock]bool{}
	work := []*ssa.BasicBlock{from}
	for len(work) > 0 {
		x := work[len(work)-1]
		work = work[:len(work)-1]
		if seen[x] {
			continue
		}
		seen[x] = true
		if x == to {
			return true
		}
		work = append(work, x.Succs...)
	}
	return false
}

// millisChecked: the store of duration v is dominated by a test `v.Milliseconds() < 1` (or v < time.Millisecond, possibly
// as an operand of &&/||) whose true outcome returns an error.
func millisChecked(v ssa.Value, at ssa.Instruction) bool {
	fn := at.Parent()
	same := func(x ssa.Value) bool {
		x = stripConv(x)
		if x == stripConv(v) {
			return true
		}
		u1, ok1 := x.(*ssa.UnOp)
		u2, ok2 := stripConv(v).(*ssa.UnOp)
		return ok1 && ok2 && u1.Op == token.MUL && u2.Op == token.MUL && u1.X == u2.X
	}
	for _, b := range fn.Blocks {
		if len(b.Instrs) == 0 {
			continue
		}
		iff, ok := b.Instrs[len(b.Instrs)-1].(*ssa.If)
		if !ok {
			continue
		}
		bo, ok := iff.Cond.(*ssa.BinOp)
		if !ok {
			continue
		}
		hit := false
		// v.Milliseconds() < 1   |   v.Milliseconds() <= 0
		if c, ok := bo.X.(*ssa.Call); ok && c.Common().StaticCallee() != nil && c.Common().StaticCallee().Name() == "Milliseconds" && len(c.Common().Args) == 1 && same(c.Common().Args[0]) {
			if (bo.Op == token.LSS && isConstInt(bo.Y, 1)) || (bo.Op == token.LEQ && isConstInt(bo.Y, 0)) {
				hit = true
			}
		}
		// v < time.Millisecond (1000000)
		if same(bo.X) && bo.Op == token.LSS && isConstInt(bo.Y, 1000000) {
			hit = true
		}
		if !hit {
			continue
		}
		if rejectingSucc(b.Succs[0]) && (b.Succs[1] == at.Block() || b.Succs[1].Dominates(at.Block())) {
			return true
		}
	}
	return false
}

// ruleLeaseDuration: C17 LEASE-DURATION.
//
// The timing assumption of lease reads is stated in terms of the CONFIGURED lease duration (lease duration plus message
// delay below the election timeout). So the duration a lease is extended by at each renewal must be that option, at
// every place a lease is created — in particular the one a new leader gets: a lease built with the election timeout
// (or any other value) outlives the voters' promise by the reply delay.
func ruleLeaseDuration() *Rule {
	const id = "LEASE-DURATION"
	return &Rule{
		ID: id,
		Text: "Every lease is created with the configured lease duration (every call of newOperationManager passes options.leaseDuration; newOperationManager hands its parameter to newLease; newLease stores it in lease.duration), " +
			"and renew sets expiration := time.Now().Add(that duration) and nothing else writes it but the constructor.",
		Floor: 4,
		Run: func(p *Program) []Obligation {
			nom := p.Func("newOperationManager")
			nl := p.Func("newLease")
			renew := p.Func("(*lease).renew")
			durFld := p.Field("lease.duration")
			expFld := p.Field("lease.expiration")
			optFld := p.Field("options.leaseDuration")
			if nom == nil || nl == nil || renew == nil || durFld == nil || expFld == nil || optFld == nil {
				return missing(id, "newOperationManager / newLease / (*lease).renew / lease.duration / options.leaseDuration")
			}
			var out []Obligation
			isOptLoad := func(v ssa.Value) bool {
				u, ok := stripConv(v).(*ssa.UnOp)
				if !ok || u.Op != token.MUL {
					return false
				}
				fa, ok := u.X.(*ssa.FieldAddr)
				return ok && fieldOf(fa.X.Type(), fa.Field) == optFld
			}
			// 1. call sites of newOperationManager (and of newLease outside it)
			for _, fn := range p.SortedFuncs() {
				ord := 0
				for _, b := range fn.Blocks {
					for _, in := range b.Instrs {
						c, ok := in.(*ssa.Call)
						if !ok {
							continue
						}
						callee := c.Common().StaticCallee()
						if callee != nom && !(callee == nl && fn != nom) {
							continue
						}
						ord++
						ob := Obligation{Rule: id, Construct: "duration of the lease created by " + FuncName(callee) + ordSuffix(ord) + " in " + FuncName(fn), Pos: p.InstrPos(in)}
						if isOptLoad(c.Common().Args[0]) {
							ob.Verdict, ob.Detail = Discharged, "= options.leaseDuration"
						} else {
							ob.Verdict = Violated
							ob.Detail = "the lease is created with " + p.Canon(NewRootFrame(fn), c.Common().Args[0]).S + ", not with the configured lease duration: the timing assumption of lease reads (lease duration + message delay < election timeout) is stated for the configured value"
						}
						out = append(out, ob)
					}
				}
			}
			// 2. plumbing: newOperationManager -> newLease -> lease.duration
			ob := Obligation{Rule: id, Construct: "newOperationManager hands its duration to newLease", Pos: p.Pos(nom.Pos())}
			okPlumb := false
			for _, b := range nom.Blocks {
				for _, in := range b.Instrs {
					if c, ok := in.(*ssa.Call); ok && c.Common().StaticCallee() == nl && stripConv(c.Common().Args[0]) == ssa.Value(nom.Params[0]) {
						okPlumb = true
					}
				}
			}
			if okPlumb {
				ob.Verdict, ob.Detail = Discharged, "newLease(leaseDuration)"
			} else {
				ob.Verdict, ob.Detail = Violated, "newOperationManager does not pass its parameter to newLease unchanged"
			}
			out = append(out, ob)
			ob = Obligation{Rule: id, Construct: "newLease stores its duration", Pos: p.Pos(nl.Pos())}
			okStore := false
			for _, b := range nl.Blocks {
				for _, in := range b.Instrs {
					if s, fld := storeField(in); s != nil && fld == durFld && stripConv(s.Val) == ssa.Value(nl.Params[0]) {
						okStore = true
					}
				}
			}
			if okStore {
				ob.Verdict, ob.Detail = Discharged, "lease.duration := duration"
			} else {
				ob.Verdict, ob.Detail = Violated, "newLease does not store its parameter in lease.duration unchanged"
			}
			out = append(out, ob)
			// 3. renew: expiration := time.Now().Add(l.duration); writers of duration/expiration
			ob = Obligation{Rule: id, Construct: "renewal extends the lease by lease.duration from now", Pos: p.Pos(renew.Pos())}
			okRenew := false
			for _, b := range renew.Blocks {
				for _, in := range b.Instrs {
					s, fld := storeField(in)
					if s == nil || fld != expFld {
						continue
					}
					add, ok := s.Val.(*ssa.Call)
					if !ok || add.Common().StaticCallee() == nil || add.Common().StaticCallee().Name() != "Add" || len(add.Common().Args) != 2 {
						continue
					}
					now, ok := add.Common().Args[0].(*ssa.Call)
					if !ok || now.Common().StaticCallee() == nil || now.Common().StaticCallee().Name() != "Now" {
						continue
					}
					if u, ok := stripConv(add.Common().Args[1]).(*ssa.UnOp); ok && u.Op == token.MUL {
						if fa, ok := u.X.(*ssa.FieldAddr); ok && fieldOf(fa.X.Type(), fa.Field) == durFld {
							okRenew = true
						}
					}
				}
			}
			if okRenew {
				ob.Verdict, ob.Detail = Discharged, "expiration := time.Now().Add(l.duration)"
			} else {
				ob.Verdict, ob.Detail = Violated, "renew does not set expiration to time.Now().Add(l.duration)"
			}
			out = append(out, ob)
			// 4. validity is "now before expiration"
			if valid := p.Func("(*lease).isValid"); valid != nil {
				ob = Obligation{Rule: id, Construct: "validity test of the lease", Pos: p.Pos(valid.Pos())}
				okValid := false
				for _, b := range valid.Blocks {
					for _, in := range b.Instrs {
						ret, ok := in.(*ssa.Return)
						if !ok || len(ret.Results) != 1 {
							continue
						}
						c, ok := ret.Results[0].(*ssa.Call)
						if !ok || c.Common().StaticCallee() == nil || len(c.Common().Args) != 2 {
							continue
						}
						isNow := func(v ssa.Value) bool {
							n, ok := v.(*ssa.Call)
							return ok && n.Common().StaticCallee() != nil && n.Common().StaticCallee().Name() == "Now"
						}
						isExp := func(v ssa.Value) bool {
							u, ok := v.(*ssa.UnOp)
							if !ok || u.Op != token.MUL {
								return false
							}
							fa, ok := u.X.(*ssa.FieldAddr)
							return ok && fieldOf(fa.X.Type(), fa.Field) == expFld
						}
						switch c.Common().StaticCallee().Name() {
						case "Before":
							okValid = isNow(c.Common().Args[0]) && isExp(c.Common().Args[1])
						case "After":
							okValid = isExp(c.Common().Args[0]) && isNow(c.Common().Args[1])
						}
					}
				}
				if okValid {
					ob.Verdict, ob.Detail = Discharged, "time.Now().Before(l.expiration)"
				} else {
					ob.Verdict, ob.Detail = Violated, "isValid is not 'the current time is before the expiration': an expired lease can serve reads or make the leader ignore vote requests"
				}
				out = append(out, ob)
			}
			// other writers of the two fields
			for _, fn := range p.SortedFuncs() {
				if fn == nl || fn == renew {
					continue
				}
				for _, b := range fn.Blocks {
					for _, in := range b.Instrs {
						if s, fld := storeField(in); s != nil && (fld == durFld || fld == expFld) {
							out = append(out, Obligation{Rule: id, Construct: "write of lease." + fld.Name() + " in " + FuncName(fn), Pos: p.InstrPos(in), Verdict: Violated,
								Detail: "the lease's duration/expiration is written outside newLease and renew: the lease can be extended by something other than a confirmed round"})
						}
					}
				}
			}
			return out
		},
	}
}
