package lint

import (
	"go/constant"
	"go/token"
	"go/types"
	"strings"

	"golang.org/x/tools/go/ssa"
)

// ruleOptionRange: C18 OPTION-RANGE (invalid arguments must be refused, not crash the node later).
//
//	LEVEL    every store to the logger's level field of a value that is not a declared constant is dominated, in the
//	         same function, by a comparison of that value with the largest level (Fatal) whose failing outcome returns
//	         an error. Otherwise a level beyond Fatal silences Fatal itself: (*Logger).Fatal returns, and every caller that
//	         relies on "a failed write of term/vote/log terminates the process" carries on as if the write had succeeded.
//	         (This is also the premise under which this checker treats Fatal/Fatalf as calls that do not return.)
//	TIMEOUT  the election timeout option refuses durations whose millisecond count is below one: the election ticker
//	         draws from a range of whole milliseconds between one and two timeouts and panics (rand.Int63n(0)) on an
//	         empty range.
func ruleOptionRange() *Rule {
	const id = "OPTION-RANGE"
	return &Rule{
		ID: id,
		Text: "(LEVEL) a non-constant value is stored into the logger's level only after a test against Fatal that rejects larger values with an error (so (*Logger).Fatal never returns); " +
			"(TIMEOUT) WithElectionTimeout rejects durations of less than one millisecond with an error (the election ticker's random range would be empty and panic).",
		Floor: 2,
		Run: func(p *Program) []Obligation {
			var out []Obligation
			// ---- LEVEL
			var levelFld *types.Var
			for _, pk := range p.Pkgs {
				if pk.PkgPath != ModulePath+"/logging" {
					continue
				}
				if o := pk.Types.Scope().Lookup("options"); o != nil {
					if st, ok := o.Type().Underlying().(*types.Struct); ok {
						for i := 0; i < st.NumFields(); i++ {
							if st.Field(i).Name() == "level" {
								levelFld = st.Field(i)
							}
						}
					}
				}
			}
			fatalVal, _ := int64(4), true
			if levelFld == nil {
				out = append(out, missing(id, "logging.options.level")...)
			} else {
				for _, pk := range p.Pkgs {
					if pk.PkgPath == ModulePath+"/logging" {
						if c, ok := pk.Types.Scope().Lookup("Fatal").(*types.Const); ok {
							if v, ok2 := constantInt64(c); ok2 {
								fatalVal = v
							}
						}
					}
				}
				n := 0
				for _, fn := range p.SortedFuncs() {
					for _, b := range fn.Blocks {
						for _, in := range b.Instrs {
							st, fld := storeField(in)
							if st == nil || fld != levelFld {
								continue
							}
							if _, isConst := st.Val.(*ssa.Const); isConst {
								continue
							}
							n++
							ob := Obligation{Rule: id, Construct: "LEVEL store of a caller-supplied log level in " + FuncName(fn), Pos: p.InstrPos(in)}
							if rangeChecked(st.Val, st, fatalVal, true) {
								ob.Verdict, ob.Detail = Discharged, "dominated by a test against Fatal whose failing outcome returns an error: (*Logger).Fatal cannot be silenced"
							} else {
								ob.Verdict = Violated
								ob.Detail = "the level is stored without an upper bound: with a level beyond Fatal (*Logger).Fatal returns instead of terminating the process, so a failed write of term, vote or log is ignored and the node answers as if it had persisted it"
							}
							out = append(out, ob)
						}
					}
				}
				if n == 0 {
					out = append(out, Obligation{Rule: id, Construct: "LEVEL store of a caller-supplied log level", Verdict: AnchorLost, Detail: "no store of a non-constant level found"})
				}
			}
			// ---- TIMEOUT
			etFld := p.Field("options.electionTimeout")
			if etFld == nil {
				out = append(out, missing(id, "options.electionTimeout")...)
				return out
			}
			n := 0
			for _, fn := range p.SortedFuncs() {
				if !strings.HasPrefix(FuncName(fn), "WithElectionTimeout") {
					continue
				}
				for _, b := range fn.Blocks {
					for _, in := range b.Instrs {
						st, fld := storeField(in)
						if st == nil || fld != etFld {
							continue
						}
						n++
						ob := Obligation{Rule: id, Construct: "TIMEOUT store of the election timeout in " + FuncName(fn), Pos: p.InstrPos(in)}
						if millisChecked(st.Val, st) {
							ob.Verdict, ob.Detail = Discharged, "dominated by a test that rejects durations of less than one millisecond with an error"
						} else {
							ob.Verdict = Violated
							ob.Detail = "any duration is accepted: with less than half a millisecond (or a negative value) the election ticker calls rand.Int63n with a non-positive range and the process panics shortly after Start"
						}
						out = append(out, ob)
						// (D55) and an upper bound: the ticker computes 2*electionTimeout
						ub := Obligation{Rule: id, Construct: "TIMEOUT upper bound of the election timeout in " + FuncName(fn), Pos: p.InstrPos(in)}
						if timeoutUpperBounded(st) {
							ub.Verdict, ub.Detail = Discharged, "dominated by a test that rejects durations above a constant of at most half the largest duration"
						} else {
							ub.Verdict = Violated
							ub.Detail = "no upper bound: for a timeout above half of the largest duration (math.MaxInt64 as \"never\") the election ticker's 2*electionTimeout overflows to a negative value, rand.Int63n panics in a background goroutine and the process dies shortly after Start"
						}
						out = append(out, ub)
					}
				}
			}
			if n == 0 {
				out = append(out, Obligation{Rule: id, Construct: "TIMEOUT store of the election timeout in WithElectionTimeout", Verdict: AnchorLost, Detail: "no such store found"})
			}
			return out
		},
	}
}

func constantInt64(c *types.Const) (int64, bool) {
	s := c.Val().ExactString()
	var v int64
	neg := false
	for i, ch := range s {
		if i == 0 && ch == '-' {
			neg = true
			continue
		}
		if ch < '0' || ch > '9' {
			return 0, false
		}
		v = v*10 + int64(ch-'0')
	}
	if neg {
		v = -v
	}
	return v, true
}

// rangeChecked: the store is dominated by an If in the same function that compares v (possibly through the free
// variable / parameter it is) with the constant bound such that v > bound leads to a return of a non-nil error (upper
// == true), i.e. the store is reached only with v <= bound.
func rangeChecked(v ssa.Value, at ssa.Instruction, bound int64, upper bool) bool {
	fn := at.Parent()
	for _, b := range fn.Blocks {
		if len(b.Instrs) == 0 || !b.Dominates(at.Block()) {
			continue
		}
		iff, ok := b.Instrs[len(b.Instrs)-1].(*ssa.If)
		if !ok {
			continue
		}
		// collect the comparisons of the (possibly short-circuit) condition that sit in this block chain: accept
		// `x > bound` as the whole condition or as an operand of || (any operand true leads to the rejecting branch)
		if cmpRejects(iff, v, bound) && rejectingSucc(iff.Block().Succs[0]) && reaches(iff.Block().Succs[1], at.Block()) {
			return true
		}
	}
	// `a || v > bound`: the second operand is tested in a block that does not dominate the store's block directly when
	// the true edges merge; scan all Ifs whose true successor rejects and whose false successor leads to the store
	for _, b := range fn.Blocks {
		if len(b.Instrs) == 0 {
			continue
		}
		iff, ok := b.Instrs[len(b.Instrs)-1].(*ssa.If)
		if !ok || !cmpRejects(iff, v, bound) {
			continue
		}
		if rejectingSucc(b.Succs[0]) && b.Succs[1].Dominates(at.Block()) || (rejectingSucc(b.Succs[0]) && b.Succs[1] == at.Block()) {
			return true
		}
	}
	_ = upper
	return false
}

func cmpRejects(iff *ssa.If, v ssa.Value, bound int64) bool {
	bo, ok := iff.Cond.(*ssa.BinOp)
	if !ok {
		return false
	}
	same := func(x ssa.Value) bool {
		x = stripConv(x)
		if x == stripConv(v) {
			return true
		}
		// both are loads of the same captured variable
		u1, ok1 := x.(*ssa.UnOp)
		u2, ok2 := stripConv(v).(*ssa.UnOp)
		return ok1 && ok2 && u1.Op == token.MUL && u2.Op == token.MUL && u1.X == u2.X
	}
	switch {
	case bo.Op == token.GTR && same(bo.X) && isConstInt(bo.Y, bound):
		return true
	case bo.Op == token.GEQ && same(bo.X) && isConstInt(bo.Y, bound+1):
		return true
	case bo.Op == token.LSS && same(bo.Y) && isConstInt(bo.X, bound):
		return true
	case bo.Op == token.LEQ && same(bo.Y) && isConstInt(bo.X, bound+1):
		return true
	}
	return false
}

// rejectingSucc: the block (possibly after trivial jumps) returns a non-nil error.
func rejectingSucc(b *ssa.BasicBlock) bool {
	for i := 0; i < 4 && b != nil; i++ {
		last := b.Instrs[len(b.Instrs)-1]
		switch x := last.(type) {
		case *ssa.Return:
			if len(x.Results) == 0 {
				return false
			}
			r := x.Results[len(x.Results)-1]
			if c, ok := r.(*ssa.Const); ok && c.Value == nil {
				return false
			}
			return true
		case *ssa.Jump:
			b = b.Succs[0]
		default:
			return false
		}
	}
	return false
}

func reaches(from, to *ssa.BasicBlock) bool {
	seen := map[*ssa.BasicBlock]bool{}
	work := []*ssa.BasicBlock{from}
	for len(work) > 0 {
		x := work[len(work)-1]
		work = work[:len(work)-1]
		if seen[x] {
			continue
		}
		seen[x] = true
		if x == to {
			return true
		}
		work = append(work, x.Succs...)
	}
	return false
}

// millisChecked: the store of duration v is dominated by a test `v.Milliseconds() < 1` (or v < time.Millisecond, possibly
// as an operand of &&/||) whose true outcome returns an error.
func millisChecked(v ssa.Value, at ssa.Instruction) bool {
	fn := at.Parent()
	same := func(x ssa.Value) bool {
		x = stripConv(x)
		if x == stripConv(v) {
			return true
		}
		u1, ok1 := x.(*ssa.UnOp)
		u2, ok2 := stripConv(v).(*ssa.UnOp)
		return ok1 && ok2 && u1.Op == token.MUL && u2.Op == token.MUL && u1.X == u2.X
	}
	for _, b := range fn.Blocks {
		if len(b.Instrs) == 0 {
			continue
		}
		iff, ok := b.Instrs[len(b.Instrs)-1].(*ssa.If)
		if !ok {
			continue
		}
		bo, ok := iff.Cond.(*ssa.BinOp)
		if !ok {
			continue
		}
		hit := false
		// v.Milliseconds() < 1   |   v.Milliseconds() <= 0
		if c, ok := bo.X.(*ssa.Call); ok && c.Common().StaticCallee() != nil && c.Common().StaticCallee().Name() == "Milliseconds" && len(c.Common().Args) == 1 && same(c.Common().Args[0]) {
			if (bo.Op == token.LSS && isConstInt(bo.Y, 1)) || (bo.Op == token.LEQ && isConstInt(bo.Y, 0)) {
				hit = true
			}
		}
		// v < time.Millisecond (1000000)
		if same(bo.X) && bo.Op == token.LSS && isConstInt(bo.Y, 1000000) {
			hit = true
		}
		if !hit {
			continue
		}
		if rejectingSucc(b.Succs[0]) && (b.Succs[1] == at.Block() || b.Succs[1].Dominates(at.Block())) {
			return true
		}
	}
	return false
}

// ruleLeaseDuration: C17 LEASE-DURATION.
//
// The timing assumption of lease reads is stated in terms of the CONFIGURED lease duration (lease duration plus message
// delay below the election timeout). So the duration a lease is extended by at each renewal must be that option, at
// every place a lease is created — in particular the one a new leader gets: a lease built with the election timeout
// (or any other value) outlives the voters' promise by the reply delay.
func ruleLeaseDuration() *Rule {
	const id = "LEASE-DURATION"
	return &Rule{
		ID: id,
		Text: "Every lease is created with the configured lease duration (every call of newOperationManager passes options.leaseDuration; newOperationManager hands its parameter to newLease; newLease stores it in lease.duration), " +
			"and every renewal sets expiration := T.Add(that duration), nothing else writes the two fields but the constructor. " +
			"(LEASE-BASE) T is a time.Now() taken BEFORE the requests whose replies justify the renewal are sent: on no call chain from the function that reads the clock to the store does a Transport.SendAppendEntries call precede " +
			"(a voter's promise not to vote runs from the moment it RECEIVED the request; counted from the arrival of the reply, the lease outlives the promise of the voter that answered first by up to two message delays).",
		Floor: 4,
		Run: func(p *Program) []Obligation {
			nom := p.Func("newOperationManager")
			nl := p.Func("newLease")
			durFld := p.Field("lease.duration")
			expFld := p.Field("lease.expiration")
			optFld := p.Field("options.leaseDuration")
			if nom == nil || nl == nil || durFld == nil || expFld == nil || optFld == nil {
				return missing(id, "newOperationManager / newLease / lease.duration / lease.expiration / options.leaseDuration")
			}
			var out []Obligation
			isOptLoad := func(v ssa.Value) bool {
				u, ok := stripConv(v).(*ssa.UnOp)
				if !ok || u.Op != token.MUL {
					return false
				}
				fa, ok := u.X.(*ssa.FieldAddr)
				return ok && fieldOf(fa.X.Type(), fa.Field) == optFld
			}
			// 1. call sites of newOperationManager (and of newLease outside it)
			for _, fn := range p.SortedFuncs() {
				ord := 0
				for _, b := range fn.Blocks {
					for _, in := range b.Instrs {
						c, ok := in.(*ssa.Call)
						if !ok {
							continue
						}
						callee := c.Common().StaticCallee()
						if callee != nom && !(callee == nl && fn != nom) {
							continue
						}
						ord++
						ob := Obligation{Rule: id, Construct: "duration of the lease created by " + FuncName(callee) + ordSuffix(ord) + " in " + FuncName(fn), Pos: p.InstrPos(in)}
						if isOptLoad(c.Common().Args[0]) {
							ob.Verdict, ob.Detail = Discharged, "= options.leaseDuration"
						} else {
							ob.Verdict = Violated
							ob.Detail = "the lease is created with " + p.Canon(NewRootFrame(fn), c.Common().Args[0]).S + ", not with the configured lease duration: the timing assumption of lease reads (lease duration + message delay < election timeout) is stated for the configured value"
						}
						out = append(out, ob)
					}
				}
			}
			// 2. plumbing: newOperationManager -> newLease -> lease.duration
			ob := Obligation{Rule: id, Construct: "newOperationManager hands its duration to newLease", Pos: p.Pos(nom.Pos())}
			okPlumb := false
			for _, b := range nom.Blocks {
				for _, in := range b.Instrs {
					if c, ok := in.(*ssa.Call); ok && c.Common().StaticCallee() == nl && stripConv(c.Common().Args[0]) == ssa.Value(nom.Params[0]) {
						okPlumb = true
					}
				}
			}
			if okPlumb {
				ob.Verdict, ob.Detail = Discharged, "newLease(leaseDuration)"
			} else {
				ob.Verdict, ob.Detail = Violated, "newOperationManager does not pass its parameter to newLease unchanged"
			}
			out = append(out, ob)
			ob = Obligation{Rule: id, Construct: "newLease stores its duration", Pos: p.Pos(nl.Pos())}
			okStore := false
			for _, b := range nl.Blocks {
				for _, in := range b.Instrs {
					if s, fld := storeField(in); s != nil && fld == durFld && stripConv(s.Val) == ssa.Value(nl.Params[0]) {
						okStore = true
					}
				}
			}
			if okStore {
				ob.Verdict, ob.Detail = Discharged, "lease.duration := duration"
			} else {
				ob.Verdict, ob.Detail = Violated, "newLease does not store its parameter in lease.duration unchanged"
			}
			out = append(out, ob)
			// 3. renewal: every store of lease.expiration outside the constructor is  T.Add(l.duration)  with T the
			// current time or a time handed in by the caller; (LEASE-BASE) T is taken before the requests are sent.
			for _, fn := range p.SortedFuncs() {
				if fn == nl {
					continue
				}
				for _, b := range fn.Blocks {
					for _, in := range b.Instrs {
						s, fld := storeField(in)
						if s == nil || fld != expFld {
							continue
						}
						ob = Obligation{Rule: id, Construct: "renewal extends the lease by lease.duration in " + FuncName(fn), Pos: p.InstrPos(in)}
						base, okForm := leaseRenewalBase(s.Val, durFld)
						switch {
						case !okForm:
							ob.Verdict, ob.Detail = Violated, "the stored expiration is not <time>.Add(l.duration)"
						default:
							ob.Verdict, ob.Detail = Discharged, "expiration := "+describeTimeBase(base)+".Add(l.duration)"
							out = append(out, ob)
							out = append(out, leaseBase(p, id, fn, base)...)
							// a time handed in by the caller can be older than the one the lease was last renewed from (the
							// reply that completes round k may arrive after round k+1 was confirmed): the lease only moves forward
							if !isTimeNow(base) {
								mono := Obligation{Rule: id, Construct: "LEASE-MONO renewal never shortens the lease in " + FuncName(fn), Pos: p.InstrPos(in)}
								if leaseStoreGuardedByAfter(s, expFld) {
									mono.Verdict, mono.Detail = Discharged, "the store is reached only if the new expiration is after the current one"
								} else {
									mono.Verdict = Violated
									mono.Detail = "the expiration is overwritten with a time counted from a caller-supplied instant without testing that it is later than the current one: a reply that arrives late (its round's send time long past) moves the lease of a healthy leader into the past, " +
										"and until the next confirmed round the leader — whose only protection against vote requests is its lease — grants a rejoining node's prevote and steps down on its vote request"
								}
								out = append(out, mono)
							}
							continue
						}
						out = append(out, ob)
					}
				}
			}
			// 4. validity is "now before expiration"
			if valid := p.Func("(*lease).isValid"); valid != nil {
				ob = Obligation{Rule: id, Construct: "validity test of the lease", Pos: p.Pos(valid.Pos())}
				okValid := false
				for _, b := range valid.Blocks {
					for _, in := range b.Instrs {
						ret, ok := in.(*ssa.Return)
						if !ok || len(ret.Results) != 1 {
							continue
						}
						c, ok := ret.Results[0].(*ssa.Call)
						if !ok || c.Common().StaticCallee() == nil || len(c.Common().Args) != 2 {
							continue
						}
						isNow := func(v ssa.Value) bool {
							n, ok := v.(*ssa.Call)
							return ok && n.Common().StaticCallee() != nil && n.Common().StaticCallee().Name() == "Now"
						}
						isExp := func(v ssa.Value) bool {
							u, ok := v.(*ssa.UnOp)
							if !ok || u.Op != token.MUL {
								return false
							}
							fa, ok := u.X.(*ssa.FieldAddr)
							return ok && fieldOf(fa.X.Type(), fa.Field) == expFld
						}
						switch c.Common().StaticCallee().Name() {
						case "Before":
							okValid = isNow(c.Common().Args[0]) && isExp(c.Common().Args[1])
						case "After":
							okValid = isExp(c.Common().Args[0]) && isNow(c.Common().Args[1])
						}
					}
				}
				if okValid {
					ob.Verdict, ob.Detail = Discharged, "time.Now().Before(l.expiration)"
				} else {
					ob.Verdict, ob.Detail = Violated, "isValid is not 'the current time is before the expiration': an expired lease can serve reads or make the leader ignore vote requests"
				}
				out = append(out, ob)
			}
			// other writers of the two fields
			for _, fn := range p.SortedFuncs() {
				if fn == nl {
					continue
				}
				for _, b := range fn.Blocks {
					for _, in := range b.Instrs {
						if s, fld := storeField(in); s != nil && fld == durFld {
							out = append(out, Obligation{Rule: id, Construct: "write of lease." + fld.Name() + " in " + FuncName(fn), Pos: p.InstrPos(in), Verdict: Violated,
								Detail: "the lease's duration is written outside newLease: the lease can be extended by something other than the configured duration"})
						}
					}
				}
			}
			return out
		},
	}
}

// leaseRenewFns: the functions that store lease.expiration (other than the constructor) and the methods of lease that
// call them.
func leaseRenewFns(p *Program) map[*ssa.Function]bool {
	out := map[*ssa.Function]bool{}
	expFld := p.Field("lease.expiration")
	nl := p.Func("newLease")
	if expFld == nil {
		return out
	}
	for _, fn := range p.SortedFuncs() {
		if fn == nl {
			continue
		}
		for _, b := range fn.Blocks {
			for _, in := range b.Instrs {
				if s, fld := storeField(in); s != nil && fld == expFld {
					out[fn] = true
				}
			}
		}
	}
	for changed := true; changed; {
		changed = false
		for _, fn := range p.SortedFuncs() {
			if out[fn] || fn.Signature.Recv() == nil || !strings.Contains(fn.Signature.Recv().Type().String(), ".lease") {
				continue
			}
			for _, b := range fn.Blocks {
				for _, in := range b.Instrs {
					if c, ok := in.(*ssa.Call); ok && c.Common().StaticCallee() != nil && out[c.Common().StaticCallee()] {
						out[fn] = true
						changed = true
					}
				}
			}
		}
	}
	return out
}

// leaseRenewalBase matches  T.Add(l.duration)  (possibly through a phi of such values / a local) and returns T.
func leaseRenewalBase(v ssa.Value, durFld *types.Var) (ssa.Value, bool) {
	add, ok := v.(*ssa.Call)
	if !ok || add.Common().StaticCallee() == nil || add.Common().StaticCallee().String() != "(time.Time).Add" || len(add.Common().Args) != 2 {
		return nil, false
	}
	u, ok := stripConv(add.Common().Args[1]).(*ssa.UnOp)
	if !ok || u.Op != token.MUL {
		return nil, false
	}
	fa, ok := u.X.(*ssa.FieldAddr)
	if !ok || fieldOf(fa.X.Type(), fa.Field) != durFld {
		return nil, false
	}
	return add.Common().Args[0], true
}

func isTimeNow(v ssa.Value) bool {
	c, ok := v.(*ssa.Call)
	return ok && c.Common().StaticCallee() != nil && c.Common().StaticCallee().String() == "time.Now"
}

func describeTimeBase(v ssa.Value) string {
	if isTimeNow(v) {
		return "time.Now()"
	}
	if par, ok := v.(*ssa.Parameter); ok {
		return par.Name()
	}
	return v.Name()
}

// leaseBase decides LEASE-BASE for one renewal: base is the time the stored expiration is counted from, fn the
// function that stores it. The value is followed upwards through parameters (calls and go statements) to the
// time.Now() calls it comes from; on the way, at every call site the chain passes through and at the clock read
// itself, no synchronous Transport.SendAppendEntries may precede within the same function.
func leaseBase(p *Program, id string, fn *ssa.Function, base ssa.Value) []Obligation {
	var out []Obligation
	type item struct {
		fn    *ssa.Function
		v     ssa.Value
		below ssa.Instruction // the site in fn through which the chain continues downwards (nil at the store)
		chain string
	}
	sendsBefore := func(f *ssa.Function, at ssa.Instruction) ssa.Instruction {
		// a synchronous Transport.Send* (directly or in a synchronously called in-scope function) from which `at` is reachable
		var found ssa.Instruction
		for _, b := range f.Blocks {
			for _, in := range b.Instrs {
				if found != nil {
					break
				}
				ci, ok := in.(*ssa.Call)
				if !ok {
					continue
				}
				if !isHeartbeatSend(ci.Common()) && !p.callsTransportSend(ci.Common().StaticCallee(), map[*ssa.Function]bool{}) {
					continue
				}
				if in == at {
					continue
				}
				if instrReaches(in, at) {
					found = in
				}
			}
		}
		return found
	}
	seen := map[string]bool{}
	work := []item{{fn: fn, v: base, chain: FuncName(fn)}}
	n := 0
	for len(work) > 0 && n < 200 {
		n++
		it := work[0]
		work = work[1:]
		key := FuncName(it.fn) + "|" + it.v.Name() + "|" + it.chain
		if seen[key] {
			continue
		}
		seen[key] = true
		switch v := it.v.(type) {
		case *ssa.Call:
			ob := Obligation{Rule: id, Construct: "LEASE-BASE clock read in " + FuncName(it.fn) + " for the renewal in " + FuncName(fn), Pos: p.InstrPos(v)}
			if !isTimeNow(v) {
				ob.Verdict, ob.Detail = Undecided, "the time the lease is counted from is the result of "+calleeName(v.Common())+", not a clock read or a parameter"
				out = append(out, ob)
				continue
			}
			if s := sendsBefore(it.fn, v); s != nil {
				ob.Verdict = Violated
				ob.Detail = "the clock is read after " + p.InstrPos(s) + " has sent a request and waited for its reply: the lease is counted from the ARRIVAL of a reply, the voters' promise from the RECEIPT of the request — with two voters reached at different times the lease outlives the promise of the first by up to two message delays (chain: " + it.chain + ")"
				out = append(out, ob)
				continue
			}
			// upwards: callers of it.fn must not have sent before calling
			bad := ""
			var up func(f *ssa.Function, depth int, chain string)
			visited := map[*ssa.Function]bool{}
			up = func(f *ssa.Function, depth int, chain string) {
				if visited[f] || depth > 6 || bad != "" {
					return
				}
				visited[f] = true
				for _, site := range p.Callers[f] {
					cs := site.Instr
					if _, isGo := cs.(*ssa.Go); isGo {
						continue // a new goroutine: what its spawner sent earlier belongs to an earlier round
					}
					cf := cs.Parent()
					if !p.InScope[cf] {
						continue
					}
					if s := sendsBefore(cf, cs.(ssa.Instruction)); s != nil {
						bad = FuncName(cf) + " sends at " + p.InstrPos(s) + " before it calls " + FuncName(f) + " at " + p.InstrPos(cs.(ssa.Instruction)) + " (chain: " + FuncName(cf) + " > " + chain + ")"
						return
					}
					up(cf, depth+1, FuncName(cf)+" > "+chain)
				}
			}
			up(it.fn, 0, it.chain)
			if bad != "" {
				ob.Verdict = Violated
				ob.Detail = "the clock is read after a request was sent and its reply awaited: " + bad + ": the lease is counted from the arrival of a reply, not from the moment the round was sent"
			} else {
				ob.Verdict, ob.Detail = Discharged, "the clock is read before any request of the chain is sent (chain: "+it.chain+")"
			}
			out = append(out, ob)
		case *ssa.Parameter:
			idx := -1
			for i, par := range it.fn.Params {
				if par == v {
					idx = i
				}
			}
			callers := p.Callers[it.fn]
			if idx < 0 || len(callers) == 0 {
				out = append(out, Obligation{Rule: id, Construct: "LEASE-BASE time parameter " + v.Name() + " of " + FuncName(it.fn), Pos: p.Pos(it.fn.Pos()), Verdict: Undecided,
					Detail: "no in-scope caller supplies the time the lease is counted from"})
				continue
			}
			for _, site := range callers {
				cs := site.Instr
				cf := cs.Parent()
				if !p.InScope[cf] {
					continue
				}
				args := cs.Common().Args
				if idx >= len(args) {
					continue
				}
				work = append(work, item{fn: cf, v: args[idx], below: cs.(ssa.Instruction), chain: FuncName(cf) + " > " + it.chain})
			}
		default:
			out = append(out, Obligation{Rule: id, Construct: "LEASE-BASE time base of the renewal in " + FuncName(fn) + " as supplied by " + FuncName(it.fn), Pos: p.Pos(it.fn.Pos()), Verdict: Violated,
				Detail: "the time the lease is counted from is neither a clock read nor handed down from one (" + v.String() + "): a time kept in shared state and read when the reply arrives belongs to whichever round wrote it last (chain: " + it.chain + ")"})
		}
	}
	return out
}

// instrReaches: is `to` executed after `from` on some path of their function (same block later, or a reachable block)?
func instrReaches(from, to ssa.Instruction) bool {
	if from.Block() == to.Block() {
		after := false
		for _, in := range from.Block().Instrs {
			if in == from {
				after = true
				continue
			}
			if in == to && after {
				return true
			}
		}
		// the same block again through a loop
	}
	return blockReaches(from.Block(), to.Block())
}

// isHeartbeatSend: Transport.SendAppendEntries, the request whose replies are counted towards the confirmation of a
// round (CONFIRM-QUORUM ties the counting to its reply handler).
func isHeartbeatSend(c *ssa.CallCommon) bool {
	return isTransportSend(c) && c.Method.Name() == "SendAppendEntries"
}

// callsTransportSend: does fn (or a function it calls synchronously, in scope) invoke Transport.SendAppendEntries?
func (p *Program) callsTransportSend(fn *ssa.Function, seen map[*ssa.Function]bool) bool {
	if fn == nil || !p.InScope[fn] || seen[fn] {
		return false
	}
	seen[fn] = true
	for _, b := range fn.Blocks {
		for _, in := range b.Instrs {
			c, ok := in.(*ssa.Call)
			if !ok {
				continue
			}
			if isHeartbeatSend(c.Common()) {
				return true
			}
			if p.callsTransportSend(c.Common().StaticCallee(), seen) {
				return true
			}
		}
	}
	return false
}

// leaseStoreGuardedByAfter: the store of the expiration is dominated by the true arm of  new.After(old)  (or the
// false arm of its negation / of old.After(new) ... only the direct forms are recognised) where new is the stored
// value and old a load of the expiration field.
func leaseStoreGuardedByAfter(st *ssa.Store, expFld *types.Var) bool {
	fn := st.Parent()
	isOld := func(v ssa.Value) bool {
		u, ok := v.(*ssa.UnOp)
		if !ok || u.Op != token.MUL {
			return false
		}
		fa, ok := u.X.(*ssa.FieldAddr)
		return ok && fieldOf(fa.X.Type(), fa.Field) == expFld
	}
	for _, b := range fn.Blocks {
		iff, ok := b.Instrs[len(b.Instrs)-1].(*ssa.If)
		if !ok {
			continue
		}
		cond, edge := iff.Cond, 0
		if u, ok := cond.(*ssa.UnOp); ok && u.Op == token.NOT {
			cond, edge = u.X, 1
		}
		c, ok := cond.(*ssa.Call)
		if !ok || c.Common().StaticCallee() == nil || len(c.Common().Args) != 2 {
			continue
		}
		name := c.Common().StaticCallee().String()
		a0, a1 := c.Common().Args[0], c.Common().Args[1]
		okForm := (name == "(time.Time).After" && a0 == st.Val && isOld(a1)) || (name == "(time.Time).Before" && isOld(a0) && a1 == st.Val)
		if !okForm {
			continue
		}
		arm := b.Succs[edge]
		if len(arm.Preds) == 1 && arm.Dominates(st.Block()) {
			return true
		}
	}
	return false
}

// timeoutUpperBounded: the store is reached only on the not-greater side of a comparison of the stored value with a
// constant of at most 1<<62 (so that twice the value is still an int64).
func timeoutUpperBounded(st *ssa.Store) bool {
	fn := st.Parent()
	same := func(x ssa.Value) bool {
		x = stripConv(x)
		v := stripConv(st.Val)
		if x == v {
			return true
		}
		u1, ok1 := x.(*ssa.UnOp)
		u2, ok2 := v.(*ssa.UnOp)
		return ok1 && ok2 && u1.Op == token.MUL && u2.Op == token.MUL && u1.X == u2.X
	}
	for _, b := range fn.Blocks {
		iff, ok := b.Instrs[len(b.Instrs)-1].(*ssa.If)
		if !ok {
			continue
		}
		bo, ok := iff.Cond.(*ssa.BinOp)
		if !ok {
			continue
		}
		var k *ssa.Const
		side := -1 // successor on which value <= constant
		switch {
		case same(bo.X) && (bo.Op == token.GTR || bo.Op == token.GEQ):
			k, _ = bo.Y.(*ssa.Const)
			side = 1
		case same(bo.Y) && (bo.Op == token.LSS || bo.Op == token.LEQ):
			k, _ = bo.X.(*ssa.Const)
			side = 1
		case same(bo.X) && (bo.Op == token.LEQ || bo.Op == token.LSS):
			k, _ = bo.Y.(*ssa.Const)
			side = 0
		}
		if k == nil || k.Value == nil || k.Value.Kind() != constant.Int {
			continue
		}
		v, exact := constant.Int64Val(k.Value)
		if !exact || v <= 0 || v > 1<<62 {
			continue
		}
		if t := b.Succs[side]; t == st.Block() || t.Dominates(st.Block()) {
			return true
		}
	}
	return false
}
