package lint

// Ordering / typestate helper over the SSA control-flow graph (DESIGN §2.2 A5).
//
// A flowSpec describes a finite automaton whose events are instructions and branch edges.
// The engine explores the product of the control-flow graph of a root function, with calls to
// in-scope helpers inlined up to a small depth, and the automaton state, breadth first, so the
// first time a rule callback reports a breach the chain of parents is a shortest offending path.
//
// Besides the rule's own state the engine keeps two kinds of path facts that make the
// exploration sensitive to the error idiom of the repository:
//
//   - errNil(c) / errNon(c): the error result of call c was tested on this path and found nil /
//     non-nil (edge of an `if err != nil`), or the inlined callee returned a nil / non-nil error;
//   - condT(v) / condF(v): the boolean SSA value v was the condition of a branch taken on this path.
//
// A branch edge that contradicts a fact is infeasible and pruned. A fact about a call's error
// dies when the call is executed again; a fact about a condition dies when the instruction
// defining it, or one it is computed from, is executed again — so loops are sound.
// Paths end at returns of the root function, at panics and at calls p.IsNoReturnCall accepts.

import (
	"fmt"
	"go/constant"
	"go/token"
	"go/types"
	"sort"
	"strings"

	"golang.org/x/tools/go/ssa"
)

// sframe is one activation in the bounded-inlining exploration.
type sframe struct {
	fn     *ssa.Function
	parent *sframe
	site   ssa.CallInstruction
	id     int
	depth  int
}

func (fr *sframe) root() *sframe {
	for fr.parent != nil {
		fr = fr.parent
	}
	return fr
}

// within reports whether fr is other or one of its (transitive) callees.
func (fr *sframe) within(other *sframe) bool {
	for q := fr; q != nil; q = q.parent {
		if q == other {
			return true
		}
	}
	return false
}

type factKind byte

const (
	errNil factKind = iota
	errNon
	condT
	condF
	// errAlias: the error of call v (in fr) is the error of call v2 (in fr2): an inlined helper
	// returned the result of v2 untested, so a later test of v decides v2 as well.
	errAlias
)

type pfact struct {
	kind factKind
	fr   *sframe
	v    ssa.Value
	fr2  *sframe
	v2   ssa.Value
}

type factset []int // sorted interned fact ids

func (fs factset) key() string {
	var b strings.Builder
	for _, x := range fs {
		fmt.Fprintf(&b, "%x.", x)
	}
	return b.String()
}

func (fs factset) has(id int) bool {
	i := sort.SearchInts(fs, id)
	return i < len(fs) && fs[i] == id
}

func (fs factset) with(id int) factset {
	if fs.has(id) {
		return fs
	}
	out := make(factset, 0, len(fs)+1)
	out = append(out, fs...)
	out = append(out, id)
	sort.Ints(out)
	return out
}

func (fs factset) filter(keep func(id int) bool) factset {
	n := 0
	for _, x := range fs {
		if keep(x) {
			n++
		}
	}
	if n == len(fs) {
		return fs
	}
	out := make(factset, 0, n)
	for _, x := range fs {
		if keep(x) {
			out = append(out, x)
		}
	}
	return out
}

type fnodeKey struct {
	fr    int
	b     *ssa.BasicBlock
	i     int
	st    string
	facts string
}

type fnode struct {
	fr     *sframe
	b      *ssa.BasicBlock
	i      int
	st     string
	facts  factset
	parent *fnode
	note   string // how this node was reached (for the witness path)
}

func (n *fnode) key() fnodeKey {
	return fnodeKey{n.fr.id, n.b, n.i, n.st, n.facts.key()}
}

// flowSpec is one automaton over one root function.
type flowSpec struct {
	p        *Program
	root     *ssa.Function
	maxDepth int // inlining depth (default 2)
	// noInline lists callees (by calleeName) that are summarised by the rule instead of inlined.
	noInline map[string]bool
	// keepCond selects the branch conditions remembered as condT/condF facts (those the rule
	// will ask about through Conds). Conditions that are not kept cost nothing: paths that differ
	// only in them merge again. nil keeps none. Error tests are always tracked.
	keepCond func(fr *sframe, cond ssa.Value) bool
	// inlineVeto, when set, can refuse to inline a particular call.
	inlineVeto func(fr *sframe, c *ssa.Call) bool
	// instr is called for every instruction reached, before the engine applies its own semantics.
	// It returns the next automaton state; stop ends the path.
	instr func(v *flowVisit, in ssa.Instruction) (st string, stop bool)
	// edge is called for each feasible branch edge.
	edge func(v *flowVisit, iff *ssa.If, taken bool) (st string, stop bool)

	// Deferred collects the function literals deferred on explored paths, and the same-package
	// helpers that were not inlined because the depth bound was reached. The engine does not look
	// into them; a rule whose events could occur there asks DeferredMatch (which also follows
	// their static callees) and answers Undecided if so.
	Deferred map[*ssa.Function]bool

	frames   map[string]*sframe
	nframes  int
	facts    []pfact
	factIDs  map[pfact]int
	Explored int
	Overflow bool
}

// flowVisit is what a rule callback sees.
type flowVisit struct {
	s    *flowSpec
	n    *fnode
	Fr   *sframe
	St   string
	note string
}

func (s *flowSpec) intern(f pfact) int {
	if s.factIDs == nil {
		s.factIDs = map[pfact]int{}
	}
	if id, ok := s.factIDs[f]; ok {
		return id
	}
	id := len(s.facts)
	s.facts = append(s.facts, f)
	s.factIDs[f] = id
	return id
}

func (s *flowSpec) rootFrame() *sframe {
	return s.frame(nil, nil, s.root)
}

func (s *flowSpec) frame(parent *sframe, site ssa.CallInstruction, fn *ssa.Function) *sframe {
	if s.frames == nil {
		s.frames = map[string]*sframe{}
	}
	k := fmt.Sprintf("%p/%p/%p", parent, site, fn)
	if fr, ok := s.frames[k]; ok {
		return fr
	}
	fr := &sframe{fn: fn, parent: parent, site: site, id: s.nframes}
	if parent != nil {
		fr.depth = parent.depth + 1
	}
	s.nframes++
	s.frames[k] = fr
	return fr
}

// Note attaches a label for the current instruction to the witness path.
func (v *flowVisit) Note(format string, args ...interface{}) {
	v.note = fmt.Sprintf(format, args...)
}

// ErrNil reports whether the error of call c (a call value in frame fr) is known nil here.
func (v *flowVisit) ErrNil(fr *sframe, c ssa.Value) bool {
	id, ok := v.s.factIDs[pfact{kind: errNil, fr: fr, v: c}]
	return ok && v.n.facts.has(id)
}

// ErrNon reports whether the error of call c is known non-nil here.
func (v *flowVisit) ErrNon(fr *sframe, c ssa.Value) bool {
	id, ok := v.s.factIDs[pfact{kind: errNon, fr: fr, v: c}]
	return ok && v.n.facts.has(id)
}

// Conds enumerates the branch conditions decided on this path.
func (v *flowVisit) Conds(visit func(fr *sframe, cond ssa.Value, truth bool)) {
	for _, id := range v.n.facts {
		f := v.s.facts[id]
		switch f.kind {
		case condT:
			visit(f.fr, f.v, true)
		case condF:
			visit(f.fr, f.v, false)
		}
	}
}

// Path renders the witness path to the current instruction.
func (v *flowVisit) Path() []string {
	var rev []string
	if v.note != "" {
		rev = append(rev, v.note)
	}
	for n := v.n; n != nil; n = n.parent {
		if n.note != "" {
			rev = append(rev, n.note)
		}
	}
	for i, j := 0, len(rev)-1; i < j; i, j = i+1, j-1 {
		rev[i], rev[j] = rev[j], rev[i]
	}
	return rev
}

const flowNodeLimit = 400000

// RunFromEntry explores from the entry of the root function.
func (s *flowSpec) RunFromEntry(initial string) {
	fr := s.rootFrame()
	if len(s.root.Blocks) == 0 {
		return
	}
	s.run(&fnode{fr: fr, b: s.root.Blocks[0], i: 0, st: initial})
}

// RunAfter explores from the instruction following in (which must belong to the root function).
func (s *flowSpec) RunAfter(in ssa.Instruction, initial string) {
	fr := s.rootFrame()
	b := in.Block()
	for i, x := range b.Instrs {
		if x == in {
			s.run(&fnode{fr: fr, b: b, i: i + 1, st: initial})
			return
		}
	}
}

func (s *flowSpec) run(start *fnode) {
	if s.maxDepth == 0 {
		s.maxDepth = 2
	}
	seen := map[fnodeKey]bool{start.key(): true}
	queue := []*fnode{start}
	push := func(n *fnode) {
		k := n.key()
		if seen[k] {
			return
		}
		seen[k] = true
		queue = append(queue, n)
	}
	for len(queue) > 0 {
		n := queue[0]
		queue = queue[1:]
		s.Explored++
		if s.Explored > flowNodeLimit {
			s.Overflow = true
			return
		}
		if n.i >= len(n.b.Instrs) {
			continue
		}
		in := n.b.Instrs[n.i]
		// facts about a value die when it is recomputed
		facts := n.facts
		if val, ok := in.(ssa.Value); ok && len(facts) > 0 {
			facts = facts.filter(func(id int) bool {
				f := s.facts[id]
				if f.fr != n.fr {
					return true
				}
				if f.kind != condT && f.kind != condF {
					// a fact about a call's result holds until that very call runs again
					return f.v != val
				}
				return !dependsOn(f.v, val, 6)
			})
		}
		cur := &fnode{fr: n.fr, b: n.b, i: n.i, st: n.st, facts: facts, parent: n.parent, note: n.note}
		v := &flowVisit{s: s, n: cur, Fr: n.fr, St: n.st}
		st := n.st
		if s.instr != nil {
			var stop bool
			st, stop = s.instr(v, in)
			if stop {
				continue
			}
		}
		next := func(b *ssa.BasicBlock, i int, fr *sframe, st string, facts factset, note string) {
			push(&fnode{fr: fr, b: b, i: i, st: st, facts: facts, parent: cur, note: note})
		}
		switch x := in.(type) {
		case *ssa.If:
			for k, taken := range []bool{true, false} {
				ef, ok := s.edgeFacts(n.fr, x.Cond, taken, facts)
				if !ok {
					continue // infeasible
				}
				est := st
				note := fmt.Sprintf("%s: branch %v in %s", s.p.InstrPos(x), taken, FuncName(n.fr.fn))
				if s.edge != nil {
					ev := &flowVisit{s: s, n: &fnode{fr: n.fr, b: n.b, i: n.i, st: st, facts: ef, parent: cur}, Fr: n.fr, St: st}
					var stop bool
					est, stop = s.edge(ev, x, taken)
					if ev.note != "" {
						note += " [" + ev.note + "]"
					}
					if stop {
						continue
					}
				}
				next(n.b.Succs[k], 0, n.fr, est, ef, note)
			}
		case *ssa.Jump:
			next(n.b.Succs[0], 0, n.fr, st, facts, v.note)
		case *ssa.Return:
			if n.fr.parent == nil {
				continue
			}
			// back to the caller
			site := n.fr.site
			pf := s.returnFacts(n.fr, x, facts)
			sb := site.Block()
			for i, y := range sb.Instrs {
				if y == site.(ssa.Instruction) {
					next(sb, i+1, n.fr.parent, st, pf, joinNote(v.note, fmt.Sprintf("%s: return from %s", s.p.InstrPos(x), FuncName(n.fr.fn))))
					break
				}
			}
		case *ssa.Panic:
			continue
		case *ssa.Call:
			c := x.Common()
			if s.p.IsNoReturnCall(c) {
				continue
			}
			if callee := s.inlinable(n.fr, x); callee != nil {
				fr := s.frame(n.fr, x, callee)
				next(callee.Blocks[0], 0, fr, st, facts, joinNote(v.note, fmt.Sprintf("%s: enter %s", s.p.InstrPos(x), FuncName(callee))))
				continue
			}
			s.noteSkipped(n.fr, x)
			next(n.b, n.i+1, n.fr, st, facts, v.note)
		case *ssa.Defer:
			var k *ssa.Function
			switch f := x.Call.Value.(type) {
			case *ssa.MakeClosure:
				k, _ = f.Fn.(*ssa.Function)
			case *ssa.Function:
				k = f
			}
			if k != nil && len(k.Blocks) > 0 {
				if s.Deferred == nil {
					s.Deferred = map[*ssa.Function]bool{}
				}
				s.Deferred[k] = true
			}
			next(n.b, n.i+1, n.fr, st, facts, v.note)
		default:
			next(n.b, n.i+1, n.fr, st, facts, v.note)
		}
	}
}

// DeferredMatch returns an instruction that satisfies match in a function the engine did not
// look into (deferred function literals, helpers beyond the depth bound) or in a same-package
// function statically called from one.
func (s *flowSpec) DeferredMatch(match func(in ssa.Instruction) bool) ssa.Instruction {
	var fns []*ssa.Function
	for k := range s.Deferred {
		fns = append(fns, k)
	}
	sort.Slice(fns, func(i, j int) bool { return FuncName(fns[i]) < FuncName(fns[j]) })
	seen := map[*ssa.Function]bool{}
	for len(fns) > 0 {
		k := fns[0]
		fns = fns[1:]
		if seen[k] || len(seen) > 200 {
			continue
		}
		seen[k] = true
		for _, b := range k.Blocks {
			for _, in := range b.Instrs {
				if match(in) {
					return in
				}
				if c, ok := in.(ssa.CallInstruction); ok {
					if callee := c.Common().StaticCallee(); callee != nil && s.p.InScope[callee] && len(callee.Blocks) > 0 &&
						EnclosingDeclared(callee).Pkg == EnclosingDeclared(s.root).Pkg && !s.noInline[calleeName(c.Common())] {
						fns = append(fns, callee)
					}
				}
			}
		}
	}
	return nil
}

func joinNote(a, b string) string {
	if a == "" {
		return b
	}
	return a + "; " + b
}

// inlinable returns the in-scope callee to descend into, or nil.
func (s *flowSpec) inlinable(fr *sframe, call *ssa.Call) *ssa.Function {
	callee := call.Common().StaticCallee()
	if callee == nil || !s.p.InScope[callee] || len(callee.Blocks) == 0 {
		return nil
	}
	if fr.depth >= s.maxDepth {
		return nil
	}
	// helpers of the same package only (the logger, the transport, … are not part of any ordering rule)
	if a, b := EnclosingDeclared(callee), EnclosingDeclared(s.root); a.Pkg != b.Pkg {
		return nil
	}
	if s.noInline[calleeName(call.Common())] {
		return nil
	}
	if s.inlineVeto != nil && s.inlineVeto(fr, call) {
		return nil
	}
	for q := fr; q != nil; q = q.parent {
		if q.fn == callee {
			return nil // recursion
		}
	}
	return callee
}

// noteSkipped records a same-package helper the depth bound kept the engine out of.
func (s *flowSpec) noteSkipped(fr *sframe, call *ssa.Call) {
	callee := call.Common().StaticCallee()
	if callee == nil || !s.p.InScope[callee] || len(callee.Blocks) == 0 || fr.depth < s.maxDepth {
		return
	}
	if a, b := EnclosingDeclared(callee), EnclosingDeclared(s.root); a.Pkg != b.Pkg {
		return
	}
	if s.noInline[calleeName(call.Common())] || (s.inlineVeto != nil && s.inlineVeto(fr, call)) {
		return
	}
	if s.Deferred == nil {
		s.Deferred = map[*ssa.Function]bool{}
	}
	s.Deferred[callee] = true
}

// edgeFacts returns the facts after taking the edge, or false if the edge contradicts them.
func (s *flowSpec) edgeFacts(fr *sframe, cond ssa.Value, taken bool, facts factset) (factset, bool) {
	c, pol := stripNot(cond, taken)
	var add func(kind, opposite factKind, v ssa.Value, f *sframe) bool
	add = func(kind, opposite factKind, v ssa.Value, f *sframe) bool {
		if id, ok := s.factIDs[pfact{kind: opposite, fr: f, v: v}]; ok && facts.has(id) {
			return false
		}
		facts = facts.with(s.intern(pfact{kind: kind, fr: f, v: v}))
		if kind == errNil || kind == errNon {
			for _, id := range facts {
				if a := s.facts[id]; a.kind == errAlias && a.fr == f && a.v == v {
					if !add(kind, opposite, a.v2, a.fr2) {
						return false
					}
				}
			}
		}
		return true
	}
	if s.keepCond != nil && s.keepCond(fr, c) {
		if pol {
			if !add(condT, condF, c, fr) {
				return nil, false
			}
		} else {
			if !add(condF, condT, c, fr) {
				return nil, false
			}
		}
	}
	if call, cfr, nonNilOnTrue, ok := s.errTest(fr, c); ok {
		nonNil := nonNilOnTrue == pol
		if nonNil {
			if !add(errNon, errNil, call, cfr) {
				return nil, false
			}
		} else {
			if !add(errNil, errNon, call, cfr) {
				return nil, false
			}
		}
	}
	return facts, true
}

// stripNot removes leading negations; the returned polarity is the truth of the inner value.
func stripNot(cond ssa.Value, truth bool) (ssa.Value, bool) {
	for {
		u, ok := cond.(*ssa.UnOp)
		if !ok || u.Op != token.NOT {
			return cond, truth
		}
		cond = u.X
		truth = !truth
	}
}

// errTest recognises `e != nil` / `e == nil` where e is the error result of a call.
func (s *flowSpec) errTest(fr *sframe, cond ssa.Value) (call ssa.Value, cfr *sframe, nonNilOnTrue bool, ok bool) {
	b, isBin := cond.(*ssa.BinOp)
	if !isBin || (b.Op != token.NEQ && b.Op != token.EQL) {
		return nil, nil, false, false
	}
	x, y := b.X, b.Y
	if isNilConst(x) {
		x, y = y, x
	}
	if !isNilConst(y) || !isErrorType(x.Type()) {
		return nil, nil, false, false
	}
	cv, cf := s.errSource(fr, x)
	if cv == nil {
		return nil, nil, false, false
	}
	return cv, cf, b.Op == token.NEQ, true
}

// errSource maps an error-typed value to the call that produced it (the call value itself
// identifies the call), looking through result tuples, single-store locals and parameters of
// inlined frames.
func (s *flowSpec) errSource(fr *sframe, v ssa.Value) (ssa.Value, *sframe) {
	rf, rv := resolveIn(fr, v)
	switch x := rv.(type) {
	case *ssa.Call:
		if sig := x.Common().Signature(); sig.Results().Len() == 1 && isErrorType(sig.Results().At(0).Type()) {
			return x, rf
		}
	case *ssa.Extract:
		if c, ok := x.Tuple.(*ssa.Call); ok {
			res := c.Common().Signature().Results()
			if x.Index == res.Len()-1 && isErrorType(res.At(x.Index).Type()) {
				return c, rf
			}
		}
	}
	return nil, nil
}

// returnFacts translates the nil-ness of the error an inlined callee returns into a fact about
// the call site. The callee's own facts are kept (a rule may ask, after the helper returned,
// whether a call inside it succeeded); they die when the helper's instructions run again.
func (s *flowSpec) returnFacts(fr *sframe, ret *ssa.Return, facts factset) factset {
	out := facts
	res := fr.fn.Signature.Results()
	if res.Len() == 0 || !isErrorType(res.At(res.Len()-1).Type()) {
		return out
	}
	site, ok := fr.site.(*ssa.Call)
	if !ok {
		return out
	}
	rv := returnedValue(ret, res.Len()-1)
	has := func(kind factKind, f *sframe, v ssa.Value) bool {
		id, ok := s.factIDs[pfact{kind: kind, fr: f, v: v}]
		return ok && facts.has(id)
	}
	switch s.nilness(fr, rv, has) {
	case 0:
		out = out.with(s.intern(pfact{kind: errNil, fr: fr.parent, v: site}))
	case 1:
		out = out.with(s.intern(pfact{kind: errNon, fr: fr.parent, v: site}))
	default:
		if cv, cf := s.errSource(fr, rv); cv != nil {
			out = out.with(s.intern(pfact{kind: errAlias, fr: fr.parent, v: site, fr2: cf, v2: cv}))
		}
	}
	return out
}

// nilness: 0 nil, 1 non-nil, 2 unknown.
func (s *flowSpec) nilness(fr *sframe, rv ssa.Value, has func(factKind, *sframe, ssa.Value) bool) int {
	if rv == nil {
		return 2
	}
	if isNilConst(rv) {
		return 0
	}
	if c, ok := rv.(*ssa.Call); ok && isErrorCtor(c.Common()) {
		return 1
	}
	if cv, cf := s.errSource(fr, rv); cv != nil {
		if has(errNon, cf, cv) {
			return 1
		}
		if has(errNil, cf, cv) {
			return 0
		}
	}
	return 2
}

// returnedValue resolves result #idx of a return through the result slot SSA introduces in
// functions with defers (`*slot = v; rundefers; t = *slot; return t`).
func returnedValue(ret *ssa.Return, idx int) ssa.Value {
	if idx >= len(ret.Results) {
		return nil
	}
	v := ret.Results[idx]
	u, ok := v.(*ssa.UnOp)
	if !ok || u.Op != token.MUL {
		return v
	}
	al, ok := u.X.(*ssa.Alloc)
	if !ok {
		return v
	}
	// latest store to the slot before the load, walking back through single predecessors
	b := u.Block()
	start := -1
	for i, in := range b.Instrs {
		if in == ssa.Instruction(u) {
			start = i
		}
	}
	for hops := 0; b != nil && hops < 8; hops++ {
		if start < 0 {
			start = len(b.Instrs)
		}
		for i := start - 1; i >= 0; i-- {
			if st, ok := b.Instrs[i].(*ssa.Store); ok && st.Addr == ssa.Value(al) {
				return st.Val
			}
		}
		if len(b.Preds) != 1 {
			return v
		}
		b = b.Preds[0]
		start = -1
	}
	return v
}

func isNilConst(v ssa.Value) bool {
	c, ok := v.(*ssa.Const)
	return ok && c.Value == nil
}

func isErrorType(t types.Type) bool {
	n, ok := t.(*types.Named)
	return ok && n.Obj().Pkg() == nil && n.Obj().Name() == "error"
}

func isErrorCtor(c *ssa.CallCommon) bool {
	switch calleeName(c) {
	case "fmt.Errorf", "errors.New", "errors.Join":
		return true
	}
	return false
}

// dependsOn reports whether v is, or is computed from, def (bounded operand walk).
func dependsOn(v, def ssa.Value, depth int) bool {
	if v == def {
		return true
	}
	if depth == 0 {
		return false
	}
	in, ok := v.(ssa.Instruction)
	if !ok {
		return false
	}
	if _, isPhi := v.(*ssa.Phi); isPhi {
		return false
	}
	var ops []*ssa.Value
	for _, op := range in.Operands(ops) {
		if *op != nil && dependsOn(*op, def, depth-1) {
			return true
		}
	}
	return false
}

// ---------------------------------------------------------------------------------------------
// value resolution

// resolveIn strips interface/type conversions, loads of single-store locals, closure bindings
// and — inside an inlined frame — parameters (mapped to the caller's actuals).
func resolveIn(fr *sframe, v ssa.Value) (*sframe, ssa.Value) {
	for hops := 0; hops < 32; hops++ {
		switch x := v.(type) {
		case *ssa.MakeInterface:
			v = x.X
		case *ssa.ChangeInterface:
			v = x.X
		case *ssa.ChangeType:
			v = x.X
		case *ssa.TypeAssert:
			v = x.X
		case *ssa.Parameter:
			if fr == nil || fr.parent == nil || fr.site == nil || x.Parent() != fr.fn {
				return fr, v
			}
			idx := -1
			for i, p := range fr.fn.Params {
				if p == x {
					idx = i
				}
			}
			args := fr.site.Common().Args
			if idx < 0 || idx >= len(args) || fr.site.Common().IsInvoke() {
				return fr, v
			}
			v = args[idx]
			fr = fr.parent
		case *ssa.UnOp:
			if x.Op != token.MUL {
				return fr, v
			}
			cell := x.X
			if fv, ok := cell.(*ssa.FreeVar); ok {
				if b := freeVarBinding(fv); b != nil {
					cell = b
					// the binding lives in the lexically enclosing function; no inlined frame applies
					fr = nil
				}
			}
			al, ok := cell.(*ssa.Alloc)
			if !ok {
				return fr, v
			}
			sv := singleStore(al)
			if sv == nil && cell == x.X {
				sv = lastStoreBefore(x, al)
			}
			if sv == nil {
				return fr, v
			}
			v = sv
		default:
			return fr, v
		}
	}
	return fr, v
}

// lastStoreBefore returns the value most recently stored to the local al before the load, when
// that is decidable on straight-line code: walking back from the load through single-predecessor
// blocks, the first store to al found. A local captured by a closure is given up on as soon as a
// call intervenes (the callee could assign it).
func lastStoreBefore(load *ssa.UnOp, al *ssa.Alloc) ssa.Value {
	captured := false
	for _, r := range *al.Referrers() {
		switch r.(type) {
		case *ssa.Store, *ssa.UnOp, *ssa.DebugRef:
		default:
			captured = true
		}
	}
	b := load.Block()
	start := -1
	for i, in := range b.Instrs {
		if in == ssa.Instruction(load) {
			start = i
		}
	}
	for hops := 0; hops < 6 && b != nil; hops++ {
		if start < 0 {
			start = len(b.Instrs)
		}
		for i := start - 1; i >= 0; i-- {
			switch x := b.Instrs[i].(type) {
			case *ssa.Store:
				if x.Addr == ssa.Value(al) {
					return x.Val
				}
			case ssa.CallInstruction, *ssa.RunDefers:
				if captured {
					return nil
				}
			}
		}
		if len(b.Preds) != 1 {
			return nil
		}
		b = b.Preds[0]
		start = -1
	}
	return nil
}

// errMerged reports whether the error result of call flows into a phi or into a local with
// several stores whose loads the analysis cannot attribute: then "the error is not known to be
// nil" may be the analysis' ignorance rather than a fact about the code, and rules answer
// Undecided instead of Violated.
func errMerged(call *ssa.Call) bool {
	if call == nil {
		return false
	}
	var ev ssa.Value = call
	res := call.Common().Signature().Results()
	if res.Len() > 1 {
		ev = nil
		if refs := call.Referrers(); refs != nil {
			for _, r := range *refs {
				if ex, ok := r.(*ssa.Extract); ok && ex.Index == res.Len()-1 {
					ev = ex
				}
			}
		}
	}
	if ev == nil || ev.Referrers() == nil {
		return false
	}
	for _, r := range *ev.Referrers() {
		switch x := r.(type) {
		case *ssa.Phi:
			return true
		case *ssa.Store:
			if al, ok := x.Addr.(*ssa.Alloc); ok && x.Val == ev && singleStore(al) == nil {
				// loads that lastStoreBefore cannot attribute
				for _, rr := range *al.Referrers() {
					if ld, ok := rr.(*ssa.UnOp); ok && ld.Op == token.MUL && lastStoreBefore(ld, al) == nil {
						return true
					}
				}
			}
		}
	}
	return false
}

// resolve is resolveIn without the frame result.
func resolve(fr *sframe, v ssa.Value) ssa.Value {
	_, r := resolveIn(fr, v)
	return r
}

// freeVarBinding returns the value a closure's free variable is bound to, when the closure is
// created exactly once in its parent.
func freeVarBinding(fv *ssa.FreeVar) ssa.Value {
	fn := fv.Parent()
	par := fn.Parent()
	if par == nil {
		return nil
	}
	idx := -1
	for i, x := range fn.FreeVars {
		if x == fv {
			idx = i
		}
	}
	var found ssa.Value
	n := 0
	for _, b := range par.Blocks {
		for _, in := range b.Instrs {
			if mc, ok := in.(*ssa.MakeClosure); ok && mc.Fn == ssa.Value(fn) && idx >= 0 && idx < len(mc.Bindings) {
				found = mc.Bindings[idx]
				n++
			}
		}
	}
	if n == 1 {
		return found
	}
	return nil
}

// cellOf returns the memory cell (Alloc, or the binding of a FreeVar) a load reads, or nil.
func cellOf(v ssa.Value) ssa.Value {
	u, ok := v.(*ssa.UnOp)
	if !ok || u.Op != token.MUL {
		return nil
	}
	switch c := u.X.(type) {
	case *ssa.Alloc:
		return c
	case *ssa.FreeVar:
		if b := freeVarBinding(c); b != nil {
			return b
		}
		return c
	}
	return nil
}

// fieldLoad reports whether v (resolved) is a load of the given struct field (any base: the
// analysis is field-based).
func fieldLoad(fr *sframe, v ssa.Value, fld *types.Var) bool {
	if fld == nil {
		return false
	}
	return loadedField(fr, v) == fld
}

// loadedField returns the field object when v (resolved) is a load through a field address, or
// a Field of a struct value.
func loadedField(fr *sframe, v ssa.Value) *types.Var {
	switch x := resolve(fr, v).(type) {
	case *ssa.UnOp:
		if x.Op == token.MUL {
			if fa, ok := x.X.(*ssa.FieldAddr); ok {
				return fieldOf(fa.X.Type(), fa.Field)
			}
		}
	case *ssa.Field:
		if st, ok := x.X.Type().Underlying().(*types.Struct); ok {
			return st.Field(x.Field)
		}
	}
	return nil
}

// globalLoad returns "pkgpath.Name" when v is a load of a package-level variable.
func globalLoad(fr *sframe, v ssa.Value) string {
	u, ok := resolve(fr, v).(*ssa.UnOp)
	if !ok || u.Op != token.MUL {
		return ""
	}
	g, ok := u.X.(*ssa.Global)
	if !ok || g.Pkg == nil {
		return ""
	}
	return g.Pkg.Pkg.Path() + "." + g.Name()
}

// callOf returns the call when v (resolved) is the value of a call, or result #idx of it.
func callOf(fr *sframe, v ssa.Value, idx int) (*ssa.Call, *sframe) {
	rf, rv := resolveIn(fr, v)
	switch x := rv.(type) {
	case *ssa.Call:
		if idx <= 0 {
			return x, rf
		}
	case *ssa.Extract:
		if c, ok := x.Tuple.(*ssa.Call); ok && (idx < 0 || x.Index == idx) {
			return c, rf
		}
	}
	return nil, nil
}

// calleeName names the callee of a call by its resolved object: "os.Rename", "(*os.File).Sync",
// "path/filepath.Join", module functions as FuncName does ("(*persistentLog).rename",
// "fileutil.RemoveTmpFiles"), interface calls as "Log.Compact" (module) or
// "io/fs.FileInfo.IsDir"; builtins as "builtin.append". "" when the callee is dynamic.
func calleeName(c *ssa.CallCommon) string {
	if c.IsInvoke() {
		if n := ifaceOf(c); n != "" {
			return n + "." + c.Method.Name()
		}
		t := c.Value.Type()
		if al, ok := t.(*types.Alias); ok {
			t = types.Unalias(al)
		}
		if n, ok := t.(*types.Named); ok {
			if n.Obj().Pkg() == nil {
				return n.Obj().Name() + "." + c.Method.Name()
			}
			return n.Obj().Pkg().Path() + "." + n.Obj().Name() + "." + c.Method.Name()
		}
		return "interface." + c.Method.Name()
	}
	if b, ok := c.Value.(*ssa.Builtin); ok {
		return "builtin." + b.Name()
	}
	callee := c.StaticCallee()
	if callee == nil {
		return ""
	}
	var pk *types.Package
	if callee.Pkg != nil {
		pk = callee.Pkg.Pkg
	} else if o := callee.Origin(); o != nil && o.Pkg != nil {
		pk = o.Pkg.Pkg
	}
	if pk != nil && (pk.Path() == ModulePath || strings.HasPrefix(pk.Path(), ModulePath+"/")) {
		return FuncName(callee)
	}
	if callee.Parent() != nil {
		return FuncName(callee)
	}
	path := ""
	if pk != nil {
		path = pk.Path()
	}
	name := callee.Name()
	if o := callee.Origin(); o != nil {
		name = o.Name()
	}
	if recv := callee.Signature.Recv(); recv != nil {
		t := recv.Type()
		ptr := ""
		if pt, ok := t.(*types.Pointer); ok {
			ptr = "*"
			t = pt.Elem()
		}
		tn := t.String()
		if nt, ok := t.(*types.Named); ok {
			tn = nt.Obj().Name()
			if nt.Obj().Pkg() != nil {
				tn = nt.Obj().Pkg().Path() + "." + tn
			}
		}
		return "(" + ptr + tn + ")." + name
	}
	return path + "." + name
}

// callNamed returns the call common when in is a call (not go/defer) to one of the names.
func callNamed(in ssa.Instruction, names ...string) *ssa.Call {
	c, ok := in.(*ssa.Call)
	if !ok {
		return nil
	}
	n := calleeName(c.Common())
	for _, x := range names {
		if n == x {
			return c
		}
	}
	return nil
}

// allArgs returns receiver (for invokes) followed by the arguments.
func allArgs(c *ssa.CallCommon) []ssa.Value {
	if c.IsInvoke() {
		return append([]ssa.Value{c.Value}, c.Args...)
	}
	return c.Args
}

// varargElems returns the elements of a variadic slice built in place
// (`new [n]T; store elems; slice`), or nil.
func varargElems(v ssa.Value) []ssa.Value {
	sl, ok := v.(*ssa.Slice)
	if !ok {
		return nil
	}
	al, ok := sl.X.(*ssa.Alloc)
	if !ok {
		return nil
	}
	arr, ok := al.Type().Underlying().(*types.Pointer).Elem().Underlying().(*types.Array)
	if !ok {
		return nil
	}
	out := make([]ssa.Value, arr.Len())
	for _, r := range *al.Referrers() {
		ia, ok := r.(*ssa.IndexAddr)
		if !ok {
			continue
		}
		k, ok := ia.Index.(*ssa.Const)
		if !ok {
			return nil
		}
		idx, _ := constant.Int64Val(k.Value)
		for _, rr := range *ia.Referrers() {
			if st, ok := rr.(*ssa.Store); ok && st.Addr == ssa.Value(ia) && idx >= 0 && int(idx) < len(out) {
				out[idx] = st.Val
			}
		}
	}
	for _, e := range out {
		if e == nil {
			return nil
		}
	}
	return out
}

// constStringOf returns the string constant v denotes.
func constStringOf(v ssa.Value) (string, bool) {
	c, ok := v.(*ssa.Const)
	if !ok || c.Value == nil || c.Value.Kind() != constant.String {
		return "", false
	}
	return constant.StringVal(c.Value), true
}

// describe renders a value's provenance for reports (no positions, no local names).
func describe(fr *sframe, v ssa.Value) string { return describeN(fr, v, 5) }

func describeN(fr *sframe, v ssa.Value, depth int) string {
	if v == nil {
		return "<none>"
	}
	if depth == 0 {
		return "…"
	}
	rf, rv := resolveIn(fr, v)
	switch x := rv.(type) {
	case *ssa.Const:
		if x.Value == nil {
			return "nil"
		}
		return x.Value.ExactString()
	case *ssa.Parameter:
		for i, p := range x.Parent().Params {
			if p == x {
				if x.Parent().Signature.Recv() != nil {
					if i == 0 {
						return "receiver"
					}
					return fmt.Sprintf("param#%d", i-1)
				}
				return fmt.Sprintf("param#%d", i)
			}
		}
		return "param"
	case *ssa.Extract:
		return describeN(rf, x.Tuple, depth) + fmt.Sprintf("#%d", x.Index)
	case *ssa.Call:
		var args []string
		for _, a := range allArgs(x.Common()) {
			if es := varargElems(a); es != nil {
				for _, e := range es {
					args = append(args, describeN(rf, e, depth-1))
				}
				continue
			}
			args = append(args, describeN(rf, a, depth-1))
		}
		n := calleeName(x.Common())
		if n == "" {
			n = "dynamic-call"
		}
		return n + "(" + strings.Join(args, ", ") + ")"
	case *ssa.UnOp:
		if x.Op == token.MUL {
			switch a := x.X.(type) {
			case *ssa.FieldAddr:
				f := fieldOf(a.X.Type(), a.Field)
				return describeN(rf, a.X, depth-1) + "." + f.Name()
			case *ssa.Global:
				return a.Pkg.Pkg.Name() + "." + a.Name()
			case *ssa.IndexAddr:
				return describeN(rf, a.X, depth-1) + "[" + describeN(rf, a.Index, depth-1) + "]"
			case *ssa.Alloc:
				return "local"
			case *ssa.FreeVar:
				return "captured"
			}
			return "*" + describeN(rf, x.X, depth-1)
		}
		return x.Op.String() + describeN(rf, x.X, depth-1)
	case *ssa.BinOp:
		return "(" + describeN(rf, x.X, depth-1) + " " + x.Op.String() + " " + describeN(rf, x.Y, depth-1) + ")"
	case *ssa.Convert:
		return describeN(rf, x.X, depth-1)
	case *ssa.Field:
		if st, ok := x.X.Type().Underlying().(*types.Struct); ok {
			return describeN(rf, x.X, depth-1) + "." + st.Field(x.Field).Name()
		}
	case *ssa.Alloc:
		return "new(" + types.TypeString(x.Type().Underlying().(*types.Pointer).Elem(), func(p *types.Package) string { return p.Name() }) + ")"
	case *ssa.Phi:
		return "phi"
	case *ssa.Lookup:
		return describeN(rf, x.X, depth-1) + "[" + describeN(rf, x.Index, depth-1) + "]"
	case *ssa.Slice:
		s := describeN(rf, x.X, depth-1) + "["
		if x.Low != nil {
			s += describeN(rf, x.Low, depth-1)
		}
		s += ":"
		if x.High != nil {
			s += describeN(rf, x.High, depth-1)
		}
		return s + "]"
	case *ssa.MakeSlice:
		return "make(len " + describeN(rf, x.Len, depth-1) + ")"
	case *ssa.Function:
		return FuncName(x)
	case *ssa.MakeClosure:
		return "closure " + FuncName(x.Fn.(*ssa.Function))
	}
	return fmt.Sprintf("<%T>", rv)
}

// ---------------------------------------------------------------------------------------------
// automaton state as a small set of flags

func stHas(st, flag string) bool {
	for _, f := range strings.Split(st, ",") {
		if f == flag {
			return true
		}
	}
	return false
}

// stGet returns the value of a "name@value" flag.
func stGet(st, name string) (string, bool) {
	for _, f := range strings.Split(st, ",") {
		if strings.HasPrefix(f, name+"@") {
			return f[len(name)+1:], true
		}
	}
	return "", false
}

func stAdd(st string, flags ...string) string {
	set := map[string]bool{}
	for _, f := range strings.Split(st, ",") {
		if f != "" {
			set[f] = true
		}
	}
	for _, f := range flags {
		set[f] = true
	}
	return stJoin(set)
}

// stDel removes flags; a name without '@' also removes every "name@…" flag.
func stDel(st string, flags ...string) string {
	set := map[string]bool{}
	for _, f := range strings.Split(st, ",") {
		if f == "" {
			continue
		}
		drop := false
		for _, d := range flags {
			if f == d || strings.HasPrefix(f, d+"@") {
				drop = true
			}
		}
		if !drop {
			set[f] = true
		}
	}
	return stJoin(set)
}

func stJoin(set map[string]bool) string {
	out := make([]string, 0, len(set))
	for f := range set {
		out = append(out, f)
	}
	sort.Strings(out)
	return strings.Join(out, ",")
}

// ---------------------------------------------------------------------------------------------
// generic queries built on the engine

// flowBreach is one offending path found by a query.
type flowBreach struct {
	At   ssa.Instruction
	What string
	Path []string
}

// mustPassBetween: every path from (after) `from` to an instruction matching `to` passes an
// instruction matching `via`. Returns the first breach, and the number of `to` instructions
// reached in the good state.
func mustPassBetween(p *Program, fn *ssa.Function, from ssa.Instruction, to, via func(fr *sframe, in ssa.Instruction) bool, noInline map[string]bool) (*flowBreach, int, bool) {
	var breach *flowBreach
	good := 0
	s := &flowSpec{p: p, root: fn, noInline: noInline}
	s.instr = func(v *flowVisit, in ssa.Instruction) (string, bool) {
		if via(v.Fr, in) {
			return v.St, true
		}
		if to(v.Fr, in) {
			if breach == nil {
				v.Note("%s: reached %s", p.InstrPos(in), instrLabel(in))
				breach = &flowBreach{At: in, What: "reached without passing the required instruction", Path: v.Path()}
			}
			return v.St, true
		}
		return v.St, false
	}
	if from == nil {
		s.RunFromEntry("")
	} else {
		s.RunAfter(from, "")
	}
	// count the `to` sites reachable at all (for "discharged with n sites")
	for _, b := range fn.Blocks {
		for _, in := range b.Instrs {
			if to(nil, in) {
				good++
			}
		}
	}
	return breach, good, s.Overflow
}

// instrLabel renders an instruction for reports without local names.
func instrLabel(in ssa.Instruction) string {
	switch x := in.(type) {
	case *ssa.Store:
		if _, f := storeField(in); f != nil {
			return "store to field " + f.Name()
		}
		return "store"
	case ssa.CallInstruction:
		n := calleeName(x.Common())
		if n == "" {
			n = "dynamic call"
		}
		return "call " + n
	case *ssa.Return:
		return "return"
	}
	return fmt.Sprintf("%T", in)
}

// errOutcome classifies what happens on the failure edge of a call's error test.
type errOutcome struct {
	Tested       bool          // some path tests the error
	Breaches     []*flowBreach // failure path reaches `publish`, or returns a nil error, or error is never tested before publish
	FailReturns  int           // failure paths that end in a return of a non-nil error
	FailNoReturn int           // failure paths that end in a no-return call
	Undecided    string
}

// errorPathsReturn: after call (which returns an error) in fn, (1) no path reaches an
// instruction matching publish unless the error is known nil, (2) every path on which the error
// is known non-nil ends in a return of a non-nil error or in a no-return call without reaching
// publish. publish may be nil (then a nil-error return on a failure path is the only breach).
func errorPathsReturn(p *Program, fn *ssa.Function, call *ssa.Call, publish func(fr *sframe, in ssa.Instruction) bool, noInline map[string]bool) *errOutcome {
	out := &errOutcome{}
	s := &flowSpec{p: p, root: fn, noInline: noInline}
	var root *sframe
	s.instr = func(v *flowVisit, in ssa.Instruction) (string, bool) {
		if root == nil {
			root = v.Fr.root()
		}
		if in == ssa.Instruction(call) && v.Fr == root {
			return v.St, true // the call is executed again (loop): a new instance, checked by the same query
		}
		failed := v.ErrNon(root, call)
		ok := v.ErrNil(root, call)
		if failed || ok {
			out.Tested = true
		}
		if publish != nil && publish(v.Fr, in) {
			if !ok {
				what := "the error of the call has not been tested when this point is reached"
				if failed {
					what = "reached on the failure path of the call"
				}
				v.Note("%s: reached %s", p.InstrPos(in), instrLabel(in))
				out.Breaches = append(out.Breaches, &flowBreach{At: in, What: what, Path: v.Path()})
				return v.St, true
			}
			return v.St, true
		}
		if ok {
			return v.St, true // success path: not this query's business
		}
		if c, isCall := in.(*ssa.Call); isCall && p.IsNoReturnCall(c.Common()) {
			if failed {
				out.FailNoReturn++
			}
			return v.St, true
		}
		if ret, isRet := in.(*ssa.Return); isRet && v.Fr == root {
			res := fn.Signature.Results()
			if res.Len() == 0 || !isErrorType(res.At(res.Len()-1).Type()) {
				if failed {
					v.Note("%s: return", p.InstrPos(in))
					out.Breaches = append(out.Breaches, &flowBreach{At: in, What: "failure path returns from a function that reports no error", Path: v.Path()})
				}
				return v.St, true
			}
			rv := returnedValue(ret, res.Len()-1)
			if isNilConst(rv) {
				what := "returns a nil error although the error of the call was never tested"
				if failed {
					what = "failure path returns a nil error"
				}
				v.Note("%s: return nil", p.InstrPos(in))
				out.Breaches = append(out.Breaches, &flowBreach{At: in, What: what, Path: v.Path()})
				return v.St, true
			}
			if failed {
				out.FailReturns++
				return v.St, true
			}
			// untested: fine only if the error itself is what is returned (`return f()`)
			if cv, cf := s.errSource(v.Fr, rv); cv == ssa.Value(call) && cf == root {
				out.Tested = true
				out.FailReturns++
				return v.St, true
			}
			if wrapsError(v.Fr, rv, call) {
				out.Tested = true
				out.FailReturns++
				return v.St, true
			}
			if _, isPhi := rv.(*ssa.Phi); isPhi {
				out.Undecided = "returned error is a merge of several values"
				return v.St, true
			}
			v.Note("%s: return", p.InstrPos(in))
			out.Breaches = append(out.Breaches, &flowBreach{At: in, What: "returns without testing the error of the call", Path: v.Path()})
			return v.St, true
		}
		return v.St, false
	}
	s.RunAfter(call, "")
	if s.Overflow {
		out.Undecided = "path exploration exceeded its bound"
	}
	return out
}

// wrapsError reports whether rv is fmt.Errorf(..., e, ...) with e the error of call.
func wrapsError(fr *sframe, rv ssa.Value, call *ssa.Call) bool {
	c, ok := rv.(*ssa.Call)
	if !ok || !isErrorCtor(c.Common()) {
		return false
	}
	for _, a := range c.Common().Args {
		for _, e := range varargElems(a) {
			r := resolve(fr, e)
			if r == ssa.Value(call) {
				return true
			}
			if ex, ok := r.(*ssa.Extract); ok && ex.Tuple == ssa.Value(call) {
				return true
			}
		}
	}
	return false
}
